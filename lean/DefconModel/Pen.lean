/-
M-Pen: executable model of defcon's pen round trips, glyph copies and component decomposition.

Ported statement by statement from
  Lib/defcon/objects/glyph.py     draw, drawPoints, _drawShallowLoadedContours, getPen, getPointPen,
                                  _fullyLoadShallowLoadedContours, appendContour/insertContour (identifier part),
                                  appendComponent/removeComponent (identifier part), copyDataFromGlyph,
                                  decomposeComponent, decomposeAllComponents, _decomposeComponent
  Lib/defcon/objects/contour.py   drawPoints, draw, addPoint/insertPoint (identifier part), identifier setter
  Lib/defcon/objects/component.py drawPoints, draw, identifier setter
  Lib/defcon/objects/layer.py     loadGlyph (what the loading pen receives), newGlyph, insertGlyph
  Lib/defcon/pens/glyphObjectPointPen.py      GlyphObjectPointPen, GlyphObjectLoadingPointPen
  Lib/defcon/pens/decomposeComponentPointPen.py, transformPointPen.py
  fontTools.misc.transform.Transform (transformPoint, transform),
  fontTools.pens.pointPen.PointToSegmentPen / SegmentToPointPen (GuessSmoothPointPen's smooth guess excluded).

Coordinates live in any type `R` with `+`, `*`, `0`, `1` and decidable equality: the driver runs the
model over `Rat` (exact for the integer / dyadic inputs of the harness), the theorems hold over every
commutative ring, the examples are evaluated over `Int`.

Core Lean only; no imports outside this project.
-/
import DefconModel.Util.AL

namespace DefconModel
namespace Pen

abbrev Ident := String

/-- on-curve segment types; an off-curve point has `seg = none` (Python `segmentType=None`) -/
inductive Seg where
  | move | line | curve | qcurve
deriving DecidableEq, Repr

structure Point (R : Type) where
  x : R
  y : R
  seg : Option Seg
  smooth : Bool
  name : Option String
  ident : Option Ident
deriving DecidableEq, Repr

structure Contour (R : Type) where
  ident : Option Ident
  points : List (Point R)
deriving DecidableEq, Repr

/-- `(xx, xy, yx, yy, dx, dy)` as in fontTools -/
structure Transform (R : Type) where
  xx : R
  xy : R
  yx : R
  yy : R
  dx : R
  dy : R
deriving DecidableEq, Repr

structure Component (R : Type) where
  base : String
  t : Transform R
  ident : Option Ident
deriving DecidableEq, Repr

/-- one call of the point-pen protocol, as a recording pen sees it -/
inductive Ev (R : Type) where
  | beginPath (ident : Option Ident)
  | addPoint (p : Point R)
  | endPath
  | addComponent (c : Component R)
deriving DecidableEq, Repr

/-- an entry of `Glyph._shallowLoadedContours[i]["points"]`: `((pt,), dict(segmentType=, smooth=, name=[, identifier=]))` -/
structure RawPoint (R : Type) where
  pt : R × R
  segmentType : Option Seg
  smooth : Bool
  name : Option String
  /-- `none` = the key is absent from the kwargs dict -/
  identifier : Option Ident
deriving DecidableEq, Repr

/-- an entry of `Glyph._shallowLoadedContours`: `dict(points=[…][, identifier=…])` -/
structure RawContour (R : Type) where
  identifier : Option Ident
  points : List (RawPoint R)
deriving DecidableEq, Repr

structure Anchor (R : Type) where
  x : Option R
  y : Option R
  name : Option String
  color : Option String
  ident : Option Ident
deriving DecidableEq, Repr

structure Guideline (R : Type) where
  x : Option R
  y : Option R
  angle : Option R
  name : Option String
  color : Option String
  ident : Option Ident
deriving DecidableEq, Repr

structure Image (R : Type) where
  fileName : Option String
  t : Transform R
  color : Option String
deriving DecidableEq, Repr

/-- The part of a `defcon.Glyph` this property speaks about.  `lib` is an opaque value (its canonical
dump); `ids` is `Glyph._identifiers` (a Python set: kept in insertion order, compared sorted). -/
structure Glyph (R : Type) where
  name : Option String
  width : R
  height : R
  unicodes : List Nat
  note : Option String
  image : Image R
  anchors : List (Anchor R)
  guidelines : List (Guideline R)
  lib : String
  /-- `_shallowLoadedContours` (`none` = Python `None`) -/
  shallow : Option (List (RawContour R))
  contours : List (Contour R)
  components : List (Component R)
  ids : List Ident
deriving DecidableEq, Repr

inductive Err where
  /-- `assert identifier not in identifiers` -/
  | assertion
  /-- `AttributeError`: `addPoint`/`endPath` while `self._contour is None` -/
  | noContour
  /-- the loading pen's conflict branch: `DefconError` -/
  | defconError
  | indexError
  /-- fontTools `PenError` -/
  | penError
  /-- `'NoneType' is not iterable`: decomposition in a glyph without layer -/
  | typeError
  | outOfFuel
deriving DecidableEq, Repr

deriving instance DecidableEq for Except

variable {R : Type}

/-! ## Transformations (fontTools.misc.transform) -/

section Arith
variable [Add R] [Mul R] [OfNat R 0] [OfNat R 1]

/-- `_defaultTransformation = (1, 0, 0, 1, 0, 0)` -/
def Transform.id : Transform R := ⟨1, 0, 0, 1, 0, 0⟩

/-- `Transform.transformPoint` -/
def Transform.apply (t : Transform R) (x y : R) : R × R :=
  (t.xx * x + t.yx * y + t.dx, t.xy * x + t.yy * y + t.dy)

/-- `self.transform(other)`: the transformation "first `other`, then `self`" -/
def Transform.transform (self other : Transform R) : Transform R :=
  ⟨other.xx * self.xx + other.xy * self.yx,
   other.xx * self.xy + other.xy * self.yy,
   other.yx * self.xx + other.yy * self.yx,
   other.yx * self.xy + other.yy * self.yy,
   self.xx * other.dx + self.yx * other.dy + self.dx,
   self.xy * other.dx + self.yy * other.dy + self.dy⟩

def Point.transform (t : Transform R) (p : Point R) : Point R :=
  { p with x := (t.apply p.x p.y).1, y := (t.apply p.x p.y).2 }

/-- what `TransformPointPen(outPen, t)` forwards to `outPen` for one incoming call -/
def transformEv (t : Transform R) : Ev R → Ev R
  | .beginPath i => .beginPath i
  | .addPoint p => .addPoint (p.transform t)
  | .endPath => .endPath
  | .addComponent c => .addComponent { c with t := t.transform c.t }

end Arith

/-! ## Drawing (`drawPoints`) -/

/-- `Contour.drawPoints` -/
def drawContour (c : Contour R) : List (Ev R) :=
  .beginPath c.ident :: (c.points.map .addPoint ++ [.endPath])

/-- `Component.drawPoints` -/
def drawComponent (c : Component R) : List (Ev R) := [.addComponent c]

/-- `pointPen.addPoint(*args, **kwargs)` for one stored tuple -/
def RawPoint.toPoint (p : RawPoint R) : Point R :=
  ⟨p.pt.1, p.pt.2, p.segmentType, p.smooth, p.name, p.identifier⟩

/-- one contour of `Glyph._drawShallowLoadedContours` -/
def drawRawContour (c : RawContour R) : List (Ev R) :=
  .beginPath c.identifier :: (c.points.map (fun p => .addPoint p.toPoint) ++ [.endPath])

def drawRaw (cs : List (RawContour R)) : List (Ev R) := cs.flatMap drawRawContour

/-- `Glyph.drawPoints`: `if self._shallowLoadedContours:` is Python truthiness (non-empty list) -/
def Glyph.draw (g : Glyph R) : List (Ev R) :=
  (match g.shallow with
   | some (c :: cs) => drawRaw (c :: cs)
   | _ => g.contours.flatMap drawContour) ++ g.components.flatMap drawComponent

/-! ## Drawing into a point pen that predates identifiers

`Contour.drawPoints`, `Component.drawPoints` and `Glyph._drawShallowLoadedContours` first make the call
with the `identifier` keyword; a pen whose method does not accept it raises `TypeError`, and the same
call is made again WITHOUT the identifier (a `DeprecationWarning` says that the identifier — and
nothing else — was discarded).  The three methods fall back independently of each other. -/

/-- which methods of the pen that is drawn into accept the `identifier` keyword -/
structure PenCaps where
  /-- `beginPath(identifier=…)` -/
  path : Bool
  /-- `addPoint(…, identifier=…)` -/
  point : Bool
  /-- `addComponent(…, identifier=…)` -/
  component : Bool
deriving DecidableEq, Repr

/-- today's protocol -/
def PenCaps.full : PenCaps := ⟨true, true, true⟩
/-- the point-pen protocol as it was before identifiers were added -/
def PenCaps.old : PenCaps := ⟨false, false, false⟩

/-- `Contour.drawPoints(pen)`: `try: pen.beginPath(identifier=…) except TypeError: pen.beginPath()`, and
for every point `try: pen.addPoint(…, name=…, identifier=…) except TypeError: pen.addPoint(…, name=…)` -/
def drawContourTo (caps : PenCaps) (c : Contour R) : List (Ev R) :=
  .beginPath (if caps.path then c.ident else none) ::
    (c.points.map (fun p => .addPoint (if caps.point then p else { p with ident := none })) ++ [.endPath])

/-- `Component.drawPoints(pen)`: `try: pen.addComponent(base, t, identifier=…) except TypeError:
pen.addComponent(base, t)` -/
def drawComponentTo (caps : PenCaps) (c : Component R) : List (Ev R) :=
  [.addComponent (if caps.component then c else { c with ident := none })]

/-- one contour of `Glyph._drawShallowLoadedContours(pen, …)`: the same two fallbacks on the stored
tuples (the one of `addPoint` since repo_fixes/C13-r2-1-shallow-draw-old-style-pen.diff) -/
def drawRawContourTo (caps : PenCaps) (c : RawContour R) : List (Ev R) :=
  .beginPath (if caps.path then c.identifier else none) ::
    (c.points.map (fun p => .addPoint (if caps.point then p.toPoint else { p.toPoint with ident := none })) ++
      [.endPath])

/-- `Glyph.drawPoints(pen)` for a pen with the given capabilities -/
def Glyph.drawTo (caps : PenCaps) (g : Glyph R) : List (Ev R) :=
  (match g.shallow with
   | some (c :: cs) => (c :: cs).flatMap (drawRawContourTo caps)
   | _ => g.contours.flatMap (drawContourTo caps)) ++ g.components.flatMap (drawComponentTo caps)

/-! ## `GlyphObjectPointPen` -/

/-- the identifier the pen goes on with: with `skipConflictingIdentifiers` a used one becomes `None` -/
def effIdent (skip : Bool) (ids : List Ident) : Option Ident → Option Ident
  | none => none
  | some i => if skip = true ∧ i ∈ ids then none else some i

/-- the `identifier` setters of Contour / Component and `Contour.insertPoint`: assert unused, then add -/
def claim (ids : List Ident) : Option Ident → Except Err (List Ident)
  | none => .ok ids
  | some i => if i ∈ ids then .error .assertion else .ok (ids ++ [i])

/-- pen state: the glyph and `self._contour` -/
structure PenSt (R : Type) where
  g : Glyph R
  cur : Option (Contour R)
deriving DecidableEq, Repr

def penBeginPath (skip : Bool) (s : PenSt R) (ident : Option Ident) : Except Err (PenSt R) := do
  let e := effIdent skip s.g.ids ident
  let ids ← claim s.g.ids e
  .ok { g := { s.g with ids := ids }, cur := some ⟨e, []⟩ }

def penAddPoint (skip : Bool) (s : PenSt R) (p : Point R) : Except Err (PenSt R) :=
  match s.cur with
  | none => .error .noContour
  | some c => do
    let e := effIdent skip s.g.ids p.ident
    let ids ← claim s.g.ids e
    .ok { g := { s.g with ids := ids }, cur := some { c with points := c.points ++ [{ p with ident := e }] } }

def penAddComponent (skip : Bool) (s : PenSt R) (c : Component R) : Except Err (PenSt R) := do
  let e := effIdent skip s.g.ids c.ident
  let ids ← claim s.g.ids e
  .ok { s with g := { s.g with ids := ids, components := s.g.components ++ [{ c with ident := e }] } }

/-- `endPath` when the glyph holds no shallow-loaded contours: `appendContour` appends -/
def penEndPathCore (s : PenSt R) : Except Err (PenSt R) :=
  match s.cur with
  | none => .error .noContour
  | some c => .ok { g := { s.g with contours := s.g.contours ++ [c] }, cur := none }

def stepCore (skip : Bool) (s : PenSt R) : Ev R → Except Err (PenSt R)
  | .beginPath i => penBeginPath skip s i
  | .addPoint p => penAddPoint skip s p
  | .endPath => penEndPathCore s
  | .addComponent c => penAddComponent skip s c

def runCore (skip : Bool) : List (Ev R) → PenSt R → Except Err (PenSt R)
  | [], s => .ok s
  | e :: es, s => do
    let s' ← stepCore skip s e
    runCore skip es s'

/-- `identifiers.remove(x)` / `identifiers.discard(x)` for each given identifier -/
def releaseAll (ids : List Ident) (xs : List Ident) : List Ident := xs.foldl (fun l x => l.erase x) ids

/-- the identifiers the shallow-loaded contours carry (and, since the loading pen reserves them, hold in
the glyph's registry) -/
def rawIdents (raws : List (RawContour R)) : List Ident :=
  raws.flatMap fun c => c.identifier.toList ++ c.points.filterMap (·.identifier)

/-- `_fullyLoadShallowLoadedContours`: reset `_shallowLoadedContours` to `None`, discard the identifiers
the shallow contours had reserved (they are handed over to the objects), then replay the stored tuples
through a fresh `GlyphObjectPointPen` (`skipConflictingIdentifiers = False`) -/
def deepen (g : Glyph R) : Except Err (Glyph R) :=
  match g.shallow with
  | none => .ok g
  | some raws => do
    let s ← runCore false (drawRaw raws) ⟨{ g with shallow := none, ids := releaseAll g.ids (rawIdents raws) }, none⟩
    .ok s.g

/-- one call on a `GlyphObjectPointPen`; `endPath` → `appendContour` → `len(self)` deepens first -/
def step (skip : Bool) (s : PenSt R) : Ev R → Except Err (PenSt R)
  | .endPath =>
    match s.cur with
    | none => .error .noContour
    | some c => do
      let g ← deepen s.g
      .ok { g := { g with contours := g.contours ++ [c] }, cur := none }
  | e => stepCore skip s e

def run (skip : Bool) : List (Ev R) → PenSt R → Except Err (PenSt R)
  | [], s => .ok s
  | e :: es, s => do
    let s' ← step skip s e
    run skip es s'

/-- draw a whole call stream into `g` through `g.getPointPen()` (or a pen with the skip flag set) -/
def build (skip : Bool) (evs : List (Ev R)) (g : Glyph R) : Except Err (Glyph R) := do
  let s ← run skip evs ⟨g, none⟩
  .ok s.g

/-! ### the glyph a REJECTED call leaves behind

The exception propagates out of the pen; the glyph keeps what the calls before it did (contours
already appended, identifiers already registered — also those of a contour that was begun and never
appended).  Used by the driver only; `runKeep_spec` (Lemmas) ties it to `run`. -/

def runCoreKeep (skip : Bool) : List (Ev R) → PenSt R → PenSt R × Option Err
  | [], s => (s, none)
  | e :: es, s =>
    match stepCore skip s e with
    | .ok s' => runCoreKeep skip es s'
    | .error err => (s, some err)

/-- a failing `_fullyLoadShallowLoadedContours` has already reset `_shallowLoadedContours` and built a prefix -/
def deepenKeep (g : Glyph R) : Glyph R × Option Err :=
  match g.shallow with
  | none => (g, none)
  | some raws =>
    let r := runCoreKeep false (drawRaw raws) ⟨{ g with shallow := none, ids := releaseAll g.ids (rawIdents raws) }, none⟩
    (r.1.g, r.2)

def stepKeep (skip : Bool) (s : PenSt R) : Ev R → PenSt R × Option Err
  | .endPath =>
    match s.cur with
    | none => (s, some .noContour)
    | some c =>
      match deepenKeep s.g with
      | (g, none) => ({ g := { g with contours := g.contours ++ [c] }, cur := none }, none)
      | (g, some err) => ({ s with g := g }, some err)
  | e =>
    match stepCore skip s e with
    | .ok s' => (s', none)
    | .error err => (s, some err)

def runKeep (skip : Bool) : List (Ev R) → PenSt R → PenSt R × Option Err
  | [], s => (s, none)
  | e :: es, s =>
    match stepKeep skip s e with
    | (s', none) => runKeep skip es s'
    | (s', some err) => (s', some err)

def buildKeep (skip : Bool) (evs : List (Ev R)) (g : Glyph R) : Glyph R × Option Err :=
  let r := runKeep skip evs ⟨g, none⟩
  (r.1.g, r.2)

/-! ## `GlyphObjectLoadingPointPen` (what `Layer.loadGlyph` hands to glifLib)

The pen stores raw tuples and RESERVES the identifiers it stores in the glyph's registry (a conflict
raises `DefconError`); `deepen` hands them over. -/

def appendRawPoint : List (RawContour R) → RawPoint R → Option (List (RawContour R))
  | [], _ => none
  | [c], p => some [{ c with points := c.points ++ [p] }]
  | c :: d :: r, p => (appendRawPoint (d :: r) p).map (c :: ·)

def loadStep (g : Glyph R) : Ev R → Except Err (Glyph R)
  | .beginPath i =>
    match i with
    | some x => if x ∈ g.ids then .error .defconError
                else .ok { g with shallow := some (g.shallow.getD [] ++ [⟨some x, []⟩]), ids := g.ids ++ [x] }
    | none => .ok { g with shallow := some (g.shallow.getD [] ++ [⟨none, []⟩]) }
  | .addPoint p =>
    match p.ident with
    | some x => if x ∈ g.ids then .error .defconError
                else match appendRawPoint (g.shallow.getD []) ⟨(p.x, p.y), p.seg, p.smooth, p.name, some x⟩ with
                  | none => .error .indexError
                  | some r => .ok { g with shallow := some r, ids := g.ids ++ [x] }
    | none => match appendRawPoint (g.shallow.getD []) ⟨(p.x, p.y), p.seg, p.smooth, p.name, none⟩ with
                  | none => .error .indexError
                  | some r => .ok { g with shallow := some r }
  | .endPath => .ok g
  | .addComponent c => do
    let ids ← claim g.ids c.ident
    .ok { g with ids := ids, components := g.components ++ [c] }

def loadRun : List (Ev R) → Glyph R → Except Err (Glyph R)
  | [], g => .ok g
  | e :: es, g => do
    let g' ← loadStep g e
    loadRun es g'

/-! ## Glyph construction -/

section Fresh
variable [OfNat R 0] [OfNat R 1]

def Image.default : Image R := ⟨none, ⟨1, 0, 0, 1, 0, 0⟩, none⟩

/-- `Glyph()` / `Layer.newGlyph(name)` -/
def Glyph.fresh (name : Option String) : Glyph R :=
  { name := name, width := 0, height := 0, unicodes := [], note := none, image := Image.default,
    anchors := [], guidelines := [], lib := "{}", shallow := none, contours := [], components := [], ids := [] }

end Fresh

/-- register a list of identifiers one after the other (instantiating anchors / guidelines) -/
def claimAll : List Ident → List (Option Ident) → Except Err (List Ident)
  | ids, [] => .ok ids
  | ids, i :: r => do
    let ids' ← claim ids i
    claimAll ids' r

/-- The content of a glyph before it becomes a defcon object (what the harness generates / a GLIF holds). -/
structure Content (R : Type) where
  width : R
  height : R
  unicodes : List Nat
  note : Option String
  image : Image R
  anchors : List (Anchor R)
  guidelines : List (Guideline R)
  lib : String
  contours : List (Contour R)
  components : List (Component R)
deriving DecidableEq, Repr

def Content.draw (c : Content R) : List (Ev R) :=
  c.contours.flatMap drawContour ++ c.components.flatMap drawComponent

/-- a glyph assembled through the public API: attributes, `appendGuideline`, `appendAnchor`, then the
outline through `getPointPen()` -/
def Glyph.ofContent (g0 : Glyph R) (c : Content R) : Except Err (Glyph R) := do
  let ids1 ← claimAll g0.ids (c.guidelines.map (·.ident))
  let ids2 ← claimAll ids1 (c.anchors.map (·.ident))
  let g := { g0 with width := c.width, height := c.height, unicodes := c.unicodes, note := c.note,
                     image := c.image, guidelines := g0.guidelines ++ c.guidelines,
                     anchors := g0.anchors ++ c.anchors, lib := c.lib, ids := ids2 }
  build false c.draw g

/-- `Layer.loadGlyph`: glifLib draws the outline into the loading pen first (`_isLoading`, so
`getPointPen` sets `_shallowLoadedContours = []`), then assigns guidelines and anchors -/
def Glyph.load (g0 : Glyph R) (c : Content R) : Except Err (Glyph R) := do
  let g ← loadRun c.draw { g0 with shallow := some [] }
  let ids1 ← claimAll g.ids (c.guidelines.map (·.ident))
  let ids2 ← claimAll ids1 (c.anchors.map (·.ident))
  .ok { g with width := c.width, height := c.height, unicodes := c.unicodes, note := c.note,
               image := c.image, guidelines := c.guidelines, anchors := c.anchors, lib := c.lib, ids := ids2 }

/-! ## `Glyph.copyDataFromGlyph`, `Layer.insertGlyph` -/

/-- `dst` may hold data already (the old guidelines / anchors are released after the new ones were
registered, the outline is APPENDED); the harness exercises fresh destinations only, which is what
`Layer.insertGlyph` uses and what the property speaks about — the non-fresh branches are a reading of
the code, not validated by runs. -/
def copyData (dst src : Glyph R) : Except Err (Glyph R) := do
  -- self.width / height / unicodes / note = …
  let d := { dst with width := src.width, height := src.height, unicodes := src.unicodes, note := src.note }
  -- self.guidelines = [self.instantiateGuideline(g) for g in glyph.guidelines]
  --   instantiation (glyph=self) registers the identifiers; the setter clears the old ones, appends the new
  let ids1 ← claimAll d.ids (src.guidelines.map (·.ident))
  let ids2 := releaseAll ids1 (d.guidelines.reverse.filterMap (·.ident))
  let d := { d with guidelines := src.guidelines, ids := ids2 }
  -- self.anchors = [self.instantiateAnchor(a) for a in glyph.anchors]
  let ids3 ← claimAll d.ids (src.anchors.map (·.ident))
  let ids4 := releaseAll ids3 (d.anchors.reverse.filterMap (·.ident))
  let d := { d with anchors := src.anchors, ids := ids4 }
  -- self.image = glyph.image
  let d := { d with image := src.image }
  -- glyph.drawPoints(self.getPointPen())
  let d ← build false src.draw d
  -- self.lib = deepcopy(glyph.lib)
  .ok { d with lib := src.lib }

abbrev Layer (R : Type) := List (String × Glyph R)

section Fresh
variable [OfNat R 0] [OfNat R 1]

/-- `Layer.insertGlyph(glyph, name)`: `newGlyph(name)` then `copyDataFromGlyph`; returns the new glyph -/
def insertGlyph (l : Layer R) (src : Glyph R) (name : Option String) : Except Err (Layer R × Glyph R) := do
  let nm := match name with
    | some n => n
    | none => src.name.getD ""
  let d ← copyData (Glyph.fresh (some nm)) src
  .ok (AL.set l nm d, d)

end Fresh

/-! ## Decomposition (`DecomposeComponentPointPen` + `TransformPointPen`) -/

section Decompose
variable [Add R] [Mul R] [OfNat R 0] [OfNat R 1] [DecidableEq R]

/-- the calls that reach the underlying `GlyphObjectPointPen` while `baseGlyph.drawPoints(pen)` runs,
`pen` being the decomposing pen itself (`t` = default) or a `TransformPointPen` around it;
`rec` = `DecomposeComponentPointPen.addComponent` one level down -/
def expandEvs (rec : String → Transform R → Option (List (Ev R))) (t : Transform R) :
    List (Ev R) → Option (List (Ev R))
  | [] => some []
  | e :: es =>
    match (if t = Transform.id then e else transformEv t e) with
    | .addComponent c =>
      match rec c.base c.t, expandEvs rec t es with
      | some a, some b => some (a ++ b)
      | _, _ => none
    | e' =>
      match expandEvs rec t es with
      | some b => some (e' :: b)
      | none => none

/-- `DecomposeComponentPointPen.addComponent(base, t)`: nothing when the base glyph is missing,
else the base glyph drawn (its own components decomposed recursively).  `none` = out of fuel. -/
def expand : Nat → Layer R → String → Transform R → Option (List (Ev R))
  | 0, _, _, _ => none
  | fuel + 1, l, base, t =>
    match AL.get? l base with
    | none => some []
    | some b => expandEvs (expand fuel l) t b.draw

/-- `removeComponent`: free the identifier, drop the component -/
def removeComponentAt (g : Glyph R) (idx : Nat) : Glyph R :=
  match g.components[idx]? with
  | none => g
  | some c =>
    { g with components := g.components.eraseIdx idx,
             ids := match c.ident with
               | none => g.ids
               | some i => g.ids.erase i }

/-- `Glyph._decomposeComponent` (with repo_fixes/C13-decompose-shallow.diff: the glyph's own
shallow-loaded contours are deepened first, so that their identifiers take part in the conflict test) -/
def decomposeAt (fuel : Nat) (l : Layer R) (g : Glyph R) (idx : Nat) : Except Err (Glyph R) := do
  let g ← deepen g
  match g.components[idx]? with
  | none => .error .indexError
  | some c =>
    match expand fuel l c.base c.t with
    | none => .error .outOfFuel
    | some evs => do
      let g' ← build true evs g
      .ok (removeComponentAt g' idx)

/-- `Glyph.decomposeAllComponents`: `for component in self.components` over a snapshot; every step
removes the then-first component -/
def decomposeAll (fuel : Nat) (l : Layer R) : Nat → Glyph R → Except Err (Glyph R)
  | 0, g => .ok g
  | n + 1, g => do
    let g' ← decomposeAt fuel l g 0
    decomposeAll fuel l n g'

end Decompose

/-! ## Segment pens (fontTools `PointToSegmentPen`, `SegmentToPointPen`) -/

/-- one call of the segment-pen protocol -/
inductive SegEv (R : Type) where
  | moveTo (p : R × R)
  | lineTo (p : R × R)
  | curveTo (offs : List (R × R)) (last : R × R)
  /-- `last = none`: the TrueType special case, a closed contour without on-curve point -/
  | qCurveTo (offs : List (R × R)) (last : Option (R × R))
  | closePath
  | endPath
  | addComponent (base : String) (t : Transform R)
deriving DecidableEq, Repr

def Point.pt (p : Point R) : R × R := (p.x, p.y)

/-- the segment loop of `BasePointToSegmentPen.endPath`: an on-curve point closes a segment;
trailing off-curves are silently dropped -/
def groupSegs : List (Point R) → List (Point R) → List (Seg × List (Point R))
  | [], _ => []
  | p :: ps, acc =>
    match p.seg with
    | none => groupSegs ps (acc ++ [p])
    | some s => (s, acc ++ [p]) :: groupSegs ps []

section Seg
variable [DecidableEq R]

/-- `_flushContour`'s loop: `lastPt` is the current point, `none` in the quadratic special case -/
def emitSegs (closed : Bool) : Option (R × R) → List (Seg × List (Point R)) → Option (List (SegEv R))
  | _, [] => some []
  | last, (s, pts) :: rest =>
    match s, pts.reverse with
    | .line, [p] =>
      if rest ≠ [] ∨ closed = false ∨ some p.pt = last then
        (emitSegs closed (some p.pt) rest).map (.lineTo p.pt :: ·)
      else emitSegs closed last rest
    | .line, _ => none
    | .curve, p :: offsRev =>
      (emitSegs closed (some p.pt) rest).map (.curveTo (offsRev.reverse.map Point.pt) p.pt :: ·)
    | .qcurve, p :: offsRev =>
      (emitSegs closed (some p.pt) rest).map (.qCurveTo (offsRev.reverse.map Point.pt) (some p.pt) :: ·)
    | _, _ => none

/-- index of the first on-curve point -/
def firstOn : List (Point R) → Option Nat
  | [] => none
  | p :: ps => if p.seg.isSome then some 0 else (firstOn ps).map (· + 1)

/-- `PointToSegmentPen._flushContour`: a leading `move` segment means an open path; otherwise the path
is closed and starts (moveTo) at the last point of the last segment -/
def flushContour (segments : List (Seg × List (Point R))) : Option (List (SegEv R)) :=
  match segments with
  | [] => none
  | (.move, mpts) :: rest =>
    match mpts with
    | [m] => (emitSegs false (some m.pt) rest).map (fun evs => .moveTo m.pt :: evs ++ [.endPath])
    | _ => none
  | s :: rest =>
    match ((s :: rest).getLast?).bind (fun sg => sg.2.getLast?) with
    | none => none
    | some lp => (emitSegs true (some lp.pt) (s :: rest)).map (fun evs => .moveTo lp.pt :: evs ++ [.closePath])

/-- `PointToSegmentPen` on the points of one contour (`beginPath … endPath`); `none` = `PenError` -/
def segContour (pts : List (Point R)) : Option (List (SegEv R)) :=
  match pts with
  | [] => some []
  | [p] => flushContour [(.move, [p])]
  | p :: q :: r =>
    if p.seg = some .move then flushContour ((.move, [p]) :: groupSegs (q :: r) [])
    else
      match firstOn (p :: q :: r) with
      | none =>
        -- no on-curve point: one qcurve segment ending in the `None` point, no moveTo
        some [.qCurveTo ((p :: q :: r).map Point.pt) none, .closePath]
      | some i => flushContour (groupSegs ((p :: q :: r).drop (i + 1) ++ (p :: q :: r).take (i + 1)) [])

/-- the points of the contours a glyph draws (shallow or not), in drawing order -/
def contourPointLists : List (Ev R) → List (Point R) → List (List (Point R))
  | [], _ => []
  | .beginPath _ :: es, _ => contourPointLists es []
  | .addPoint p :: es, acc => contourPointLists es (acc ++ [p])
  | .endPath :: es, acc => acc :: contourPointLists es []
  | .addComponent _ :: es, acc => contourPointLists es acc

def segAll : List (List (Point R)) → Option (List (SegEv R))
  | [] => some []
  | c :: cs =>
    match segContour c, segAll cs with
    | some a, some b => some (a ++ b)
    | _, _ => none

/-- `Glyph.draw(pen)`: the segment-pen call stream -/
def Glyph.drawSeg (g : Glyph R) : Option (List (SegEv R)) :=
  (segAll (contourPointLists g.draw [])).map
    (· ++ g.components.map (fun c => SegEv.addComponent c.base c.t))

/-- state of `SegmentToPointPen`: `self.contour` -/
abbrev StpSt (R : Type) := Option (List ((R × R) × Option Seg))

def stpFlush (c : List ((R × R) × Option Seg)) : List (Ev R) :=
  .beginPath none :: (c.map (fun q => Ev.addPoint ⟨q.1.1, q.1.2, q.2, false, none, none⟩) ++ [.endPath])

/-- one call on `SegmentToPointPen` (smooth guessing excluded): new state and the point-pen calls made -/
def stpStep (st : StpSt R) : SegEv R → Option (StpSt R × List (Ev R))
  | .moveTo p => some (some [(p, some .move)], [])
  | .lineTo p =>
    match st with
    | none => none
    | some c => some (some (c ++ [(p, some .line)]), [])
  | .curveTo offs last =>
    match st with
    | none => none
    | some c => some (some (c ++ offs.map (·, none) ++ [(last, some .curve)]), [])
  | .qCurveTo offs last =>
    match last with
    | none => some (some (offs.map (·, none)), [])
    | some lp =>
      match st with
      | none => none
      | some c => some (some (c ++ offs.map (·, none) ++ [(lp, some .qcurve)]), [])
  | .closePath =>
    match st with
    | none => none
    | some [] => none
    | some (f :: r) =>
      match r.getLast? with
      | some l =>
        if f.1 = l.1 then some (none, stpFlush (l :: r.dropLast))
        else some (none, stpFlush ((f.1, if f.2 = some .move then some .line else f.2) :: r))
      | none => some (none, stpFlush [(f.1, if f.2 = some .move then some .line else f.2)])
  | .endPath =>
    match st with
    | none => none
    | some c => some (none, stpFlush c)
  | .addComponent base t =>
    match st with
    | some _ => none
    | none => some (none, [.addComponent ⟨base, t, none⟩])

def stpRun : StpSt R → List (SegEv R) → Option (List (Ev R))
  | _, [] => some []
  | st, e :: es =>
    match stpStep st e with
    | none => none
    | some (st', out) => (stpRun st' es).map (out ++ ·)

end Seg

end Pen
end DefconModel
