/-
M-Setters: executable model of the notification-posting code of defcon's setters and container
mutators (objects/glyph.py, layer.py, layerSet.py, font.py, contour.py, component.py, anchor.py,
guideline.py, image.py, imageSet.py, info.py, features.py, base.py `BaseDictObject`).

* A method is a *program* in a tiny DSL: capture a value, guard, post a notification with
  subject / old / new payload, assign a field, hold / release the object's own notifications, mark
  dirty — in the order of the statements of the code that exists (`Catalogue.lean`; the order is
  tied to the sources by the regenerated skeleton table `Gen/NotifNames.lean`).
* The object is a store of fields.  Values are `None`, integers and lists of integers; every other
  Python value (names, colours, lib values, objects) is an integer token chosen by the harness,
  equal tokens = equal values.
* The interpreter delivers notifications to ONE observer that reads the object INSIDE the callback:
  a delivery records the store visible at that instant (`Ev.snap`).  Notifications posted while
  the object holds its own notifications are queued (equal pending notifications coalesce) and
  delivered, in first-post order, by the release that ends the outermost hold — then the observer
  sees the store of THAT instant.

Core Lean only.
-/
import DefconModel.Util.AL

namespace DefconModel
namespace Setters

inductive Val where
  | none
  | int (i : Int)
  | list (xs : List Int)
deriving DecidableEq, Repr, Inhabited

abbrev Store := List (String × Val)

/-- Expressions.  Booleans are `int 1` / `int 0`. -/
inductive Expr where
  | arg (i : Nat)                 -- i-th argument of the operation
  | var (n : Nat)                 -- local variable
  | fld (f : String)              -- field of the object (`None` when absent)
  | kfld                          -- the field named by the operation's key (`self[key]`)
  | subj                          -- subject of the notification being observed
  | lit (v : Val)
  | add (a b : Expr)
  | sub (a b : Expr)
  | eq (a b : Expr)
  | not (a : Expr)
  | and (a b : Expr)
  | or (a b : Expr)
  | isNone (a : Expr)
  | ite (c a b : Expr)
  | cons (a l : Expr)             -- integer `a` in front of list `l`
  | nth (l : Expr) (i : Nat)
  | insertAt (l i x : Expr)       -- `l.insert(i, x)`
  | remove (l x : Expr)           -- `l.remove(x)` (first occurrence)
  | mem (x l : Expr)              -- `x in l`
  | sinsert (l x : Expr)          -- `set.add` on a sorted duplicate-free list
  | isEmpty (l : Expr)
deriving DecidableEq, Repr, Inhabited

structure Env where
  args : List Val := []
  key : String := ""
deriving Repr

def b2v (b : Bool) : Val := .int (if b then 1 else 0)
def truthy (v : Val) : Bool := v = .int 1

def getF (s : Store) (f : String) : Val := (AL.get? s f).getD .none

def insertAtL : List Int → Nat → Int → List Int
  | xs, 0, x => x :: xs
  | [], _ + 1, x => [x]
  | y :: ys, n + 1, x => y :: insertAtL ys n x

def removeL : List Int → Int → List Int
  | [], _ => []
  | y :: ys, x => if y = x then ys else y :: removeL ys x

def sinsertL : List Int → Int → List Int
  | [], x => [x]
  | y :: ys, x => if x < y then x :: y :: ys else if x = y then y :: ys else y :: sinsertL ys x

def eval (env : Env) (vars : List (Nat × Val)) (s : Store) (sj : Val) : Expr → Val
  | .arg i => env.args.getD i .none
  | .var n => (AL.get? vars n).getD .none
  | .fld f => getF s f
  | .kfld => getF s env.key
  | .subj => sj
  | .lit v => v
  | .add a b =>
    match eval env vars s sj a, eval env vars s sj b with
    | .int x, .int y => .int (x + y)
    | _, _ => .none
  | .sub a b =>
    match eval env vars s sj a, eval env vars s sj b with
    | .int x, .int y => .int (x - y)
    | _, _ => .none
  | .eq a b => b2v (eval env vars s sj a = eval env vars s sj b)
  | .not a => b2v (!truthy (eval env vars s sj a))
  | .and a b => b2v (truthy (eval env vars s sj a) && truthy (eval env vars s sj b))
  | .or a b => b2v (truthy (eval env vars s sj a) || truthy (eval env vars s sj b))
  | .isNone a => b2v (eval env vars s sj a = .none)
  | .ite c a b => if truthy (eval env vars s sj c) then eval env vars s sj a else eval env vars s sj b
  | .cons a l =>
    match eval env vars s sj a, eval env vars s sj l with
    | .int x, .list xs => .list (x :: xs)
    | _, _ => .none
  | .nth l i =>
    match eval env vars s sj l with
    | .list xs => match xs[i]? with
      | some x => .int x
      | none => .none
    | _ => .none
  | .insertAt l i x =>
    match eval env vars s sj l, eval env vars s sj i, eval env vars s sj x with
    | .list xs, .int n, .int y => .list (insertAtL xs n.toNat y)
    | _, _, _ => .none
  | .remove l x =>
    match eval env vars s sj l, eval env vars s sj x with
    | .list xs, .int y => .list (removeL xs y)
    | _, _ => .none
  | .mem x l =>
    match eval env vars s sj x, eval env vars s sj l with
    | .int y, .list xs => b2v (xs.contains y)
    | _, _ => b2v false
  | .sinsert l x =>
    match eval env vars s sj l, eval env vars s sj x with
    | .list xs, .int y => .list (sinsertL xs y)
    | _, _ => .none
  | .isEmpty l =>
    match eval env vars s sj l with
    | .list xs => b2v xs.isEmpty
    | _ => b2v false

/-- role of a notification in a Will/Did pair -/
inductive Kind where
  | plain | will | did
deriving DecidableEq, Repr, Inhabited

/-- Loop-free statements. -/
inductive Atom where
  | capture (v : Nat) (e : Expr)
  | set (f : String) (e : Expr)
  | setK (e : Expr)
  /-- `if e is None: del self[f] (when present) else: self[f] = e` — in this store a deleted key is a
  key that holds `None` (absent fields read `None`) -/
  | setOrUnset (f : String) (e : Expr)
  | post (name : String) (kind : Kind) (sj old new : Option Expr) (obs : Expr)
  | hold
  | release
  | dirty
  /-- a change of state that is not part of this store (identifier registry, action history, …) -/
  | touch
  /-- `if not c: return` -/
  | guard (c : Expr)
  /-- `if c: raise` (assertions and explicit rejections) -/
  | reject (c : Expr)
  | when (c : Expr) (a : Atom)
  /-- a statement of a method this method calls (inlined callee) -/
  | nested (a : Atom)
deriving Repr, Inhabited

inductive Stmt where
  | atom (a : Atom)
  /-- `for v in l: body` over the list as it is when the loop starts (`reversed` when `rev`);
  `own` = the loop is written in this method (not in an inlined callee) -/
  | forEach (v : Nat) (l : Expr) (rev : Bool) (own : Bool) (body : List Atom)
deriving Repr, Inhabited

instance : Coe Atom Stmt := ⟨Stmt.atom⟩

/-- a queued (held) notification -/
structure Note where
  name : String
  kind : Kind
  sj : Val
  old : Option Val
  new : Option Val
  obs : Expr
deriving DecidableEq, Repr

/-- a delivery: what the observer receives plus the store it can read at that instant -/
structure Ev where
  name : String
  kind : Kind
  sj : Val
  old : Option Val
  new : Option Val
  obs : Expr
  snap : Store
deriving DecidableEq, Repr

inductive Status where
  | running | returned | raised
deriving DecidableEq, Repr, Inhabited

structure St where
  store : Store := []
  vars : List (Nat × Val) := []
  depth : Nat := 0
  queue : List Note := []
  evs : List Ev := []
  dirty : Bool := false
  status : Status := .running
deriving Repr

def deliver (st : St) (n : Note) : St :=
  { st with evs := st.evs ++ [⟨n.name, n.kind, n.sj, n.old, n.new, n.obs, st.store⟩] }

/-- `postNotification`: queue while held (unless an equal notification is pending), else deliver -/
def postNote (st : St) (n : Note) : St :=
  if st.depth = 0 then deliver st n
  else if n ∈ st.queue then st
  else { st with queue := st.queue ++ [n] }

/-- `releaseHeldNotifications`: the outermost release delivers the queue in first-post order -/
def releaseSt (st : St) : St :=
  if st.depth = 1 then
    st.queue.foldl deliver { st with depth := 0, queue := [] }
  else { st with depth := st.depth - 1 }

def setVar (st : St) (v : Nat) (x : Val) : St := { st with vars := AL.set st.vars v x }

def stepAtom (env : Env) : St → Atom → St
  | st, .capture v e => setVar st v (eval env st.vars st.store .none e)
  | st, .set f e => { st with store := AL.set st.store f (eval env st.vars st.store .none e) }
  | st, .setK e => { st with store := AL.set st.store env.key (eval env st.vars st.store .none e) }
  | st, .setOrUnset f e => { st with store := AL.set st.store f (eval env st.vars st.store .none e) }
  | st, .post name kind sj old new obs =>
    let ev := fun e => eval env st.vars st.store .none e
    postNote st ⟨name, kind, (sj.map ev).getD .none, old.map ev, new.map ev, obs⟩
  | st, .hold => { st with depth := st.depth + 1 }
  | st, .release => releaseSt st
  | st, .dirty => { st with dirty := true }
  | st, .touch => st
  | st, .guard c => if truthy (eval env st.vars st.store .none c) then st else { st with status := .returned }
  | st, .reject c => if truthy (eval env st.vars st.store .none c) then { st with status := .raised } else st
  | st, .when c a => if truthy (eval env st.vars st.store .none c) then stepAtom env st a else st
  | st, .nested a => stepAtom env st a

/-- statements after a `return` / `raise` do not run -/
def stepA (env : Env) (st : St) (a : Atom) : St :=
  if st.status = .running then stepAtom env st a else st

def runAtoms (env : Env) (st : St) (as : List Atom) : St := as.foldl (stepA env) st

def loopItems (env : Env) (st : St) (l : Expr) (rev : Bool) : List Int :=
  match eval env st.vars st.store .none l with
  | .list xs => if rev then xs.reverse else xs
  | _ => []

def stepStmt (env : Env) (st : St) : Stmt → St
  | .atom a => stepA env st a
  | .forEach v l rev _ body =>
    if st.status = .running then
      (loopItems env st l rev).foldl (fun st x => runAtoms env (setVar st v (.int x)) body) st
    else st

def run (env : Env) (st : St) (prog : List Stmt) : St := prog.foldl (stepStmt env) st

/-- start of an operation on an object with store `σ`, no hold active -/
def init (σ : Store) : St := { store := σ }

/-- what the observer reads when it evaluates the getter `obs` inside the callback -/
def Ev.now (env : Env) (ev : Ev) : Val := eval env [] ev.snap ev.sj ev.obs

end Setters
end DefconModel
