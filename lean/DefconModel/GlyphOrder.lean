/-
M-GlyphOrder (the font-level part of M-Layer that serves C12): executable model of how
`defcon.Font` keeps `font.glyphOrder` in step with glyph creation, deletion and renaming in any
of its layers.  Ported statement by statement from

* `Lib/defcon/objects/font.py`
    `_get_glyphOrder` / `_set_glyphOrder`                      (lines 671-686)
    `updateGlyphOrder`                                         (lines 688-715)
    `_layerAddedNotificationCallback`, `_beginSelfLayerNotificationObservation`,
    `_layerWillBeDeletedNotificationCallback`                  (lines 1197-1215)
    `_glyphAddedNotificationCallback`, `_glyphDeletedNotificationCallback`,
    `_glyphRenamedNotificationCallback`                        (lines 1217-1240)
* `Lib/defcon/objects/layer.py`
    `newGlyph`, `insertGlyph`, `_insertGlyph`, `__delitem__`, `_deleteGlyph`, `keys`,
    `__contains__`, `_glyphNameChange` — only their effect on the layer's *name set* and the
    moment at which `Layer.GlyphAdded / GlyphDeleted / GlyphNameChanged` reach the font
    (always after the name set has changed).
* `Lib/defcon/objects/layerSet.py` `newLayer`, `__delitem__` (name → layer dict + layer order).

* `Lib/defcon/tools/notifications.py` `postNotification` (the observer-independent part: disabled
  keys first, then held keys with `_isQueued` coalescing), `holdNotifications`,
  `releaseHeldNotifications` (count, re-post of the queue in order), `disableNotifications`,
  `enableNotifications` — for the key `(None, layer, None)` that `BaseObject.holdNotifications()` /
  `disableNotifications()` of a layer use, and for the font's own key `(None, font, None)`.
* `Lib/defcon/objects/layerSet.py` also `_set_defaultLayer`, `_set_layerOrder`, `_layerNameChange`.

State: the layers in layer order, each with the set of glyph names `layer.keys()`, a flag
saying whether the font is registered for the layer's three notifications, the hold count and the
queue of held `Layer.GlyphAdded / GlyphDeleted / GlyphNameChanged` notifications of the layer, and
its disable count; the value of `font.lib.get("public.glyphOrder")` (`none` = key absent); which
layer is the default layer (`none` = the default layer object has been deleted from the layer set:
`font.newGlyph` etc. then work on that detached, unobserved layer, whose name set is `ghost`); the
hold count of the font's own notifications.

Core Lean only; no imports outside this project.
-/
import DefconModel.Util.AL

namespace DefconModel
namespace GlyphOrder

abbrev Name := String

/-- the three layer notifications the font listens to, with their `data` -/
inductive Note where
  /-- `Layer.GlyphAdded`, `data = {name}` -/
  | added (n : Name)
  /-- `Layer.GlyphDeleted`, `data = {name}` -/
  | deleted (n : Name)
  /-- `Layer.GlyphNameChanged`, `data = {oldValue, newValue}` -/
  | renamed (old new : Name)
deriving DecidableEq, Repr

structure Layer where
  /-- `layer.keys()` : a Python set, kept as a duplicate-free list (compared as a set) -/
  glyphs : List Name := []
  /-- the font observes `Layer.GlyphAdded/GlyphDeleted/GlyphNameChanged` of this layer -/
  observed : Bool := false
  /-- `dispatcher._holds[(None, layer, None)]["count"]` (0 = no such key) -/
  held : Nat := 0
  /-- `dispatcher._holds[(None, layer, None)]["notifications"]`, restricted to the three
  notifications the font listens to (the only ones that can change the glyph order) -/
  queue : List Note := []
  /-- `dispatcher._disabled[(None, layer, None)]` (0 = no such key) -/
  disabled : Nat := 0
deriving DecidableEq, Repr

structure Font where
  /-- `font.layers` : `LayerSet._layers` in `layerOrder` -/
  layers : List (String × Layer) := []
  /-- `font.lib.get("public.glyphOrder")` -/
  lib : Option (List Name) := none
  /-- the name of `font.layers.defaultLayer` while that layer is in the layer set; `none` once it
  has been deleted (`LayerSet.__delitem__` does not refuse, `_defaultLayer` keeps the object) -/
  default : Option String := none
  /-- `font.keys()` when `default = none`: the name set of the detached default layer -/
  ghost : List Name := []
  /-- `dispatcher._holds[(None, font, None)]["count"]` -/
  fontHeld : Nat := 0
deriving DecidableEq, Repr

inductive Err where
  | keyError
  | assertionError
  /-- outside the modelled domain (see `renameLayer`); never produced by the generator -/
  | unsupported
deriving DecidableEq, Repr

inductive Res where
  | ok
  | err (e : Err)
deriving DecidableEq, Repr

inductive Op where
  /-- `font.layers[layer].newGlyph(g)` -/
  | newGlyph (layer : String) (g : Name)
  /-- `font.layers[layer].insertGlyph(source, name=g)` (g = the name the copy ends up with) -/
  | insertGlyph (layer : String) (g : Name)
  /-- `del font.layers[layer][g]` -/
  | delGlyph (layer : String) (g : Name)
  /-- `font.layers[layer][old].name = new` -/
  | rename (layer : String) (old new : Name)
  /-- `font.glyphOrder = v` (`none` = `None`) -/
  | setOrder (v : Option (List Name))
  /-- `font.lib["public.glyphOrder"] = v`, or `del font.lib["public.glyphOrder"]` for `none` -/
  | setLib (v : Option (List Name))
  /-- `font.newLayer(name)` -/
  | newLayer (name : String)
  /-- `del font.layers[name]` -/
  | delLayer (name : String)
  /-- `font.layers[old].name = new` -/
  | renameLayer (old new : String)
  /-- `font.layers.layerOrder = names` -/
  | setLayerOrder (names : List String)
  /-- `font.layers.defaultLayer = font.layers[name]` -/
  | setDefault (name : String)
  /-- `font.newGlyph(g)` -/
  | fontNewGlyph (g : Name)
  /-- `font.insertGlyph(source, name=g)` -/
  | fontInsertGlyph (g : Name)
  /-- `del font[g]` -/
  | fontDelGlyph (g : Name)
  /-- `font.layers[layer].holdNotifications()` -/
  | holdLayer (layer : String)
  /-- `font.layers[layer].releaseHeldNotifications()` -/
  | releaseLayer (layer : String)
  /-- `font.layers[layer].disableNotifications()` -/
  | disableLayer (layer : String)
  /-- `font.layers[layer].enableNotifications()` -/
  | enableLayer (layer : String)
  /-- `font.holdNotifications()` -/
  | holdFont
  /-- `font.releaseHeldNotifications()` -/
  | releaseFont
deriving DecidableEq, Repr

/-! ### Python primitives -/

/-- `set.add` -/
def addName (l : List Name) (n : Name) : List Name := if n ∈ l then l else l ++ [n]

/-- `set.remove` / `set - {n}` -/
def removeName : List Name → Name → List Name
  | [], _ => []
  | x :: r, n => if x = n then removeName r n else x :: removeName r n

/-- `list.index(n)` (`none` = ValueError) -/
def indexOf? : List Name → Name → Option Nat
  | [], _ => none
  | x :: r, n => if x = n then some 0 else
    match indexOf? r n with
    | none => none
    | some i => some (i + 1)

/-! ### `Font.glyphOrder` (font.py 671-686) -/

/-- `_get_glyphOrder`: `list(self.lib.get("public.glyphOrder", []))` -/
def glyphOrder (f : Font) : List Name := f.lib.getD []

/-- `_set_glyphOrder` -/
def setGlyphOrder (f : Font) (value : Option (List Name)) : Font :=
  -- oldValue = self.lib.get("public.glyphOrder"); if oldValue == value: return
  if f.lib = value then f
  -- if value is None or len(value) == 0: delete the key if present
  else if value.getD [] = [] then { f with lib := none }
  -- else: self.lib["public.glyphOrder"] = value
  else { f with lib := value }

/-! ### `Font.updateGlyphOrder` (font.py 688-715) -/

/-- `index = None; if removedGlyph is not None: try: index = order.index(removedGlyph)` -/
def findIndex (order : List Name) : Option Name → Option Nat
  | none => none
  | some r => indexOf? order r

/-- the `else: if removedGlyph == addedGlyph: return` of the `try` -/
def earlyReturn (index : Option Nat) (added removed : Option Name) : Bool :=
  index.isSome && decide (removed = added)

/-- `if addedGlyph is not None: if addedGlyph not in order: (replace at index | append)` -/
def addStep (order : List Name) (index : Option Nat) : Option Name → List Name × Option Nat
  | none => (order, index)
  | some a =>
    if a ∈ order then (order, index)
    else
      match index with
      | some i => (order.set i a, none)
      | none => (order ++ [a], none)

/-- `if index is not None: del order[index]` -/
def delStep (order : List Name) : Option Nat → List Name
  | none => order
  | some i => order.eraseIdx i

def updateGlyphOrder (f : Font) (added removed : Option Name) : Font :=
  let order := glyphOrder f
  let index := findIndex order removed
  if earlyReturn index added removed then f
  else
    let r := addStep order index added
    setGlyphOrder f (some (delStep r.1 r.2))

/-! ### The font's layer callbacks (font.py 1217-1240) -/

def layerHas (n : Name) (kl : String × Layer) : Bool := decide (n ∈ kl.2.glyphs)

/-- `for layer in self.layers: if name in layer: … = True; break` -/
def anyLayerHas (f : Font) (n : Name) : Bool := f.layers.any (layerHas n)

/-- `_glyphAddedNotificationCallback` -/
def glyphAddedCb (f : Font) (n : Name) : Font := updateGlyphOrder f (some n) none

/-- `_glyphDeletedNotificationCallback` -/
def glyphDeletedCb (f : Font) (n : Name) : Font :=
  if anyLayerHas f n then f else updateGlyphOrder f none (some n)

/-- `_glyphRenamedNotificationCallback` -/
def glyphRenamedCb (f : Font) (old new : Name) : Font :=
  updateGlyphOrder f (some new) (if anyLayerHas f old then none else some old)

/-! ### Posting, holding, releasing (notifications.py) -/

def setLayer (f : Font) (name : String) (l : Layer) : Font :=
  { f with layers := AL.set f.layers name l }

/-- the font's callback for one notification (the font is the only observer that matters here) -/
def deliver (f : Font) : Note → Font
  | .added n => glyphAddedCb f n
  | .deleted n => glyphDeletedCb f n
  | .renamed o n => glyphRenamedCb f o n

/-- `if not _isQueued(n, notifications): notifications.append(n)` — a notification equal (same
name, same observable, equal data) to one already held is not held a second time -/
def enqueue (q : List Note) (n : Note) : List Note := if n ∈ q then q else q ++ [n]

/-- `layer.postNotification(note)`: `NotificationCenter.postNotification` for observable = the layer.
Disabled keys are looked at first (the post is dropped), then held keys (the post is queued), then
the registry: the font's callback runs iff the font observes the layer. -/
def post (f : Font) (L : String) (note : Note) : Font :=
  match AL.get? f.layers L with
  | none => f
  | some l =>
    if l.disabled ≠ 0 then f
    else if l.held ≠ 0 then setLayer f L { l with queue := enqueue l.queue note }
    else if l.observed then deliver f note else f

/-- `for … in notifications: self.postNotification(…)` after the hold key has been deleted -/
def flush (f : Font) (L : String) : List Note → Font
  | [] => f
  | n :: ns => flush (post f L n) L ns

/-- `font.layers[L].holdNotifications()` -/
def holdLayer (f : Font) (L : String) : Font × Res :=
  match AL.get? f.layers L with
  | none => (f, .err .keyError)
  | some l => (setLayer f L { l with held := l.held + 1 }, .ok)

/-- `font.layers[L].releaseHeldNotifications()`: `self._holds[key]` raises KeyError when nothing is
held; the count goes down; at zero the key is deleted and the queue is re-posted in order. -/
def releaseLayer (f : Font) (L : String) : Font × Res :=
  match AL.get? f.layers L with
  | none => (f, .err .keyError)
  | some l =>
    if l.held = 0 then (f, .err .keyError)
    else if l.held = 1 then
      (flush (setLayer f L { l with held := 0, queue := [] }) L l.queue, .ok)
    else (setLayer f L { l with held := l.held - 1 }, .ok)

/-- `font.layers[L].disableNotifications()` -/
def disableLayer (f : Font) (L : String) : Font × Res :=
  match AL.get? f.layers L with
  | none => (f, .err .keyError)
  | some l => (setLayer f L { l with disabled := l.disabled + 1 }, .ok)

/-- `font.layers[L].enableNotifications()`: `self._disabled[key] -= 1` raises KeyError when the
layer is not disabled -/
def enableLayer (f : Font) (L : String) : Font × Res :=
  match AL.get? f.layers L with
  | none => (f, .err .keyError)
  | some l =>
    if l.disabled = 0 then (f, .err .keyError)
    else (setLayer f L { l with disabled := l.disabled - 1 }, .ok)

/-! ### Layer operations (layer.py) and their notifications -/

/-- `Layer.newGlyph(g)`: `_insertGlyph` (`_keys.add`, un-schedule a pending deletion), then
`Layer.GlyphAdded` is posted. -/
def newGlyph (f : Font) (layer : String) (g : Name) : Font × Res :=
  match AL.get? f.layers layer with
  | none => (f, .err .keyError)                      -- font.layers[layer] raises KeyError
  | some l =>
    (post (setLayer f layer { l with glyphs := addName l.glyphs g }) layer (.added g), .ok)

/-- `Layer.insertGlyph(source, name=g)`: `self.holdNotifications()`, `newGlyph(g)`,
`copyDataFromGlyph` (does not touch names), `self.releaseHeldNotifications()`.  When nobody else
holds the layer the one `Layer.GlyphAdded` reaches the font at the release, after the copy, with the
same name set as `newGlyph` leaves; inside a user-level hold the release only lowers the count and
the notification stays queued. -/
def insertGlyph (f : Font) (layer : String) (g : Name) : Font × Res :=
  match AL.get? f.layers layer with
  | none => (f, .err .keyError)
  | some _ =>
    let f1 := (holdLayer f layer).1
    let f2 := (newGlyph f1 layer g).1
    ((releaseLayer f2 layer).1, .ok)

/-- `Layer.__delitem__(g)`: KeyError unless `g in layer`; `_deleteGlyph`; `Layer.GlyphDeleted`. -/
def delGlyph (f : Font) (layer : String) (g : Name) : Font × Res :=
  match AL.get? f.layers layer with
  | none => (f, .err .keyError)
  | some l =>
    if g ∈ l.glyphs then
      (post (setLayer f layer { l with glyphs := removeName l.glyphs g }) layer (.deleted g), .ok)
    else (f, .err .keyError)

/-- `layer[old].name = new`: `Layer.__getitem__` raises KeyError unless `old in layer`;
`Glyph._set_name` does nothing when the name is unchanged; otherwise `Glyph.NameChanged` →
`Layer._glyphNameChange`: `_deleteGlyph(old)`, `_insertGlyph(glyph)` (silently replacing a glyph
already called `new`), then `Layer.GlyphNameChanged`. -/
def rename (f : Font) (layer : String) (old new : Name) : Font × Res :=
  match AL.get? f.layers layer with
  | none => (f, .err .keyError)
  | some l =>
    if old ∈ l.glyphs then
      if old = new then (f, .ok)
      else
        (post (setLayer f layer { l with glyphs := addName (removeName l.glyphs old) new }) layer
          (.renamed old new), .ok)
    else (f, .err .keyError)

/-! ### Layer set operations (layerSet.py) -/

/-- `LayerSet.newLayer(name)`: KeyError when the name is taken; the new (empty) layer is appended
to the layer order; `LayerSet.LayerAdded` → `Font._layerAddedNotificationCallback` →
`_beginSelfLayerNotificationObservation(layer)`. -/
def newLayer (f : Font) (name : String) : Font × Res :=
  if AL.contains f.layers name then (f, .err .keyError)
  else (setLayer f name { glyphs := [], observed := true }, .ok)

/-- `LayerSet.__delitem__(name)`: KeyError when absent; the font stops observing the layer
(`LayerWillBeDeleted`), the layer leaves the set.  The glyph order is not consulted.  Nothing
protects the default layer: `_defaultLayer` keeps pointing at the deleted object, which has no
dispatcher any more — `font.newGlyph`, `del font[…]`, `font.keys()` go on working on it. -/
def delLayer (f : Font) (name : String) : Font × Res :=
  match AL.get? f.layers name with
  | none => (f, .err .keyError)
  | some l =>
    if f.default = some name then
      ({ f with layers := AL.erase f.layers name, default := none, ghost := l.glyphs }, .ok)
    else ({ f with layers := AL.erase f.layers name }, .ok)

/-- the key `old` becomes `new`, in place (`_layers[new] = _layers.pop(old)`, `_layerOrder[index]`) -/
def renameKey : List (String × Layer) → String → String → List (String × Layer)
  | [], _, _ => []
  | (k, v) :: r, old, new => if k = old then (new, v) :: r else (k, v) :: renameKey r old new

/-- `font.layers[old].name = new`: KeyError when there is no layer `old`; nothing when the name is
unchanged; otherwise `Layer.NameChanged` → `LayerSet._layerNameChange`.  The glyph order is not
consulted; the font keeps observing the layer; the default layer stays the same object.
NOT MODELLED (`unsupported`): renaming onto the name of another layer (`_layerNameChange` then drops
that layer from the dict and leaves its name twice in the layer order), and renaming a layer whose
notifications are held or disabled (`Layer.NameChanged` is then held or dropped with the rest, the
layer set keeps the old key). -/
def renameLayer (f : Font) (old new : String) : Font × Res :=
  match AL.get? f.layers old with
  | none => (f, .err .keyError)
  | some l =>
    if old = new then (f, .ok)
    else if AL.contains f.layers new then (f, .err .unsupported)
    else if l.held ≠ 0 ∨ l.disabled ≠ 0 then (f, .err .unsupported)
    else
      ({ f with layers := renameKey f.layers old new,
                default := if f.default = some old then some new else f.default }, .ok)

/-- the layers in the order `names` -/
def reorder (ls : List (String × Layer)) (names : List String) : List (String × Layer) :=
  names.filterMap (fun n => (AL.get? ls n).map (fun l => (n, l)))

/-- `font.layers.layerOrder = names`: nothing when equal; `assert len(order) == len(self._layerOrder)`,
`assert set(order) == set(self._layerOrder)` -/
def setLayerOrder (f : Font) (names : List String) : Font × Res :=
  if AL.keys f.layers = names then (f, .ok)
  else if names.length = (AL.keys f.layers).length ∧ (∀ n ∈ names, n ∈ AL.keys f.layers) ∧
      (∀ k ∈ AL.keys f.layers, k ∈ names) then
    ({ f with layers := reorder f.layers names }, .ok)
  else (f, .err .assertionError)

/-- `font.layers.defaultLayer = font.layers[name]` (KeyError when there is no such layer) -/
def setDefault (f : Font) (name : String) : Font × Res :=
  if AL.contains f.layers name then ({ f with default := some name, ghost := [] }, .ok)
  else (f, .err .keyError)

/-! ### Font-level glyph operations: `self._glyphSet` is `self._layers.defaultLayer` -/

/-- `font.newGlyph(g)` -/
def fontNewGlyph (f : Font) (g : Name) : Font × Res :=
  match f.default with
  | some L => newGlyph f L g
  | none => ({ f with ghost := addName f.ghost g }, .ok)     -- the detached layer: no dispatcher

/-- `font.insertGlyph(source, name=g)` -/
def fontInsertGlyph (f : Font) (g : Name) : Font × Res :=
  match f.default with
  | some L => insertGlyph f L g
  | none => ({ f with ghost := addName f.ghost g }, .ok)

/-- `del font[g]` -/
def fontDelGlyph (f : Font) (g : Name) : Font × Res :=
  match f.default with
  | some L => delGlyph f L g
  | none =>
    if g ∈ f.ghost then ({ f with ghost := removeName f.ghost g }, .ok) else (f, .err .keyError)

/-- `font.keys()` -/
def fontKeys (f : Font) : List Name :=
  match f.default with
  | some L => ((AL.get? f.layers L).map (·.glyphs)).getD []
  | none => f.ghost

/-! ### The font's own notifications (`Font.GlyphOrderChanged`, `Font.Changed`, …) -/

/-- `font.holdNotifications()`: key `(None, font, None)` — the layers post under their own keys -/
def holdFont (f : Font) : Font × Res := ({ f with fontHeld := f.fontHeld + 1 }, .ok)

/-- `font.releaseHeldNotifications()` -/
def releaseFont (f : Font) : Font × Res :=
  if f.fontHeld = 0 then (f, .err .keyError) else ({ f with fontHeld := f.fontHeld - 1 }, .ok)

/-- direct write to the lib: `font.lib["public.glyphOrder"] = v` / `del font.lib[...]`
(`del` of an absent key raises KeyError) -/
def setLib (f : Font) (v : Option (List Name)) : Font × Res :=
  match v with
  | some x => ({ f with lib := some x }, .ok)
  | none => if f.lib.isSome then ({ f with lib := none }, .ok) else (f, .err .keyError)

def step (f : Font) : Op → Font × Res
  | .newGlyph l g => newGlyph f l g
  | .insertGlyph l g => insertGlyph f l g
  | .delGlyph l g => delGlyph f l g
  | .rename l o n => rename f l o n
  | .setOrder v => (setGlyphOrder f v, .ok)
  | .setLib v => setLib f v
  | .newLayer n => newLayer f n
  | .delLayer n => delLayer f n
  | .renameLayer o n => renameLayer f o n
  | .setLayerOrder ns => setLayerOrder f ns
  | .setDefault n => setDefault f n
  | .fontNewGlyph g => fontNewGlyph f g
  | .fontInsertGlyph g => fontInsertGlyph f g
  | .fontDelGlyph g => fontDelGlyph f g
  | .holdLayer l => holdLayer f l
  | .releaseLayer l => releaseLayer f l
  | .disableLayer l => disableLayer f l
  | .enableLayer l => enableLayer f l
  | .holdFont => holdFont f
  | .releaseFont => releaseFont f

/-- the font after a whole history -/
def run (f : Font) : List Op → Font
  | [] => f
  | op :: ops => run (step f op).1 ops

end GlyphOrder
end DefconModel
