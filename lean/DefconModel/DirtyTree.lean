/-
M-DirtyTree: the object tree of a font, the TARGET TABLE of the catalogued public mutators, and its
interpretation on the tree — so that the model alone computes, from `(receiver, mutator, effective | same)`,
which objects the call changes directly, and from there (M-Dirty) the whole propagation, the deliveries and
the flags.

* `Tree`: nodes are numbered in creation order; a node knows its kind (= its role under its parent), its parent
  and whether it has been taken out of its container.  `up t x` are the ancestors of `x`, nearest first.
* `Target`: the small symbolic paths from the receiver — `self`, `child r` (the lib / image / info of the receiver;
  each attached contour / component / anchor for the bulk `move`), and `Relay` for the one cross-tree effect there is:
  the font's glyph-order callbacks write `font.lib` when `Layer.GlyphAdded / GlyphDeleted / GlyphNameChanged` reach
  them — at once, or when the hold of a poster on the way is released.
* `Eff`: what the call does to the tree (a new child with what comes with it; the newest / all children of a role
  leave).
* `table`: kind × catalogued mutator ↦ targets, relay, tree effects, `guarded` (same value ⇒ silent).  The names are
  those of `harness/props/c02.py:CATALOGUE`; `methods` are the source methods the entry runs (tie to the AST,
  `Gen/Mutators.lean`).

Core Lean only.
-/
import DefconModel.Dirty

namespace DefconModel
namespace DirtyTree
open Dirty

inductive Kind where
  | font | layerSet | layer | glyph | contour | component | anchor | guideline | image | lib
  | info | kerning | groups | features | images | data
deriving DecidableEq, Repr

structure Node where
  kind : Kind
  parent : Option Nat
  /-- taken out of its container by a mutator (the object lives on, outside the font) -/
  gone : Bool := false
deriving Repr, DecidableEq

abbrev Tree := List Node

def parentOf (t : Tree) (x : Nat) : Option Nat :=
  match t[x]? with
  | some n => n.parent
  | none => none

def upFuel (t : Tree) : Nat → Nat → List Nat
  | 0, _ => []
  | f + 1, x =>
    match parentOf t x with
    | some p => p :: upFuel t f p
    | none => []

/-- the ancestors of `x`, nearest first (parents have smaller numbers, so `x` steps suffice) -/
def up (t : Tree) (x : Nat) : List Nat := upFuel t x x

/-- the chain from `x` up to the font -/
def path (t : Tree) (x : Nat) : List Nat := x :: up t x

def isGone (t : Tree) (x : Nat) : Bool :=
  match t[x]? with
  | some n => n.gone
  | none => true

/-- still inside the font: neither the node nor an ancestor has been taken out -/
def attached (t : Tree) (x : Nat) : Bool := (path t x).all (fun y => !isGone t y)

def isChild (t : Tree) (x : Nat) (r : Kind) (j : Nat) : Bool :=
  match t[j]? with
  | some n => n.parent == some x && n.kind == r && !n.gone
  | none => false

/-- the attached children of `x` in role `r`, oldest first -/
def children (t : Tree) (x : Nat) (r : Kind) : List Nat := (List.range t.length).filter (isChild t x r)

def rootOf (t : Tree) (x : Nat) : Nat := (path t x).getLast?.getD x

/-! ### the table -/

inductive Target where
  | self
  | child (r : Kind)
deriving DecidableEq, Repr

inductive Relay where
  | none
  /-- the receiver posts the notification the font's glyph-order callback listens to (`Layer.GlyphAdded`, `Layer.GlyphDeleted`) -/
  | viaSelf
  /-- the receiver posts (`Glyph.NameChanged`), its parent passes it on (`Layer.GlyphNameChanged`) -/
  | viaSelfAndParent
deriving DecidableEq, Repr

inductive Eff where
  /-- a new child in role `r` (flag `dirty`), with the objects that come with it: (kind, dirty) -/
  | add (r : Kind) (dirty : Bool) (sub : List (Kind × Bool))
  /-- … only when the receiver has no attached child in that role -/
  | addIfNone (r : Kind) (dirty : Bool)
  /-- the attached child in role `r` that joined the tree last leaves -/
  | removeNewest (r : Kind)
  | removeAll (r : Kind)
deriving DecidableEq, Repr

structure Entry where
  kind : Kind
  name : String
  /-- source methods / property setters (`x=`) the catalogue entry runs -/
  methods : List String
  /-- the catalogue has an effective form of it -/
  effective : Bool := true
  /-- a guarded scalar setter (or guarded item assignment): handing in the value it holds is silent -/
  guarded : Bool := false
  targets : List Target := [.self]
  relay : Relay := .none
  effs : List Eff := []
deriving Repr, DecidableEq

def setter (k : Kind) (attr : String) : Entry :=
  { kind := k, name := attr ++ "=", methods := [attr ++ "="], guarded := true }

def plain (k : Kind) (m : String) : Entry := { kind := k, name := m, methods := [m] }

def dictEntries (k : Kind) : List Entry :=
  [ { kind := k, name := "__setitem__", methods := ["__setitem__"], guarded := true },
    plain k "__delitem__",
    { kind := k, name := "clear", methods := ["clear"], guarded := true },
    plain k "update",
    -- a new key that carries the value `get` answers for a missing key (None; 0 for kerning): one key more all the same
    { kind := k, name := "update[new key, default value]", methods := ["update"] },
    { kind := k, name := "|=[new key, default value]", methods := ["__ior__"] },
    { kind := k, name := "__setitem__[new key, default value]", methods := ["__setitem__"] } ]

def glyphList (r : Kind) (R : String) (Rs : String) : List Entry :=
  [ { kind := .glyph, name := "append" ++ R, methods := ["append" ++ R], effs := [.add r true []] },
    { kind := .glyph, name := "remove" ++ R, methods := ["remove" ++ R], effs := [.removeNewest r] },
    { kind := .glyph, name := "clear" ++ Rs, methods := ["clear" ++ Rs], effs := [.removeAll r] },
    { kind := .glyph, name := "reappend" ++ R, methods := ["remove" ++ R, "append" ++ R], effs := [.addIfNone r true] } ]

def fontGuides : List Target := [.child .info, .self]

/-- THE TARGET TABLE: object kind × catalogued public mutator ↦ what the call changes directly -/
def table : List Entry :=
  [ -- Font
    { kind := .font, name := "glyphOrder=", methods := ["glyphOrder="], guarded := true, targets := [.child .lib] },
    { kind := .font, name := "appendGuideline", methods := ["appendGuideline"], targets := fontGuides, effs := [.add .guideline true []] },
    { kind := .font, name := "guidelines=reordered", methods := ["guidelines="], targets := fontGuides },
    { kind := .font, name := "removeGuideline", methods := ["removeGuideline"], targets := fontGuides, effs := [.removeNewest .guideline] },
    { kind := .font, name := "clearGuidelines", methods := ["clearGuidelines"], targets := fontGuides, effs := [.removeAll .guideline] },
    -- a bulk assignment rejected at its second item (duplicate identifier): the old objects are gone, the first new one is in
    { kind := .font, name := "guidelines=[rejected at the second item]", methods := ["guidelines="], targets := fontGuides,
      effs := [.removeAll .guideline, .add .guideline true []] },
    -- LayerSet
    setter .layerSet "layerOrder",
    { kind := .layerSet, name := "newLayer", methods := ["newLayer"], effs := [.add .layer true [(.lib, false)]] },
    { kind := .layerSet, name := "__delitem__", methods := ["__delitem__"], effs := [.removeNewest .layer] },
    { setter .layerSet "defaultLayer" with effective := false },
    -- Layer
    setter .layer "color",
    { kind := .layer, name := "color=spelled", methods := ["color="], guarded := true, effective := false },
    { kind := .layer, name := "newGlyph", methods := ["newGlyph"], relay := .viaSelf,
      effs := [.add .glyph true [(.lib, false), (.image, false)]] },
    { kind := .layer, name := "__delitem__", methods := ["__delitem__"], relay := .viaSelf, effs := [.removeNewest .glyph] },
    { kind := .layer, name := "__delitem__[glyph order unchanged]", methods := ["__delitem__"], effs := [.removeNewest .glyph] },
    { kind := .layer, name := "insertGlyph", methods := ["insertGlyph"], relay := .viaSelf,
      effs := [.add .glyph true [(.lib, true), (.image, false)]] },
    -- Glyph
    setter .glyph "width", setter .glyph "height", setter .glyph "note", setter .glyph "unicodes",
    { setter .glyph "unicode" with methods := ["unicode=", "unicodes="] },
    { setter .glyph "markColor" with targets := [.child .lib] },
    { setter .glyph "verticalOrigin" with targets := [.child .lib] },
    { setter .glyph "leftMargin" with targets := [.child .contour, .child .component, .child .anchor, .self] },
    setter .glyph "rightMargin",
    { kind := .glyph, name := "bottomMargin=", methods := ["bottomMargin="] },
    { kind := .glyph, name := "bottomMargin=[no vertical origin]", methods := ["bottomMargin="], targets := [.child .lib, .self] },
    { kind := .glyph, name := "topMargin=", methods := ["topMargin="], targets := [.child .lib, .self] },
    { setter .glyph "image" with targets := [.child .image, .self] },
    { kind := .glyph, name := "clearImage", methods := ["clearImage"], targets := [.child .image, .self] } ]
  ++ glyphList .contour "Contour" "Contours" ++ glyphList .component "Component" "Components"
  ++ glyphList .anchor "Anchor" "Anchors" ++ glyphList .guideline "Guideline" "Guidelines" ++
  [ { kind := .glyph, name := "anchors=[rejected at the second item]", methods := ["anchors="],
      effs := [.removeAll .anchor, .add .anchor true []] },
    { kind := .glyph, name := "guidelines=[rejected at the second item]", methods := ["guidelines="],
      effs := [.removeAll .guideline, .add .guideline true []] },
    { kind := .glyph, name := "move", methods := ["move"], targets := [.child .contour, .child .component, .child .anchor] },
    { kind := .glyph, name := "clear", methods := ["clear"], targets := [.child .image, .self],
      effs := [.removeAll .contour, .removeAll .component, .removeAll .anchor, .removeAll .guideline] },
    { setter .glyph "name" with relay := .viaSelfAndParent },
    -- Contour
    plain .contour "appendPoint", plain .contour "insertPoint", plain .contour "removePoint", plain .contour "reverse",
    plain .contour "move", plain .contour "setStartPoint", setter .contour "identifier", setter .contour "clockwise",
    plain .contour "clear",
    -- Component, Anchor, Guideline, Image
    setter .component "baseGlyph", setter .component "transformation", plain .component "move",
    setter .anchor "x", setter .anchor "y", setter .anchor "name", setter .anchor "color",
    { kind := .anchor, name := "color=spelled", methods := ["color="], guarded := true, effective := false },
    plain .anchor "move",
    { kind := .anchor, name := "update[new key, default value]", methods := ["update"] },
    setter .guideline "x", setter .guideline "name", setter .guideline "color",
    { kind := .guideline, name := "color=spelled", methods := ["color="], guarded := true, effective := false },
    { kind := .guideline, name := "update[new key, default value]", methods := ["update"] },
    setter .image "fileName", setter .image "color", setter .image "transformation", plain .image "move" ]
  ++ dictEntries .lib ++ dictEntries .kerning ++ dictEntries .groups ++
  [ setter .info "familyName", setter .info "unitsPerEm", setter .info "ascender", setter .info "openTypeOS2WeightClass",
    setter .info "postscriptBlueValues",
    setter .features "text",
    { kind := .images, name := "__setitem__", methods := ["__setitem__"], guarded := true },
    plain .images "__delitem__",
    { kind := .images, name := "__setitem__unread", methods := ["__setitem__"], guarded := true, effective := false },
    plain .data "__setitem__",
    plain .data "__delitem__" ]

def lookup (k : Kind) (name : String) : Option Entry := table.find? (fun e => e.kind = k ∧ e.name = name)

/-! ### interpretation on the tree -/

/-- a notification other than `*.Changed` waiting in the hold of `holder`; when released it travels on through `rest`
and, past the last poster, makes the font write `target` (its lib) -/
structure Deferred where
  holder : Nat
  rest : List Nat
  target : Nat
deriving Repr, DecidableEq

structure TState where
  tree : Tree := []
  s : Dirty.State := {}
  deferred : List Deferred := []
  /-- layers the font does not listen to yet: a layer made while the layer set's notifications are held is announced
  (`LayerSet.LayerAdded`) only when the hold is released, and only then does the font register for its
  `Layer.GlyphAdded / GlyphDeleted / GlyphNameChanged` -/
  unwired : List Nat := []
  /-- every object a mutator (or a released notification) changed directly, in order: the model's touched sets -/
  hits : List Nat := []
deriving Repr

def touchT (ts : TState) (x : Nat) : TState :=
  { ts with s := touch ts.s x (up ts.tree x), hits := ts.hits ++ [x] }

/-- post along the relay: a held poster keeps it back; a layer the font does not listen to (yet) posts into the void;
otherwise it travels on; at the end the font writes `tgt` -/
def relayTo (ts : TState) : List Nat → Nat → TState
  | [], tgt => touchT ts tgt
  | n :: ns, tgt =>
    if held ts.s n then { ts with deferred := ts.deferred ++ [⟨n, ns, tgt⟩] }
    else if n ∈ ts.unwired then ts
    else relayTo ts ns tgt

def targetNodes (t : Tree) (recv : Nat) : Target → List Nat
  | .self => [recv]
  | .child r => children t recv r

/-- the objects an effective call of the entry changes directly -/
def directTargets (t : Tree) (recv : Nat) (e : Entry) : List Nat := e.targets.flatMap (targetNodes t recv)

def relayNodes (t : Tree) (recv : Nat) : Relay → Option (List Nat)
  | .none => none
  | .viaSelf => some [recv]
  | .viaSelfAndParent => some (recv :: (parentOf t recv).toList)

/-- `font.lib`, seen from anywhere in the tree -/
def fontLib (t : Tree) (recv : Nat) : List Nat := children t (rootOf t recv) .lib

def addNode (t : Tree) (k : Kind) (p : Nat) : Tree := t ++ [{ kind := k, parent := some p }]

def markGone (t : Tree) (x : Nat) : Tree :=
  match t[x]? with
  | some n => t.set x { n with gone := true }
  | none => t

def flagIf (s : Dirty.State) (d : Bool) (x : Nat) : Dirty.State := if d then setFlag s x else s

def addSubs (ts : TState) (p : Nat) : List (Kind × Bool) → TState
  | [] => ts
  | (k, d) :: rest =>
    addSubs { ts with tree := addNode ts.tree k p, s := flagIf ts.s d ts.tree.length } p rest

def addChild (ts : TState) (recv : Nat) (r : Kind) (d : Bool) (sub : List (Kind × Bool)) : TState :=
  let id := ts.tree.length
  -- a layer made while the layer set is held: the font will hear of it on release
  let uw := if r = .layer && held ts.s recv then ts.unwired ++ [id] else ts.unwired
  addSubs { ts with tree := addNode ts.tree r recv, s := flagIf ts.s d id, unwired := uw } id sub

def applyEff (recv : Nat) (ts : TState) : Eff → TState
  | .add r d sub => addChild ts recv r d sub
  | .addIfNone r d => if (children ts.tree recv r).isEmpty then addChild ts recv r d [] else ts
  | .removeNewest r =>
    match (children ts.tree recv r).getLast? with
    | some c => { ts with tree := markGone ts.tree c }
    | none => ts
  | .removeAll r => { ts with tree := (children ts.tree recv r).foldl markGone ts.tree }

/-- An effective call: the tree is edited (no existing node changes its parent), then every direct target is set
dirty and announces (M-Dirty `touch` along its chain), then the relayed effect is posted. -/
def applyEffective (ts : TState) (recv : Nat) (e : Entry) : TState :=
  let tg := directTargets ts.tree recv e
  let via := relayNodes ts.tree recv e.relay
  let libs := fontLib ts.tree recv
  let ts1 := e.effs.foldl (applyEff recv) ts
  let ts2 := tg.foldl touchT ts1
  match via with
  | none => ts2
  | some ns => libs.foldl (fun a l => relayTo a ns l) ts2

/-- a call of a catalogued mutator; `same` = the value handed in is the one the object holds -/
def applyMut (ts : TState) (recv : Nat) (e : Entry) (same : Bool) : TState :=
  if e.guarded && same then ts else applyEffective ts recv e

def holdT (ts : TState) (x : Nat) : TState := { ts with s := hold ts.s x }

def isLastHold (s : Dirty.State) (x : Nat) : Bool :=
  match AL.get? s.holds x with
  | some n => n - 1 = 0
  | none => false

def repost (ts : TState) (d : Deferred) : TState := relayTo ts d.rest d.target

/-- `x.releaseHeldNotifications()`: the queued `*.Changed` is re-posted (M-Dirty `release`), and so are the other
notifications waiting there -/
def releaseT (ts : TState) (x : Nat) : TState :=
  let last := isLastHold ts.s x
  let ts1 := { ts with s := release ts.s x (up ts.tree x) }
  if last then
    let mine := ts1.deferred.filter (fun d => d.holder = x)
    let others := ts1.deferred.filter (fun d => d.holder ≠ x)
    -- the children of `x` are announced now at the latest (`LayerSet.LayerAdded`): the font listens to them from here on
    let uw := ts1.unwired.filter (fun l => parentOf ts1.tree l ≠ some x)
    mine.foldl repost { ts1 with deferred := others, unwired := uw }
  else ts1

def releaseAllT (ts : TState) (ys : List Nat) : TState := ys.foldl releaseT ts

end DirtyTree
end DefconModel
