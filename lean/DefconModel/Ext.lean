/-
M-Ext: executable model of defcon's external-change support, as the code stands after the C05 fixes
(repo_fixes/C05-*.diff, round 3: C05-r3-1 renamed glyph drops the old file's stamp, C05-r3-2 reloadImages /
reloadData drop a pending deletion):

* stamping        `Font._stamp*DataState`, `Layer._stampGlyphDataState`, `LayerSet._stampLayerInfoDataState`,
                  the `onDisk / onDiskModTime / onDiskDigest` fields of image and data entries
* detection       `Font.testForExternalChanges` and the `testForExternalChanges` of LayerSet, Layer,
                  ImageSet, DataSet (modification-time gate, then bytes)
* reloading       `reloadInfo/Kerning/Groups/Features/Lib/Images/Data/Layers`, `Layer.reloadGlyphs`
* what they rest on: the lazy getters, glyph bookkeeping of a layer (`_keys`, `_glyphs`,
  `_scheduledForDeletion`, the bound glyph set with its `contents` snapshot; creating, deleting and
  renaming glyphs), the layer set (order, default, action history), image/data entries, the
  in-place `Font.save`, save-as, and the UFO on disk with a modification time per file, edited by
  "another program" (the `x…` operations).

A file's content is an opaque `Blob` (0 = the empty value; the bytes ufoLib writes for a value and
the value it reads from bytes are identified, see the assumptions of harness/props/c05.py).
`zip = true`: the font's reader and the glyph sets bound to it see a snapshot (`reader`) of the
archive taken when the reader was opened; a package directory is read live.
Core Lean only.
-/
import DefconModel.Util.AL

namespace DefconModel
namespace Ext

abbrev Blob := Nat
abbrev Time := Int

structure File where
  blob : Blob
  mtime : Time
deriving DecidableEq, Repr

inductive Part where
  | info | kerning | groups | features | lib
deriving DecidableEq, Repr

def allParts : List Part := [.info, .kerning, .groups, .features, .lib]

/-! ## The UFO on disk -/

structure DLayer where
  /-- value of layerinfo.plist (0: no file) -/
  info : Blob := 0
  /-- contents.plist and the .glif files (the external editor keeps them in step) -/
  glifs : List (String × File) := []
deriving DecidableEq, Repr

structure Disk where
  parts : List (Part × File) := []
  /-- layercontents.plist, in file order -/
  layers : List (String × DLayer) := []
  default : Option String := none
  images : List (String × File) := []
  data : List (String × File) := []
deriving DecidableEq, Repr

/-! ## The font in memory -/

/-- `_dataOnDisk`, `_dataOnDiskTimeStamp` of a top-level object (`none`, `-1`: no file) -/
structure PStamp where
  data : Option Blob
  time : Time
deriving DecidableEq, Repr

structure MPart where
  value : Blob
  dirty : Bool
  stamp : PStamp
deriving DecidableEq, Repr

structure MGlyph where
  value : Blob
  dirty : Bool
  /-- `_dataOnDisk` (GLIF text) and `_dataOnDiskTimeStamp`; `none`: never read from / written to a file -/
  stamp : Option File
deriving DecidableEq, Repr

/-- a bound `GlyphSet`: the layer directory it reads, its `contents` as last (re)built, and
whether the reader it belongs to is still open -/
structure GS where
  lname : String
  contents : List String
  alive : Bool
deriving DecidableEq, Repr

structure MLayer where
  keys : List String := []
  glyphs : List (String × MGlyph) := []
  /-- `_scheduledForDeletion`: name ↦ stamp of the file scheduled -/
  sched : List (String × Option File) := []
  info : Blob := 0
  /-- `_dataOnDisk` of the layer: the packed layer info last read / written -/
  infoStamp : Option Blob := none
  gs : Option GS := none
deriving DecidableEq, Repr

/-- an entry of `ImageSet._data` / `DataSet._data` -/
structure Entry where
  data : Option Blob := none
  dirty : Bool := false
  onDisk : Bool := true
  modTime : Option Time := none
  /-- `onDiskDigest` -/
  digest : Option Blob := none
deriving DecidableEq, Repr

structure FileSet where
  entries : List (String × Entry) := []
  sched : List (String × Entry) := []
deriving DecidableEq, Repr

inductive Action where
  | new (n : String)
  | delete (n : String)
  | default (new : String) (old : Option String)
deriving DecidableEq, Repr

structure Font where
  /-- the loaded top-level objects -/
  parts : List (Part × MPart) := []
  layers : List (String × MLayer) := []
  order : List String := []
  default : Option String := none
  history : List Action := []
  images : FileSet := {}
  data : FileSet := {}
deriving DecidableEq, Repr

/-! ## The report of `testForExternalChanges` -/

structure LayerRep where
  info : Bool
  modified : List String
  added : List String
  deleted : List String
deriving DecidableEq, Repr

structure SetRep where
  modified : List String := []
  added : List String := []
  deleted : List String := []
deriving DecidableEq, Repr

structure Report where
  /-- info, kerning, groups, features, lib: `none` = not loaded -/
  parts : List (Part × Option Bool) := []
  defaultLayer : Bool := false
  order : Bool := false
  added : List String := []
  deleted : List String := []
  modified : List (String × LayerRep) := []
  images : SetRep := {}
  data : SetRep := {}
deriving DecidableEq, Repr

structure State where
  zip : Bool := false
  disk : Disk := {}
  /-- what the font's own reader sees when `zip` (the archive as it was when the reader was opened) -/
  reader : Disk := {}
  font : Font := {}
  lastReport : Option Report := none
  /-- the content id of a glyph that holds nothing (what `newGlyph` / `Glyph.clear` leave) -/
  emptyGlyph : Blob := 0
deriving DecidableEq, Repr

inductive Err where
  | keyError | assertionError | ufoLibError | glifLibError | filesystemClosed
  /-- not an exception: a situation the model does not cover (never generated; fails the comparison) -/
  | outsideDomain
deriving DecidableEq, Repr

/-! ## Small helpers -/

def setAdd (l : List String) (n : String) : List String := if n ∈ l then l else l ++ [n]
def setDel (l : List String) (n : String) : List String := l.filter (· ≠ n)

/-- value read from a top-level file (absent: the empty value) -/
def readPart (d : Disk) (p : Part) : Blob := ((AL.get? d.parts p).map (·.blob)).getD 0

/-- `_stampFontDataState` -/
def stampOf (d : Disk) (p : Part) : PStamp :=
  match AL.get? d.parts p with
  | none => ⟨none, -1⟩
  | some f => ⟨some f.blob, f.mtime⟩

/-- the disk a reader of the font sees -/
def view (s : State) : Disk := if s.zip then s.reader else s.disk

def glifOf (d : Disk) (ln gn : String) : Option File :=
  match AL.get? d.layers ln with
  | none => none
  | some l => AL.get? l.glifs gn

def glifNames (d : Disk) (ln : String) : List String :=
  match AL.get? d.layers ln with
  | none => []
  | some l => AL.keys l.glifs

def layerNames (d : Disk) : List String := AL.keys d.layers

def getLayer (s : State) (ln : String) : Option MLayer := AL.get? s.font.layers ln

def setLayer (s : State) (ln : String) (l : MLayer) : State :=
  { s with font := { s.font with layers := AL.set s.font.layers ln l } }

def getPart (s : State) (p : Part) : Option MPart := AL.get? s.font.parts p

def setPart (s : State) (p : Part) (mp : MPart) : State :=
  { s with font := { s.font with parts := AL.set s.font.parts p mp } }


/-- a layer created from its glyph set (`LayerSet.newLayer(name, glyphSet)`): the keys are the glyph
set's names, the layer info is read and stamped -/
def openLayer (ln : String) (dl : DLayer) : MLayer :=
  { keys := AL.keys dl.glifs, info := dl.info, infoStamp := some dl.info, gs := some ⟨ln, AL.keys dl.glifs, true⟩ }

/-! ## Lazy getters and in-memory edits of the top-level objects -/

/-- read a top-level object from the live disk (a fresh reader) and stamp it -/
def forceLoad (s : State) (p : Part) : State :=
  setPart s p ⟨readPart s.disk p, false, stampOf s.disk p⟩

/-- the lazy getters `_get_info/_get_kerning/…`; kerning and groups are loaded together -/
def loadPart (s : State) (p : Part) : State :=
  if (getPart s p).isSome then s
  else match p with
    | .kerning | .groups => forceLoad (forceLoad s .groups) .kerning
    | p => forceLoad s p

/-- the dirty flag is tracked where `Font.save` looks at it (kerning, features) -/
def dirtyAfterSet (p : Part) (old : MPart) (v : Blob) : Bool :=
  match p with
  | .kerning => true
  | .features => old.dirty || (v != old.value)
  | _ => false

/-- replace the whole value of a top-level object -/
def psetPart (s : State) (p : Part) (v : Blob) : State :=
  let s1 := loadPart s p
  match getPart s1 p with
  | none => s1
  | some mp => setPart s1 p { mp with value := v, dirty := dirtyAfterSet p mp v }

/-! ## Glyphs of a layer -/

/-- `name in layer` -/
def inLayer (l : MLayer) (gn : String) : Bool := decide (gn ∈ l.keys) && !AL.contains l.sched gn

/-- stat and read of a GLIF through a bound glyph set -/
def gsRead (s : State) (g : GS) (gn : String) : Except Err File :=
  if !g.alive then .error .filesystemClosed
  else match glifOf (view s) g.lname gn with
    | none => .error .glifLibError
    | some f => .ok f

/-- `Layer.loadGlyph` -/
def loadGlyph (s : State) (ln : String) (l : MLayer) (gn : String) : Except Err (State × MGlyph) :=
  match l.gs with
  | none => .error .keyError
  | some g =>
    if gn ∉ g.contents ∨ AL.contains l.sched gn = true then .error .keyError
    else match gsRead s g gn with
      | .error e => .error e
      | .ok f =>
        let gl : MGlyph := ⟨f.blob, false, some f⟩
        .ok (setLayer s ln { l with glyphs := AL.set l.glyphs gn gl, keys := setAdd l.keys gn }, gl)

/-- `layer[name]` -/
def getGlyph (s : State) (ln gn : String) : Except Err (State × MGlyph) :=
  match getLayer s ln with
  | none => .error .keyError
  | some l =>
    match AL.get? l.glyphs gn with
    | some g => .ok (s, g)
    | none => loadGlyph s ln l gn

/-- `Layer.newGlyph` (+ the font's glyph-order callback, which reads the lib) -/
def newGlyph (s : State) (ln gn : String) : Except Err State :=
  match getLayer s ln with
  | none => .error .keyError
  | some l =>
    let l' := { l with glyphs := AL.set l.glyphs gn ⟨s.emptyGlyph, true, none⟩, sched := AL.erase l.sched gn,
                       keys := setAdd l.keys gn }
    .ok (loadPart (setLayer s ln l') .lib)

/-- load if necessary, then replace the glyph's whole content -/
def setGlyph (s : State) (ln gn : String) (v : Blob) : Except Err State :=
  match getGlyph s ln gn with
  | .error e => .error e
  | .ok (s1, g) =>
    match getLayer s1 ln with
    | none => .error .keyError
    | some l => .ok (setLayer s1 ln { l with glyphs := AL.set l.glyphs gn { g with value := v, dirty := true } })

def existsAnywhere (s : State) (gn : String) : Bool :=
  s.font.order.any fun ln => match getLayer s ln with
    | none => false
    | some l => inLayer l gn

/-- the stamp recorded for a file that is being scheduled for deletion (F9 fix): the stamp of the
loaded glyph if it carries one, else the state of the file as the bound glyph set sees it; when the
file cannot be read (the glyph set belongs to a reader that was closed) there is no state to record
and the deletion works all the same -/
def schedStamp (s : State) (l : MLayer) (b : GS) (gn : String) : Option File :=
  match (AL.get? l.glyphs gn).bind (·.stamp) with
  | some f => some f
  | none => if !b.alive then none else glifOf (view s) b.lname gn

/-- the end of `Layer.__delitem__`: the font's glyph-order callback reads the lib when the name is
gone from every layer -/
def afterDelete (s : State) (gn : String) : State :=
  if existsAnywhere s gn then s else loadPart s .lib

/-- `del layer[name]` (`_deleteGlyph` after the F9 fix).  The state is returned also when an
exception interrupts the method. -/
def delGlyph (s : State) (ln gn : String) : State × Option Err :=
  match getLayer s ln with
  | none => (s, some .keyError)
  | some l =>
    if inLayer l gn = false then (s, some .keyError)
    else
      let l1 := { l with glyphs := AL.erase l.glyphs gn, keys := setDel l.keys gn }
      match l.gs with
      | none => (afterDelete (setLayer s ln l1) gn, none)
      | some b =>
        if gn ∈ b.contents then
          (afterDelete (setLayer s ln { l1 with sched := AL.set l1.sched gn (schedStamp s l b gn) }) gn, none)
        else (afterDelete (setLayer s ln l1) gn, none)

/-- the schedule after `_deleteGlyph(old)`: the name is scheduled for deletion, with the stamp of its
file, when the bound glyph set lists it -/
def schedAfterDelete (s : State) (l : MLayer) (gn : String) : List (String × Option File) :=
  match l.gs with
  | none => l.sched
  | some b => if gn ∈ b.contents then AL.set l.sched gn (schedStamp s l b gn) else l.sched

/-- `layer[old].name = new` (`Glyph._set_name` → `Layer._glyphNameChange`, after fix C05-r3-1).  The
glyph is read first if it was not loaded.  The old name leaves the keys and — when the bound glyph
set lists it — is scheduled for deletion with the stamp of its file.  The glyph object moves to the
new name (replacing whatever the layer held there; a pending deletion of that name is dropped),
dirty, and carries no stamp any more: it has neither been read from nor written to a file of its
new name, so the new name exists in memory only until the next save.  The font's glyph-order
callback reads the lib. -/
def renameGlyph (s : State) (ln old new : String) : State × Option Err :=
  match getGlyph s ln old with
  | .error e => (s, some e)
  | .ok (s1, g) =>
    if old = new then (s1, none)
    else
      match getLayer s1 ln with
      | none => (s1, some .keyError)
      | some l =>
        let l' := { l with glyphs := AL.set (AL.erase l.glyphs old) new ⟨g.value, true, none⟩
                           keys := setAdd (setDel l.keys old) new
                           sched := AL.erase (schedAfterDelete s1 l old) new }
        (loadPart (setLayer s1 ln l') .lib, none)

/-! ## The layer set -/

def newLayer (s : State) (ln : String) : Except Err State :=
  if AL.contains s.font.layers ln then .error .keyError
  else .ok { s with font := { s.font with
    layers := AL.set s.font.layers ln ({} : MLayer)
    order := s.font.order ++ [ln]
    history := s.font.history ++ [.new ln] } }

def delLayer (s : State) (ln : String) : Except Err State :=
  if AL.contains s.font.layers ln then
    .ok { s with font := { s.font with
      layers := AL.erase s.font.layers ln
      order := s.font.order.filter (· ≠ ln)
      history := s.font.history ++ [.delete ln] } }
  else .error .keyError

def setOrder (s : State) (order : List String) : Except Err State :=
  if s.font.order = order then .ok s
  else if order.length = s.font.order.length ∧ (∀ x ∈ order, x ∈ s.font.order) ∧ (∀ x ∈ s.font.order, x ∈ order) then
    .ok { s with font := { s.font with order := order } }
  else .error .assertionError

def setDefault (s : State) (ln : String) : Except Err State :=
  if AL.contains s.font.layers ln = false then .error .keyError
  else if s.font.default = some ln then .ok s
  else .ok { s with font := { s.font with default := some ln, history := s.font.history ++ [.default ln s.font.default] } }

def setLayerInfo (s : State) (ln : String) (v : Blob) : Except Err State :=
  match getLayer s ln with
  | none => .error .keyError
  | some l => .ok (setLayer s ln { l with info := v })

/-! ## Images and data (`img = true`: the image set) -/

def fsFiles (d : Disk) (img : Bool) : List (String × File) := if img then d.images else d.data

def getFS (s : State) (img : Bool) : FileSet := if img then s.font.images else s.font.data

def setFS (s : State) (img : Bool) (fs : FileSet) : State :=
  if img then { s with font := { s.font with images := fs } } else { s with font := { s.font with data := fs } }

/-- `__getitem__`: an entry that holds no data is read through the font's reader and stamped -/
def fsLoad (s : State) (img : Bool) (n : String) : Except Err (State × Option Blob) :=
  let fs := getFS s img
  match AL.get? fs.entries n with
  | none => .error .keyError
  | some e =>
    match e.data with
    | some b => .ok (s, some b)
    | none =>
      match AL.get? (fsFiles (view s) img) n with
      | none =>
        if img then .error .ufoLibError
        else .ok (setFS s img { fs with entries := AL.set fs.entries n ({} : Entry) }, none)
      | some f =>
        let e' : Entry := { data := some f.blob, dirty := false, onDisk := true, modTime := some f.mtime, digest := some f.blob }
        .ok (setFS s img { fs with entries := AL.set fs.entries n e' }, some f.blob)

/-- `__setitem__`, first part: an entry scheduled for deletion is taken back with its stamping -/
def unsched (fs : FileSet) (n : String) : FileSet :=
  match AL.get? fs.sched n with
  | some e => { entries := AL.set fs.entries n e, sched := AL.erase fs.sched n }
  | none => fs

/-- `__setitem__`, second part: a new entry, or (after reading the file if it was not loaded, so
that the stamping is right) new data under the old stamping.  Assigning the image it already holds
to an image entry changes nothing. -/
def fsAssign (s : State) (img : Bool) (n : String) (b : Blob) : State × Option Err :=
  let fs1 := getFS s img
  match AL.get? fs1.entries n with
  | none =>
    let e' : Entry := { data := some b, dirty := true, onDisk := false, modTime := none, digest := none }
    (setFS s img { fs1 with entries := AL.set fs1.entries n e' }, none)
  | some _ =>
    match fsLoad s img n with
    | .error e => (s, some e)
    | .ok (s2, cur) =>
      if img ∧ cur = some b then (s2, none)
      else
        let fs2 := getFS s2 img
        match AL.get? fs2.entries n with
        | none => (s2, none)
        | some e =>
          let e' : Entry := { data := some b, dirty := true, onDisk := e.onDisk, modTime := e.modTime, digest := e.digest }
          (setFS s2 img { fs2 with entries := AL.set fs2.entries n e' }, none)

/-- `__setitem__` -/
def fsSet (s : State) (img : Bool) (n : String) (b : Blob) : State × Option Err :=
  let fs := getFS s img
  if AL.contains fs.sched n ∧ AL.contains fs.entries n then (s, some .assertionError)
  else fsAssign (setFS s img (unsched fs n)) img n b

/-- `__delitem__` -/
def fsDel (s : State) (img : Bool) (n : String) : State × Option Err :=
  match fsLoad s img n with
  | .error e => (s, some e)
  | .ok (s1, _) =>
    let fs := getFS s1 img
    match AL.get? fs.entries n with
    | none => (s1, some .keyError)
    | some e => (setFS s1 img { entries := AL.erase fs.entries n, sched := AL.set fs.sched n e }, none)


/-! ## In-place `Font.save` (UFO 3).  `tD`: the modification time files written now get on disk;
`tS`: the time the writer reports for them when `zip` (the writer works on a temporary copy, so the
times it reports never equal a time in the archive; for a package the writer reports the file's
own time).  A zip archive is rewritten as a whole: all its entries get the wall-clock time of the
rewrite, with two-second granularity — not reproducible, so the harness sets every entry's time to
`tD` right after the save; the reader the font opened at the end of the save keeps the archive it
opened (times `tS` in the model). -/

/-- ufoLib skips the write when the file holds these bytes already (mtime preserved) -/
def writeFile {κ : Type} [DecidableEq κ] (files : List (κ × File)) (n : κ) (b : Blob) (t : Time) : List (κ × File) :=
  match AL.get? files n with
  | some f => if f.blob = b then files else AL.set files n ⟨b, t⟩
  | none => AL.set files n ⟨b, t⟩

/-- `writeInfo/…`: fontinfo.plist is always written; the other files are removed when there is
nothing to write -/
def writePart (d : Disk) (p : Part) (v : Blob) (t : Time) : Disk :=
  if v = 0 ∧ p ≠ .info then { d with parts := AL.erase d.parts p }
  else { d with parts := writeFile d.parts p v t }

/-- `_stampFontDataState(obj, fileName, writer)` -/
def stampW (zip : Bool) (tS : Time) (d : Disk) (p : Part) : PStamp :=
  match AL.get? d.parts p with
  | none => ⟨none, -1⟩
  | some f => ⟨some f.blob, if zip then tS else f.mtime⟩

/-- `_saveInfo/_saveGroups/_saveLib` (always) and `_saveKerning/_saveFeatures` (when dirty) -/
def savePart (tD tS : Time) (always : Bool) (s : State) (p : Part) : State :=
  let s1 := loadPart s p
  match getPart s1 p with
  | none => s1
  | some mp =>
    if always ∨ mp.dirty then
      let d' := writePart s1.disk p mp.value tD
      setPart { s1 with disk := d' } p { mp with dirty := false, stamp := stampW s1.zip tS d' p }
    else s1

def setDiskFiles (d : Disk) (img : Bool) (files : List (String × File)) : Disk :=
  if img then { d with images := files } else { d with data := files }

/-- the time stamped for a file just written -/
def timeW (zip : Bool) (tS : Time) (files : List (String × File)) (n : String) : Option Time :=
  if zip then some tS else (AL.get? files n).map (·.mtime)

/-- `ImageSet.save / DataSet.save` -/
def saveFS (tD tS : Time) (s : State) (img : Bool) : State :=
  let fs := getFS s img
  let files1 := fs.sched.foldl (fun fl p => AL.erase fl p.1) (fsFiles s.disk img)
  let files2 := fs.entries.foldl (fun fl p =>
    match p.2.dirty, p.2.data with
    | true, some b => writeFile fl p.1 b tD
    | _, _ => fl) files1
  let entries := fs.entries.map fun p =>
    match p.2.dirty, p.2.data with
    | true, some b => (p.1, ({ p.2 with dirty := false, onDisk := true, modTime := timeW s.zip tS files2 p.1, digest := some b } : Entry))
    | _, _ => p
  setFS { s with disk := setDiskFiles s.disk img files2 } img { entries := entries, sched := [] }

/-- `Layer.save` + `writeLayerInfo` + `_stampLayerInfoDataState` for one layer -/
def saveLayer (zip : Bool) (tD tS : Time) (dl : DLayer) (l : MLayer) : DLayer × MLayer :=
  let glifs1 := l.glyphs.foldl (fun fl p => if p.2.dirty then writeFile fl p.1 p.2.value tD else fl) dl.glifs
  let glyphs := l.glyphs.map fun p =>
    if p.2.dirty then
      (p.1, ({ p.2 with dirty := false,
                        stamp := (AL.get? glifs1 p.1).map (fun f => ⟨f.blob, if zip then tS else f.mtime⟩) } : MGlyph))
    else p
  let glifs2 := l.sched.foldl (fun fl p => AL.erase fl p.1) glifs1
  ({ info := l.info, glifs := glifs2 }, { l with glyphs := glyphs, sched := [], infoStamp := some l.info })

/-- one action of the layer history replayed against the UFO (`LayerSet.save`) -/
def applyAction (d : Disk) : Action → Disk
  | .new _ => d
  | .delete n => { d with layers := AL.erase d.layers n, default := if d.default = some n then none else d.default }
  | .default new old =>
    let d1 : Disk := match old with
      | some o => if d.default = some o then { d with default := none } else d
      | none => d
    if AL.contains d1.layers new then { d1 with default := some new } else d1

/-- Does replaying this history move a glyph directory onto the default directory while another
layer still occupies it?  ufoLib's `renameGlyphSet(name, name, defaultLayer=True)` does not check
(finding F53, reachable after an external default-layer change that no reload took over); the model,
which keys the layers on disk by name, does not express the merged directories. -/
def replayHazard : Disk → List Action → Bool
  | _, [] => false
  | d, .default new old :: rest =>
    let d1 : Disk := match old with
      | some o => if d.default = some o then { d with default := none } else d
      | none => d
    (AL.contains d1.layers new && d1.default.isSome && decide (d1.default ≠ some new)) ||
      replayHazard (applyAction d (.default new old)) rest
  | d, a :: rest => replayHazard (applyAction d a) rest

/-- `writer.getGlyphSet(name, defaultLayer)`, `layer.save`, layer info: one layer of the order -/
def saveOneLayer (tD tS : Time) (s : State) (ln : String) : State :=
  match getLayer s ln with
  | none => s
  | some l =>
    let d := s.disk
    let d1 : Disk := if AL.contains d.layers ln then d
      else { d with layers := d.layers ++ [(ln, {})], default := if s.font.default = some ln then some ln else d.default }
    let dl := (AL.get? d1.layers ln).getD {}
    let (dl', l') := saveLayer s.zip tD tS dl l
    setLayer { s with disk := { d1 with layers := AL.set d1.layers ln dl' } } ln l'

def retimeFiles {κ : Type} (t : Time) (files : List (κ × File)) : List (κ × File) :=
  files.map fun p => (p.1, { p.2 with mtime := t })

/-- a rewritten zip archive: every file gets the time of the rewrite -/
def retime (t : Time) (d : Disk) : Disk :=
  { d with parts := retimeFiles t d.parts, images := retimeFiles t d.images, data := retimeFiles t d.data,
           layers := d.layers.map fun p => (p.1, { p.2 with glifs := retimeFiles t p.2.glifs }) }

/-- `_fontSaveWasCompleted`: a new reader, every layer bound to its glyph set in it -/
def rebindAll (s : State) : State :=
  { s with reader := s.disk
           font := { s.font with layers := s.font.layers.map fun p =>
             (p.1, { p.2 with gs := some ⟨p.1, glifNames s.disk p.1, true⟩ }) } }

def save (s : State) (tD tS : Time) : Except Err State :=
  let s1 := savePart tD tS true s .info
  let s2 := savePart tD tS true s1 .groups
  let s3 := savePart tD tS false s2 .kerning
  let s4 := savePart tD tS true s3 .lib
  let s5 := savePart tD tS false s4 .features
  let s6 := saveFS tD tS s5 true
  let s7 := saveFS tD tS s6 false
  if replayHazard s.disk s.font.history then .error .outsideDomain else
  let s8 : State := { s7 with disk := s7.font.history.foldl applyAction s7.disk }
  let s9 := s7.font.order.foldl (saveOneLayer tD tS) s8
  -- writeLayerContents(layerOrder): the names must be those of the glyph sets that exist
  if (layerNames s9.disk).all (· ∈ s9.font.order) then
    let layers := s9.font.order.filterMap fun n => (AL.get? s9.disk.layers n).map fun dl => (n, dl)
    let d1 : Disk := { s9.disk with layers := layers }
    -- a rewritten zip archive: every entry gets the time of the rewrite (the harness then sets the
    -- times of the archive to `tD`, while the reader the font has just opened still sees `tS`)
    let d2 := if s.zip then retime tD d1 else d1
    let s10 := rebindAll { s9 with disk := d2
                                   font := { s9.font with history := (s9.font.order.filter (some · ≠ s9.font.default)).map Action.new } }
    .ok (if s.zip then { s10 with reader := retime tS d1 } else s10)
  else .error .outsideDomain

/-! ## Save-as: `Font.save(newPath)` to a path where nothing exists, same structure.  The new UFO is
written from memory: every top-level object is loaded (from the old UFO) and written, every glyph
of every layer is loaded (through the layer's bound glyph set) and written, loaded images and data
are written, the ones never loaded are copied from the old UFO as it is now; what was scheduled for
deletion is simply not written and the schedules are dropped.  Afterwards the font is bound to the
new UFO (`disk` then is the new UFO; the old one is no longer part of the state). -/

def visibleKeys (l : MLayer) : List String := l.keys.filter fun gn => !AL.contains l.sched gn

/-- `for glyph in self: pass` -/
def loadGlyphs (ln : String) : State → List String → Except Err State
  | s, [] => .ok s
  | s, gn :: rest =>
    match getGlyph s ln gn with
    | .error e => .error e
    | .ok (s1, _) => loadGlyphs ln s1 rest

def loadLayers : State → List String → Except Err State
  | s, [] => .ok s
  | s, ln :: rest =>
    match getLayer s ln with
    | none => .error .keyError
    | some l =>
      match loadGlyphs ln s (visibleKeys l) with
      | .error e => .error e
      | .ok s1 => loadLayers s1 rest

def saveAsPart (s : State) (tD : Time) (p : Part) : Option (Part × File) :=
  match getPart s p with
  | some mp => if mp.value = 0 ∧ p ≠ .info then none else some (p, ⟨mp.value, tD⟩)
  | none => none

/-- a loaded entry is written; one that was never loaded is copied from the old UFO if it is there -/
def saveAsFile (old : List (String × File)) (tD : Time) (p : String × Entry) : Option (String × File) :=
  match p.2.data with
  | some b => some (p.1, ⟨b, tD⟩)
  | none => (AL.get? old p.1).map fun f => (p.1, ⟨f.blob, tD⟩)

def saveAsEntry (tM : Time) (p : String × Entry) : String × Entry :=
  match p.2.data with
  | some b => (p.1, { p.2 with dirty := false, onDisk := true, modTime := some tM, digest := some b })
  | none => p

def saveAsFS (tM : Time) (fs : FileSet) : FileSet := { entries := fs.entries.map (saveAsEntry tM), sched := [] }

def saveAsGlif (tD : Time) (p : String × MGlyph) : String × File := (p.1, ⟨p.2.value, tD⟩)

def saveAsDLayer (tD : Time) (l : MLayer) : DLayer := { info := l.info, glifs := l.glyphs.map (saveAsGlif tD) }

def saveAsGlyph (tM : Time) (p : String × MGlyph) : String × MGlyph :=
  (p.1, { p.2 with dirty := false, stamp := some ⟨p.2.value, tM⟩ })

def saveAsMLayer (tM : Time) (ln : String) (l : MLayer) : MLayer :=
  { l with glyphs := l.glyphs.map (saveAsGlyph tM), sched := [], infoStamp := some l.info,
           gs := some ⟨ln, AL.keys l.glyphs, true⟩ }

def saveAsLayerEntry (s : State) (tD : Time) (ln : String) : Option (String × DLayer) :=
  (getLayer s ln).map fun l => (ln, saveAsDLayer tD l)

/-- the UFO a save-as writes, from the font with everything loaded -/
def saveAsDisk (s : State) (tD : Time) : Disk :=
  { parts := allParts.filterMap (saveAsPart s tD)
    layers := s.font.order.filterMap (saveAsLayerEntry s tD)
    default := s.font.default
    images := s.font.images.entries.filterMap (saveAsFile s.disk.images tD)
    data := s.font.data.entries.filterMap (saveAsFile s.disk.data tD) }

def saveAsMPart (zip : Bool) (tS : Time) (d : Disk) (p : Part × MPart) : Part × MPart :=
  (p.1, { p.2 with dirty := false, stamp := stampW zip tS d p.1 })

def saveAsMLayer' (tM : Time) (p : String × MLayer) : String × MLayer := (p.1, saveAsMLayer tM p.1 p.2)

/-- the font after a save-as that wrote `d` -/
def saveAsFont (zip : Bool) (tD tS : Time) (d : Disk) (f : Font) : Font :=
  let tM := if zip then tS else tD
  { f with parts := f.parts.map (saveAsMPart zip tS d)
           layers := f.layers.map (saveAsMLayer' tM)
           history := (f.order.filter (some · ≠ f.default)).map Action.new
           images := saveAsFS tM f.images
           data := saveAsFS tM f.data }

def saveAs (s : State) (tD tS : Time) : Except Err State :=
  let s1 := allParts.foldl loadPart s
  match loadLayers s1 s1.font.order with
  | .error e => .error e
  | .ok s2 =>
    let d := saveAsDisk s2 tD
    .ok { s2 with disk := d, reader := if s.zip then retime tS d else d, font := saveAsFont s.zip tD tS d s2.font }


/-! ## `testForExternalChanges` -/

/-- `_testFontDataForExternalModifications` (after the F7 fix): an absent file is a change iff there
was one; otherwise the modification time is compared first, the bytes only when it differs -/
def partChanged (d : Disk) (p : Part) (st : PStamp) : Bool :=
  match AL.get? d.parts p with
  | none => st.data.isSome
  | some f => f.mtime != st.time && some f.blob != st.data

/-- does the file differ from the stamp: time first, then bytes -/
def fileChanged (f : File) (st : File) : Bool := f.mtime != st.mtime && f.blob != st.blob

/-- is `gn`, a name on disk that is not among the keys, a new glyph?  Not when it is scheduled for
deletion and still the file that was scheduled (F9 fix: time first, then the GLIF text) -/
def isAddedGlyph (d : Disk) (ln : String) (l : MLayer) (gn : String) : Bool :=
  decide (gn ∉ l.keys) &&
  (match AL.get? l.sched gn with
    | none => true
    | some none => true
    | some (some st) =>
      match glifOf d ln gn with
      | some f => fileChanged f st
      | none => false)

def layerAdded (d : Disk) (ln : String) (l : MLayer) : List String :=
  (glifNames d ln).filter (isAddedGlyph d ln l)

def layerDeleted (d : Disk) (ln : String) (l : MLayer) : List String :=
  l.keys.filter fun gn => decide (gn ∉ glifNames d ln)

/-- a loaded glyph is modified when it carries a stamp (fix 7) and its file differs from it -/
def isModifiedGlyph (d : Disk) (ln : String) (p : String × MGlyph) : Option String :=
  match glifOf d ln p.1, p.2.stamp with
  | some f, some st => if fileChanged f st then some p.1 else none
  | _, _ => none

def layerModified (d : Disk) (ln : String) (l : MLayer) : List String :=
  l.glyphs.filterMap (isModifiedGlyph d ln)

/-- `Layer.testForExternalChanges`: (modified, added, deleted) against layer `ln` of the disk -/
def layerTest (d : Disk) (ln : String) (l : MLayer) : List String × List String × List String :=
  (layerModified d ln l, layerAdded d ln l, layerDeleted d ln l)

/-- the layer after its test: bound to a glyph set of the new reader (contents rebuilt), the
added names taken into the keys and unscheduled -/
def layerAfterTest (d : Disk) (ln : String) (l : MLayer) : MLayer :=
  let added := layerAdded d ln l
  { l with keys := added.foldl setAdd l.keys
           sched := added.foldl (fun sc gn => AL.erase sc gn) l.sched
           gs := some ⟨ln, glifNames d ln, true⟩ }

def wasDeletedInMemory (h : List Action) (n : String) : Bool := decide (Action.delete n ∈ h)

/-- a file on disk that is not listed: new, unless it is scheduled for deletion and still the file
that was scheduled (fix 6: time first, then the digest) -/
def isAddedFile (files : List (String × File)) (fs : FileSet) (n : String) : Bool :=
  !AL.contains fs.entries n &&
  (match AL.get? fs.sched n with
    | none => true
    | some e =>
      !e.onDisk ||
      (match AL.get? files n with
        | some f => decide (e.modTime ≠ some f.mtime) && decide (e.digest ≠ some f.blob)
        | none => false))

/-- a loaded entry whose file differs from what was read / written (fix 6: `onDiskDigest`) -/
def isModifiedFile (files : List (String × File)) (p : String × Entry) : Option String :=
  match AL.get? files p.1, p.2.data with
  | some f, some _ => if p.2.modTime ≠ some f.mtime ∧ p.2.digest ≠ some f.blob then some p.1 else none
  | _, _ => none

def isDeletedFile (files : List (String × File)) (p : String × Entry) : Option String :=
  if AL.contains files p.1 = false ∧ p.2.onDisk = true then some p.1 else none

/-- `ImageSet/DataSet.testForExternalChanges` -/
def fsTest (files : List (String × File)) (fs : FileSet) : SetRep :=
  { modified := fs.entries.filterMap (isModifiedFile files)
    added := (AL.keys files).filter (isAddedFile files fs)
    deleted := fs.entries.filterMap (isDeletedFile files) }

def layerRep (d : Disk) (ln : String) (l : MLayer) (dl : DLayer) : LayerRep :=
  { info := decide (l.infoStamp ≠ some dl.info), modified := layerModified d ln l, added := layerAdded d ln l,
    deleted := layerDeleted d ln l }

def LayerRep.isEmpty (r : LayerRep) : Bool :=
  !r.info && r.modified.isEmpty && r.added.isEmpty && r.deleted.isEmpty

def partsReport (s : State) : List (Part × Option Bool) :=
  allParts.map fun p => (p, (getPart s p).map fun mp => partChanged s.disk p mp.stamp)

/-- layers on disk that the layer set does not hold, unless it has deleted them itself -/
def layersAdded (s : State) : List String :=
  (layerNames s.disk).filter fun n => decide (n ∉ s.font.order) && !wasDeletedInMemory s.font.history n

def layersDeleted (s : State) : List String :=
  s.font.order.filter fun n => decide (n ∉ layerNames s.disk)

def layerEntry (s : State) (ln : String) : Option (String × LayerRep) :=
  match AL.get? s.disk.layers ln, AL.get? s.font.layers ln with
  | some dl, some l =>
    let r := layerRep s.disk ln l dl
    if r.isEmpty then none else some (ln, r)
  | _, _ => none

def layersModified (s : State) : List (String × LayerRep) := s.font.order.filterMap (layerEntry s)

/-- the dictionary `Font.testForExternalChanges` returns -/
def report (s : State) : Report :=
  { parts := partsReport s
    defaultLayer := decide (s.font.default ≠ s.disk.default)
    order := decide (layerNames s.disk ≠ s.font.order)
    added := layersAdded s
    deleted := layersDeleted s
    modified := layersModified s
    images := fsTest s.disk.images s.font.images
    data := fsTest s.disk.data s.font.data }

/-- the state after the test (F6 fix): the new reader becomes the font's reader; layers on disk are
re-bound to it, the glyph sets of the others belong to the reader that was closed -/
def closeGS (l : MLayer) : MLayer := { l with gs := l.gs.map fun g => { g with alive := false } }

def layerAfterTest' (s : State) (p : String × MLayer) : String × MLayer :=
  if AL.contains s.disk.layers p.1 = true ∧ p.1 ∈ s.font.order then (p.1, layerAfterTest s.disk p.1 p.2)
  else (p.1, closeGS p.2)

def afterTest (s : State) : State :=
  { s with reader := s.disk, font := { s.font with layers := s.font.layers.map (layerAfterTest' s) } }

def test (s : State) : State × Report :=
  let r := report s
  ({ afterTest s with lastReport := some r }, r)

/-! ## Reloading -/

/-- `reloadInfo/Kerning/Groups/Features/Lib` -/
def reloadPart (s : State) (p : Part) : State :=
  match getPart s p with
  | none => loadPart s p
  | some mp =>
    let v := readPart s.disk p
    setPart s p ⟨v, dirtyAfterSet p mp v, stampOf s.disk p⟩

/-- run `f` over the list, stopping at the first exception -/
def seqE {α : Type} (f : State → α → State × Option Err) : State → List α → State × Option Err
  | s, [] => (s, none)
  | s, x :: xs =>
    match f s x with
    | (s1, some e) => (s1, some e)
    | (s1, none) => seqE f s1 xs

/-- `reloadImages / reloadData` for one name (after fix C05-r3-2: a pending deletion of the name is
dropped — it concerned the file that the one taken over now has replaced) -/
def reloadFile (img : Bool) (s : State) (n : String) : State × Option Err :=
  let fs := getFS s img
  let s1 := setFS s img { entries := AL.set fs.entries n ({} : Entry), sched := AL.erase fs.sched n }
  match fsLoad s1 img n with
  | .error e => (s1, some e)
  | .ok (s2, _) => (s2, none)

/-- `Layer.reloadGlyphs` for one name (after the reset fix) -/
def reloadGlyph (ln : String) (s : State) (gn : String) : State × Option Err :=
  match getLayer s ln with
  | none => (s, some .keyError)
  | some l =>
    match AL.get? l.glyphs gn with
    | none =>
      match loadGlyph s ln l gn with
      | .error e => (s, some e)
      | .ok (s1, _) => (s1, none)
    | some g =>
      match l.gs with
      | none => (s, some .outsideDomain)
      | some b =>
        -- `readGlyph` looks the file name up in the glyph set's contents first (KeyError)
        match (if gn ∈ b.contents then gsRead s b gn else .error .keyError) with
        | .error e =>
          -- the glyph has been emptied before the read fails
          (setLayer s ln { l with glyphs := AL.set l.glyphs gn { g with value := s.emptyGlyph, dirty := true } }, some e)
        | .ok f => (setLayer s ln { l with glyphs := AL.set l.glyphs gn ⟨f.blob, false, some f⟩ }, none)

/-- the end of `Layer.reloadGlyphs`: `componentReferences` reads every glyph of the bound glyph set
that is neither loaded nor scheduled for deletion -/
def scanUnloaded (s : State) (ln : String) : Option Err :=
  match getLayer s ln with
  | none => none
  | some l =>
    match l.gs with
    | none => none
    | some g =>
      let names := g.contents.filter fun gn => !AL.contains l.glyphs gn && !AL.contains l.sched gn
      if names.isEmpty then none
      else if !g.alive then some .filesystemClosed
      else if names.all fun gn => (glifOf (view s) g.lname gn).isSome then none
      else some .glifLibError

/-- one entry of `layerData["layers"]`: (name, reload info?, glyph names); `cur`: the layer order
when `reloadLayers` started -/
def reloadLayerEntry (cur : List String) (s : State) (e : String × Bool × List String) : State × Option Err :=
  let ln := e.1
  let r1 : State × Option Err :=
    if ln ∈ cur then (s, none)
    else
      -- a layer added on disk: bound to a glyph set of the font's reader (fix 8)
      match AL.get? (view s).layers ln with
      | none => (s, some .ufoLibError)
      | some dl =>
        if AL.contains s.font.layers ln then (s, some .keyError)
        else
          let l : MLayer := openLayer ln dl
          ({ s with font := { s.font with layers := AL.set s.font.layers ln l, order := s.font.order ++ [ln],
                                            history := s.font.history ++ [.new ln] } }, none)
  match r1 with
  | (s1, some err) => (s1, some err)
  | (s1, none) =>
    match getLayer s1 ln with
    | none => (s1, some .keyError)
    | some l =>
      let r2 : State × Option Err :=
        if e.2.1 then
          match l.gs with
          | none => (s1, some .outsideDomain)
          | some g =>
            if !g.alive then (s1, some .filesystemClosed)
            else
              let v := ((AL.get? (view s1).layers g.lname).map (·.info)).getD 0
              (setLayer s1 ln { l with info := v, infoStamp := some v }, none)
        else (s1, none)
      match r2 with
      | (s2, some err) => (s2, some err)
      | (s2, none) =>
        if e.2.2.isEmpty then (s2, none)
        else
          match seqE (reloadGlyph ln) s2 e.2.2 with
          | (s3, some err) => (s3, some err)
          | (s3, none) => (s3, scanUnloaded s3 ln)

def exceptToPair (s : State) (r : Except Err State) : State × Option Err :=
  match r with
  | .ok s' => (s', none)
  | .error e => (s, some e)

/-- `LayerSet.reloadLayers` (after fixes 8 and 9) -/
def reloadLayers (s : State) (order default : Bool) (entries : List (String × Bool × List String)) : State × Option Err :=
  match seqE (reloadLayerEntry s.font.order) s entries with
  | (s1, some e) => (s1, some e)
  | (s1, none) =>
    let r2 : State × Option Err :=
      if order then
        let onDisk := (layerNames s1.disk).filter fun n => AL.contains s1.font.layers n
        exceptToPair s1 (setOrder s1 (onDisk ++ s1.font.order.filter fun n => decide (n ∉ onDisk)))
      else (s1, none)
    match r2 with
    | (s2, some e) => (s2, some e)
    | (s2, none) =>
      if default then
        match s2.disk.default with
        | none => (s2, some .ufoLibError)
        | some dn =>
          match setDefault s2 dn with
          | .error e => (s2, some e)
          | .ok s3 =>
            -- fix 10: the default layer now is the one of the UFO; the recorded changes are forgotten
            ({ s3 with font := { s3.font with history := s3.font.history.filter fun a =>
                match a with
                | .default _ _ => false
                | _ => true } }, none)
      else (s2, none)

/-! ### what the harness does with a report: "the corresponding reload methods" -/

def insertStr (x : String) : List String → List String
  | [] => [x]
  | y :: ys => if x < y then x :: y :: ys else if x = y then y :: ys else y :: insertStr x ys

/-- `sorted(set(l))` -/
def sortStr (l : List String) : List String := l.foldr insertStr []

def partFlag (r : Report) (p : Part) : Bool := (AL.get? r.parts p).getD none == some true

def reloadPartIf (r : Report) (s : State) (p : Part) : State := if partFlag r p then reloadPart s p else s

/-- reload everything the last report names -/
def reloadAuto (s : State) : State × Option Err :=
  match s.lastReport with
  | none => (s, none)
  | some r =>
    let s1 := [Part.groups, .kerning, .info, .features, .lib].foldl (reloadPartIf r) s
    match seqE (reloadFile true) s1 (sortStr (r.images.modified ++ r.images.added)) with
    | (s2, some e) => (s2, some e)
    | (s2, none) =>
      match seqE (reloadFile false) s2 (sortStr (r.data.modified ++ r.data.added)) with
      | (s3, some e) => (s3, some e)
      | (s3, none) =>
        let added := (sortStr r.added).map fun ln => (ln, false, ([] : List String))
        let modified := (sortStr (AL.keys r.modified)).filterMap fun ln =>
          (AL.get? r.modified ln).map fun lr => (ln, lr.info, sortStr (lr.modified ++ lr.added))
        if added.isEmpty ∧ modified.isEmpty ∧ r.order = false ∧ r.defaultLayer = false then (s3, none)
        else reloadLayers s3 r.order r.defaultLayer (added ++ modified)

/-- take over the deletions the last report names: `del layer[glyph]`, `del font.layers[layer]` -/
def acceptDeleted (s : State) : State × Option Err :=
  match s.lastReport with
  | none => (s, none)
  | some r =>
    let glyphs : List (String × String) := (sortStr (AL.keys r.modified)).flatMap fun ln =>
      match AL.get? r.modified ln with
      | none => []
      | some lr => (sortStr lr.deleted).map fun gn => (ln, gn)
    let delG (s : State) (p : String × String) : State × Option Err :=
      match getLayer s p.1 with
      | none => (s, none)
      | some l => if inLayer l p.2 then delGlyph s p.1 p.2 else (s, none)
    match seqE delG s glyphs with
    | (s1, some e) => (s1, some e)
    | (s1, none) =>
      let delL (s : State) (ln : String) : State × Option Err :=
        if AL.contains s.font.layers ln ∧ s.font.default ≠ some ln then exceptToPair s (delLayer s ln) else (s, none)
      seqE delL s1 (sortStr r.deleted)


/-! ## Another program edits the UFO.  `t = some k`: the files it writes get the modification time
`k`; `t = none`: a rewritten file keeps the time it has (a byte change no time stamp reveals).
Every function returns `none` when the edit does not apply to what is on disk. -/

inductive XAct where
  | write (b : Blob)
  | touch
  | delete
deriving DecidableEq, Repr

/-- the time a rewritten file gets: the given one, or the one the file has -/
def xTime (cur : Option File) (t : Option Time) : Option Time :=
  match t with
  | some k => some k
  | none => cur.map (·.mtime)

def xFile {κ : Type} [DecidableEq κ] (zip : Bool) (files : List (κ × File)) (n : κ) (a : XAct) (t : Option Time) :
    Option (List (κ × File)) :=
  match a with
  | .write b => (xTime (AL.get? files n) t).map fun tt => AL.set files n ⟨b, tt⟩
  | .touch =>
    match AL.get? files n with
    | none => none
    | some f => some (AL.set files n ⟨f.blob, t.getD f.mtime⟩)
  | .delete => if AL.contains files n then some (AL.erase files n) else none

def xPart (zip : Bool) (d : Disk) (p : Part) (a : XAct) (t : Option Time) : Option Disk :=
  match a with
  | .write 0 => if p ≠ .info then none
                else (xFile zip d.parts p a t).map fun ps => { d with parts := ps }
  | _ => (xFile zip d.parts p a t).map fun ps => { d with parts := ps }

def xGlyph (zip : Bool) (d : Disk) (ln gn : String) (a : XAct) (t : Option Time) : Option Disk :=
  match AL.get? d.layers ln with
  | none => none
  | some dl =>
    let go : Option (List (String × File)) :=
      match a, t with
      | .write _, _ => xFile zip dl.glifs gn a t
      | _, none => none
      | _, some _ => xFile zip dl.glifs gn a t
    go.map fun gl => { d with layers := AL.set d.layers ln { dl with glifs := gl } }

def xLayerInfo (d : Disk) (ln : String) (v : Blob) : Option Disk :=
  match AL.get? d.layers ln with
  | none => none
  | some dl => some { d with layers := AL.set d.layers ln { dl with info := v } }

def xSetFile (zip : Bool) (d : Disk) (img : Bool) (n : String) (a : XAct) (t : Option Time) : Option Disk :=
  (xFile zip (fsFiles d img) n a t).map (setDiskFiles d img)

def xLayerAdd (d : Disk) (ln : String) (glyphs : List (String × Blob)) (t : Time) : Option Disk :=
  if AL.contains d.layers ln then none
  else some { d with layers := d.layers ++ [(ln, { info := 0, glifs := glyphs.map fun p => (p.1, ⟨p.2, t⟩) })] }

def xLayerDelete (d : Disk) (ln : String) : Option Disk :=
  if AL.contains d.layers ln = false ∨ d.default = some ln then none
  else some { d with layers := AL.erase d.layers ln }

def xLayerOrder (d : Disk) (order : List String) : Option Disk :=
  if sortStr order = sortStr (layerNames d) ∧ order.length = d.layers.length then
    some { d with layers := order.filterMap fun n => (AL.get? d.layers n).map fun dl => (n, dl) }
  else none

def xLayerDefault (d : Disk) (ln : String) : Option Disk :=
  if AL.contains d.layers ln = false ∨ d.default = some ln then none
  else some { d with default := some ln }

/-! ## Opening the font, operations, step -/

/-- `Font(path)`: the layers are created (keys, layer info read and stamped, glyph sets bound);
images and data are listed; nothing else is read -/
def openFont (zip : Bool) (d : Disk) (empty : Blob) : State :=
  { zip := zip, disk := d, reader := d, emptyGlyph := empty
    font := {
      layers := d.layers.map fun p => (p.1, openLayer p.1 p.2)
      order := layerNames d
      default := d.default
      history := (layerNames d).map Action.new ++ (match d.default with
        | some n => [Action.default n none]
        | none => [])
      images := { entries := d.images.map fun p => (p.1, ({} : Entry)) }
      data := { entries := d.data.map fun p => (p.1, ({} : Entry)) } } }

inductive Op where
  | touch (p : Part)
  | pset (p : Part) (v : Blob)
  | gget (ln gn : String)
  | gnew (ln gn : String)
  | gset (ln gn : String) (v : Blob)
  | gdel (ln gn : String)
  | grename (ln old new : String)
  | lnew (ln : String)
  | ldel (ln : String)
  | lorder (o : List String)
  | ldefault (ln : String)
  | lset (ln : String) (v : Blob)
  | fset (img : Bool) (n : String) (b : Option Blob)
  | fget (img : Bool) (n : String)
  | save (tD tS : Time)
  | saveas (tD tS : Time)
  | xpart (p : Part) (a : XAct) (t : Option Time)
  | xglyph (ln gn : String) (a : XAct) (t : Option Time)
  | xlinfo (ln : String) (v : Blob)
  | xfile (img : Bool) (n : String) (a : XAct) (t : Option Time)
  | xladd (ln : String) (glyphs : List (String × Blob)) (t : Time)
  | xldel (ln : String)
  | xlorder (o : List String)
  | xldefault (ln : String)
  | test
  | reload
  | acceptdel
  | reloadpart (p : Part)
  | reloadglyphs (ln : String) (names : List String)
  | reloadfiles (img : Bool) (names : List String)
deriving Repr

inductive Res where
  | ok
  | noop
  | blob (b : Blob)
  | oblob (b : Option Blob)
  | report (r : Report)
  /-- the UFO as it is on disk now -/
  | disk
  | glyphs (l : List (String × Blob))
  | err (e : Err)
deriving Repr

def ofExcept (s : State) (r : Except Err State) : State × Res :=
  match r with
  | .ok s' => (s', .ok)
  | .error e => (s, .err e)

def ofPair (r : State × Option Err) : State × Res :=
  match r.2 with
  | none => (r.1, .ok)
  | some e => (r.1, .err e)

def ofDisk (s : State) (d : Option Disk) : State × Res :=
  match d with
  | some d' => ({ s with disk := d' }, .ok)
  | none => (s, .noop)

def step (s : State) : Op → State × Res
  | .touch p => let s1 := loadPart s p; (s1, .blob (((getPart s1 p).map (·.value)).getD 0))
  | .pset p v => (psetPart s p v, .ok)
  | .gget ln gn =>
    match getGlyph s ln gn with
    | .ok (s1, g) => (s1, .blob g.value)
    | .error e => (s, .err e)
  | .gnew ln gn => ofExcept s (newGlyph s ln gn)
  | .gset ln gn v => ofExcept s (setGlyph s ln gn v)
  | .gdel ln gn => ofPair (delGlyph s ln gn)
  | .grename ln old new => ofPair (renameGlyph s ln old new)
  | .lnew ln => ofExcept s (newLayer s ln)
  | .ldel ln => ofExcept s (delLayer s ln)
  | .lorder o => ofExcept s (setOrder s o)
  | .ldefault ln => ofExcept s (setDefault s ln)
  | .lset ln v => ofExcept s (setLayerInfo s ln v)
  | .fset img n (some b) => ofPair (fsSet s img n b)
  | .fset img n none => ofPair (fsDel s img n)
  | .fget img n =>
    match fsLoad s img n with
    | .ok (s1, b) => (s1, .oblob b)
    | .error e => (s, .err e)
  | .save tD tS =>
    match save s tD tS with
    | .ok s1 => (s1, .disk)
    | .error e => (s, .err e)
  | .saveas tD tS =>
    match saveAs s tD tS with
    | .ok s1 => (s1, .disk)
    | .error e => (s, .err e)
  | .xpart p a t => ofDisk s (xPart s.zip s.disk p a t)
  | .xglyph ln gn a t => ofDisk s (xGlyph s.zip s.disk ln gn a t)
  | .xlinfo ln v => ofDisk s (xLayerInfo s.disk ln v)
  | .xfile img n a t => ofDisk s (xSetFile s.zip s.disk img n a t)
  | .xladd ln gl t => ofDisk s (xLayerAdd s.disk ln gl t)
  | .xldel ln => ofDisk s (xLayerDelete s.disk ln)
  | .xlorder o => ofDisk s (xLayerOrder s.disk o)
  | .xldefault ln => ofDisk s (xLayerDefault s.disk ln)
  | .test => let r := test s; (r.1, .report r.2)
  | .reload => if s.lastReport.isNone then (s, .noop) else ofPair (reloadAuto s)
  | .acceptdel => if s.lastReport.isNone then (s, .noop) else ofPair (acceptDeleted s)
  | .reloadpart p => let s1 := reloadPart s p; (s1, .blob (((getPart s1 p).map (·.value)).getD 0))
  | .reloadglyphs ln names =>
    match reloadLayers s false false [(ln, false, names)] with
    | (s1, none) =>
      (s1, .glyphs (names.filterMap fun gn =>
        match getLayer s1 ln with
        | none => none
        | some l => (AL.get? l.glyphs gn).map fun g => (gn, g.value)))
    | (s1, some e) => (s1, .err e)
  | .reloadfiles img names => ofPair (seqE (reloadFile img) s names)

def run (s : State) (ops : List Op) : State := ops.foldl (fun s op => (step s op).1) s

end Ext
end DefconModel
