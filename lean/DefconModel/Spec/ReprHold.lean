/-
Specification side of the hold model (`ReprHold.lean`): what is guaranteed while the user holds notifications.

Inside a hold a cached value may be stale (`Props.C03.stale_inside_hold`).  What the code guarantees is `InvH`: every
cached value is what the factory computes now, OR a post that would destroy it is waiting in the queue of a hold -
so that, once every hold is released, nothing stale is left (`Props.C03.release_restores`).
-/
import DefconModel.ReprHold
import DefconModel.Spec.Repr

namespace DefconModel
namespace Repr

variable {V : Type}

/-- `postFrom` with the fuel and the layer spelled out: everything a post of `ns` by `o` delivers when nothing is held -/
def postAt (n : Nat) (T : Tables) (gs : Layer) (o : Obj) (ns : List String) : List (Obj × String) :=
  match o with
  | .contour cid =>
    match hostOfContour gs cid with
    | some h => contourDeliv n T gs h.1 cid ns
    | none => []
  | .comp kid =>
    match hostOfComp gs kid with
    | some h => compDeliv n T gs h.1 kid ns
    | none => []
  | .glyph a => if AL.contains gs a then glyphDeliv n T gs a ns else []
  | .groups => ns.map fun x => (Obj.groups, x)

/-- one of the queued posts `Q`, delivered in full in the structure of `w`, destroys what is cached under `nm` on `o` -/
def OwedBy (T : Tables) (w : World V) (Q : List (Obj × List String)) (o : Obj) (nm : String) : Prop :=
  ∃ q, q ∈ Q ∧ (postAt w.fuel T w.glyphs q.1 q.2).any (fun e => hitB T w.regs e o nm) = true

/-- never stale, up to what the holds still owe -/
def CoherentUpTo (P : Params V) (T : Tables) (w : World V) (Q : List (Obj × List String)) : Prop :=
  ∀ o name sk v, (cacheOf w o).get? name sk = some v → v = fresh P T w o name sk ∨ OwedBy T w Q o name

structure InvH (P : Params V) (T : Tables) (hw : HWorld V) : Prop where
  coh : CoherentUpTo P T hw.w hw.queue
  loose : LooseEmpty hw.w
  creg : CachedRegistered T hw.w
  rdef : RegsDefault T hw.w
  /-- whatever is queued was posted by an observable that is still held -/
  qheld : ∀ q, q ∈ hw.queue → hw.held q.1 = true
  /-- nothing is disabled (a disabled observable's posts are lost, see `disable_loses_eviction`) -/
  nodis : hw.disabled = []

/-- the operations the guarantee speaks about: holds and releases, no disables (a disabled observable's posts are lost for
good).  Whatever `hstep` does not model while something is held (structural operations, registrations) answers `(err held)`
and changes nothing. -/
def HOp.okIn (_hw : HWorld V) : HOp → Bool
  | .disable _ => false
  | .enable _ => false
  | _ => true

end Repr
end DefconModel
