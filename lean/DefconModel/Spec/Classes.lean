/-
Specification side of M-Classes (C15).

1. A SYMBOLIC value domain `AVal` ("which registration does this value come from") and the symbolic
   twins of the model's functions.  The wiring never inspects a class — it only moves values, tests them
   for `None` and replaces `None` by a constant — so every run of the model is the image of ONE symbolic
   run under `interp cfg` (the parametricity lemma, `Lemmas/Classes.lean`).
2. The CATALOGUE: for every creation site of the regenerated table, the role of what it creates and
   whether the product is handed out; and the table of CREATION PATHS the property lists, as
   compositions of sites.
3. `check`: a decidable certificate over a wiring and a finite set of symbolic objects, from which the
   theorems of `Props/C15.lean` follow for ALL configurations and ALL creation chains.
-/
import DefconModel.Classes

namespace DefconModel
namespace Classes

/-! ## 1. Symbolic values -/

/-- A class-or-None value, described by where it comes from. -/
inductive AVal where
  | param (r : Role)                -- whatever was registered for `r`; `None` when `r` is not customised
  | paramOr (r : Role) (c : CName)  -- the class registered for `r`, else defcon's class `c`
  | const (c : CName)               -- defcon's class `c`, whatever was registered
  | none                            -- `None`
deriving DecidableEq, Repr

def interp (cfg : Cfg) : AVal → Option Val
  | .param r => registered cfg r
  | .paramOr r c => some (match cfg r with
      | some i => .user i (dfltName r)
      | none => .builtin c)
  | .const c => some (.builtin c)
  | .none => Option.none

def aorDefault : AVal → CName → AVal
  | .param r, c => .paramOr r c
  | .paramOr r c', _ => .paramOr r c'
  | .const c', _ => .const c'
  | .none, c => .const c

/-- the defcon class whose code runs, when that does not depend on the configuration -/
def abase : AVal → Option CName
  | .param _ => Option.none
  | .paramOr r c => if c = dfltName r then some c else Option.none
  | .const c => some c
  | .none => Option.none

/-- the value is a class with a configuration-independent base, or `None` for every configuration -/
def determinate : AVal → Bool
  | .param _ => false
  | .paramOr r c => c = dfltName r
  | .const _ => true
  | .none => true

abbrev ASlots := List (Attr × AVal)

def alook (l : List (Ident × AVal)) (k : Ident) : AVal := (AL.get? l k).getD .none

def aexecInit : List InitStmt → List (Ident × AVal) → ASlots → ASlots
  | [], _, slots => slots
  | .dflt p c :: r, locals, slots => aexecInit r (AL.set locals p (aorDefault (alook locals p) c)) slots
  | .force p c :: r, locals, slots => aexecInit r (AL.set locals p (.const c)) slots
  | .store a p :: r, locals, slots => aexecInit r locals (AL.set slots a (alook locals p))

def arunInit (cd : ClassDef) (args : List (Ident × AVal)) : ASlots :=
  aexecInit cd.init (cd.params.map fun p => (p, alook args p)) []

structure AObj where
  cd : CName
  self : AVal
  slots : ASlots
deriving DecidableEq, Repr

def aevalSrc (cd : ClassDef) (o : AObj) (s : Src) : AVal :=
  match slotOf cd s with
  | some a => alook o.slots a
  | Option.none => .none

def aevalCls (cd : ClassDef) (o : AObj) : ClsExpr → AVal
  | .slot a => alook o.slots a
  | .prop p => match AL.get? cd.props p with
    | some a => alook o.slots a
    | Option.none => .none
  | .sameClass => o.self
  | .hard c => .const c

def aclassAt (w : Wiring) (o : AObj) (s : Site) : AVal :=
  if s.owner = o.cd then
    match w.classDef o.cd with
    | some cd => aevalCls cd o s.cls
    | Option.none => .none
  else .none

def astep (w : Wiring) (o : AObj) (s : Site) : Option AObj :=
  if s.owner = o.cd then
    match w.classDef o.cd with
    | Option.none => Option.none
    | some cd =>
      match abase (aevalCls cd o s.cls) with
      | Option.none => Option.none
      | some b =>
        match w.classDef b with
        | Option.none => Option.none
        | some cd' => some ⟨cd'.name, aevalCls cd o s.cls,
            arunInit cd' (s.kwargs.map fun kv => (kv.1, aevalSrc cd o kv.2))⟩
  else Option.none

def aroot (w : Wiring) : Option AObj :=
  match w.classDef "Font" with
  | Option.none => Option.none
  | some cd => some ⟨cd.name, .const "Font", arunInit cd (fontKw.map fun kr => (kr.1, AVal.param kr.2))⟩

/-- symbolic twin of `freeRoot`: `C(**kwargs)` called by the user with the registered classes handed in;
`self` says of which class the object itself is (defcon's own, or the one registered for its role) -/
def afreeRoot (w : Wiring) (c : CName) (self : AVal) (kws : List (Ident × Role)) : Option AObj :=
  match w.classDef c with
  | Option.none => Option.none
  | some cd => some ⟨cd.name, self, arunInit cd (kws.map fun kr => (kr.1, AVal.param kr.2))⟩

def areachFrom (w : Wiring) : Option AObj → List Site → Option AObj
  | o, [] => o
  | Option.none, _ => Option.none
  | some o, s :: r => areachFrom w (astep w o s) r

def interpObj (cfg : Cfg) (o : AObj) : Obj :=
  ⟨o.cd, (interp cfg o.self).getD (.builtin o.cd), o.slots.map fun p => (p.1, interp cfg p.2)⟩

/-- all symbolic objects creatable in at most `n` further steps -/
def explore (w : Wiring) : Nat → List AObj → List AObj
  | 0, acc => acc
  | n + 1, acc =>
    let new := (acc.flatMap fun o => w.sites.filterMap fun s => astep w o s).filter (fun o => !acc.contains o)
    explore w n (acc ++ new.eraseDups)

/-- the keywords by which a `Glyph` / a `Contour` takes its classes, with the role each carries -/
def glyphKw : List (Ident × Role) :=
  [("contourClass", .contour), ("pointClass", .point), ("componentClass", .component), ("anchorClass", .anchor),
   ("guidelineClass", .guideline), ("libClass", .lib), ("imageClass", .image)]

def contourKw : List (Ident × Role) := [("pointClass", .point)]

/-- FREE-STANDING objects: the constructors a caller may run himself, handing in the registered classes
(`Contour(pointClass=glyph.pointClass)`, `Glyph(contourClass=…, …)`), once as an object of defcon's own
class and once as an object of the class registered for its role. -/
def freeRoots : List (CName × AVal × List (Ident × Role)) := [
  ("Contour", .const "Contour", contourKw),
  ("Contour", .paramOr .contour "Contour", contourKw),
  ("Glyph", .const "Glyph", glyphKw),
  ("Glyph", .paramOr .glyph "Glyph", glyphKw)]

def canonObjs (w : Wiring) : List AObj :=
  match aroot w with
  | some o => explore w 8 ([o] ++ (freeRoots.filterMap fun t => afreeRoot w t.1 t.2.1 t.2.2).filter (fun x => x != o)).eraseDups
  | Option.none => []

/-! ## 2. Catalogue of sites and table of creation paths -/

inductive Disp where
  | handedOut (r : Role)   -- creates an object of role `r` that the font hands out
  | guard (r : Role)       -- `isinstance(x, cls)` deciding whether `x` is already of role `r`'s class
  | scratch                -- creates a temporary that never leaves the method (or is not a font part)
deriving DecidableEq, Repr

/-- Every creation site of the defcon sources, by id (ids are made by the extractor). -/
def catalogue : List (String × Disp) := [
  ("Font.instantiateLayerSet", .handedOut .layerSet),
  ("Font.instantiateInfo", .handedOut .info),
  ("Font.instantiateKerning", .handedOut .kerning),
  ("Font.instantiateGroups", .handedOut .groups),
  ("Font.instantiateFeatures", .handedOut .features),
  ("Font.instantiateLib", .handedOut .lib),
  ("Font.instantiateImageSet", .handedOut .imageSet),
  ("Font.instantiateDataSet", .handedOut .dataSet),
  ("Font.instantiateGuideline", .handedOut .guideline),
  ("Font.insertGuideline?isinstance", .guard .guideline),
  -- `newInfo = _ReloadedInfo()` in reloadInfo (a subclass of Info defined in font.py, seen by the extractor as a
  -- hard-coded `Info`): read from disk, compared attribute by attribute, dropped
  ("Font.reloadInfo", .scratch),
  ("LayerSet.instantiateLayer", .handedOut .layer),
  ("Layer.instantiateGlyphObject", .handedOut .glyph),
  ("Layer.instantiateLib", .handedOut .lib),
  ("Layer.instantiateUnicodeData", .handedOut .unicodeData),
  ("Glyph.instantiateContour", .handedOut .contour),
  ("Glyph.instantiateComponent", .handedOut .component),
  ("Glyph.instantiateAnchor", .handedOut .anchor),
  ("Glyph.insertAnchor?isinstance", .guard .anchor),
  ("Glyph.instantiateGuideline", .handedOut .guideline),
  ("Glyph.insertGuideline?isinstance", .guard .guideline),
  ("Glyph.instantiateLib", .handedOut .lib),
  ("Glyph.instantiateImage", .handedOut .image),
  -- `otherContour = self.__class__(glyph=None, pointClass=self.pointClass)`: only its point list survives
  ("Contour.reverse", .scratch),
  ("Contour.addPoint", .handedOut .point),
  ("Contour.removeSegment#1", .handedOut .point),
  ("Contour.removeSegment#2", .handedOut .point),
  ("Contour._splitAndInsertAtSegmentAndT", .handedOut .point),
  -- `copy.deepcopy(lib)`: a detached copy of the same class, used as a plain dict by copyDataFromGlyph
  ("BaseDictObject.__deepcopy__", .scratch),
  -- the "flattened" representation draws into a throw-away `Glyph(contourClass=contour.__class__)`
  ("contourFlattenedRepresentationFactory", .scratch)
]

def dispOf (id : String) : Option Disp := AL.get? catalogue id

/-- One step of a creation path: site `site` executed inside the object reached from the font by the
chain of site ids `via`. -/
structure PathStep where
  site : String
  via : List String
deriving DecidableEq, Repr

def toLayerSet : List String := ["Font.instantiateLayerSet"]
def toLayer : List String := toLayerSet ++ ["LayerSet.instantiateLayer"]
def toGlyph : List String := toLayer ++ ["Layer.instantiateGlyphObject"]
def toContour : List String := toGlyph ++ ["Glyph.instantiateContour"]

def fontStep (s : String) : PathStep := ⟨s, []⟩
def layerSetStep (s : String) : PathStep := ⟨s, toLayerSet⟩
def layerStep (s : String) : PathStep := ⟨s, toLayer⟩
def glyphStep (s : String) : PathStep := ⟨s, toGlyph⟩
def contourStep (s : String) : PathStep := ⟨s, toContour⟩

def fontParts : List PathStep :=
  [fontStep "Font.instantiateLayerSet", fontStep "Font.instantiateImageSet", fontStep "Font.instantiateDataSet",
   fontStep "Font.instantiateInfo", fontStep "Font.instantiateKerning", fontStep "Font.instantiateGroups",
   fontStep "Font.instantiateFeatures", fontStep "Font.instantiateLib"]

def layerParts : List PathStep :=
  [layerSetStep "LayerSet.instantiateLayer", layerStep "Layer.instantiateLib", layerStep "Layer.instantiateUnicodeData"]

def glyphShell : List PathStep :=
  [layerStep "Layer.instantiateGlyphObject", glyphStep "Glyph.instantiateLib", glyphStep "Glyph.instantiateImage"]

def outline : List PathStep :=
  [glyphStep "Glyph.instantiateContour", contourStep "Contour.addPoint", glyphStep "Glyph.instantiateComponent"]

def glyphMarks : List PathStep :=
  [glyphStep "Glyph.instantiateAnchor", glyphStep "Glyph.instantiateGuideline"]

/-- The creation paths named by the property, each as the list of sites it runs through. -/
def paths : List (String × List PathStep) := [
  -- Font(path) and reading everything (lazily loaded parts included)
  ("load", fontParts ++ [fontStep "Font.instantiateGuideline"] ++ layerParts ++ glyphShell ++ outline ++ glyphMarks),
  -- Font(), newLayer, newGlyph and the sub-objects made on first access
  ("create", fontParts ++ layerParts ++ glyphShell),
  -- Layer.insertGlyph / Font.insertGlyph / Glyph.copyDataFromGlyph with a glyph of another font
  ("insertGlyph", glyphShell ++ outline ++ glyphMarks),
  -- appendAnchor/appendGuideline/anchors=/guidelines= with dicts or foreign objects, at glyph and font level
  -- (the `isinstance(x, self._anchorClass)` guards that decide whether to convert are catalogued sites, covered
  -- by `slot_flow_identity`; they are not steps of the path, so that dropping a guard is not an alarm)
  ("dictAppend", [glyphStep "Glyph.instantiateAnchor", glyphStep "Glyph.instantiateGuideline",
                  fontStep "Font.instantiateGuideline",
                  -- a font guideline dirties `font.info`, which is created (and read) on that first access
                  fontStep "Font.instantiateInfo"]),
  -- the public factory methods called directly
  ("factory", fontParts ++ [fontStep "Font.instantiateGuideline"] ++ layerParts ++ glyphShell ++
              [glyphStep "Glyph.instantiateContour", contourStep "Contour.addPoint",
               glyphStep "Glyph.instantiateComponent"] ++ glyphMarks),
  -- glyph.getPen() / getPointPen()
  ("penDraw", outline),
  -- Contour.reverse (also through `clockwise =` and correctContourDirection): the points are re-created
  -- by `addPoint` inside the scratch contour made with `self.__class__`
  ("reverse", [contourStep "Contour.reverse", ⟨"Contour.addPoint", toContour ++ ["Contour.reverse"]⟩]),
  -- splitAndInsertPointAtSegmentAndT, removeSegment(preserveCurve=True)
  ("pointInsertion", [contourStep "Contour._splitAndInsertAtSegmentAndT", contourStep "Contour.removeSegment#1",
                      contourStep "Contour.removeSegment#2"]),
  -- decomposeComponent / decomposeAllComponents
  ("decompose", [glyphStep "Glyph.instantiateContour", contourStep "Contour.addPoint"]),
  -- reloadGlyphs / reloadLayers / reloadInfo, …Kerning, …Groups, …Features, …Lib
  ("reload", [fontStep "Font.instantiateInfo", fontStep "Font.instantiateKerning", fontStep "Font.instantiateGroups",
              fontStep "Font.instantiateFeatures", fontStep "Font.instantiateLib", fontStep "Font.instantiateGuideline"]
             ++ layerParts ++ glyphShell ++ outline ++ glyphMarks),
  -- setDataFromSerialization / deserialize at font, layer, glyph and contour level
  ("deserialize", fontParts ++ [fontStep "Font.instantiateGuideline"] ++ layerParts ++ glyphShell ++ outline ++ glyphMarks),
  -- (round 3) Layer.insertGlyph / Font.insertGlyph / copyDataFromGlyph from a font created with OTHER registered
  -- classes: everything is rebuilt by the receiving glyph's factories
  ("copyForeign", glyphShell ++ outline ++ glyphMarks),
  -- (round 3) setDataFromSerialization below the font: LayerSet (new layers), Layer (glyphs), Glyph, Contour
  ("deserializeParts", layerParts ++ glyphShell ++ outline ++ glyphMarks),
  -- (round 3) a glyph made by `layer.instantiateGlyphObject()` that is in no layer, a contour made by
  -- `glyph.instantiateContour()` that is in no glyph: pens, dict appends, image, lib, point-level API, reversal
  ("freeStanding", [layerStep "Layer.instantiateGlyphObject", glyphStep "Glyph.instantiateLib", glyphStep "Glyph.instantiateImage"]
                   ++ outline ++ glyphMarks ++
                   [contourStep "Contour._splitAndInsertAtSegmentAndT", contourStep "Contour.removeSegment#1",
                    contourStep "Contour.removeSegment#2", contourStep "Contour.reverse",
                    ⟨"Contour.addPoint", toContour ++ ["Contour.reverse"]⟩]),
  -- (round 3) a pen obtained by getPen()/getPointPen() and used after the glyph left its layer (deleted, replaced)
  ("stalePen", outline)
]

def pathSteps (name : String) : List PathStep := (AL.get? paths name).getD []

/-- the sites that create role `r` on path `name` -/
def stepsFor (name : String) (r : Role) : List PathStep :=
  (pathSteps name).filter fun st => dispOf st.site = some (.handedOut r)

/-! ## 3. The certificate -/

/-- no site of `o`'s class reads a slot/property that does not exist -/
def siteClosed (cd : ClassDef) (o : AObj) (s : Site) : Bool :=
  let okSrc (x : Src) : Bool := match x with
    | .slot a => (AL.get? o.slots a).isSome
    | .prop p => match AL.get? cd.props p with
      | some a => (AL.get? o.slots a).isSome
      | Option.none => false
    | .none => true
    | .other => true
  (match s.cls with
    | .slot a => okSrc (.slot a)
    | .prop p => okSrc (.prop p)
    | _ => true) && s.kwargs.all fun kv => okSrc kv.2

/-- what must hold of site `s` executed by the symbolic object `o` -/
def siteOk (w : Wiring) (objs : List AObj) (o : AObj) (s : Site) : Bool :=
  if s.owner = o.cd then
    match w.classDef o.cd with
    | Option.none => false
    | some cd =>
      let v := aevalCls cd o s.cls
      determinate v && siteClosed cd o s &&
      -- what it creates carries the registration of the catalogued role
      (match dispOf s.id with
        | some (.handedOut r) => v == .paramOr r (dfltName r) && !s.guard
        | some (.guard r) => v == .paramOr r (dfltName r) && s.guard
        | some .scratch => true
        | Option.none => false) &&
      -- if the product keeps slots itself: keyword-only call with known, accepted arguments, and the
      -- product is one of `objs`
      (match astep w o s with
        | Option.none => true
        | some o' =>
          objs.contains o' && s.nargs == 0 && !s.star && !s.guard &&
          (match w.classDef o'.cd with
            | some cd' => s.kwargs.all fun kv => cd'.params.contains kv.1 && kv.2 != .other
            | Option.none => false))
  else true

/-- The decidable certificate: `objs` contains the symbolic font, is closed under every creation site,
every site of every object instantiates exactly the registration of its catalogued role, the catalogue
covers every site and `Font.__init__` takes exactly the 17 registration keywords. -/
def check (w : Wiring) (objs : List AObj) : Bool :=
  (match aroot w with
    | some o => objs.contains o
    | Option.none => false) &&
  (objs.all fun o => (abase o.self).isSome) &&
  (objs.all fun o => w.sites.all fun s => siteOk w objs o s) &&
  (w.sites.all fun s => (dispOf s.id).isSome) &&
  (match w.classDef "Font" with
    | some cd => cd.params.all (fun p => (AL.get? fontKw p).isSome) && fontKw.all (fun kr => cd.params.contains kr.1)
    | Option.none => false)

/-- the path table only names catalogued sites of the wiring, reachable owners, nothing hard-coded -/
def pathsOk (w : Wiring) (objs : List AObj) : Bool :=
  paths.all fun p => p.2.all fun st =>
    match w.site st.site, st.via.mapM w.site with
    | some s, some chain =>
      !s.cls.isHard &&
      (match dispOf st.site with
        | some (.handedOut _) => true
        | some (.guard _) => false
        | some .scratch => s.cls == .sameClass
        | Option.none => false) &&
      (match areachFrom w (aroot w) chain with
        | some o => o.cd == s.owner && objs.contains o
        | Option.none => false)
    | _, _ => false

/-- every site of the wiring that hands out a role is on some path; every role has a site on some path -/
def pathsCover (w : Wiring) : Bool :=
  (w.sites.all fun s =>
    match dispOf s.id with
    | some .scratch => true
    | some (.guard _) => true
    | some (.handedOut _) => paths.any fun p => p.2.any fun st => st.site == s.id
    | Option.none => false) &&
  Role.all.all fun r => paths.any fun p => !(stepsFor p.1 r).isEmpty

/-- The public class properties (`glyph.pointClass`, …) and the role whose class each must return —
what callers use to construct objects they hand in themselves (`contour.appendPoint(contour.pointClass(…))`). -/
def propRoles : List (CName × Ident × Role) := [
  ("Glyph", "contourClass", .contour), ("Glyph", "pointClass", .point), ("Glyph", "componentClass", .component),
  ("Glyph", "anchorClass", .anchor), ("Glyph", "guidelineClass", .guideline), ("Glyph", "libClass", .lib),
  ("Glyph", "imageClass", .image), ("Contour", "pointClass", .point)]

/-- every class property of the wiring is listed, exists, and in every symbolic object returns the
registration of its role -/
def propsOk (w : Wiring) (objs : List AObj) : Bool :=
  (w.classes.all fun cd => cd.props.all fun pa => propRoles.any fun t => t.1 == cd.name && t.2.1 == pa.1) &&
  (propRoles.all fun t => objs.any fun o => o.cd == t.1) &&
  objs.all fun o => propRoles.all fun t =>
    if o.cd = t.1 then
      match w.classDef o.cd with
      | some cd => aevalCls cd o (.prop t.2.1) == .paramOr t.2.2 (dfltName t.2.2)
      | Option.none => false
    else true

/-! ## 3b. Free-standing roots and entry points that accept an object -/

/-- every free-standing root is one of `objs` and hands in exactly the class keywords its constructor takes -/
def freeRootsOk (w : Wiring) (objs : List AObj) : Bool :=
  freeRoots.all fun t =>
    (match afreeRoot w t.1 t.2.1 t.2.2 with
      | some o => objs.contains o
      | Option.none => false) &&
    (match w.classDef t.1 with
      | some cd => cd.params.all (fun p => (AL.get? t.2.2 p).isSome) && t.2.2.all (fun kr => cd.params.contains kr.1)
      | Option.none => false)

/-- The entry points of the sources that accept an object, with the role of that object. -/
def entryRoles : List (String × Role) := [
  ("Contour.appendPoint", .point), ("Contour.insertPoint", .point),
  ("Font.insertGlyph", .glyph), ("Layer.insertGlyph", .glyph),
  ("Font._set_guidelines", .guideline), ("Font.appendGuideline", .guideline), ("Font.insertGuideline", .guideline),
  ("Info.appendGuideline", .guideline), ("Info.insertGuideline", .guideline),
  ("Glyph.appendContour", .contour), ("Glyph.insertContour", .contour),
  ("Glyph.appendComponent", .component), ("Glyph.insertComponent", .component),
  ("Glyph._set_anchors", .anchor), ("Glyph.appendAnchor", .anchor), ("Glyph.insertAnchor", .anchor),
  ("Glyph._set_guidelines", .guideline), ("Glyph.appendGuideline", .guideline), ("Glyph.insertGuideline", .guideline)]

def entryRole (id : String) : Option Role := AL.get? entryRoles id

/-- what must hold of an entry point that is not a delegation: the `isinstance` guard and the factory it
names are sites of its own class, catalogued as guarding / creating the entry point's role -/
def entryOk (w : Wiring) (e : Entry) (r : Role) : Bool :=
  match e.how with
  | .adopt => true
  | .convertUnless g f =>
    (match w.site g with
      | some s => s.owner == e.owner && dispOf g == some (.guard r)
      | Option.none => false) &&
    (match w.site f with
      | some s => s.owner == e.owner && dispOf f == some (.handedOut r)
      | Option.none => false)
  | .rebuild f =>
    (match w.site f with
      | some s => s.owner == e.owner && dispOf f == some (.handedOut r)
      | Option.none => false)
  | .delegate _ => false

/-- The roles for which the property DEMANDS that whatever is handed in comes out as an object of the
registered class: anchors and guidelines ("dictionary-based appending" goes through the same entry points:
a dict is not an instance of the class) and glyphs ("insertion from another font").  Contours, components and
points a caller constructs himself are documented to be taken as they are. -/
def convertedRoles : List Role := [.anchor, .guideline, .glyph]

/-- every entry point of the wiring is catalogued with a role, its delegations end (within 4 steps) in an
entry point of the same role that satisfies `entryOk` and, for the roles of `convertedRoles`, does not adopt;
and every catalogued entry point exists -/
def entriesOk (w : Wiring) : Bool :=
  (w.entries.all fun e =>
    match entryRole e.id, resolveEntry w 4 e with
    | some r, some e' => entryRole e'.id == some r && w.entries.contains e' && entryOk w e' r &&
        (!convertedRoles.contains r || e'.how != .adopt)
    | _, _ => false) &&
  entryRoles.all fun p => (w.entry p.1).isSome

/-! ## 4. Support for the examples of `Props/C15.lean` -/

/-- only points (class 3) and anchors (class 8) customised -/
def cfgA : Cfg := fun r => if r = .point then some 3 else if r = .anchor then some 8 else Option.none

/-- everything customised with class 1 -/
def cfgAll : Cfg := fun _ => some 1

/-- the wiring with site `id` rewritten by `f` (a seeded fault) -/
def mapSite (w : Wiring) (id : String) (f : Site → Site) : Wiring :=
  { w with sites := w.sites.map fun s => if s.id = id then f s else s }

/-- `anchor = Anchor(...)` instead of `self._anchorClass(...)` -/
def hardcode (c : CName) (s : Site) : Site := { s with cls := .hard c }

/-- keyword `k` fed from another source -/
def rewireKw (k : Ident) (src : Src) (s : Site) : Site :=
  { s with kwargs := s.kwargs.map fun kv => if kv.1 = k then (kv.1, src) else kv }

/-- keyword `k` no longer passed -/
def dropKw (k : Ident) (s : Site) : Site := { s with kwargs := s.kwargs.filter fun kv => kv.1 ≠ k }

/-- the wiring with the `__init__` statements of class `c` rewritten by `f` -/
def mapInit (w : Wiring) (c : CName) (f : List InitStmt → List InitStmt) : Wiring :=
  { w with classes := w.classes.map fun cd => if cd.name = c then { cd with init := f cd.init } else cd }

/-- the wiring with entry point `id` treated as `how` (a seeded fault) -/
def mapEntry (w : Wiring) (id : String) (how : Adoption) : Wiring :=
  { w with entries := w.entries.map fun e => if e.id = id then { e with how := how } else e }

/-- what entry point `entry` (delegations followed) makes of an object of class `given`, in the object
reached from the font along `via` -/
def storeVia (w : Wiring) (cfg : Cfg) (via : List String) (entry : String) (given : Val) : Option Stored :=
  (reachIds w cfg via).bind fun o => ((w.entry entry).bind (resolveEntry w 4)).bind fun e => store w o e given

/-- the certificate computed for `w` is rejected -/
def rejects (w : Wiring) : Bool := !check w (canonObjs w)

/-- the class site `site` uses in the object reached from the font along `via` -/
def classVia (w : Wiring) (cfg : Cfg) (via : List String) (site : String) : Option Val :=
  (reachIds w cfg via).bind fun o => (w.site site).bind (classAt w o)

end Classes
end DefconModel
