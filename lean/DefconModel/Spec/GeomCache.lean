/-
Specification-side definitions for the cache layer of M-Geom (`DefconModel/GeomCache.lean`):
when two glyphs / two layers draw the same, and the invariant of the cache tables.
Core Lean only (definitions); the proofs are in Lemmas/Geom/{Uses,CacheLayer}.lean.
-/
import DefconModel.GeomCache
import DefconModel.Spec.Geom

namespace DefconModel
namespace Geom

/-- the two glyphs draw the same: same point lists, same components (what is cached in their
contours, and their metrics, may differ) -/
def Glyph.SameOutline (g g' : Glyph) : Prop :=
  g'.contours.map (·.points) = g.contours.map (·.points) ∧ g'.components = g.components

/-- what a name stands for in two layers draws the same -/
def RelO : Option Glyph → Option Glyph → Prop
  | none, none => True
  | some g, some g' => g.SameOutline g'
  | _, _ => False

/-- the two layers agree on what every glyph draws whose name is not in `S` -/
def World.AgreeOff (S : String → Bool) (w w' : World) : Prop :=
  ∀ m, S m = false → RelO (AL.get? w.glyphs m) (AL.get? w'.glyphs m)

/-- Every cached component / glyph representation equals what its factory computes now: the
functional definition (`Component.bounds`, `Component.cpb`, `Glyph.area`) evaluated in the current
layer. -/
structure CWorld.OK (o : CurveOracle) (cw : CWorld) : Prop where
  kb : ∀ key v, AL.get? cw.kb key = some v → ∃ k, compAt cw.w key = some k ∧ k.bounds o cw.w = .ok v
  kc : ∀ key v, AL.get? cw.kc key = some v → ∃ k, compAt cw.w key = some k ∧ k.cpb cw.w = .ok v
  ga : ∀ n a, AL.get? cw.ga n = some a → ∃ g, AL.get? cw.w.glyphs n = some g ∧ g.area cw.w = .ok a

/-- the determinant of the linear part of a transformation -/
def Transform.det (t : Transform) : Rat := t.xx * t.yy - t.xy * t.yx

/-- the signed area AreaPen (strict: `glyph.area`) accumulates over pen calls -/
def signedArea (cs : List Call) : Rat := (areaRun false (expand cs)).value

namespace Ex

/-- three levels: `top` uses `comp` (flipped and scaled by a dyadic matrix), which uses `base` -/
def top : Glyph :=
  { width := 200, height := 100, contours := [{ points := square }],
    components := [{ base := "comp", t := ⟨1 / 2, 0, 1 / 4, -1, 10, 0⟩ }, { base := "base", t := ⟨1, 0, 0, 1, 0, 0⟩ }] }

def world3 : World := { glyphs := [("base", base), ("comp", composite), ("top", top)] }

/-- a history that reads the composite `top` (filling every cache), edits the glyphs it is built on
in several ways (point edit, move, reversal, a new transformation, deletion, re-adding, renaming, a
new base) and reads `top` again after each edit -/
def xhistory : List XOp :=
  [.base (.newGlyph "base" base), .base (.newGlyph "comp" composite), .base (.newGlyph "top" top),
   .base (.gBounds "top"), .base (.gCpb "top"), .base (.gArea "top"), .base (.kBounds "comp" 0),
   .cSetPoint "base" 1 2 (725 / 2) (-30), .base (.gBounds "top"), .base (.gMargins "comp"),
   .base (.cMove "base" 0 3 (1 / 2)), .base (.gBounds "top"), .base (.gArea "top"),
   .base (.cReverse "base" 1), .base (.gArea "comp"),
   .kSetT "top" 0 ⟨-1, 0, 0, 2, 0, 5⟩, .base (.gBounds "top"),
   .gDelete "base", .base (.gBounds "top"), .base (.newGlyph "base" { contours := [{ points := square }] }),
   .base (.gBounds "top"), .gRename "base" "other", .base (.gBounds "top"), .base (.setLeft "top" 7),
   .base (.gMargins "top"), .kSetBase "comp" 0 "other", .base (.gBounds "top")]

/-- the boxes among a list of answers -/
def boxes (l : List Res) : List (Option Box) :=
  l.filterMap (fun r => match r with
    | .box b => some b
    | _ => none)

def noErr (l : List Res) : Bool :=
  l.all (fun r => match r with
    | .err _ => false
    | _ => true)

end Ex

end Geom
end DefconModel
