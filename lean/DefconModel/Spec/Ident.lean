/-
Specification-side definitions for C10: which identifiers a container's objects carry, and the
invariant "the registry is exactly the set of identifiers held, each held once".

`Glyph.carried` is the reading the property speaks about: the identifiers read off the contours,
points, components, anchors and guidelines that are in the container.  `Glyph.staged` are the
identifiers of objects created for the container but not inserted yet (only non-empty in the
middle of a composite operation), `Glyph.leaked` those of abandoned such objects (F29).
-/
import DefconModel.Ident

namespace DefconModel
namespace Ident

/-- identifiers carried by the objects that are in the container, in reading order -/
def Glyph.carried (g : Glyph) : List Id :=
  g.contours.flatMap Contour.ids ++ g.comps.filterMap (·.id) ++ g.anchors.filterMap id
    ++ g.guides.filterMap id

/-- everything that holds an identifier of this container's registry -/
def Glyph.held (g : Glyph) : List Id := g.carried ++ g.stagedIds ++ g.leaked

/-- the property's predicate for one container: no identifier is carried twice, and the registry
is exactly the set of carried identifiers -/
structure Exact (g : Glyph) : Prop where
  unique : g.carried.Nodup
  same : ∀ x, x ∈ g.reg ↔ x ∈ g.carried

/-- nothing is staged: true between top-level operations -/
def Glyph.Settled (g : Glyph) : Prop :=
  g.cur = none ∧ g.stC = [] ∧ g.stK = [] ∧ g.stA = [] ∧ g.stG = []

instance (g : Glyph) : Decidable g.Settled := by unfold Glyph.Settled; infer_instance

/-! #### counting form of the invariant (what the proofs use) -/

/-- how often `x` occurs in an optional identifier -/
def cntO (x : Id) : Option Id → Nat
  | some y => if y = x then 1 else 0
  | none => 0

def cntPts (x : Id) (pts : List Point) : Nat := (pts.map fun p => cntO x p.id).sum

def Contour.cnt (x : Id) (c : Contour) : Nat := cntO x c.id + cntPts x c.pts

def cntCs (x : Id) (cs : List Contour) : Nat := (cs.map (Contour.cnt x)).sum

def cntKs (x : Id) (ks : List Comp) : Nat := (ks.map fun k => cntO x k.id).sum

def cntVs (x : Id) (vs : List (Option Id)) : Nat := (vs.map (cntO x)).sum

def cntCur (x : Id) : Option Contour → Nat
  | some c => c.cnt x
  | none => 0

/-- how many objects of the container (inserted, staged or abandoned) hold identifier `x` -/
def Glyph.cnt (g : Glyph) (x : Id) : Nat :=
  cntCs x g.contours + cntKs x g.comps + cntVs x g.anchors + cntVs x g.guides
    + cntCur x g.cur + cntCs x g.stC + cntKs x g.stK + cntVs x g.stA + cntVs x g.stG
    + g.leaked.count x

/-- 1 if `x` is registered, else 0 -/
def ind (reg : List Id) (x : Id) : Nat := if x ∈ reg then 1 else 0

/-- the invariant of every reachable container: each identifier is held exactly as often as it is
registered (0 or 1 times), and the registry has set semantics -/
structure Inv (g : Glyph) : Prop where
  exact : ∀ x, g.cnt x = ind g.reg x
  nodup : g.reg.Nodup

/-- the invariant for all containers of a world -/
def WInv (w : World) : Prop := ∀ g ∈ w.conts, Inv g

/-! #### what an observer can tell apart (round 3: lazily loaded contours) -/

/-- Two containers hold the same objects (inserted, staged, abandoned) and register the same identifiers.  They
may differ in whether lazily loaded contours have been loaded (`shallow`) and in the order in which the registry
lists the identifiers (`glyph.identifiers` is a Python set). -/
structure Glyph.Same (a b : Glyph) : Prop where
  contours : a.contours = b.contours
  comps : a.comps = b.comps
  anchors : a.anchors = b.anchors
  guides : a.guides = b.guides
  cur : a.cur = b.cur
  stC : a.stC = b.stC
  stK : a.stK = b.stK
  stA : a.stA = b.stA
  stG : a.stG = b.stG
  leaked : a.leaked = b.leaked
  reg : ∀ x, x ∈ a.reg ↔ x ∈ b.reg

/-- the same for worlds: container by container, and the same detached objects -/
structure World.Same (a b : World) : Prop where
  conts : ∀ t, (a.get t).Same (b.get t)
  limboC : a.limboC = b.limboC
  limboK : a.limboK = b.limboK
  limboA : a.limboA = b.limboA
  limboG : a.limboG = b.limboG

/-- every glyph's contours are loaded -/
def World.Loaded (w : World) : Prop := ∀ g ∈ w.conts, g.shallow = false

/-- The operations whose very first action is a read access to the contours of a glyph (which one). -/
def Op.looksFirst : Op → Option Nat
  | .insContour t _ _ | .rmContour t _ | .clearContours t | .insPoint t _ _ _ | .addPoint t _ _ | .rmPoint t _ _
  | .clearContour t _ | .reverse t _ | .rmSegment t _ _ _ | .split t _ _ | .setStart t _ _ | .setContourId t _ _
  | .genContourId t _ _ | .genPointId t _ _ _ | .clearGlyph t | .reload t _ | .rmAbsentPoint t _ | .load t => some t
  | _ => none

/-- The single-object operations: everything that introduces one object or one identifier. -/
def Op.single : Op → Bool
  | .insContour .. | .reinsContour .. | .insPoint .. | .addPoint .. | .setContourId .. | .genContourId ..
  | .genPointId .. | .insComp .. | .reinsComp .. | .setCompId .. | .genCompId .. | .insAnchor ..
  | .reinsAnchor .. | .setAnchorId .. | .genAnchorId .. | .insGuide .. | .reinsGuide .. | .setGuideId ..
  | .genGuideId .. => true
  | _ => false


/-- The calls a container has to refuse without touching anything: removal of an object that is not
in it (a point of another contour or one that `reverse()` replaced, a detached object, an object of
another container), insertion of an anchor / guideline dict whose colour is invalid. -/
def Op.refused : Op → Bool
  | .rmAbsentPoint .. | .rmAbsent .. | .rmForeign .. | .insAnchorBad .. | .insGuideBad .. => true
  | _ => false

/-- F29, first call site: an object is instantiated for a container and never inserted. -/
def Op.inst : Op → Bool
  | .instAnchor .. | .instGuide .. => true
  | _ => false

/-- The composite operations: they bring in several objects one after the other and stop at the
first one that is rejected (F29, second call site, when objects built so far are dropped). -/
def Op.composite : Op → Bool
  | .draw .. | .drawFrom .. | .copyFrom .. | .insertGlyph .. | .roundtrip .. | .deserializeFrom ..
  | .fontRoundtrip | .reload .. | .reopen .. | .insertGlyphVia .. => true
  | _ => false

/-- A history that stays clear of F29: nothing is instantiated without being inserted, and no
composite operation is cut short. -/
def Clean : World → List Op → Prop
  | _, [] => True
  | w, op :: ops =>
    Op.inst op = false ∧ (Op.composite op = true → (step w op).2 = .ok) ∧ Clean (step w op).1 ops

instance decClean : (w : World) → (ops : List Op) → Decidable (Clean w ops)
  | _, [] => isTrue trivial
  | w, op :: ops =>
    have := decClean (step w op).1 ops
    by unfold Clean; infer_instance

end Ident
end DefconModel
