/-
Specification side of C08 for `Font.GlyphOrderChanged` (M-OrderNotify): what the property's sentences say about the
posts of one operation that takes `font.glyphOrder` from one answer to another.
-/
import DefconModel.OrderNotify

namespace DefconModel
namespace OrderNotify
open GlyphOrder

/-- sentence 1 for one delivery: old = what `font.glyphOrder` answered before the operation, new = what it
answers when the observer is called — which is also what it answers after the operation (payload and getter
compared modulo `None == []`: the payload is the stored lib value) -/
def OrdEv.Truthful (before after : List Name) (ev : OrdEv) : Prop :=
  norm ev.old = before ∧ norm ev.new = norm ev.snap ∧ norm ev.snap = after

/-- the posts of one operation lead from what the getter answered before it to what it answers after it: the first
old value is the order before, every new value is what the getter answers at that instant, every later old value is
what the previous post announced, the last new value is the order after — and when nothing is posted nothing has
changed -/
def Chain : List Name → List Name → List OrdEv → Prop
  | before, after, [] => after = before
  | before, after, ev :: r => norm ev.old = before ∧ norm ev.new = norm ev.snap ∧ Chain (norm ev.snap) after r

/-- what is claimed of the deliveries of one operation that takes the getter from `before` to `after` and posts at
most once -/
def Announced (before after : List Name) (evs : List OrdEv) : Prop :=
  (∀ ev ∈ evs, ev.Truthful before after) ∧ evs.length ≤ 1 ∧ (after ≠ before → evs.length = 1)

end OrderNotify
end DefconModel
