/-
Specification side of M-Cross (C11, round 3): what it means that an object is mentioned by a registration,
and the LIVE links along which a change may travel.
-/
import DefconModel.Cross
import DefconModel.Spec.Parents

namespace DefconModel
namespace Cross
open Parents

/-- `x` is mentioned by a registration of the complete table — a parent<-child or self registration of
M-Parents, or a cross link — as observer or as observable -/
def Mentioned (s : State) (x : Id) : Prop :=
  (∃ r ∈ s.heap.regs, r.observer = x ∨ r.observable = x) ∨
  (∃ r ∈ crossTable s, r.observer = x ∨ r.observable = .node x)

/-- `x` belongs to no font: it is not a font and no font is above it by owner pointers.  (Everything that was
removed or replaced, and everything a removed glyph or layer took along.) -/
def Outside (h : Heap) (x : Id) : Prop := centreOf h x = none

/-- The live links of a state: from an object to the container that owns it, and from a glyph object to a
component that observes it NOW (`watches`: the component belongs to a glyph of a font, and its layer files this
glyph object under the component's base glyph name).  `Reach s x a`: `a` is `x` or can be reached from `x`
along live links. -/
inductive Reach (s : State) : Id → Id → Prop where
  | refl (x : Id) : Reach s x x
  | up {x p a : Id} : s.heap.ownerOf x = some p → Reach s p a → Reach s x a
  | follow {o c a : Id} : watches s c o = true → Reach s c a → Reach s o a

/-- the same heap with other dirty flags (all that delivering a notification changes) -/
def wd (h : Heap) (d : List Id) : Heap := { h with dirty := d }

end Cross
end DefconModel
