/-
Specification side of M-SaveSteps (C18, round 3): what "memory = disk" means for the font's own UFO, and the
relation between a font and the UFO it was opened from / last saved to that every edit history maintains
("what is not flagged dirty is on disk as it is in memory").  Written apart from the model's step functions:
these definitions only read worlds.
-/
import DefconModel.SaveSteps

namespace DefconModel
namespace SaveSteps

/-- the UFO at the font's own path (the target of an in-place save) -/
def own (w : World) : Ufo := getTarget w .own

/-- the glif file of a glyph, if there is one -/
def fileOf (u : Ufo) (g : Nat) : Option Nat := (u.files.find? (fun x => x.1 = g)).map Prod.snd

/-- the glyph as memory holds it -/
def memGlyph (f : Font) (g : Nat) : Option Nat := (f.glyphs.find? (fun x => x.1 = g)).map Prod.snd

/-- the glyph as re-opening the UFO shows it: listed in `contents.plist`, read from its file -/
def diskGlyph (u : Ufo) (g : Nat) : Option Nat := if g ∈ u.listing then fileOf u g else none

/-- **memory = disk**: re-opening the font's UFO shows every component, every glyph and the layer info as
memory holds them — and no glyph that memory does not hold -/
def Persisted (w : World) : Prop :=
  (own w).comps = w.font.comps ∧ (∀ g, diskGlyph (own w) g = memGlyph w.font g) ∧
  (own w).layerinfo = w.font.layerInfo

/-- The relation between a font `f` and the UFO `u` it was opened from / last saved to, between saves: the UFO has
the font's components; what is not flagged dirty is on disk exactly as in memory; every listed glyph is either still
in memory or scheduled for deletion (and then not in memory); every listed glyph has its file. -/
structure SyncUF (u : Ufo) (f : Font) : Prop where
  compsLen : u.comps.length = f.comps.length
  flagsLen : f.compDirty.length = f.comps.length
  comps : ∀ i, i < f.comps.length → f.compDirty.getD i false = false → u.comps.getD i 0 = f.comps.getD i 0
  clean : ∀ g b, memGlyph f g = some b → g ∉ f.glyphDirty → g ∈ u.listing ∧ fileOf u g = some b
  listed : ∀ g, g ∈ u.listing → (memGlyph f g).isSome = true ∨ g ∈ f.scheduled
  sched : ∀ g, g ∈ f.scheduled → memGlyph f g = none
  files : ∀ g, g ∈ u.listing → (fileOf u g).isSome = true

/-- … for the font of a world and the UFO at its path.  A font just opened from a UFO satisfies it, and so does a
font after a completed save (`sync_after_save`); every edit keeps it (`sync_edit`). -/
def Sync (w : World) : Prop := SyncUF (own w) w.font

/-- nothing in the font has content that cannot be written -/
def NoBad (f : Font) : Prop := f.badComps = [] ∧ f.badGlyphs = [] ∧ f.badLayerInfo = false

/-- a step that ran before the failure and cannot have hurt: a component write, the opening of the glyph set, or
the write of a glyph that `contents.plist` already lists (so its file does not depend on the listing that the
failed save never wrote) -/
def earlySafe (u : Ufo) : Step → Bool
  | .writeComp _ => true
  | .openGlyphSet => true
  | .writeGlyph g => decide (g ∈ u.listing)
  | _ => false

/-- the step is not the write of a glyph that `contents.plist` does not list yet (a new or renamed glyph) -/
def listedIfGlyph (u : Ufo) : Step → Bool
  | .writeGlyph g => decide (g ∈ u.listing)
  | _ => true

/-- every glyph whose file was written before step `k` of the in-place save was already listed in `contents.plist`
(decidable; the hypothesis of `retry_after_content_fault_persists_partial`) -/
def writtenBeforeListed (w : World) (k : Nat) : Bool :=
  ((plan w.font .inPlace).take k).all (listedIfGlyph (own w))

/-- a step of one layer's save that neither removes a glif file nor writes the listing: the write of a component, of a
glyph, of the layer info, the opening of the glyph set (in an in-place save: every step but the deletions and the
listing) -/
def keepsFiles : Step → Bool
  | .writeComp _ => true
  | .openGlyphSet => true
  | .writeGlyph _ => true
  | .writeLayerInfo => true
  | _ => false

end SaveSteps
end DefconModel
