/-
Specification-side definitions for C19: the UFO kerning-group rule, the reference lookup by
precedence, the invariant of the cached tables, and the cache-free reference machine `Ref`
(plain dict semantics, every table recomputed from the current groups on every use).
-/
import DefconModel.Kern

namespace DefconModel
namespace Kern

/-! ## The UFO kerning-group rule -/

/-- On one side, a glyph is a member of at most one group: any two groups of that side that both
list `x` are the same group. -/
def ValidSide (side : String → Bool) (g : GroupsD) : Prop :=
  ∀ n1 ms1 n2 ms2 x, (n1, ms1) ∈ g → (n2, ms2) ∈ g → side n1 = true → side n2 = true →
    x ∈ ms1 → x ∈ ms2 → n1 = n2

/-- each glyph in at most one `public.kern1.*` and at most one `public.kern2.*` group -/
def ValidGroups (g : GroupsD) : Prop := ValidSide isKern1 g ∧ ValidSide isKern2 g

/-- `G` is a group of that side that lists `x` -/
def IsGroupOf (side : String → Bool) (g : GroupsD) (x G : String) : Prop :=
  ∃ ms, (G, ms) ∈ g ∧ side G = true ∧ x ∈ ms

def inGroup (side : String → Bool) (x : String) (p : String × List String) : Bool :=
  side p.1 && decide (x ∈ p.2)

/-- reference: scan the groups in dict order, take the first group of that side listing `x` -/
def groupOf (side : String → Bool) (g : GroupsD) (x : String) : Option String :=
  (g.find? (inGroup side x)).map Prod.fst

/-- what the code's table does on arbitrary content: the LAST group of that side listing `x` -/
def lastOf : GroupsD → String → Option String
  | [], _ => none
  | (n, ms) :: r, x =>
    match lastOf r x with
    | some n' => some n'
    | none => if x ∈ ms then some n else none

def lastGroupOf (side : String → Bool) (g : GroupsD) (x : String) : Option String :=
  lastOf (g.filter (fun p => side p.1)) x

/-! ## Reference lookup: most specific defined pair -/

/-- How a name given on one side of a pair is read: `(glyph, group)`.  A group name of that side
stands for itself and for no glyph; any other name is a glyph together with its group (if any). -/
def readSide (side : String → Bool) (G : String → Option String) (x : String) :
    Option String × Option String :=
  if side x then (none, some x) else (some x, G x)

/-- the kerning value defined for a candidate pair, if both slots are filled and the pair is defined -/
def pairValue (k : KernD) (c : Option String × Option String) : Option Int :=
  match c.1, c.2 with
  | some a, some b => AL.get? k (a, b)
  | _, _ => none

/-- glyph/glyph, glyph/group, group/glyph, group/group — in the order the code tries them -/
def candidates (G1 G2 : String → Option String) (p : Pair) : List (Option String × Option String) :=
  let a := readSide isKern1 G1 p.1
  let b := readSide isKern2 G2 p.2
  [(a.1, b.1), (a.1, b.2), (a.2, b.1), (a.2, b.2)]

/-- value of the first defined candidate, else the default -/
def specFindWith (G1 G2 : String → Option String) (k : KernD) (p : Pair) (d : Int) : Int :=
  ((candidates G1 G2 p).findSome? (pairValue k)).getD d

/-- the reference lookup over kerning `k` and groups `g` -/
def specFind (k : KernD) (g : GroupsD) (p : Pair) (d : Int) : Int :=
  specFindWith (groupOf isKern1 g) (groupOf isKern2 g) k p d

/-! ## Freshly computed tables -/

def freshSide (side : String → Bool) (g : GroupsD) : GroupsD := gather side g
def freshG2G (side : String → Bool) (g : GroupsD) : G2G := mkG2G (gather side g)

def freshTable (g : GroupsD) : Table → Out
  | .side1 => .groups (freshSide isKern1 g)
  | .side2 => .groups (freshSide isKern2 g)
  | .g2g1 => .g2g (freshG2G isKern1 g)
  | .g2g2 => .g2g (freshG2G isKern2 g)

/-- every table that is cached equals the table computed from the current groups -/
structure CacheOK (s : State) : Prop where
  side1 : ∀ t, s.cache.side1 = some t → t = freshSide isKern1 s.c.groups
  side2 : ∀ t, s.cache.side2 = some t → t = freshSide isKern2 s.c.groups
  g2g1 : ∀ t, s.cache.g2g1 = some t → t = freshG2G isKern1 s.c.groups
  g2g2 : ∀ t, s.cache.g2g2 = some t → t = freshG2G isKern2 s.c.groups

/-- representation invariant of the two dicts: keys are unique -/
structure WF (c : Content) : Prop where
  groups : (AL.keys c.groups).Nodup
  kerning : (AL.keys c.kerning).Nodup

/-! ## The cache-free reference machine -/

namespace Ref

/-- `find` with both glyph-to-group tables computed from the groups as they are now -/
def find (c : Content) (p : Pair) (d : Int) : Int :=
  lookup c.kerning (freshG2G isKern1 c.groups) (freshG2G isKern2 c.groups) p d

def load (c : Content) : Content × Bool :=
  if c.loaded then (c, true)
  else
    match readGroups c.diskGroups with
    | none => ({ c with loaded := true, groups := [], kerning := [] }, false)
    | some g => ({ c with loaded := true, groups := updateD [] g, kerning := updateD [] c.diskKerning }, true)

def loadOnly (c : Content) : Content × Out :=
  let r := load c
  (r.1, if r.2 then .ok else .err "UFOLibError")

/-- plain dict semantics; no cache anywhere; `cached` (cache introspection) answers `ok` -/
def stepLoaded (c : Content) : Op → Content × Out
  | .gset n ms => ({ c with groups := AL.set c.groups n ms }, .ok)
  | .gdel n =>
    if AL.contains c.groups n then ({ c with groups := AL.erase c.groups n }, .ok) else (c, .err "KeyError")
  | .gclear => ({ c with groups := [] }, .ok)
  | .gupdate o => ({ c with groups := updateD c.groups o }, .ok)
  | .kset p v => ({ c with kerning := AL.set c.kerning p v }, .ok)
  | .kdel p =>
    if AL.contains c.kerning p then ({ c with kerning := AL.erase c.kerning p }, .ok) else (c, .err "KeyError")
  | .kclear => ({ c with kerning := [] }, .ok)
  | .kupdate o => ({ c with kerning := updateD c.kerning o }, .ok)
  | .find p d => (c, .int (find c p d))
  | .findAll ps d => (c, .ints (ps.map fun p => find c p d))
  | .table t => (c, freshTable c.groups t)
  | .cached => (c, .ok)
  | .gdump => (c, .dump c.groups)
  | .kdump => (c, .kern c.kerning)
  | .reloadGroups =>
    if !c.hasPath then (c, .err "TypeError")
    else
      match readGroups c.diskGroups with
      | none => (c, .err "UFOLibError")
      | some g => ({ c with groups := updateD [] g }, .ok)
  | .reloadKerning =>
    if !c.hasPath then (c, .err "TypeError")
    else ({ c with kerning := updateD [] c.diskKerning }, .ok)
  | .openUfo _ _ => (c, .err "unreachable")
  | .extGroups _ => (c, .err "unreachable")
  | .extKerning _ => (c, .err "unreachable")

def step (c : Content) (op : Op) : Content × Out :=
  match op with
  | .openUfo dg dk =>
    ({ groups := [], kerning := [], loaded := false, hasPath := true, diskGroups := dg, diskKerning := dk }, .ok)
  | .extGroups dg => ({ c with diskGroups := dg }, .ok)
  | .extKerning dk => ({ c with diskKerning := dk }, .ok)
  | .reloadGroups => if c.loaded then stepLoaded c .reloadGroups else loadOnly c
  | .reloadKerning => if c.loaded then stepLoaded c .reloadKerning else loadOnly c
  | op =>
    let r := load c
    if r.2 then stepLoaded r.1 op else (r.1, .err "UFOLibError")

def run (c : Content) : List Op → Content × List Out
  | [] => (c, [])
  | op :: r =>
    let r1 := step c op
    let r2 := run r1.1 r
    (r2.1, r1.2 :: r2.2)

end Ref

/-! ## Example content used by the non-vacuity examples of Props/C19.lean -/

def gEx : GroupsD :=
  [("public.kern1.O", ["O", "D", "Q"]), ("public.kern2.E", ["E", "F"]), ("other", ["O", "E"]),
   ("public.kern2.O", ["O"])]

def kEx : KernD :=
  [(("public.kern1.O", "public.kern2.E"), -100), (("public.kern1.O", "F"), -200), (("D", "F"), -300),
   (("Q", "public.kern2.E"), -50)]

/-- OUTSIDE the property's domain, for the boundary example in Props/C19.lean: what `groups.pop(n)`
(a dict method defcon does not override) or `del groups[n]` under `groups.holdNotifications()` does —
the dict changes and no `Groups.Changed` reaches the object, so nothing is evicted. -/
def quietErase (s : State) (n : String) : State :=
  { s with c := { s.c with groups := AL.erase s.c.groups n } }

/-- the cache-introspection answer is the only output the cache-free machine cannot give -/
def mask : Out → Out
  | .bools _ => .ok
  | o => o

end Kern
end DefconModel
