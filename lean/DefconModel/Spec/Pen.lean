/-
Specification-side definitions for C13: what "the same outline", "observable data", "valid glyph",
"conflicting identifiers dropped" and "the base glyph's outline under the component's transformation,
recursively" mean.  Written without reference to the pen machinery of the model.
-/
import DefconModel.Pen

namespace DefconModel
namespace Pen

variable {R : Type}

/-! ### identifiers carried by an outline, in drawing order -/

/-- the identifier slots of a contour: its own, then one per point -/
def Contour.slots (c : Contour R) : List (Option Ident) := c.ident :: c.points.map (·.ident)

def slotsOf (cs : List (Contour R)) : List (Option Ident) := cs.flatMap Contour.slots

def compSlots (ks : List (Component R)) : List (Option Ident) := ks.map (·.ident)

/-- the identifiers actually present in a list of slots -/
def present (l : List (Option Ident)) : List Ident := l.filterMap id

/-- all identifiers of an outline: contours (own, points) first, then components -/
def identsOf (cs : List (Contour R)) (ks : List (Component R)) : List Ident :=
  present (slotsOf cs ++ compSlots ks)

/-- the identifier slots of a point-pen call stream -/
def evSlots : List (Ev R) → List (Option Ident)
  | [] => []
  | .beginPath i :: r => i :: evSlots r
  | .addPoint p :: r => p.ident :: evSlots r
  | .endPath :: r => evSlots r
  | .addComponent k :: r => k.ident :: evSlots r

/-! ### shallow-loaded form -/

def RawContour.toContour (c : RawContour R) : Contour R := ⟨c.identifier, c.points.map RawPoint.toPoint⟩

def Point.toRaw (p : Point R) : RawPoint R := ⟨(p.x, p.y), p.seg, p.smooth, p.name, p.ident⟩

def Contour.toRaw (c : Contour R) : RawContour R := ⟨c.ident, c.points.map Point.toRaw⟩

/-- the contours a glyph has, whichever form they are stored in -/
def Glyph.outline (g : Glyph R) : List (Contour R) :=
  match g.shallow with
  | some (c :: cs) => (c :: cs).map RawContour.toContour
  | _ => g.contours

/-- reachable glyph states never hold shallow contours and contour objects at the same time -/
def Glyph.ShallowInv (g : Glyph R) : Prop := g.shallow ≠ none → g.contours = []

/-! ### observable data -/

/-- what the public getters and a recording point pen show of a glyph, the name excepted -/
structure Obs (R : Type) where
  width : R
  height : R
  unicodes : List Nat
  note : Option String
  image : Image R
  anchors : List (Anchor R)
  guidelines : List (Guideline R)
  lib : String
  stream : List (Ev R)
deriving DecidableEq

def Glyph.obs (g : Glyph R) : Obs R :=
  ⟨g.width, g.height, g.unicodes, g.note, g.image, g.anchors, g.guidelines, g.lib, g.draw⟩

def Content.obs (c : Content R) : Obs R :=
  ⟨c.width, c.height, c.unicodes, c.note, c.image, c.anchors, c.guidelines, c.lib, c.draw⟩

/-- every identifier a glyph's data carries: guidelines, anchors, outline -/
def Glyph.allIdents (g : Glyph R) : List Ident :=
  present (g.guidelines.map (·.ident)) ++ present (g.anchors.map (·.ident)) ++ identsOf g.outline g.components

/-- a valid glyph (UFO: identifiers are unique within a glyph) -/
def Glyph.Valid (g : Glyph R) : Prop := g.allIdents.Nodup

instance (g : Glyph R) : Decidable g.Valid := by unfold Glyph.Valid; infer_instance

def Content.allIdents (c : Content R) : List Ident :=
  present (c.guidelines.map (·.ident)) ++ present (c.anchors.map (·.ident)) ++ identsOf c.contours c.components

def Content.Valid (c : Content R) : Prop := c.allIdents.Nodup

instance (c : Content R) : Decidable c.Valid := by unfold Content.Valid; infer_instance

/-! ### "conflicting identifiers are dropped" -/

/-- left to right: an identifier is kept iff it was not seen before (in the target glyph or earlier
in the incoming stream); a dropped one becomes `none` -/
def dedupe : List Ident → List (Option Ident) → List (Option Ident)
  | _, [] => []
  | seen, none :: r => none :: dedupe seen r
  | seen, some i :: r => if i ∈ seen then none :: dedupe seen r else some i :: dedupe (seen ++ [i]) r

/-- a contour with every identifier removed: its geometry, types, smooth flags and names -/
def Contour.eraseIds (c : Contour R) : Contour R :=
  ⟨none, c.points.map fun p => { p with ident := none }⟩

/-! ### "identifiers where the protocol carries them" -/

/-- what a pen with the given capabilities can be told of one call: everything — coordinates, segment
type, smooth flag, name, base glyph, transformation — but the identifiers it has no keyword for -/
def capEv (caps : PenCaps) : Ev R → Ev R
  | .beginPath i => .beginPath (if caps.path then i else none)
  | .addPoint p => .addPoint (if caps.point then p else { p with ident := none })
  | .endPath => .endPath
  | .addComponent k => .addComponent (if caps.component then k else { k with ident := none })

/-- a contour as such a pen can receive it -/
def Contour.cap (caps : PenCaps) (c : Contour R) : Contour R :=
  ⟨if caps.path then c.ident else none, c.points.map fun p => if caps.point then p else { p with ident := none }⟩

/-- a component as such a pen can receive it -/
def Component.cap (caps : PenCaps) (k : Component R) : Component R :=
  if caps.component then k else { k with ident := none }

/-! ### affine maps and recursive flattening -/

section Arith
variable [Add R] [Mul R] [OfNat R 0] [OfNat R 1]

def Contour.transform (t : Transform R) (c : Contour R) : Contour R :=
  { c with points := c.points.map (Point.transform t) }

/-- The outline of glyph `name` of layer `l` under the affine map `t`, its components replaced —
recursively — by their base glyphs' outlines under the composed map.  A missing glyph contributes
nothing.  `none` = the nesting is deeper than `fuel` (cyclic references never terminate). -/
def flatten : Nat → Layer R → String → Transform R → Option (List (Contour R))
  | 0, _, _, _ => none
  | fuel + 1, l, name, t =>
    match AL.get? l name with
    | none => some []
    | some b =>
      match flattenComps (flatten fuel l) t b.components with
      | none => none
      | some sub => some (b.outline.map (Contour.transform t) ++ sub)
where
  flattenComps (rec : String → Transform R → Option (List (Contour R))) (t : Transform R) :
      List (Component R) → Option (List (Contour R))
    | [] => some []
    | k :: ks =>
      match rec k.base (t.transform k.t), flattenComps rec t ks with
      | some a, some b => some (a ++ b)
      | _, _ => none

/-- the component graph of `l` is acyclic: some rank strictly decreases along every reference -/
def Acyclic (l : Layer R) (rank : String → Nat) : Prop :=
  ∀ n g, AL.get? l n = some g → ∀ k ∈ g.components, rank k.base < rank n

end Arith

/-! ### segment protocol -/

/-- what the segment protocol carries of a point: coordinates and type -/
def Point.strip (p : Point R) : Point R := { p with smooth := false, name := none, ident := none }

/-- rotate a closed contour so that it starts at its first on-curve point -/
def rotateToFirstOn (pts : List (Point R)) : List (Point R) :=
  match firstOn pts with
  | none => pts
  | some i => pts.drop i ++ pts.take i

/-- Walking along a contour: is every segment one the segment protocol can express?  `pending` = there
are off-curve points waiting for their on-curve point.  A `move` may not occur, a `line` point may not
be preceded by off-curve points, and no off-curve points may be left over at the end. -/
def segsOK : Bool → List (Point R) → Bool
  | pending, [] => !pending
  | pending, p :: ps =>
    match p.seg with
    | none => segsOK true ps
    | some .line => !pending && segsOK false ps
    | some .move => false
    | some _ => segsOK false ps

/-- The contours the segment protocol carries faithfully:
* a single `move` point;
* an open contour (first point `move`, at least two points): no further `move`, no `line` directly after
  an off-curve point, no trailing off-curve points;
* a closed contour with an on-curve point (at least two points): the same, read cyclically;
* a closed contour of off-curve points only (at least two) whose first and last coordinates differ.
(An empty contour vanishes, a lone non-`move` point comes back as `move`, an off-curve-only contour
whose first and last points coincide loses its last point: fontTools behaviour, outside this predicate.) -/
def segFaithful [DecidableEq R] (pts : List (Point R)) : Bool :=
  match pts with
  | [] => false
  | [p] => p.seg = some .move
  | p :: q :: r =>
    if p.seg = some .move then segsOK false (q :: r)
    else
      match firstOn (p :: q :: r) with
      | none =>
        match (q :: r).getLast? with
        | some l => decide (p.pt ≠ l.pt)
        | none => true
      | some i => segsOK false ((p :: q :: r).drop (i + 1) ++ (p :: q :: r).take (i + 1))

def SegFaithful [DecidableEq R] (pts : List (Point R)) : Prop := segFaithful pts = true

instance [DecidableEq R] (pts : List (Point R)) : Decidable (SegFaithful pts) := by
  unfold SegFaithful; infer_instance

/-- point pen → segment pen → point pen, for the points of one contour -/
def segRoundTrip [DecidableEq R] (pts : List (Point R)) : Option (List (Ev R)) :=
  (segContour pts).bind (stpRun none)

end Pen
end DefconModel
