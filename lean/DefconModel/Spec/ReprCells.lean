/-
Obligations that tie the hand-written table of mutators (`ReprCells.mutSpecs`: cells, guards) and the direct cache
calls of the hold model (`ReprHold.directNames`, `moveCache`) to the tables regenerated from the source.
-/
import DefconModel.ReprCells

namespace DefconModel
namespace Repr

def Guard.name : Guard → String
  | .none => "none"
  | .same => "same"

/-- every row's guard is the guard the extractor reads off the method's body -/
def guardsAgree (T : Tables) : Bool :=
  mutSpecs.all fun s => AL.get? T.guards (s.cls, s.meth) == some s.guard.name

/-- the direct `destroyRepresentation` calls found in the source are the ones the hold model makes: `reverse` (and
`_set_clockwise` through it) destroys the area, `move` computes the names it destroys (`moveCache`), nothing else -/
def directAgree (T : Tables) : Bool :=
  mutSpecs.all fun s =>
    (AL.get? T.destroys (s.cls, s.meth)).getD [] ==
      (if s.cls = "Contour" && s.meth = "move" then ["*"] else directNames s.cls s.meth)

end Repr
end DefconModel
