/-
Specification-side definitions for the independence clause of C13: which cells a value can reach
(what "state" a glyph has), what "shares no mutable state" means (the two sets of reachable cells are
disjoint), and when a heap is well formed.  Written apart from the copy functions of the model.
-/
import DefconModel.Cells

namespace DefconModel
namespace Cells

/-- `Reach h v q`: starting from `v` and following references held by cells of `h`, the cell at
address `q` can be reached — `q` is part of the mutable state of `v`. -/
inductive Reach (h : Heap) : Val → Addr → Prop
  | here (p : Addr) : Reach h (.ref p) p
  | step {p q : Addr} {c : Cell} {v : Val} : h[p]? = some c → v ∈ c.items → Reach h v q → Reach h (.ref p) q

/-- two values share no mutable state: no cell is reachable from both -/
def Disjoint (h : Heap) (v w : Val) : Prop := ∀ q, Reach h v q → ¬ Reach h w q

/-- a value that lives in the heap: it is an atom or refers to an existing cell -/
def InB (h : Heap) : Val → Prop
  | .atom _ => True
  | .ref p => p < h.length

instance (h : Heap) (v : Val) : Decidable (InB h v) := by
  cases v with
  | atom a => exact isTrue trivial
  | ref p => exact inferInstanceAs (Decidable (p < h.length))

/-- no cell holds a dangling reference (Python has none) -/
def Closed (h : Heap) : Prop := ∀ (p : Addr) (c : Cell), h[p]? = some c → ∀ v ∈ c.items, InB h v

/-- everything `v` reaches exists -/
def Bounded (h : Heap) (v : Val) : Prop := ∀ q, Reach h v q → q < h.length

end Cells
end DefconModel
