/-
Specification side of M-Replace: what the removal of a partial arrival has to achieve, stated apart
from the way `Font.save` does it.
-/
import DefconModel.Replace

namespace DefconModel
namespace Replace

/-- A way of removing what arrived of the new UFO is adequate when, whatever lies at the destination
— a directory, a regular file, nothing — it returns (does not raise) with the destination empty and
the other two paths as they were. -/
def CleanOK (clean : FS → Option FS) : Prop :=
  ∀ fs : FS, ∃ fs' : FS, clean fs = some fs' ∧ fs'.dest = none ∧ fs'.temp = fs.temp ∧ fs'.aside = fs.aside

/-- the state the replace starts in: the destination holds `old`, the temporary directory the
freshly written UFO `new`, nothing has been put aside -/
def start (old new : Node) : FS := { dest := some old, temp := some new, aside := none }

/-- the state a failed save must leave: the destination as it was, no temporary left -/
def restored (old : Node) : FS := { dest := some old, temp := none, aside := none }

end Replace
end DefconModel
