/-
Specification side of C20 (M-Sort): what "the tables are well formed", "a descriptor's tags are covered by
its ordered table" and the full property mean.  Written independently of the helper lemmas.
-/
import DefconModel.NameSort

namespace DefconModel
namespace NameSort

/-- the module constants never list a tag / a code point twice (a repeated entry would emit a bucket twice) -/
def Tables.WF (T : Tables) : Prop :=
  T.orderedScripts.Nodup ∧ T.orderedBlocks.Nodup ∧ T.orderedCategories.Nodup ∧ ∀ g ∈ T.manualGroups, g.Nodup

/-- every name of the list gets a tag the ordered list knows (or the ordered list is empty, in which
case the code sorts the tags it met) -/
def TagsCovered (tagOf : Name → String) (ordered : List String) (names : List Name) : Prop :=
  ordered = [] ∨ ∀ n ∈ names, tagOf n ∈ ordered

/-- hypothesis of the partial theorem for one basic descriptor: the three look-up sorts
(`category`, `block`, `script`) see only tags of their ordered table -/
def BasicCovered (env : Env) (T : Tables) (t : Basic) (pseudo : Bool) (names : List Name) : Prop :=
  match t with
  | .category => TagsCovered (fun n => env.categoryFor n pseudo) T.orderedCategories names
  | .block => TagsCovered (fun n => env.blockFor n pseudo) T.orderedBlocks names
  | .script => TagsCovered (fun n => env.scriptFor n pseudo) T.orderedScripts names
  | _ => True

/-- … for a public descriptor: the canned design sort runs `category` and `script` inside -/
def Covered (env : Env) (T : Tables) (d : Desc SortType) (names : List Name) : Prop :=
  match d.type with
  | .basic b => BasicCovered env T b d.pseudo names
  | .cannedDesign =>
    BasicCovered env T .category d.pseudo names ∧ BasicCovered env T .script d.pseudo names

instance (tagOf : Name → String) (ordered : List String) (names : List Name) :
    Decidable (TagsCovered tagOf ordered names) := by unfold TagsCovered; infer_instance

instance (env : Env) (T : Tables) (t : Basic) (pseudo : Bool) (names : List Name) :
    Decidable (BasicCovered env T t pseudo names) := by
  unfold BasicCovered; cases t <;> infer_instance

instance (env : Env) (T : Tables) (d : Desc SortType) (names : List Name) :
    Decidable (Covered env T d names) := by
  unfold Covered; split <;> infer_instance

/-- THE PROPERTY (multiset clause), full strength: whatever the look-ups, the names and the descriptors,
the result is a permutation of the input -/
def SortPerm (env : Env) (T : Tables) : Prop :=
  ∀ (ds : List (Desc SortType)) (names : List Name), (sortGlyphNames env T ds names).Perm names

/-- `l` holds no name more often than `l'` does (so nothing that is not in `l'`) -/
def SubMultiset (l l' : List Name) : Prop := ∀ x, l.count x ≤ l'.count x

/-- it is enough to look at the names of `l` -/
instance (l l' : List Name) : Decidable (SubMultiset l l') :=
  decidable_of_iff (∀ x ∈ l, l.count x ≤ l'.count x) (by
    unfold SubMultiset
    constructor
    · intro h x
      by_cases hx : x ∈ l
      · exact h x hx
      · rw [List.count_eq_zero.mpr hx]; exact Nat.zero_le _
    · intro h x _; exact h x)

/-- the container-partner loop as it was BEFORE repo_fixes/C20-container-partners.diff (kept only to
document finding F21b): the close relative is appended when it is not yet in the output, whether or not
it was given, and every waiting copy of it that the loop meets is removed -/
def partnersLoopBeforeFix (env : Env) (pseudo : Bool) : Nat → List Name → List Name → List Name
  | 0, _, order => order
  | _ + 1, [], order => order
  | fuel + 1, g :: rest, order =>
    let order := order ++ [g]
    match env.closeRelativeFor g pseudo with
    | none => partnersLoopBeforeFix env pseudo fuel rest order
    | some c =>
      partnersLoopBeforeFix env pseudo fuel (rest.erase c) (if order.contains c then order else order ++ [c])

/-- the container-partner loop with the head still waiting in the list while its close relative is looked for
(`glyphNames = glyphNames[1:]` moved behind the search; kept only to state when the place of that statement
matters: `Props.C20.partners_head_waiting_same` / `partners_head_waiting_differs`) -/
def partnersLoopHeadWaiting (env : Env) (pseudo : Bool) : Nat → List Name → List Name → List Name
  | 0, _, order => order
  | _ + 1, [], order => order
  | fuel + 1, g :: rest, order =>
    match env.closeRelativeFor g pseudo with
    | none => partnersLoopHeadWaiting env pseudo fuel rest (order ++ [g])
    | some c =>
      if (g :: rest).contains c then
        partnersLoopHeadWaiting env pseudo fuel ((g :: rest).erase c).tail (order ++ [g] ++ [c])
      else partnersLoopHeadWaiting env pseudo fuel rest (order ++ [g])

/-- sort types that read none of the ordered tables / manual groups -/
def Basic.tableFree : Basic → Bool
  | .category | .block | .script | .manualGroups => false
  | _ => true

def SortType.tableFree : SortType → Bool
  | .basic b => b.tableFree
  | .cannedDesign => false

/-- a small font for the examples: one row per glyph = (name, unicode, category, script, block, close relative);
names outside the table have no unicode and get the defaults of the real look-ups -/
structure Row where
  name : Name
  uni : Option Nat
  cat : String
  script : String
  block : String
  close : Option Name := none

def rowOf (rows : List Row) (n : Name) : Option Row := rows.find? (fun r => r.name == n)

def tableEnv (rows : List Row) : Env where
  unicodeFor n := (rowOf rows n).bind (·.uni)
  pseudoUnicodeFor n := (rowOf rows n).bind (·.uni)
  categoryFor n _ := ((rowOf rows n).map (·.cat)).getD "Cn"
  scriptFor n _ := ((rowOf rows n).map (·.script)).getD "Unknown"
  blockFor n _ := ((rowOf rows n).map (·.block)).getD "No_Block"
  closeRelativeFor n _ := (rowOf rows n).bind (·.close)
  inFont n := (rowOf rows n).isSome
  decompBase _ := -1
  nameForUnicode _ := none

/-- "A", "(" and ")" with their partners, a name without unicode -/
def demoEnv : Env := tableEnv [
  ⟨"A", some 65, "Lu", "Latin", "Basic Latin", none⟩,
  ⟨"parenleft", some 40, "Ps", "Common", "Basic Latin", some "parenright"⟩,
  ⟨"parenright", some 41, "Pe", "Common", "Basic Latin", none⟩,
  ⟨"a.alt", none, "Cn", "Unknown", "No_Block", none⟩]

/-- a typewriter-style design: ONE neutral glyph for U+201C and U+201D, so that it is its own close relative
(and, through pseudo-unicodes, so is its small-cap variant); ordinary parentheses beside it -/
def neutralEnv : Env := tableEnv [
  ⟨"a", some 97, "Ll", "Latin", "Basic Latin", none⟩,
  ⟨"comma", some 44, "Po", "Common", "Basic Latin", none⟩,
  ⟨"parenleft", some 40, "Ps", "Common", "Basic Latin", some "parenright"⟩,
  ⟨"parenright", some 41, "Pe", "Common", "Basic Latin", none⟩,
  ⟨"quotedblleft", some 8220, "Pi", "Common", "General Punctuation", some "quotedblleft"⟩,
  ⟨"quotedblleft.sc", none, "Pi", "Common", "General Punctuation", some "quotedblleft.sc"⟩]

end NameSort
end DefconModel
