/-
Specification side of C20 (M-Sort): what "the tables are well formed", "a descriptor's tags are covered by
its ordered table" and the full property mean.  Written independently of the helper lemmas.
-/
import DefconModel.NameSort

namespace DefconModel
namespace NameSort

/-- the module constants never list a tag / a code point twice (a repeated entry would emit a bucket twice) -/
def Tables.WF (T : Tables) : Prop :=
  T.orderedScripts.Nodup ∧ T.orderedBlocks.Nodup ∧ T.orderedCategories.Nodup ∧ ∀ g ∈ T.manualGroups, g.Nodup

/-- every name of the list gets a tag the ordered list knows (or the ordered list is empty, in which
case the code sorts the tags it met) -/
def TagsCovered (tagOf : Name → String) (ordered : List String) (names : List Name) : Prop :=
  ordered = [] ∨ ∀ n ∈ names, tagOf n ∈ ordered

/-- hypothesis of the partial theorem for one basic descriptor: the three look-up sorts
(`category`, `block`, `script`) see only tags of their ordered table -/
def BasicCovered (env : Env) (T : Tables) (t : Basic) (pseudo : Bool) (names : List Name) : Prop :=
  match t with
  | .category => TagsCovered (fun n => env.categoryFor n pseudo) T.orderedCategories names
  | .block => TagsCovered (fun n => env.blockFor n pseudo) T.orderedBlocks names
  | .script => TagsCovered (fun n => env.scriptFor n pseudo) T.orderedScripts names
  | _ => True

/-- … for a public descriptor: the canned design sort runs `category` and `script` inside -/
def Covered (env : Env) (T : Tables) (d : Desc SortType) (names : List Name) : Prop :=
  match d.type with
  | .basic b => BasicCovered env T b d.pseudo names
  | .cannedDesign =>
    BasicCovered env T .category d.pseudo names ∧ BasicCovered env T .script d.pseudo names

/-- THE PROPERTY (multiset clause), full strength: whatever the look-ups, the names and the descriptors,
the result is a permutation of the input -/
def SortPerm (env : Env) (T : Tables) : Prop :=
  ∀ (ds : List (Desc SortType)) (names : List Name), (sortGlyphNames env T ds names).Perm names

/-- the container-partner loop as it was BEFORE repo_fixes/C20-container-partners.diff (kept only to
document finding F21b): the close relative is appended when it is not yet in the output, whether or not
it was given, and every waiting copy of it that the loop meets is removed -/
def partnersLoopBeforeFix (env : Env) (pseudo : Bool) : Nat → List Name → List Name → List Name
  | 0, _, order => order
  | _ + 1, [], order => order
  | fuel + 1, g :: rest, order =>
    let order := order ++ [g]
    match env.closeRelativeFor g pseudo with
    | none => partnersLoopBeforeFix env pseudo fuel rest order
    | some c =>
      partnersLoopBeforeFix env pseudo fuel (rest.erase c) (if order.contains c then order else order ++ [c])

end NameSort
end DefconModel
