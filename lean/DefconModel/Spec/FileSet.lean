/-
Specification side of M-FileSet.
-/
import DefconModel.FileSet

namespace DefconModel
namespace FileSet

/-- the abstract content of the set: what a user who reads every file sees -/
def entryVal (disk : List (String × Blob)) (n : String) (e : Entry) : Option Blob :=
  match e.data with
  | some b => some b
  | none => AL.get? disk n

def abs (s : State) (n : String) : Option Blob :=
  match AL.get? s.entries n with
  | some e => entryVal s.disk n e
  | none => none

structure WF (s : State) : Prop where
  entryKeys : (AL.keys s.entries).Nodup
  schedKeys : (AL.keys s.sched).Nodup
  diskKeys : (AL.keys s.disk).Nodup
  /-- an unread entry is clean and its file exists in the bound UFO -/
  unread : ∀ n e, AL.get? s.entries n = some e → e.data = none → e.dirty = false ∧ AL.contains s.disk n = true
  /-- a read entry that is not dirty equals its file -/
  clean : ∀ n e b, AL.get? s.entries n = some e → e.data = some b → e.dirty = false → AL.get? s.disk n = some b
  /-- a name is never both present and scheduled for deletion -/
  disjoint : ∀ n, AL.contains s.sched n = true → AL.get? s.entries n = none
  /-- every file of the bound directory is an entry or scheduled for deletion -/
  covered : ∀ n, AL.contains s.disk n = true → (AL.get? s.entries n).isSome ∨ AL.contains s.sched n = true
  /-- a scheduled entry that is not dirty equals its file (restoring it keeps `clean`) -/
  schedClean : ∀ n e b, AL.get? s.sched n = some e → e.data = some b → e.dirty = false → AL.get? s.disk n = some b
  /-- what is scheduled for deletion has been read (deletion forces the read) -/
  schedRead : ∀ n e, AL.get? s.sched n = some e → e.data ≠ none

def upd (f : String → Option Blob) (n : String) (v : Option Blob) : String → Option Blob :=
  fun k => if k = n then v else f k

/-- every entry is clean: nothing left to write -/
def AllClean (s : State) : Prop :=
  s.dirty = false ∧ s.sched = [] ∧ ∀ n e, AL.get? s.entries n = some e → e.dirty = false

end FileSet
end DefconModel
