/-
Specification-side definitions for C11: who owns an object (read off the stored references), who lists
it (read off the child lists), the invariant `Wired` that ties the two and the registrations together,
and the ancestor relation.
-/
import DefconModel.Parents

namespace DefconModel
namespace Parents

/-- The container an object points back to: the reference its class uses as the OWNER pointer
(the others are caches of the accessors). -/
def owner (n : Node) : Option Id :=
  match n.kind with
  | .font => none
  | .layerSet => n.pFont
  | .layer => n.pLayerSet
  | .glyph => n.pLayer
  | .guideline => n.pGlyph.or n.pFont
  | .lib => n.pGlyph.or (n.pLayer.or n.pFont)
  | _ => n.pGlyph

def Heap.ownerOf (h : Heap) (x : Id) : Option Id := (h.get x).bind owner

/-- which kinds a container kind may list -/
def allowed : Kind → Kind → Bool
  | .font, .layerSet | .font, .guideline | .font, .lib => true
  | .layerSet, .layer => true
  | .layer, .glyph | .layer, .lib => true
  | .glyph, k => k.isLeaf
  | _, _ => false

/-- a container whose listing counts: a font, or something that still belongs to a container
(a glyph deleted from its layer keeps listing the objects it let go; it is not alive) -/
def Heap.alive (h : Heap) (p : Id) : Prop :=
  ∃ n, h.get p = some n ∧ (n.kind = .font ∨ owner n ≠ none)

/-- The container of kind `k` above `x`, following the OWNER pointers only (never a cache): the truth the
accessors are measured against.  `fuel` bounds the walk; the tree is five levels deep. -/
def anc (h : Heap) (k : Kind) : Nat → Id → Option Id
  | 0, _ => none
  | fuel + 1, x =>
    match h.ownerOf x with
    | none => none
    | some p => if h.kindOf p = some k then some p else anc h k fuel p

def ancOf (h : Heap) (k : Kind) (x : Id) : Option Id := anc h k 4 x

/-- the font whose notification centre `x` uses: itself for a font, else the font above it -/
def centreOf (h : Heap) (x : Id) : Option Id :=
  if h.kindOf x = some .font then some x else ancOf h .font x

/-- `o` observes `s` legitimately: it owns it, or it is the font of the layer `s` -/
def Link (h : Heap) (o s : Id) : Prop :=
  h.ownerOf s = some o ∨ (h.kindOf s = some .layer ∧ ancOf h .font s = some o)

/-- The structural part of the invariant.  `dying` are containers in the middle of being let go (the
objects they list are released one by one before they are released themselves). -/
structure Struct (dying : List Id) (h : Heap) : Prop where
  /-- child lists hold existing objects of the kinds the container can hold, never twice -/
  kKids : ∀ p np x, h.get p = some np → x ∈ np.kids → ∃ nx, h.get x = some nx ∧ allowed np.kind nx.kind = true
  kidsNodup : ∀ p np, h.get p = some np → np.kids.Nodup
  /-- which references a kind uses at all -/
  shape : ∀ x n, h.get x = some n →
    (n.kind.isLeaf = false → n.pGlyph = none) ∧
    (n.kind = .font → n.pLayer = none ∧ n.pLayerSet = none ∧ n.pFont = none ∧ n.disp = none) ∧
    (n.kind = .layerSet → n.pLayer = none ∧ n.pLayerSet = none) ∧
    (n.kind = .layer → n.pLayer = none ∧ n.pFont = none)
  /-- an object that points to an owner is listed by it -/
  up : ∀ x n p, h.get x = some n → owner n = some p → x ∈ h.kidsOf p
  /-- an object listed by a container that is alive points to it -/
  down : ∀ p x, h.alive p → p ∉ dying → x ∈ h.kidsOf p → h.ownerOf x = some p
  /-- an object without owner holds no reference at all -/
  loose : ∀ x n, h.get x = some n → owner n = none →
    n.pGlyph = none ∧ n.pLayer = none ∧ n.pLayerSet = none ∧ n.pFont = none ∧ n.disp = none
  /-- every stored reference — owner pointer or cache — is the true container of its kind -/
  refs : ∀ x n a, h.get x = some n →
    (n.pGlyph = some a → ancOf h .glyph x = some a) ∧
    (n.pLayer = some a → ancOf h .layer x = some a) ∧
    (n.pLayerSet = some a → ancOf h .layerSet x = some a) ∧
    (n.pFont = some a → ancOf h .font x = some a) ∧
    (n.disp = some a → ancOf h .font x = some a)
  /-- a glyph in a layer stores its layer set and font; a layer in a layer set is never without font -/
  full : ∀ x n, h.get x = some n →
    (n.kind = .glyph → n.pLayer ≠ none → n.pLayerSet ≠ none ∧ n.pFont ≠ none) ∧
    (n.kind = .layer → n.pLayerSet ≠ none → ancOf h .font x ≠ none)

/-- The invariant: the structure, and every registration is an object's observation of itself or a
container's observation of an object it owns, in the centre of the font the object belongs to. -/
structure WiredX (dying : List Id) (h : Heap) : Prop extends Struct dying h where
  regSound : ∀ r ∈ h.regs, centreOf h r.observable = some r.centre ∧
    ((r.name = .all ∧ r.observer = r.observable) ∨ (r.name ∈ namesFor h r.observer r.observable ∧ Link h r.observer r.observable))

abbrev Wired (h : Heap) : Prop := WiredX [] h

/-- `a` is `x` or one of the containers above it, following the owner pointers -/
inductive Anc (h : Heap) : Id → Id → Prop where
  | refl (x : Id) : Anc h x x
  | step {x p a : Id} : h.ownerOf x = some p → Anc h p a → Anc h x a

end Parents
end DefconModel
