/-
Specification side of C14: what "equal observable data" means for each kind, the well-formedness
hypotheses (which Python objects the model objects stand for) and the wiring predicates.
-/
import DefconModel.Serial

namespace DefconModel
namespace Serial

/-- a model dict stands for a Python dict: keys are unique -/
def DictWF (d : Dict) : Prop := (AL.keys d).Nodup

instance (d : Dict) : Decidable (DictWF d) := by unfold DictWF; infer_instance

/-- same content as dictionaries: every key answers the same (insertion order is not content) -/
def DictEq (a b : Dict) : Prop := ∀ k, AL.get? a k = AL.get? b k

/-- two lists of the same length whose elements are related position by position -/
inductive ListRel {α β : Type} (R : α → β → Prop) : List α → List β → Prop
  | nil : ListRel R [] []
  | cons {a b l1 l2} : R a b → ListRel R l1 l2 → ListRel R (a :: l1) (b :: l2)

/-- the attribute getters `attrs` (all implemented as `self.get(k)`) answer the same on both -/
def AttrEq (attrs : List String) (a b : Dict) : Prop := ∀ k ∈ attrs, dictGet a k = dictGet b k

def anchorAttrs : List String := ["x", "y", "name", "color", "identifier"]
def guidelineAttrs : List String := ["x", "y", "angle", "name", "color", "identifier"]
def imageAttrs : List String :=
  ["fileName", "xScale", "xyScale", "yxScale", "yScale", "xOffset", "yOffset", "color"]

/-- an Image object always holds its eight entries (`__init__` and `clear` fill them in) -/
def ImageWF (d : Dict) : Prop := DictWF d ∧ ∀ k ∈ imageAttrs, AL.contains d k = true

instance (d : Dict) : Decidable (ImageWF d) := by unfold ImageWF; infer_instance

/-! ### the hand-written side of the table obligations -/

/-- The observable fields of the table-driven kinds, from the property's enumeration (font: layers with
order and default, glyphs, info, kerning, groups, features, lib, temporary lib, guidelines, images, data;
the two private font keys carry the format version and the kerning-group rename maps).  Dict-like kinds,
Info and the file sets have no fixed keys: see `expectedDynamic`. -/
def observable : List (String × List String) := [
  ("font", ["layers", "info", "kerning", "groups", "features", "lib", "tempLib", "guidelines", "images", "data",
            "_ufoFormatVersion", "_kerningGroupConversionRenameMaps"]),
  ("layerSet", ["layers"]),
  ("layer", ["lib", "tempLib", "color", "glyphs"]),
  ("glyph", ["name", "unicodes", "width", "height", "note", "components", "anchors", "guidelines", "image", "lib",
             "tempLib"]),
  ("contour", ["pen"]),
  ("component", ["baseGlyph", "transformation", "identifier"]),
  ("features", ["text"])]

/-- the two mutually exclusive keys that carry a glyph's contours -/
def glyphContourKeys : List String := ["_shallowLoadedContours", "_contours"]

/-- the keys the model's getField / setField functions implement, per kind -/
def modelKeys : List (String × List String) := [
  ("font", ["_ufoFormatVersion", "_kerningGroupConversionRenameMaps", "data", "features", "groups", "images", "info",
            "kerning", "layers", "lib", "tempLib", "guidelines"]),
  ("layerSet", ["layers"]),
  ("layer", ["lib", "tempLib", "color", "glyphs"]),
  ("glyph", ["name", "unicodes", "width", "height", "note", "components", "anchors", "guidelines", "image", "lib",
             "tempLib", "_shallowLoadedContours", "_contours"]),
  ("contour", ["pen"]),
  ("component", ["baseGlyph", "transformation", "identifier"]),
  ("features", ["text"])]

/-- kinds without a fixed key table: (kind, class providing both methods, key source of the getter, bulk form
of the setter) -/
def expectedDynamic : List (String × String × String × String) := [
  ("anchor", "BaseDictObject", "keys", "update"), ("guideline", "BaseDictObject", "keys", "update"),
  ("image", "BaseDictObject", "keys", "update"), ("lib", "BaseDictObject", "keys", "update"),
  ("kerning", "BaseDictObject", "keys", "update"), ("groups", "BaseDictObject", "keys", "update"),
  ("info", "Info", "properties", "properties"),
  ("imageSet", "ImageSet", "fileNames", "items"), ("dataSet", "DataSet", "fileNames", "items")]

/-- every kind of the property's enumeration -/
def allKinds : List String :=
  ["font", "layerSet", "layer", "glyph", "contour", "component", "anchor", "guideline", "image", "lib", "kerning",
   "groups", "info", "features", "imageSet", "dataSet"]

def setKeyNames (r : Gen.SerialTables.Row) : List String := r.setKeys.map Prod.fst

/-- `fields` all have a getter entry and a setter entry in the row of `kind` -/
def covered (kind : String) (fields : List String) : Bool :=
  Gen.SerialTables.rows.any fun r =>
    r.kind == kind && fields.all fun f => r.getKeys.contains f && (setKeyNames r).contains f

/-- every key of the row of `kind` is one the model implements -/
def known (kind : String) (keys : List String) : Bool :=
  Gen.SerialTables.rows.all fun r =>
    r.kind != kind ||
      ((r.getKeys ++ r.getAlt ++ setKeyNames r).all fun k => keys.contains k) && r.getDyn == "" && r.setDyn == ""

def dynamicAsExpected (e : String × String × String × String) : Bool :=
  Gen.SerialTables.rows.any fun r =>
    r.kind == e.1 && r.getProvider == e.2.1 && r.setProvider == e.2.1 && r.getDyn == e.2.2.1 && r.setDyn == e.2.2.2
      && r.getKeys.isEmpty && r.getAlt.isEmpty && r.setKeys.isEmpty

/-! ### new objects -/

/-- a new glyph: no outline, no children, no image object yet, empty identifier registry (name, metrics,
libs, parent and observer flags are arbitrary: a glyph made by `Glyph()` and one made by
`layer.newGlyph(name)` inside a font are both new) -/
structure Glyph.Fresh (t : Glyph) : Prop where
  shallow : t.shallow = none
  contours : t.contours = []
  components : t.components = []
  anchors : t.anchors = []
  guidelines : t.guidelines = []
  image : t.image = none
  reg : t.reg = .ok []

/-! ### what the rebuilt objects are, field by field -/

/-- `Anchor(glyph=…, anchorDict=d)` without the registry -/
def Anchor.build (d : Dict) : DictObj := { items := Anchor.itemsOf d, parent := true, observed := false }
/-- `Guideline(…, guidelineDict=d)` without the registry -/
def Guideline.build (d : Dict) : DictObj := { items := Guideline.itemsOf d, parent := true, observed := false }

def Contour.rebuilt (disp : Bool) (c : Contour) : Contour :=
  { ident := c.ident, points := c.points, parent := true, observed := disp }
def Component.rebuilt (disp : Bool) (c : Component) : Component :=
  { base := c.base, transformation := c.transformation, ident := c.ident, parent := true, observed := disp }

/-- identifiers a contour registers, in order: its own, then its points' -/
def Contour.ids (c : Contour) : List Val := c.ident :: c.points.map (·.ident)

/-- identifiers the rebuild of `g` registers, in the order the setters run: full contours, components,
guidelines, anchors (contours kept in shallow form register theirs only when they are fully loaded) -/
def Glyph.regIds (g : Glyph) : List Val :=
  (if g.shallow.isSome then [] else g.contours.flatMap Contour.ids)
  ++ g.components.map (·.ident)
  ++ g.guidelines.map dictIdent
  ++ g.anchors.map dictIdent

/-- the glyph `setDataFromSerialization(g.getDataForSerialization())` leaves in a new glyph `t` -/
def Glyph.rebuiltFrom (g t : Glyph) : Glyph :=
  { t with
    name := g.name, unicodes := g.unicodes, width := g.width, height := g.height, note := g.note
    lib := { items := g.lib.items, parent := true, observed := t.disp }
    tempLib := { items := g.tempLib.items, parent := true, observed := false }
    shallow := g.shallow
    contours := if g.shallow.isSome then [] else g.contours.map (Contour.rebuilt t.disp)
    components := g.components.map (Component.rebuilt t.disp)
    guidelines := g.guidelines.map (fun a => { Guideline.build a.items with observed := t.disp })
    anchors := g.anchors.map (fun a => { Anchor.build a.items with observed := t.disp })
    image := some { items := copyImage (dictUpdate imageDefaults g.imageObj.items) imageDefaults,
                    parent := true, observed := t.disp }
    reg := (Reg.ok []).addAll g.regIds }

/-- the dictionaries inside a glyph stand for Python dicts -/
structure Glyph.DictsWF (g : Glyph) : Prop where
  lib : DictWF g.lib.items
  tempLib : DictWF g.tempLib.items
  image : ImageWF g.imageObj.items
  anchors : ∀ a ∈ g.anchors, DictWF a.items
  guidelines : ∀ a ∈ g.guidelines, DictWF a.items

/-! ### equal observable data, glyph level -/

/-- the stream of point-pen calls `glyph.drawPoints` emits for the contours, in either load state -/
def Glyph.pens (g : Glyph) : List PenRec :=
  match g.shallow with
  | some l => l
  | none => g.contours.map Contour.toPen

def Component.data (c : Component) : Val × Val × Val := (c.base, c.transformation, c.ident)

/-- every public getter of the glyph answers the same on `r` and on `g` -/
structure Glyph.ObsEq (r g : Glyph) : Prop where
  name : r.name = g.name
  unicodes : r.unicodes = g.unicodes
  width : r.width = g.width
  height : r.height = g.height
  note : r.note = g.note
  lib : DictEq r.lib.items g.lib.items
  tempLib : DictEq r.tempLib.items g.tempLib.items
  image : AttrEq imageAttrs r.imageObj.items g.imageObj.items
  pens : r.pens = g.pens
  loadState : r.shallow.isSome = g.shallow.isSome
  components : r.components.map Component.data = g.components.map Component.data
  anchors : ListRel (fun a b => AttrEq anchorAttrs a.items b.items) r.anchors g.anchors
  guidelines : ListRel (fun a b => AttrEq guidelineAttrs a.items b.items) r.guidelines g.guidelines

/-- while contours are kept in shallow form the contour list is empty (`_contours == []`) -/
def Glyph.LoadStateWF (g : Glyph) : Prop := g.shallow.isSome = true → g.contours = []

/-- all identifiers in use in the glyph, in the order a rebuild followed by the full load registers them -/
def Glyph.usedIds (g : Glyph) : List Val :=
  (g.regIds ++ (match g.shallow with | some l => l.flatMap PenRec.ids | none => [])).filter (· ≠ pyNone)

/-- every child of the glyph answers the glyph as its parent and is observed iff a dispatcher exists -/
structure Glyph.ChildrenWired (g : Glyph) : Prop where
  contours : ∀ c ∈ g.contours, c.parent = true ∧ c.observed = g.disp
  components : ∀ c ∈ g.components, c.parent = true ∧ c.observed = g.disp
  anchors : ∀ c ∈ g.anchors, c.parent = true ∧ c.observed = g.disp
  guidelines : ∀ c ∈ g.guidelines, c.parent = true ∧ c.observed = g.disp
  lib : g.lib.parent = true ∧ g.lib.observed = g.disp
  tempLib : g.tempLib.parent = true
  image : ∀ i, g.image = some i → i.parent = true ∧ i.observed = g.disp

/-! ### layer, layer set, font -/

/-- a new layer: no glyphs yet, nothing failed (name, colour, libs and flags arbitrary) -/
structure Layer.Fresh (t : Layer) : Prop where
  glyphs : t.glyphs = []
  err : t.err = none

/-- the new glyph object `Layer.setDataFromSerialization` makes for every entry -/
def Layer.newGlyph (disp : Bool) : Glyph := { parent := true, disp := disp }

/-- one rebuilt entry of a layer: the glyph rebuilt into a new glyph of the layer, named by the key, observed -/
def Layer.rebuiltEntry (disp : Bool) (ng : Val × Glyph) : Val × Glyph :=
  (ng.1, { Glyph.rebuiltFrom ng.2 (Layer.newGlyph disp) with name := ng.1, observed := disp })

def Glyph.rebuildError (g : Glyph) : Option String := ((Reg.ok []).addAll g.regIds).error

/-- the unicode-data object of a layer along `set_glyphs`: `seen` = the glyphs already in the layer, `c` = the
object so far; every further glyph is inserted (`cacheInsert`) and announced, and at the scheduled announcements
(with a dispatcher) the observer's read builds the object if there is none -/
def cacheAlong (disp : Bool) (peekAt : List Nat) :
    List (Val × Glyph) → Option (List (Val × Val)) → List (Val × Glyph) → Option (List (Val × Val))
  | _, c, [] => c
  | seen, c, ng :: rest =>
    let c1 := cacheInsert c ng.1 ng.2.unicodes
    let c2 := if disp && peekAt.contains (seen ++ [ng]).length then some (c1.getD (cmapOfGlyphs (seen ++ [ng]))) else c1
    cacheAlong disp peekAt (seen ++ [ng]) c2 rest

def Layer.rebuiltFrom (ly t : Layer) : Layer :=
  { t with
    lib := { items := ly.lib.items, parent := true, observed := t.disp }
    tempLib := { items := ly.tempLib.items, parent := true, observed := false }
    color := ly.color
    glyphs := ly.glyphs.map (Layer.rebuiltEntry t.disp)
    err := ly.glyphs.foldl (fun e ng => orErr e ng.2.rebuildError) none
    ucache := cacheAlong t.disp t.peekAt [] t.ucache (ly.glyphs.map (Layer.rebuiltEntry t.disp)) }

/-- the unicode-data object of a layer says what the glyphs say (or does not exist yet) -/
def Layer.CacheOK (ly : Layer) : Prop := ly.ucache = none ∨ ly.ucache = some (cmapOfGlyphs ly.glyphs)

structure Layer.WF (ly : Layer) : Prop where
  lib : DictWF ly.lib.items
  tempLib : DictWF ly.tempLib.items
  /-- `_glyphs` is a dict -/
  names : (AL.keys ly.glyphs).Nodup
  /-- … keyed by the glyphs' names -/
  keyed : ∀ ng ∈ ly.glyphs, ng.2.name = ng.1
  glyphs : ∀ ng ∈ ly.glyphs, ng.2.DictsWF

structure Layer.ObsEq (r ly : Layer) : Prop where
  color : r.color = ly.color
  lib : DictEq r.lib.items ly.lib.items
  tempLib : DictEq r.tempLib.items ly.tempLib.items
  glyphs : ListRel (fun a b => a.1 = b.1 ∧ Glyph.ObsEq a.2 b.2) r.glyphs ly.glyphs

/-- a new layer set: no layers, no default, nothing failed -/
structure LayerSet.Fresh (t : LayerSet) : Prop where
  layers : t.layers = []
  default : t.default = pyNone
  err : t.err = none

/-- the layer `newLayer(name)` makes -/
def LayerSet.newLayer (disp : Bool) (peekAt : List Nat) (n : Val) : Layer :=
  { name := n, parent := true, observed := disp, disp := disp, peekAt := peekAt }

def LayerSet.rebuiltEntry (disp : Bool) (peekAt : List Nat) (nl : Val × Layer) : Val × Layer :=
  (nl.1, Layer.rebuiltFrom nl.2 (LayerSet.newLayer disp peekAt nl.1))

def LayerSet.rebuiltFrom (ls t : LayerSet) : LayerSet :=
  { t with
    layers := ls.layers.map (LayerSet.rebuiltEntry t.disp t.peekAt)
    default := if ls.default ∈ AL.keys ls.layers then ls.default else pyNone
    err := ls.layers.foldl (fun e nl => orErr e (LayerSet.rebuiltEntry t.disp t.peekAt nl).2.err) none }

structure LayerSet.WF (ls : LayerSet) : Prop where
  names : (AL.keys ls.layers).Nodup
  layers : ∀ nl ∈ ls.layers, nl.2.WF
  /-- the default layer is one of the layers (or there is none: a layer set on its own before any layer exists) -/
  default : ls.default ∈ AL.keys ls.layers ∨ ls.default = pyNone

structure LayerSet.ObsEq (r ls : LayerSet) : Prop where
  /-- same layers, same order, same names, each with equal observable data -/
  layers : ListRel (fun a b => a.1 = b.1 ∧ Layer.ObsEq a.2 b.2) r.layers ls.layers
  default : r.default = ls.default

/-- a new font as far as deserialization can tell: no guidelines, empty registry, info at its defaults -/
structure Font.Fresh (t : Font) : Prop where
  guidelines : t.guidelines = []
  reg : t.reg = .ok []
  info : ∀ k, dictGet t.info.items k = Info.default k

def Font.rebuiltFrom (f t : Font) : Font :=
  { t with
    fmt := f.fmt, maps := f.maps
    data := { items := f.data.items, parent := true, observed := true }
    images := { items := f.images.items, parent := true, observed := true }
    features := { text := f.features.text, parent := true, observed := true }
    groups := { items := f.groups.items, parent := true, observed := true }
    kerning := { items := f.kerning.items, parent := true, observed := true }
    lib := { items := f.lib.items, parent := true, observed := true }
    tempLib := { items := f.tempLib.items, parent := true, observed := t.tempLib.observed }
    info := Info.deser (Info.ser none none f.info) (wired t.info)
    layers := LayerSet.rebuiltFrom f.layers { parent := true, observed := true, disp := true, peekAt := t.layers.peekAt }
    guidelines := f.guidelines.map (fun a => { Guideline.build a.items with observed := true })
    reg := (Reg.ok []).addAll (f.guidelines.map dictIdent) }

/-- the stored Info values: every property is present, and a property reads None only if None is its default
(the generated setter replaces None by the default) -/
structure InfoWF (i : DictObj) : Prop where
  dict : DictWF i.items
  none_is_default : ∀ k ∈ AL.keys Gen.SerialTables.infoProperties, dictGet i.items k = pyNone → Info.default k = pyNone

structure Font.WF (f : Font) : Prop where
  data : DictWF f.data.items
  images : DictWF f.images.items
  groups : DictWF f.groups.items
  kerning : DictWF f.kerning.items
  lib : DictWF f.lib.items
  tempLib : DictWF f.tempLib.items
  info : InfoWF f.info
  layers : f.layers.WF
  guidelines : ∀ a ∈ f.guidelines, DictWF a.items

structure Font.ObsEq (r f : Font) : Prop where
  fmt : r.fmt = f.fmt
  maps : r.maps = f.maps
  data : DictEq r.data.items f.data.items
  images : DictEq r.images.items f.images.items
  features : r.features.text = f.features.text
  groups : DictEq r.groups.items f.groups.items
  kerning : DictEq r.kerning.items f.kerning.items
  lib : DictEq r.lib.items f.lib.items
  tempLib : DictEq r.tempLib.items f.tempLib.items
  info : ∀ k ∈ AL.keys Gen.SerialTables.infoProperties, dictGet r.info.items k = dictGet f.info.items k
  layers : r.layers.ObsEq f.layers
  guidelines : ListRel (fun a b => AttrEq guidelineAttrs a.items b.items) r.guidelines f.guidelines

/-- the identifiers in use in every glyph of the layer are pairwise distinct (C10's invariant) -/
def Layer.IdsWF (ly : Layer) : Prop := ∀ ng ∈ ly.glyphs, ng.2.usedIds.Nodup

instance (ly : Layer) : Decidable ly.IdsWF := by unfold Layer.IdsWF; infer_instance

def LayerSet.IdsWF (ls : LayerSet) : Prop := ∀ nl ∈ ls.layers, nl.2.IdsWF

instance (ls : LayerSet) : Decidable ls.IdsWF := by unfold LayerSet.IdsWF; infer_instance

/-- identifiers of the font-level guidelines, those that are not None -/
def Font.usedIds (f : Font) : List Val := (f.guidelines.map dictIdent).filter (· ≠ pyNone)

/-! ### wiring of whole trees -/

/-- a glyph inside a font: observed by its layer, a dispatcher exists, all children wired in both load states -/
structure Glyph.Wired (g : Glyph) : Prop where
  parent : g.parent = true
  observed : g.observed = true
  disp : g.disp = true
  children : g.ChildrenWired
  loaded : g.fullyLoad.ChildrenWired

structure Layer.Wired (ly : Layer) : Prop where
  parent : ly.parent = true
  observed : ly.observed = true
  lib : ly.lib.parent = true ∧ ly.lib.observed = true
  tempLib : ly.tempLib.parent = true
  glyphs : ∀ ng ∈ ly.glyphs, ng.2.Wired

structure LayerSet.Wired (ls : LayerSet) : Prop where
  parent : ls.parent = true
  observed : ls.observed = true
  layers : ∀ nl ∈ ls.layers, nl.2.Wired

def DictObj.Wired (o : DictObj) : Prop := o.parent = true ∧ o.observed = true

/-- every object of the font answers the right parent and is observed by its container (temp libs have a
parent and, by design, no observer) -/
structure Font.Wired (f : Font) : Prop where
  data : f.data.Wired
  images : f.images.Wired
  features : f.features.parent = true ∧ f.features.observed = true
  groups : f.groups.Wired
  kerning : f.kerning.Wired
  lib : f.lib.Wired
  tempLib : f.tempLib.parent = true
  info : f.info.Wired
  layers : f.layers.Wired
  guidelines : ∀ a ∈ f.guidelines, a.Wired

end Serial
end DefconModel
