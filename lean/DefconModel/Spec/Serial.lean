/-
Specification side of C14: what "equal observable data" means for each kind, the well-formedness
hypotheses (which Python objects the model objects stand for) and the wiring predicates.
-/
import DefconModel.Serial

namespace DefconModel
namespace Serial

/-- a model dict stands for a Python dict: keys are unique -/
def DictWF (d : Dict) : Prop := (AL.keys d).Nodup

/-- same content as dictionaries: every key answers the same (insertion order is not content) -/
def DictEq (a b : Dict) : Prop := ∀ k, AL.get? a k = AL.get? b k

/-- the attribute getters `attrs` (all implemented as `self.get(k)`) answer the same on both -/
def AttrEq (attrs : List String) (a b : Dict) : Prop := ∀ k ∈ attrs, dictGet a k = dictGet b k

def anchorAttrs : List String := ["x", "y", "name", "color", "identifier"]
def guidelineAttrs : List String := ["x", "y", "angle", "name", "color", "identifier"]
def imageAttrs : List String :=
  ["fileName", "xScale", "xyScale", "yxScale", "yScale", "xOffset", "yOffset", "color"]

/-- an Image object always holds its eight entries (`__init__` and `clear` fill them in) -/
def ImageWF (d : Dict) : Prop := DictWF d ∧ ∀ k ∈ imageAttrs, AL.contains d k = true

/-! ### new objects -/

/-- a new glyph: no outline, no children, no image object yet, empty identifier registry (name, metrics,
libs, parent and observer flags are arbitrary: a glyph made by `Glyph()` and one made by
`layer.newGlyph(name)` inside a font are both new) -/
structure Glyph.Fresh (t : Glyph) : Prop where
  shallow : t.shallow = none
  contours : t.contours = []
  components : t.components = []
  anchors : t.anchors = []
  guidelines : t.guidelines = []
  image : t.image = none
  reg : t.reg = .ok []

/-! ### what the rebuilt objects are, field by field -/

/-- `Anchor(glyph=…, anchorDict=d)` without the registry -/
def Anchor.build (d : Dict) : DictObj := (Anchor.ofDict d (.ok [])).1
/-- `Guideline(…, guidelineDict=d)` without the registry -/
def Guideline.build (d : Dict) : DictObj := (Guideline.ofDict d (.ok [])).1

def Contour.rebuilt (disp : Bool) (c : Contour) : Contour :=
  { ident := c.ident, points := c.points, parent := true, observed := disp }
def Component.rebuilt (disp : Bool) (c : Component) : Component :=
  { base := c.base, transformation := c.transformation, ident := c.ident, parent := true, observed := disp }

/-- identifiers a contour registers, in order: its own, then its points' -/
def Contour.ids (c : Contour) : List Val := c.ident :: c.points.map (·.ident)

/-- identifiers the rebuild of `g` registers, in the order the setters run: full contours, components,
guidelines, anchors (contours kept in shallow form register theirs only when they are fully loaded) -/
def Glyph.regIds (g : Glyph) : List Val :=
  (if g.shallow.isSome then [] else g.contours.flatMap Contour.ids)
  ++ g.components.map (·.ident)
  ++ g.guidelines.map dictIdent
  ++ g.anchors.map dictIdent

/-- the glyph `setDataFromSerialization(g.getDataForSerialization())` leaves in a new glyph `t` -/
def Glyph.rebuiltFrom (g t : Glyph) : Glyph :=
  { t with
    name := g.name, unicodes := g.unicodes, width := g.width, height := g.height, note := g.note
    lib := { items := g.lib.items, parent := true, observed := t.disp }
    tempLib := { items := g.tempLib.items, parent := true, observed := false }
    shallow := g.shallow
    contours := if g.shallow.isSome then [] else g.contours.map (Contour.rebuilt t.disp)
    components := g.components.map (Component.rebuilt t.disp)
    guidelines := g.guidelines.map (fun a => { Guideline.build a.items with observed := t.disp })
    anchors := g.anchors.map (fun a => { Anchor.build a.items with observed := t.disp })
    image := some { items := copyImage (dictUpdate imageDefaults g.imageObj.items) imageDefaults,
                    parent := true, observed := t.disp }
    reg := (Reg.ok []).addAll g.regIds }

/-- the dictionaries inside a glyph stand for Python dicts -/
structure Glyph.DictsWF (g : Glyph) : Prop where
  lib : DictWF g.lib.items
  tempLib : DictWF g.tempLib.items
  image : DictWF g.imageObj.items
  anchors : ∀ a ∈ g.anchors, DictWF a.items
  guidelines : ∀ a ∈ g.guidelines, DictWF a.items

end Serial
end DefconModel
