/-
Specification-side definitions for C05: what "the UFO on disk is byte-identical to what the font
last read or wrote" means for every kind of stamped datum, and the empty report.
The stamps record the bytes of the last read / write (that is what every `_stamp…` call stores);
`…Agree` says that those bytes are the bytes on disk now.  Modification times never occur in these
definitions: agreement is about bytes only.
-/
import DefconModel.Ext

namespace DefconModel
namespace Ext

/-- the bytes of a top-level file (`none`: no such file) -/
def diskData (d : Disk) (p : Part) : Option Blob := (AL.get? d.parts p).map (·.blob)

/-- the top-level object `p`, if loaded, was last read from / written to bytes that are on disk now -/
def PartAgree (s : State) (p : Part) : Prop :=
  ∀ mp, getPart s p = some mp → mp.stamp.data = diskData s.disk p

/-- a glyph layer in memory against its directory on disk -/
structure LayerSynced (ln : String) (dl : DLayer) (l : MLayer) : Prop where
  /-- the layer info last read / written is the one on disk -/
  info : l.infoStamp = some dl.info
  /-- the glyph listing the layer knows (its keys plus what it has scheduled for deletion) is the
  listing on disk -/
  names : ∀ gn, gn ∈ AL.keys dl.glifs ↔ (gn ∈ l.keys ∨ AL.contains l.sched gn = true)
  disjoint : ∀ gn, gn ∈ l.keys → AL.contains l.sched gn = false
  /-- a glyph that carries a stamp was read from / written to bytes that are on disk now -/
  glyphs : ∀ gn g st, (gn, g) ∈ l.glyphs → g.stamp = some st → ∃ f, AL.get? dl.glifs gn = some f ∧ f.blob = st.blob
  /-- a file scheduled for deletion is still the file that was scheduled -/
  sched : ∀ gn st, AL.get? l.sched gn = some st → ∃ f st', AL.get? dl.glifs gn = some f ∧ st = some st' ∧ f.blob = st'.blob
  /-- the bound glyph set reads this directory, is open, and lists what is on disk -/
  gs : ∃ g, l.gs = some g ∧ g.lname = ln ∧ g.alive = true ∧ ∀ gn, gn ∈ g.contents ↔ gn ∈ AL.keys dl.glifs
  /-- well-formedness of `_glyphs`: a dictionary, whose names are among the keys -/
  loaded : ∀ gn g, (gn, g) ∈ l.glyphs → gn ∈ l.keys
  nodupGlyphs : (AL.keys l.glyphs).Nodup

/-- the image / data set in memory against the directory on disk -/
structure FSSynced (files : List (String × File)) (fs : FileSet) : Prop where
  /-- every file on disk is known (listed, or scheduled for deletion) -/
  known : ∀ n, n ∈ AL.keys files → AL.contains fs.entries n = true ∨ AL.contains fs.sched n = true
  /-- an entry believed to be on disk is on disk; one that is not believed to be is not -/
  onDisk : ∀ n e, (n, e) ∈ fs.entries → (e.onDisk = true ↔ AL.contains files n = true)
  /-- loaded entries were read from / written to the bytes on disk -/
  digest : ∀ n e f, (n, e) ∈ fs.entries → AL.get? files n = some f → e.data.isSome → e.digest = some f.blob
  /-- an entry that holds no data is one that was listed from disk -/
  unloaded : ∀ n e, (n, e) ∈ fs.entries → e.data = none → e.onDisk = true
  schedOnDisk : ∀ n e, AL.get? fs.sched n = some e → AL.contains fs.entries n = false →
    (e.onDisk = true ↔ AL.contains files n = true)
  schedDigest : ∀ n e f, AL.get? fs.sched n = some e → AL.get? files n = some f → e.digest = some f.blob
  schedUnloaded : ∀ n e, AL.get? fs.sched n = some e → e.data = none → e.onDisk = true
  nodupSched : (AL.keys fs.sched).Nodup
  nodupEntries : (AL.keys fs.entries).Nodup

/-- the bytes of every file a reader is kept open for (glyph directories, images, data; the
top-level files are always read through a fresh reader), the modification times forgotten -/
def stripTimes (d : Disk) : Disk := retime 0 { d with parts := [] }

/-- Every stamp in the font holds the bytes that are on disk now, the listings the font knows are
the listings on disk: the UFO is byte-identical to what the font last read or wrote.  Nothing is
said about modification times, dirty flags or in-memory values. -/
structure Synced (s : State) : Prop where
  parts : ∀ p, PartAgree s p
  order : s.font.order = layerNames s.disk
  default : s.font.default = s.disk.default
  layers : ∀ ln, ln ∈ s.font.order →
    ∃ l dl, AL.get? s.font.layers ln = some l ∧ AL.get? s.disk.layers ln = some dl ∧ LayerSynced ln dl l
  images : FSSynced s.disk.images s.font.images
  data : FSSynced s.disk.data s.font.data
  /-- (zip) the archive the font's reader has open holds the same bytes -/
  reader : s.zip = true → stripTimes s.reader = stripTimes s.disk
  /-- well-formedness of the dictionaries -/
  nodupOrder : s.font.order.Nodup

/-- the layer is bound to an open glyph set of the font's current reader that lists what is on disk
now, and (zip) that reader has the archive open as it is now -/
def Bound (s : State) (ln : String) : Prop :=
  (∃ l, getLayer s ln = some l ∧ l.gs = some ⟨ln, glifNames s.disk ln, true⟩) ∧ (s.zip = true → s.reader = s.disk)

/-- the report that names nothing: loaded top-level objects unchanged, everything else empty -/
def quietReport (s : State) : Report :=
  { parts := allParts.map fun p => (p, (getPart s p).map fun _ => false) }

/-- a glyph that exists in memory only: it is loaded and dirty (the next save writes it) -/
def MemOnly (l : MLayer) (gn : String) : Prop := ∃ g, AL.get? l.glyphs gn = some g ∧ g.dirty = true

/-- a glyph layer in step with its directory on disk EXCEPT for glyphs that exist in memory only
(created or renamed in memory under a name the directory does not hold — what finding F8.1 is
about): every file is known, every key is a file or such a glyph, stamps hold the bytes on disk -/
structure LayerSyncedM (ln : String) (dl : DLayer) (l : MLayer) : Prop where
  info : l.infoStamp = some dl.info
  onDisk : ∀ gn, gn ∈ AL.keys dl.glifs → (gn ∈ l.keys ∨ AL.contains l.sched gn = true)
  known : ∀ gn, gn ∈ l.keys → gn ∈ AL.keys dl.glifs ∨ MemOnly l gn
  schedOnDisk : ∀ gn, AL.contains l.sched gn = true → gn ∈ AL.keys dl.glifs
  disjoint : ∀ gn, gn ∈ l.keys → AL.contains l.sched gn = false
  glyphs : ∀ gn g st, (gn, g) ∈ l.glyphs → g.stamp = some st → gn ∈ AL.keys dl.glifs →
    ∃ f, AL.get? dl.glifs gn = some f ∧ f.blob = st.blob
  sched : ∀ gn st, AL.get? l.sched gn = some st → ∃ f st', AL.get? dl.glifs gn = some f ∧ st = some st' ∧ f.blob = st'.blob
  gs : ∃ g, l.gs = some g ∧ g.lname = ln ∧ g.alive = true ∧ ∀ gn, gn ∈ g.contents ↔ gn ∈ AL.keys dl.glifs
  loaded : ∀ gn g, (gn, g) ∈ l.glyphs → gn ∈ l.keys
  nodupGlyphs : (AL.keys l.glyphs).Nodup

/-- `Synced` with `LayerSyncedM` for the layers: the font is in step with its UFO except for glyphs
that exist in memory only.  This is what glyph creation and renaming keep, and what an in-place
save turns into `Synced`. -/
structure SyncedM (s : State) : Prop where
  parts : ∀ p, PartAgree s p
  order : s.font.order = layerNames s.disk
  default : s.font.default = s.disk.default
  layers : ∀ ln, ln ∈ s.font.order →
    ∃ l dl, AL.get? s.font.layers ln = some l ∧ AL.get? s.disk.layers ln = some dl ∧ LayerSyncedM ln dl l
  images : FSSynced s.disk.images s.font.images
  data : FSSynced s.disk.data s.font.data
  reader : s.zip = true → stripTimes s.reader = stripTimes s.disk
  nodupOrder : s.font.order.Nodup

/-- the names within every directory of the UFO are unique (they are the keys of contents.plist /
the names of files in one directory) -/
structure DiskOk (d : Disk) : Prop where
  glifs : ∀ ln dl, AL.get? d.layers ln = some dl → (AL.keys dl.glifs).Nodup
  images : (AL.keys d.images).Nodup
  data : (AL.keys d.data).Nodup

/-- an entry of the layer set's action history for which a save has nothing to carry out on the
UFO: the creation of a layer (its directory is made when the layer is written), or a change of the
default layer to the layer that is the default now -/
def TameAction (dflt : Option String) : Action → Prop
  | .new _ => True
  | .delete _ => False
  | .default n old => dflt = some n ∧ old ≠ some n

/-- Nothing is pending in the font's bookkeeping beyond what `Synced` speaks about: the layer set has
recorded no deletion and no default-layer change that a save would still have to replay over the
UFO; the layer dictionary holds no layer outside the layer order; a layer's table of pending deletions
lists a name once; no image / data name is listed
and scheduled for deletion at the same time; glyph, image and data names are unique on disk.  Holds for a font just opened and is kept by every
quiet operation (`tidy_step`). -/
structure Tidy (s : State) : Prop where
  history : ∀ a, a ∈ s.font.history → TameAction s.font.default a
  layersInOrder : ∀ ln, AL.contains s.font.layers ln = true → ln ∈ s.font.order
  schedNodup : ∀ ln l, AL.get? s.font.layers ln = some l → (AL.keys l.sched).Nodup
  imagesDisjoint : ∀ n, AL.contains s.font.images.entries n = true → AL.contains s.font.images.sched n = false
  dataDisjoint : ∀ n, AL.contains s.font.data.entries n = true → AL.contains s.font.data.sched n = false
  disk : DiskOk s.disk

/-- the other program has deleted nothing: every layer, glyph, image and data file of `d` is still
in `d'` (whatever else it did: rewrite, touch, add files, add layers, reorder them, change the
default layer, delete or create top-level files).  There is no reload method for deletions. -/
structure Keeps (d d' : Disk) : Prop where
  layers : ∀ ln, ln ∈ layerNames d → ln ∈ layerNames d'
  glifs : ∀ ln gn, gn ∈ glifNames d ln → gn ∈ glifNames d' ln
  images : ∀ n, n ∈ AL.keys d.images → n ∈ AL.keys d'.images
  data : ∀ n, n ∈ AL.keys d.data → n ∈ AL.keys d'.data

/-- the entry of a layer in the report of a font that is in step except for memory-only glyphs:
nothing but those glyphs, listed as deleted (finding F8.1) -/
def memOnlyEntry (s : State) (ln : String) : Option (String × LayerRep) :=
  match AL.get? s.font.layers ln with
  | some l =>
    if (layerDeleted s.disk ln l).isEmpty then none
    else some (ln, { info := false, modified := [], added := [], deleted := layerDeleted s.disk ln l })
  | none => none

/-- glyph-level editing between two saves: reading, editing, deleting, creating and renaming glyphs,
reading and editing top-level objects and layer info -/
def EditOp : Op → Prop
  | .touch _ | .pset _ _ | .reloadpart _ | .lset _ _ => True
  | .gget _ _ | .gset _ _ _ | .gdel _ _ | .gnew _ _ | .grename _ _ _ => True
  | _ => False

/-- operations that change no byte on disk that the font has not written itself, and create /
delete / reorder nothing in memory: lazy reads, edits of values, deletions of glyphs, images and
data, touch-only external edits, tests, reloads of top-level objects, in-place saves (which write
exactly what the font holds and stamp what they wrote) and save-as to a new path (after which the
new UFO is the UFO).
(Not: creating or renaming glyphs under names the UFO does not know, creating layers, deleting or
reordering layers, changing the default layer — finding F8; see `QuietAt` for the creations and
renamings that stay within the names of the UFO.) -/
def Quiet : Op → Prop
  | .touch _ | .pset _ _ | .gget _ _ | .gset _ _ _ | .gdel _ _ | .lset _ _ => True
  | .fget _ _ | .fset _ _ _ => True
  | .xpart _ .touch _ | .xglyph _ _ .touch _ | .xfile _ _ .touch _ => True
  | .test | .reloadpart _ => True
  | .save _ _ => True
  | .saveas _ _ => True
  | _ => False

end Ext
end DefconModel
