/-
Specification side of M-Repr: what "never stale" means for a world, the domain predicates, and
the coverage obligation over the regenerated tables.
-/
import DefconModel.Repr

namespace DefconModel
namespace Repr

variable {V : Type}

/-- every cached value is what the registered factory computes from the object's current view -/
def Coherent (P : Params V) (T : Tables) (w : World V) : Prop :=
  ∀ o name sk v, (cacheOf w o).get? name sk = some v → v = fresh P T w o name sk

/-- objects without a dispatcher (loose, unknown) cache nothing -/
def LooseEmpty (w : World V) : Prop :=
  ∀ o, attached w o = false → ∀ name sk, (cacheOf w o).get? name sk = none

/-- only registered names are cached, and factories that take no keyword arguments only under `None` -/
def CachedRegistered (T : Tables) (w : World V) : Prop :=
  ∀ o name sk v, (cacheOf w o).get? name sk = some v →
    (facsOf T w.regs o.cls).any (fun p => p.1 = name) = true ∧ (acceptsKw name = false → sk = none)

/-- run-time registrations carry the default destructive set -/
def RegsDefault (T : Tables) (w : World V) : Prop :=
  ∀ r, r ∈ w.regs → r.2.2 = T.defaultDestr r.1

/-- the cache invariant -/
structure Inv (P : Params V) (T : Tables) (w : World V) : Prop where
  coh : Coherent P T w
  loose : LooseEmpty w
  creg : CachedRegistered T w
  rdef : RegsDefault T w

/-- does the delivery `e` (object, notification) destroy what is cached under `nm` on `o`? -/
def hitB (T : Tables) (regs : List (String × String × Destr)) (e : Obj × String) (o : Obj) (nm : String) : Bool :=
  decide (e.1 = o) && (facsOf T regs o.cls).any fun p => decide (p.1 = nm) && p.2.hit e.2

/-! ### the component graph -/

/-- `ReadsN gs n x a`: the outline of the glyph named `x` reads the name `a` through `n` component hops -/
inductive ReadsN (gs : Layer) : Nat → String → String → Prop
  | refl (a : String) : ReadsN gs 0 a a
  | step {n : Nat} {x c a : String} (g : GlyphS) (k : CompS) :
      AL.get? gs x = some g → k ∈ g.comps → k.base = some c → ReadsN gs n c a → ReadsN gs (n + 1) x a

/-- every chain of component references is shorter than the fuel (in particular: no cycles) -/
def Bounded (gs : Layer) (fuel : Nat) : Prop := ∀ n x a, ReadsN gs n x a → n < fuel

/-- a component whose base glyph is present is registered on it -/
def WatchOK (gs : Layer) : Prop :=
  ∀ x g k b, AL.get? gs x = some g → k ∈ g.comps → k.base = some b → AL.contains gs b = true →
    k.watch = Watch.base

/-- a component whose base glyph is absent waits on the layer for it -/
def WaitOK (gs : Layer) : Prop :=
  ∀ x g k b, AL.get? gs x = some g → k ∈ g.comps → k.base = some b → AL.contains gs b = false →
    k.watch = Watch.layer

/-- contour / component ids: one host at most, loose ones are not attached, one record per id in a host -/
structure IdsOK (w : World V) : Prop where
  looseC : ∀ c, c ∈ w.looseC → (hostOfContour w.glyphs c.id).isSome = false
  looseK : ∀ k, k ∈ w.looseK → (hostOfComp w.glyphs k.id).isSome = false
  oneC : ∀ x y gx gy cid, AL.get? w.glyphs x = some gx → AL.get? w.glyphs y = some gy →
    hasContour cid gx = true → hasContour cid gy = true → x = y
  oneK : ∀ x y gx gy kid, AL.get? w.glyphs x = some gx → AL.get? w.glyphs y = some gy →
    hasComp kid gx = true → hasComp kid gy = true → x = y
  keys : (AL.keys w.glyphs).Nodup

/-- the structural domain of the theorems -/
structure Dom (w : World V) : Prop where
  bounded : Bounded w.glyphs w.fuel
  watch : WatchOK w.glyphs
  wait : WaitOK w.glyphs
  ids : IdsOK w

/-- `Contour.move`'s patch is what the factory computes from the moved points -/
def PatchOK (P : Params V) : Prop :=
  ∀ nm, nm ∈ boundsNames → ∀ ver ox oy dx dy,
    P.f "Contour" nm [Tok.c ver (ox + dx) (oy + dy)] none =
      P.patch nm (P.f "Contour" nm [Tok.c ver ox oy] none) dx dy

/-! ### coverage: the dependency matrix against the regenerated tables -/

/-- some notification in `ns` destroys factories registered with default settings on `cls` -/
def hitsReg (T : Tables) (cls : String) (ns : List String) : Bool :=
  ns.any fun n => (T.defaultDestr cls).hit n

/-- every class-level factory of `cls`, and default registrations, are destroyed by some `n ∈ ns` -/
def hitsAll (T : Tables) (cls : String) (ns : List String) : Bool :=
  (T.factoriesOf cls).all (fun p => ns.any fun n => p.2.hit n) && hitsReg T cls ns

def covCell (T : Tables) (cls : String) (cell : CCell) (ns : List String) : Bool :=
  ns.contains (cls ++ ".Changed") && (if cell = .attr then hitsReg T cls ns else hitsAll T cls ns)

/-- a Glyph method whose posts must destroy everything on the glyph and reach the components
that reference it -/
def covGlyphOutline (T : Tables) (m : String) : Bool :=
  hitsAll T "Glyph" (T.postsOf "Glyph" m) && relays (T.postsOf "Glyph" m)

/-- a Component callback whose posts must destroy the built-in component representations and
reach the component's glyph as a base-glyph data change -/
def covCompCallback (T : Tables) (cb : String) : Bool :=
  (T.factoriesOf "Component").all (fun p => (T.postsOf "Component" cb).any fun n => p.2.hit n) &&
  (T.postsOf "Component" cb).contains "Component.BaseGlyphDataChanged"

def moveNotifs (T : Tables) : List String :=
  (T.postsOf "Contour" "move").filter fun n => n != "Contour.PointsChanged"

def expectedObserves : List (String × String × String × String) :=
  [("BaseObject", "self", "selfNotificationCallback", "*"),
   ("Glyph", "contour", "_contourChanged", "Contour.Changed"),
   ("Glyph", "component", "_componentChanged", "Component.Changed"),
   ("Glyph", "component", "_componentBaseGlyphDataChanged", "Component.BaseGlyphDataChanged"),
   ("Component", "baseGlyph", "baseGlyphDataChangedNotificationCallback", "Glyph.ContoursChanged"),
   ("Component", "baseGlyph", "baseGlyphDataChangedNotificationCallback", "Glyph.ComponentsChanged"),
   ("Component", "baseGlyph", "baseGlyphNameChangedNotificationCallback", "Glyph.NameChanged"),
   ("Component", "layer", "layerGlyphAddedNotificationCallback", "Layer.GlyphAdded"),
   ("Component", "layer", "layerGlyphNameChangedNotificationCallback", "Layer.GlyphNameChanged"),
   ("Component", "layer", "layerGlyphWillBeDeletedNotificationCallback", "Layer.GlyphWillBeDeleted"),
   ("Component", "layer", "layerGlyphDeletedNotificationCallback", "Layer.GlyphDeleted")]

def glyphOutlineMethods : List String :=
  ["_contourChanged", "_componentChanged", "_componentBaseGlyphDataChanged", "insertContour",
   "removeContour", "insertComponent", "removeComponent"]

def compCallbacks : List String :=
  ["baseGlyphDataChangedNotificationCallback", "baseGlyphNameChangedNotificationCallback",
   "layerGlyphNameChangedNotificationCallback", "layerGlyphDeletedNotificationCallback",
   "layerGlyphAddedNotificationCallback"]

/-- the individual coverage obligations -/
def covList (T : Tables) : List Bool :=
  [contourMutators.all (fun p => covCell T "Contour" p.2 (T.postsOf "Contour" p.1)),
   -- Contour.move: its own loop destroys every built-in factory it does not patch; the rest goes by Contour.Changed
   (T.postsOf "Contour" "move").contains "Contour.PointsChanged",
   (T.factoriesOf "Contour").all (fun p => boundsNames.contains p.1 || p.2.hit "Contour.PointsChanged"),
   covCell T "Contour" .attr (moveNotifs T),
   boundsNames.all (isBuiltin T "Contour"),
   compMutators.all (fun p => covCell T "Component" p.2 (T.postsOf "Component" p.1)),
   covCell T "Component" .pts (T.postsOf "Component" "_set_baseGlyph"),
   glyphOutlineMethods.all (covGlyphOutline T),
   glyphMutators.all (fun m => hitsReg T "Glyph" (T.postsOf "Glyph" m)),
   hitsReg T "Glyph" (T.postsOf "Glyph" "_set_name"),
   compCallbacks.all (covCompCallback T),
   groupsMutators.all (fun m => hitsAll T "Groups" (T.postsOf "Groups" m)),
   expectedObserves.all (fun e => T.observes.contains e),
   (T.postsOf "Layer" "__delitem__").contains "Layer.GlyphWillBeDeleted",
   (T.postsOf "Layer" "__delitem__").contains "Layer.GlyphDeleted",
   (T.postsOf "Layer" "newGlyph").contains "Layer.GlyphAdded",
   (T.postsOf "Layer" "_glyphNameChange").contains "Layer.GlyphNameChanged",
   (T.postsOf "Glyph" "_set_name").contains "Glyph.NameChanged"]

/-- The coverage obligation: every declared mutator posts something that destroys every
representation reading the cell it rewrites, on the object itself and along the routes
(contour → glyph → components that reference the glyph → their glyphs → …); the routes the model
walks are the `addObserver` calls found in the source. -/
def Coverage (T : Tables) : Bool := (covList T).all id

end Repr
end DefconModel
