/-
Specification side of M-SubFlags: what "dirty is closed upwards" and "nothing reports dirty" mean
on the flag tree of a font.
-/
import DefconModel.SubFlags

namespace DefconModel
namespace SubFlags

/-- inside one layer: an object that reports dirty has a dirty parent, up to the layer -/
structure LUC (L : LayerF) : Prop where
  /-- the layer lib -/
  lib : L.lib = true → L.dirty = true
  /-- a loaded glyph -/
  glyph : ∀ n, gdirty L.base n = true → L.dirty = true
  /-- a contour, component, anchor, guideline, the image or the lib of a loaded glyph -/
  sub : ∀ n sb, AL.get? L.subs n = some sb → ¬ sb.Clean → gdirty L.base n = true

/-- no object of the layer reports dirty -/
structure LayerClean (L : LayerF) : Prop where
  dirty : L.dirty = false
  lib : L.lib = false
  glyph : ∀ n, gdirty L.base n = false
  sub : ∀ n sb, AL.get? L.subs n = some sb → sb.Clean

/-- the whole tree: whenever an object reports dirty, its parent does -/
structure UC (f : FontF) : Prop where
  ls : f.lsDirty = true → f.dirty = true
  images : f.images.dirty = true → f.dirty = true
  data : f.data.dirty = true → f.dirty = true
  parts : ∀ w p, AL.get? f.parts w = some p → p.dirty = true → f.dirty = true
  layer : ∀ lid L, AL.get? f.lf lid = some L → L.dirty = true → f.lsDirty = true
  inner : ∀ lid L, AL.get? f.lf lid = some L → LUC L

/-- no object of the tree reports dirty -/
structure NothingDirty (f : FontF) : Prop where
  font : f.dirty = false
  ls : f.lsDirty = false
  images : f.images.dirty = false
  data : f.data.dirty = false
  parts : ∀ w p, AL.get? f.parts w = some p → p.dirty = false
  layers : ∀ lid L, AL.get? f.lf lid = some L → LayerClean L

/-- every pending glyph deletion is announced by the layer's flag (what makes "layer not dirty"
mean "glyph set up to date") -/
def SchedFlagged (L : LayerF) : Prop := L.base.sched ≠ [] → L.dirty = true

/-- in every layer of the font -/
def SF (f : FontF) : Prop := ∀ lid L, AL.get? f.lf lid = some L → SchedFlagged L

/-- a font as `Font()` or `Font(path)` leaves it -/
def Initial (f : FontF) : Prop :=
  f = newFont ∨ ∃ imgs dats ps layers defLid defName glyphs, f = opened imgs dats ps layers defLid defName glyphs

/-- for the non-vacuity examples: a font opened on a UFO with one layer holding glyph `A` (one
contour, one anchor, an image) and a composite `B` on `A` -/
def demoFont : FontF :=
  opened [("i.png", 1)] [] [("info", 1), ("groups", 0), ("kerning", 0), ("features", 0), ("lib", 0)]
    [("fore", 0)] 0 "fore"
    [(0, [("A", { contours := 1, anchors := 1, image := some "i.png" }), ("B", { bases := ["A"] })])]

end SubFlags
end DefconModel
