/-
Spec-side definitions for M-Conv: the hypotheses the C16 theorems name, and what "the same feature
text up to whitespace between blocks" means.
-/
import DefconModel.Conv

namespace DefconModel
namespace Conv

/-- all four blue lists have an even number of entries (what the UFO validators demand) -/
def EvenBlues {ν : Type} (h : Hint ν) : Prop :=
  h.blueValues.length % 2 = 0 ∧ h.otherBlues.length % 2 = 0 ∧
  h.familyBlues.length % 2 = 0 ∧ h.familyOtherBlues.length % 2 = 0

instance {ν : Type} (h : Hint ν) : Decidable (EvenBlues h) := by unfold EvenBlues; infer_instance

/-- no scalar hint value set: the Info object right after a UFO 1 fontinfo.plist was read -/
def ScalarsUnset {ν : Type} (h : Hint ν) : Prop :=
  h.blueFuzz = none ∧ h.blueScale = none ∧ h.blueShift = none ∧ h.forceBold = none

instance {ν : Type} [DecidableEq ν] (h : Hint ν) : Decidable (ScalarsUnset h) := by
  unfold ScalarsUnset; infer_instance

/-- no feature tag occurs twice -/
def DistinctTags (feats : List (Text × Text)) : Prop := (feats.map Prod.fst).Nodup

instance (feats : List (Text × Text)) : Decidable (DistinctTags feats) := by unfold DistinctTags; infer_instance

/-- the pieces the text read back from a UFO 1 consists of: the class definitions (if any) and every
block, each stripped and newline-terminated -/
def expectedPieces (classes : Text) (feats : List (Text × Text)) : List Text :=
  (if classes ≠ [] then [stripNl classes] else []) ++ feats.map (fun f => stripNl f.2)

/-- what the proofs need to know about the header expression -/
structure FinderOK (find : Finder) : Prop where
  /-- a match is not empty and lies inside the text -/
  span : ∀ t h, find t = some h → h.start < h.stop ∧ h.stop ≤ t.length
  /-- searching again from the start of a match finds that match, now at position 0 -/
  stable : ∀ t h, find t = some h → find (t.drop h.start) = some ⟨0, h.stop - h.start, h.tag⟩

def flat (feats : List (Text × Text)) : Text := (feats.map Prod.snd).flatten

/-! ## rename maps -/

/-- the new names a rename map introduces -/
def news (m : Maps) : List Name := (m.side1 ++ m.side2).map Prod.snd

/-- what ufoLib's reader guarantees about the maps it builds for the groups `g` and kerning `k` it
read from a UFO 1/2: new names are pairwise distinct, clash with no existing group and with no name
used in the kerning, and only groups that exist are renamed -/
structure MapsOK (m : Maps) (g : Groups) (k : Kerning) : Prop where
  gNodup : (AL.keys g).Nodup
  kNodup : (AL.keys k).Nodup
  newsNodup : (news m).Nodup
  newsFresh : ∀ n ∈ news m, n ∉ AL.keys g
  oldsIn : ∀ p ∈ m.side1 ++ m.side2, p.1 ∈ AL.keys g
  kernFree : ∀ p ∈ AL.keys k, p.1 ∉ news m ∧ p.2 ∉ news m

end Conv
end DefconModel
