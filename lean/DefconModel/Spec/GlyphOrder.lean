/-
Specification-side definitions for C12: what the glyph order should do, said without indices,
and the vocabulary of the theorems (which names exist, well-formed fonts, touched names).
Written independently of the model's `updateGlyphOrder` (which works with `list.index`,
item assignment and `del order[index]`).
-/
import DefconModel.GlyphOrder

namespace DefconModel
namespace GlyphOrder

/-! ### Order edits, without indices -/

/-- append at the end unless already present -/
def appendIfAbsent (o : List Name) (n : Name) : List Name := if n ∈ o then o else o ++ [n]

/-- drop the first occurrence -/
def eraseFirst : List Name → Name → List Name
  | [], _ => []
  | x :: r, n => if x = n then r else x :: eraseFirst r n

/-- put `new` where the first `old` stands -/
def replaceFirst : List Name → Name → Name → List Name
  | [], _, _ => []
  | x :: r, old, new => if x = old then new :: r else x :: replaceFirst r old new

/-- what `updateGlyphOrder(addedGlyph, removedGlyph)` should make of the order -/
def specUpdate (o : List Name) : Option Name → Option Name → List Name
  | none, none => o
  | some a, none => appendIfAbsent o a
  | none, some r => eraseFirst o r
  | some a, some r =>
    if r ∈ o then
      if r = a then o
      else if a ∈ o then eraseFirst o r
      else replaceFirst o r a
    else appendIfAbsent o a

/-- a glyph called `g` was created: present afterwards, appended iff absent -/
def specCreate (o : List Name) (g : Name) : List Name := appendIfAbsent o g

/-- a glyph called `g` was deleted; `stillExists` = some layer still has a glyph of that name -/
def specDelete (o : List Name) (g : Name) (stillExists : Bool) : List Name :=
  if stillExists then o else eraseFirst o g

/-- a glyph was renamed; `oldStays` = some layer still has a glyph called `old` -/
def specRename (o : List Name) (old new : Name) (oldStays : Bool) : List Name :=
  if oldStays then appendIfAbsent o new
  else if old ∈ o then
    if new ∈ o then eraseFirst o old        -- the new name keeps the place it already has
    else replaceFirst o old new              -- the new name takes the old name's position
  else appendIfAbsent o new

/-! ### Fonts -/

/-- `font.layers[L]` has a glyph called `n`, for some layer `L` -/
def Exists (f : Font) (n : Name) : Prop :=
  ∃ L l, AL.get? f.layers L = some l ∧ n ∈ l.glyphs

/-- some layer other than `L` has a glyph called `n` -/
def ExistsElsewhere (f : Font) (L : String) (n : Name) : Prop :=
  ∃ L2 l2, L2 ≠ L ∧ AL.get? f.layers L2 = some l2 ∧ n ∈ l2.glyphs

/-- layer names are unique and the font observes every layer -/
structure WF (f : Font) : Prop where
  names : (AL.keys f.layers).Nodup
  observed : ∀ kl ∈ f.layers, kl.2.observed = true

/-- the lib never holds an empty list under the key (the key is deleted instead) -/
def LibNormal (f : Font) : Prop := f.lib ≠ some []

/-- every existing glyph name is in the order ("complete" or "superset" orders) -/
def Complete (f : Font) : Prop := ∀ n, Exists f n → n ∈ glyphOrder f

/-- the order lists exactly the existing glyph names, once each -/
structure Exact (f : Font) : Prop where
  nodup : (glyphOrder f).Nodup
  complete : ∀ n, Exists f n → n ∈ glyphOrder f
  sound : ∀ n, n ∈ glyphOrder f → Exists f n

/-! ### Classification of operations -/

/-- operations through which the font *updates* the order itself (everything except direct
assignment of the order / the lib key) -/
def Op.isUpdate : Op → Bool
  | .setOrder _ => false
  | .setLib _ => false
  | _ => true

/-- glyph-set operations proper: create / insert / delete / rename -/
def Op.isGlyphOp : Op → Bool
  | .newGlyph _ _ => true
  | .insertGlyph _ _ => true
  | .delGlyph _ _ => true
  | .rename _ _ _ => true
  | _ => false

/-- the glyph names an operation speaks about -/
def Op.touched : Op → List Name
  | .newGlyph _ g => [g]
  | .insertGlyph _ g => [g]
  | .delGlyph _ g => [g]
  | .rename _ o n => [o, n]
  | _ => []

end GlyphOrder
end DefconModel
