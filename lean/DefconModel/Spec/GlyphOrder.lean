/-
Specification-side definitions for C12: what the glyph order should do, said without indices,
and the vocabulary of the theorems (which names exist, well-formed fonts, touched names).
Written independently of the model's `updateGlyphOrder` (which works with `list.index`,
item assignment and `del order[index]`).
-/
import DefconModel.GlyphOrder

namespace DefconModel
namespace GlyphOrder

/-! ### Order edits, without indices -/

/-- append at the end unless already present -/
def appendIfAbsent (o : List Name) (n : Name) : List Name := if n ∈ o then o else o ++ [n]

/-- drop the first occurrence -/
def eraseFirst : List Name → Name → List Name
  | [], _ => []
  | x :: r, n => if x = n then r else x :: eraseFirst r n

/-- put `new` where the first `old` stands -/
def replaceFirst : List Name → Name → Name → List Name
  | [], _, _ => []
  | x :: r, old, new => if x = old then new :: r else x :: replaceFirst r old new

/-- what `updateGlyphOrder(addedGlyph, removedGlyph)` should make of the order -/
def specUpdate (o : List Name) : Option Name → Option Name → List Name
  | none, none => o
  | some a, none => appendIfAbsent o a
  | none, some r => eraseFirst o r
  | some a, some r =>
    if r ∈ o then
      if r = a then o
      else if a ∈ o then eraseFirst o r
      else replaceFirst o r a
    else appendIfAbsent o a

/-- a glyph called `g` was created: present afterwards, appended iff absent -/
def specCreate (o : List Name) (g : Name) : List Name := appendIfAbsent o g

/-- a glyph called `g` was deleted; `stillExists` = some layer still has a glyph of that name -/
def specDelete (o : List Name) (g : Name) (stillExists : Bool) : List Name :=
  if stillExists then o else eraseFirst o g

/-- a glyph was renamed; `oldStays` = some layer still has a glyph called `old` -/
def specRename (o : List Name) (old new : Name) (oldStays : Bool) : List Name :=
  if oldStays then appendIfAbsent o new
  else if old ∈ o then
    if new ∈ o then eraseFirst o old        -- the new name keeps the place it already has
    else replaceFirst o old new              -- the new name takes the old name's position
  else appendIfAbsent o new

/-! ### Fonts -/

/-- `font.layers[L]` has a glyph called `n`, for some layer `L` -/
def Exists (f : Font) (n : Name) : Prop :=
  ∃ L l, AL.get? f.layers L = some l ∧ n ∈ l.glyphs

/-- some layer other than `L` has a glyph called `n` -/
def ExistsElsewhere (f : Font) (L : String) (n : Name) : Prop :=
  ∃ L2 l2, L2 ≠ L ∧ AL.get? f.layers L2 = some l2 ∧ n ∈ l2.glyphs

/-- layer names are unique and the font observes every layer -/
structure WF (f : Font) : Prop where
  names : (AL.keys f.layers).Nodup
  observed : ∀ kl ∈ f.layers, kl.2.observed = true

/-- the lib never holds an empty list under the key (the key is deleted instead) -/
def LibNormal (f : Font) : Prop := f.lib ≠ some []

/-- every existing glyph name is in the order ("complete" or "superset" orders) -/
def Complete (f : Font) : Prop := ∀ n, Exists f n → n ∈ glyphOrder f

/-- the order lists exactly the existing glyph names, once each -/
structure Exact (f : Font) : Prop where
  nodup : (glyphOrder f).Nodup
  complete : ∀ n, Exists f n → n ∈ glyphOrder f
  sound : ∀ n, n ∈ glyphOrder f → Exists f n

/-! ### Notifications, held and delivered -/

/-- the names a notification speaks about -/
def Note.names : Note → List Name
  | .added n => [n]
  | .deleted n => [n]
  | .renamed o n => [o, n]

/-- the notification announces a glyph called `g` (created, or renamed to `g`) -/
def Note.introduces : Note → Name → Bool
  | .added n, g => decide (n = g)
  | .deleted _, _ => false
  | .renamed _ n, g => decide (n = g)

/-- the notification announces that the glyph called `g` is gone (deleted, or renamed away) -/
def Note.removes : Note → Name → Bool
  | .added _, _ => false
  | .deleted n, g => decide (n = g)
  | .renamed o _, g => decide (o = g)

/-- the arguments `(addedGlyph, removedGlyph)` with which the font's callback for a notification
calls `updateGlyphOrder`, given `ex` = "some layer has a glyph of that name" AT THE MOMENT OF
DELIVERY (`(none, none)` = no call) -/
def deliverArgs (ex : Name → Bool) : Note → Option Name × Option Name
  | .added n => (some n, none)
  | .deleted n => if ex n then (none, none) else (none, some n)
  | .renamed o n => (some n, if ex o then none else some o)

/-- what the delivery of one notification should make of the order -/
def specDeliver (ex : Name → Bool) (o : List Name) (note : Note) : List Name :=
  specUpdate o (deliverArgs ex note).1 (deliverArgs ex note).2

/-- … and of a whole queue, delivered in order against one and the same state of the layers (the
layers do not change while a hold is being released) -/
def specDeliverAll (ex : Name → Bool) (o : List Name) (q : List Note) : List Name :=
  q.foldl (specDeliver ex) o

/-- the centre's coalescing: a notification equal to one already queued is not queued again -/
def coalesce : List Note → List Note → List Note
  | q, [] => q
  | q, n :: ns => coalesce (enqueue q n) ns

/-- according to the LAST notification of `q` that speaks about `g`: `some true` = a glyph of that
name was put into the layer, `some false` = it was taken out, `none` = `q` does not speak about `g` -/
def lastSays : List Note → Name → Option Bool
  | [], _ => none
  | note :: rest, g =>
    match lastSays rest g with
    | some b => some b
    | none => if note.introduces g then some true else if note.removes g then some false else none

/-- what one glyph operation on a layer does to (the layer's glyph names, the notifications the
layer has posted so far) — said without the font: creation adds the name and posts `GlyphAdded`,
deletion of a present name removes it and posts `GlyphDeleted`, a real renaming of a present name
moves the name and posts `GlyphNameChanged`; anything else (absent name, same name) does nothing -/
def blockStep (s : List Name × List Note) : Op → List Name × List Note
  | .newGlyph _ g => (addName s.1 g, s.2 ++ [.added g])
  | .insertGlyph _ g => (addName s.1 g, s.2 ++ [.added g])
  | .delGlyph _ g => if g ∈ s.1 then (removeName s.1 g, s.2 ++ [.deleted g]) else s
  | .rename _ o n =>
    if o ∈ s.1 then (if o = n then s else (addName (removeName s.1 o) n, s.2 ++ [.renamed o n])) else s
  | _ => s

/-- the notification a glyph operation makes the layer post when the layer's names are `gl` (`none`
when the operation is rejected or changes nothing) -/
def noteOf (gl : List Name) : Op → Option Note
  | .newGlyph _ g => some (.added g)
  | .insertGlyph _ g => some (.added g)
  | .delGlyph _ g => if g ∈ gl then some (.deleted g) else none
  | .rename _ o n => if o ∈ gl then (if o = n then none else some (.renamed o n)) else none
  | _ => none

/-- … and a block of them -/
def blockRun (s : List Name × List Note) (ops : List Op) : List Name × List Note :=
  ops.foldl blockStep s

/-- `font.layers[L].keys()` (empty when there is no such layer) -/
def layerGlyphs (f : Font) (L : String) : List Name := ((AL.get? f.layers L).map (·.glyphs)).getD []

/-- a block of operations run inside `layer.holdNotifications()` … `layer.releaseHeldNotifications()` -/
def heldRun (f : Font) (L : String) (block : List Op) : Font :=
  run f ([.holdLayer L] ++ block ++ [.releaseLayer L])

/-- … and inside `layer.disableNotifications()` … `layer.enableNotifications()` -/
def disabledRun (f : Font) (L : String) (block : List Op) : Font :=
  run f ([.disableLayer L] ++ block ++ [.enableLayer L])

/-- Along the run of a block WITHOUT a hold, every callback got — about the names it asks about — the
answers `ex` gives (`ex` will be "some layer has a glyph of that name at the end of the block") -/
def answersAs (ex : Name → Bool) (L : String) : Font → List Op → Bool
  | _, [] => true
  | f, op :: ops =>
    (match noteOf (layerGlyphs f L) op with
     | some nt => decide (deliverArgs (anyLayerHas (step f op).1) nt = deliverArgs ex nt)
     | none => true) && answersAs ex L (step f op).1 ops

def AnswersAs (ex : Name → Bool) (L : String) (f : Font) (ops : List Op) : Prop :=
  answersAs ex L f ops = true

instance (ex : Name → Bool) (L : String) (f : Font) (ops : List Op) : Decidable (AnswersAs ex L f ops) := by
  unfold AnswersAs; exact inferInstance

/-- every glyph name mentioned by a held notification of some layer -/
def queuedNames (f : Font) : List Name :=
  f.layers.flatMap (fun kl => kl.2.queue.flatMap Note.names)

/-- nothing is held or disabled on this layer (and, as always then, nothing is queued) -/
def Layer.calm (l : Layer) : Prop := l.held = 0 ∧ l.disabled = 0 ∧ l.queue = []

instance (l : Layer) : Decidable l.calm := by unfold Layer.calm; exact inferInstance

/-- no layer's notifications are held or disabled: every notification reaches the font at once -/
def Calm (f : Font) : Prop := ∀ kl ∈ f.layers, kl.2.calm

/-- layer `L` exists and nothing is held or disabled on it -/
def CalmLayer (f : Font) (L : String) : Prop := ∃ l, AL.get? f.layers L = some l ∧ l.calm

/-- nothing is held or disabled on layer `L`: every notification of the layer reaches the font at
once (what holds as long as nobody calls `holdNotifications` / `disableNotifications` on it) -/
def Undisturbed (f : Font) (L : String) : Prop :=
  match AL.get? f.layers L with
  | some l => l.held = 0 ∧ l.disabled = 0
  | none => True

instance (f : Font) (L : String) : Decidable (Undisturbed f L) := by
  unfold Undisturbed; cases AL.get? f.layers L <;> exact inferInstance

/-- the default layer, when it is a layer of the font, is one of `font.layers` -/
def DefaultOK (f : Font) : Prop := ∀ L, f.default = some L → AL.contains f.layers L = true

/-! ### Classification of operations -/

/-- operations through which the font *updates* the order itself (everything except direct
assignment of the order / the lib key) -/
def Op.isUpdate : Op → Bool
  | .setOrder _ => false
  | .setLib _ => false
  | _ => true

/-- operations that hold, release, disable or enable a layer's notifications -/
def Op.isSuspend : Op → Bool
  | .holdLayer _ => true
  | .releaseLayer _ => true
  | .disableLayer _ => true
  | .enableLayer _ => true
  | _ => false

/-- glyph-set operations proper: create / insert / delete / rename, through a layer or the font -/
def Op.isGlyphOp : Op → Bool
  | .newGlyph _ _ => true
  | .insertGlyph _ _ => true
  | .delGlyph _ _ => true
  | .rename _ _ _ => true
  | .fontNewGlyph _ => true
  | .fontInsertGlyph _ => true
  | .fontDelGlyph _ => true
  | _ => false

/-- glyph-set operations addressed to layer `L` -/
def Op.onLayer (L : String) : Op → Bool
  | .newGlyph l _ => decide (l = L)
  | .insertGlyph l _ => decide (l = L)
  | .delGlyph l _ => decide (l = L)
  | .rename l _ _ => decide (l = L)
  | _ => false

/-- the glyph names an operation speaks about -/
def Op.touched : Op → List Name
  | .newGlyph _ g => [g]
  | .insertGlyph _ g => [g]
  | .delGlyph _ g => [g]
  | .rename _ o n => [o, n]
  | .fontNewGlyph g => [g]
  | .fontInsertGlyph g => [g]
  | .fontDelGlyph g => [g]
  | _ => []

end GlyphOrder
end DefconModel
