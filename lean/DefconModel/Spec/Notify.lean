/-
Specification-side definitions for C04: the structural invariant of a notification centre and
the abstract reading of its state.
-/
import DefconModel.Notify

namespace DefconModel
namespace Notify

/-- Structural invariant of every reachable centre. -/
structure Inv (c : Center) : Prop where
  regKeys : (AL.keys c.registry).Nodup
  regNonempty : ∀ kr ∈ c.registry, kr.2 ≠ []
  regObs : ∀ kr ∈ c.registry, (kr.2.map (·.observer)).Nodup
  holdKeys : (AL.keys c.holds).Nodup
  holdPos : ∀ kh ∈ c.holds, 0 < kh.2.count
  holdQueue : ∀ kh ∈ c.holds, kh.2.queue.Nodup
  disKeys : (AL.keys c.disabled).Nodup
  disPos : ∀ kd ∈ c.disabled, 0 < kd.2

/-- the delivery event of registration `r` for notification `(n, s, d)` -/
def deliverEv (n : Name) (s : Obj) (d : Data) (r : Reg) : Ev := .deliver r.observer r.meth n s d

/-- all registrations matching `(n, s)`: least to most specific key, registration order within -/
def matching (c : Center) (n : Name) (s : Obj) : List Reg := (registryKeys n s).flatMap (regsAt c)

/-- would registration `r` receive `(n, s)` right now (observer-side checks only)? -/
def deliverable (c : Center) (n : Name) (s : Obj) (target : Option Obj) (r : Reg) : Bool :=
  (target.isNone || target == some r.observer) &&
  !isDisabled c (observerKeys n s r.observer) &&
  (firstHold c (observerKeys n s r.observer)).isNone &&
  !(c.dead.contains r.observer)

end Notify
end DefconModel
