/-
Specification-side definitions for C04: the structural invariant of a notification centre and
the abstract reading of its state.
-/
import DefconModel.Notify

namespace DefconModel
namespace Notify

/-- Structural invariant of every reachable centre. -/
structure Inv (c : Center) : Prop where
  regKeys : (AL.keys c.registry).Nodup
  regNonempty : ∀ kr ∈ c.registry, kr.2 ≠ []
  regObs : ∀ kr ∈ c.registry, (kr.2.map (·.observer)).Nodup
  holdKeys : (AL.keys c.holds).Nodup
  holdPos : ∀ kh ∈ c.holds, 0 < kh.2.count
  holdQueue : ∀ kh ∈ c.holds, kh.2.queue.Nodup
  disKeys : (AL.keys c.disabled).Nodup
  disPos : ∀ kd ∈ c.disabled, 0 < kd.2

/-- the delivery event of registration `r` for notification `(n, s, d)` -/
def deliverEv (n : Name) (s : Obj) (d : Data) (r : Reg) : Ev := .deliver r.observer r.meth n s d

/-- all registrations matching `(n, s)`: least to most specific key, registration order within -/
def matching (c : Center) (n : Name) (s : Obj) : List Reg := (registryKeys n s).flatMap (regsAt c)

/-- would registration `r` receive `(n, s)` right now (observer-side checks only)? -/
def deliverable (c : Center) (n : Name) (s : Obj) (target : Option Obj) (r : Reg) : Bool :=
  (target.isNone || target == some r.observer) &&
  !isDisabled c (observerKeys n s r.observer) &&
  (firstHold c (observerKeys n s r.observer)).isNone &&
  !(c.dead.contains r.observer)

/-! ### Pending copies and deliveries of one notification, seen from one observer -/

/-- queue entry `q` is a pending copy of notification `(n, s, d)` that observer `o` is to get: it is
not restricted to an observer, or it is restricted to `o` -/
def Note.isFor (n : Name) (s : Obj) (d : Data) (o : Obj) (q : Note) : Bool :=
  q.name == n && q.sender == s && q.data == d && (q.target == none || q.target == some o)

def cntL (n : Name) (s : Obj) (d : Data) (o : Obj) (l : List Note) : Nat :=
  (l.filter (Note.isFor n s d o)).length

/-- how many pending copies of `(n, s, d)` wait for `o`, over all hold queues -/
def pend (c : Center) (n : Name) (s : Obj) (d : Data) (o : Obj) : Nat :=
  (c.holds.map (fun kh => cntL n s d o kh.2.queue)).sum

/-- is this event a delivery of `(n, s, d)` to (some callback of) observer `o`? -/
def isDel (n : Name) (s : Obj) (d : Data) (o : Obj) : Ev → Bool
  | .deliver o' _ n' s' d' => o' == o && n' == n && s' == s && d' == d
  | _ => false

/-- the deliveries of `(n, s, d)` to `o` in an event log, in order -/
def delTo (n : Name) (s : Obj) (d : Data) (o : Obj) (evs : List Ev) : List Ev := evs.filter (isDel n s d o)

/-- what `o` is due when `(n, s, d)` is posted once: one delivery per matching registration of `o`,
least to most specific key; nothing when `o` has died -/
def due (c : Center) (n : Name) (s : Obj) (d : Data) (o : Obj) : List Ev :=
  ((matching c n s).filter (fun r => r.observer == o && !(c.dead.contains o))).map (deliverEv n s d)

/-- the histories of `overlapping_holds_deliver_once`: posts, holds and releases (any of the 8 scopes) -/
def isHoldOrPost : Op → Bool
  | .post _ _ _ none => true
  | .hold _ _ _ _ => true
  | .release _ _ _ => true
  | _ => false

/-- how often `(n, s, d)` is posted in an operation list -/
def postsOf (n : Name) (s : Obj) (d : Data) : List Op → Nat
  | [] => 0
  | .post n' s' d' _ :: ops => (if n' = n ∧ s' = s ∧ d' = d then 1 else 0) + postsOf n s d ops
  | _ :: ops => postsOf n s d ops

/-! ### What a glob pattern means, declaratively (no search order, no backtracking) -/

/-- membership in a bracket expression: some range contains the character -/
def InSet (items : List (Char × Char)) (c : Char) : Prop := ∃ it ∈ items, it.1 ≤ c ∧ c ≤ it.2

/-- The string is the concatenation of one piece per token: `lit c` contributes exactly `c`, `?` any
one character, `[seq]` one character of the set (`[!seq]`: one character outside it), `*` any string. -/
def Matches : List Tok → List Char → Prop
  | [], s => s = []
  | .lit c :: ts, s => ∃ s', s = c :: s' ∧ Matches ts s'
  | .any :: ts, s => ∃ d s', s = d :: s' ∧ Matches ts s'
  | .star :: ts, s => ∃ u v, s = u ++ v ∧ Matches ts v
  | .set neg items :: ts, s => ∃ d s', s = d :: s' ∧ (InSet items d ↔ neg = false) ∧ Matches ts s'

end Notify
end DefconModel
