/-
Specification side of M-Layer: the abstract content of a layer (a partial map from glyph names
to records), the well-formedness invariant of the lazy-loading bookkeeping, and the statement
"the unicode map is the inverse of the glyphs' unicodes".
-/
import DefconModel.Layer

namespace DefconModel
namespace Layer

/-- The abstract content of the layer: what a user who reads everything would see.
A loaded glyph is its in-memory record; an unloaded name not scheduled for deletion is what the
glyph set holds. -/
def abs (s : State) (n : String) : Option GRec :=
  match AL.get? s.loaded n with
  | some p => some p.1
  | none => if n ∈ s.sched then none else AL.get? s.disk n

/-- Bookkeeping invariant of `_glyphs` / `_keys` / `_scheduledForDeletion` / glyph set. -/
structure WF (s : State) : Prop where
  diskKeys : (AL.keys s.disk).Nodup
  loadedKeys : (AL.keys s.loaded).Nodup
  keysNodup : s.keys.Nodup
  schedNodup : s.sched.Nodup
  schedDisk : ∀ n ∈ s.sched, AL.contains s.disk n = true
  schedNotLoaded : ∀ n ∈ s.sched, AL.get? s.loaded n = none
  keysIff : ∀ n, n ∈ s.keys ↔ (abs s n).isSome
  /-- a loaded glyph that is not dirty equals its file -/
  cleanEq : ∀ n r, AL.get? s.loaded n = some (r, false) → AL.get? s.disk n = some r

/-- A unicode map whose name lists carry no name twice (what the maps of layers without repeated code points in
their glyphs' lists look like; used by `remove_exact` and the duplicate-free corollary). -/
structure UniWF (m : Cmap) : Prop where
  keys : (AL.keys m).Nodup
  lists : ∀ p ∈ m, p.2.Nodup

/-- Shape of every reachable unicode map: one entry per code point, and no entry with an empty list (the entry
of a code point whose last glyph left is deleted, so `c in unicodeData` is true exactly for carried code points). -/
structure MapWF (m : Cmap) : Prop where
  keys : (AL.keys m).Nodup
  nonempty : ∀ p ∈ m, p.2 ≠ []

/-- how often glyph `n` of content `f` lists code point `c` (0 for an absent glyph) -/
def cnt (f : String → Option GRec) (n : String) (c : Nat) : Nat :=
  match f n with
  | none => 0
  | some r => r.unicodes.count c

/-- the map `u`, if it exists, is the inverse of the unicodes of content `f`: a glyph is listed under every code
point it carries, and under a code point never more often than its own list repeats that code point (so: not at
all under a code point it does not carry, and once at most when its list has no repetition) -/
def UniInv (f : String → Option GRec) (u : Option Cmap) : Prop :=
  ∀ m, u = some m → MapWF m ∧ ∀ c n, (namesAt m c).count n ≤ cnt f n c ∧ (0 < cnt f n c → 0 < (namesAt m c).count n)

/-- C09: the map, once it exists, is exactly the inverse of the glyphs' unicodes. -/
def UniOK (s : State) : Prop := UniInv (abs s) s.uni

/-- unicode lists of all glyph records carry no duplicates (the narrower domain of the first version of the
C09 theorems; still the hypothesis of `uni_inverse_nodup`) -/
def RecsOK (s : State) : Prop := ∀ n r, abs s n = some r → r.unicodes.Nodup

/-- what glifLib hands out has no repeated code point: the records of the glyphs that have not been read (their
content is what the glyph set holds) carry duplicate-free lists.  Glyphs in memory may repeat code points. -/
def ScanOK (s : State) : Prop := ∀ n r, abs s n = some r → AL.get? s.loaded n = none → r.unicodes.Nodup

/-- everything the theorems need of a state -/
structure Good (s : State) : Prop where
  wf : WF s
  uni : UniOK s
  scan : ScanOK s

/-- abstract update of a partial map -/
def upd (f : String → Option GRec) (n : String) (v : Option GRec) : String → Option GRec :=
  fun k => if k = n then v else f k

/-- the abstract effect of each operation, a function of the abstract content alone -/
def specStep (f : String → Option GRec) : Op → Option (String → Option GRec)
  | .get n => if (f n).isSome then some f else none
  | .new n => some (upd f n (some {}))
  | .insert n r => some (upd f n (some r))
  | .delete n => if (f n).isSome then some (upd f n none) else none
  | .rename o n =>
    match f o with
    | none => none
    | some r => if o = n then some f else some (upd (upd f o none) n (some r))
  | .setUnicodes n us =>
    match f n with
    | none => none
    | some r => some (upd f n (some (withUnicodes r us)))
  | .edit n c i oload ofast =>
    match f n with
    | none => none
    | some r => some (upd f n (some (withRest r c i oload ofast)))
  | .save => some f
  | .touchUni => some f
  | .touch n => if (f n).isSome then some f else none
  | .setUnicode n v =>
    match f n with
    | none => none
    | some r => some (upd f n (some (withUnicodes r v.toList)))
  | .reload n r => if (f n).isSome then some (upd f n (some r)) else none
  | .fwd _ => some f
  | .pseudo _ => some f

/-- domain of the property: every operation with every argument — unicode lists with repeated code points,
renames onto names that are present (the glyph there is replaced) — except that the content another program
leaves in a GLIF is what glifLib reads from it, which never repeats a code point -/
def OpOK (_f : String → Option GRec) : Op → Prop
  | .reload _ r => r.unicodes.Nodup
  | _ => True

instance (f : String → Option GRec) : (op : Op) → Decidable (OpOK f op)
  | .reload _ r => inferInstanceAs (Decidable r.unicodes.Nodup)
  | .insert .. => isTrue trivial
  | .setUnicodes .. => isTrue trivial
  | .rename .. => isTrue trivial
  | .get _ => isTrue trivial
  | .new _ => isTrue trivial
  | .delete _ => isTrue trivial
  | .edit .. => isTrue trivial
  | .save => isTrue trivial
  | .touchUni => isTrue trivial
  | .touch _ => isTrue trivial
  | .setUnicode .. => isTrue trivial
  | .fwd _ => isTrue trivial
  | .pseudo _ => isTrue trivial

/-- the narrower domain of the duplicate-free corollary: every list that enters the layer is duplicate free -/
def OpNodup : Op → Prop
  | .insert _ r => r.unicodes.Nodup
  | .setUnicodes _ us => us.Nodup
  | .reload _ r => r.unicodes.Nodup
  | _ => True

instance : (op : Op) → Decidable (OpNodup op)
  | .reload _ r => inferInstanceAs (Decidable r.unicodes.Nodup)
  | .insert _ r => inferInstanceAs (Decidable r.unicodes.Nodup)
  | .setUnicodes _ us => inferInstanceAs (Decidable us.Nodup)
  | .rename .. => isTrue trivial
  | .get _ => isTrue trivial
  | .new _ => isTrue trivial
  | .delete _ => isTrue trivial
  | .edit .. => isTrue trivial
  | .save => isTrue trivial
  | .touchUni => isTrue trivial
  | .touch _ => isTrue trivial
  | .setUnicode .. => isTrue trivial
  | .fwd _ => isTrue trivial
  | .pseudo _ => isTrue trivial

/-- `unicodeForGlyphName` as a function of the content: the first code point of the glyph, if it has one -/
def specFwd (f : String → Option GRec) (n : String) : Option Nat := (f n).bind (fun r => r.unicodes.head?)

/-- a rejected operation leaves the content as it was -/
def specTotal (f : String → Option GRec) (op : Op) : String → Option GRec := (specStep f op).getD f

def specRun (f : String → Option GRec) (ops : List Op) : String → Option GRec := ops.foldl specTotal f

def OpsOK : (String → Option GRec) → List Op → Prop
  | _, [] => True
  | f, op :: ops => OpOK f op ∧ OpsOK (specTotal f op) ops

instance decOpsOK : (f : String → Option GRec) → (ops : List Op) → Decidable (OpsOK f ops)
  | _, [] => isTrue trivial
  | f, op :: ops =>
    match (inferInstance : Decidable (OpOK f op)), decOpsOK (specTotal f op) ops with
    | isTrue a, isTrue b => isTrue ⟨a, b⟩
    | isFalse a, _ => isFalse (fun h => a h.1)
    | _, isFalse b => isFalse (fun h => b h.2)

/-- both outline criteria agree on every record (false for glyphs whose contours hold only
move / off-curve points; the code used to violate it: finding F33, repaired) -/
def Coherent (f : String → Option GRec) : Prop := ∀ n r, f n = some r → r.outlineLoaded = r.outlineFast

end Layer
end DefconModel
