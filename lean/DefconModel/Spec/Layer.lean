/-
Specification side of M-Layer: the abstract content of a layer (a partial map from glyph names
to records), the well-formedness invariant of the lazy-loading bookkeeping, and the statement
"the unicode map is the inverse of the glyphs' unicodes".
-/
import DefconModel.Layer

namespace DefconModel
namespace Layer

/-- The abstract content of the layer: what a user who reads everything would see.
A loaded glyph is its in-memory record; an unloaded name not scheduled for deletion is what the
glyph set holds. -/
def abs (s : State) (n : String) : Option GRec :=
  match AL.get? s.loaded n with
  | some p => some p.1
  | none => if n ∈ s.sched then none else AL.get? s.disk n

/-- Bookkeeping invariant of `_glyphs` / `_keys` / `_scheduledForDeletion` / glyph set. -/
structure WF (s : State) : Prop where
  diskKeys : (AL.keys s.disk).Nodup
  loadedKeys : (AL.keys s.loaded).Nodup
  keysNodup : s.keys.Nodup
  schedNodup : s.sched.Nodup
  schedDisk : ∀ n ∈ s.sched, AL.contains s.disk n = true
  schedNotLoaded : ∀ n ∈ s.sched, AL.get? s.loaded n = none
  keysIff : ∀ n, n ∈ s.keys ↔ (abs s n).isSome
  /-- a loaded glyph that is not dirty equals its file -/
  cleanEq : ∀ n r, AL.get? s.loaded n = some (r, false) → AL.get? s.disk n = some r

/-- Well-formed unicode map: one entry per code point, no empty and no repeated name lists. -/
structure UniWF (m : Cmap) : Prop where
  keys : (AL.keys m).Nodup
  lists : ∀ p ∈ m, p.2.Nodup

/-- C09: the map, once it exists, is exactly the inverse of the glyphs' unicodes. -/
def UniOK (s : State) : Prop :=
  ∀ m, s.uni = some m → UniWF m ∧
    ∀ c n, n ∈ namesAt m c ↔ ∃ r, abs s n = some r ∧ c ∈ r.unicodes

/-- valid domain: unicode lists of glyph records carry no duplicates (glifLib enforces this on
read; the UFO specification on write) -/
def RecsOK (s : State) : Prop := ∀ n r, abs s n = some r → r.unicodes.Nodup

/-- abstract update of a partial map -/
def upd (f : String → Option GRec) (n : String) (v : Option GRec) : String → Option GRec :=
  fun k => if k = n then v else f k

/-- the abstract effect of each operation, a function of the abstract content alone -/
def specStep (f : String → Option GRec) : Op → Option (String → Option GRec)
  | .get n => if (f n).isSome then some f else none
  | .new n => some (upd f n (some {}))
  | .insert n r => some (upd f n (some r))
  | .delete n => if (f n).isSome then some (upd f n none) else none
  | .rename o n =>
    match f o with
    | none => none
    | some r => if o = n then some f else some (upd (upd f o none) n (some r))
  | .setUnicodes n us =>
    match f n with
    | none => none
    | some r => some (upd f n (some { r with unicodes := us }))
  | .edit n c i oload ofast =>
    match f n with
    | none => none
    | some r => some (upd f n (some { r with comps := c, image := i, outlineLoaded := oload, outlineFast := ofast }))
  | .save => some f
  | .touchUni => some f

end Layer
end DefconModel
