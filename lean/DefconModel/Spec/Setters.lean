/-
Specification side of C08: what the property's sentences say about a run of M-Setters, the decidable
syntactic criteria on catalogue entries, the statement-order skeleton of an entry (compared with the
one extracted from the sources), and the recorded findings.
-/
import DefconModel.SettersCatalogue
import DefconModel.NotifTables
import DefconModel.NotifGetters

namespace DefconModel
namespace Setters

/-! ## 1. The property's sentences on a run -/

/-- the run of an operation started on an object with store `σ` while nobody holds its notifications -/
def runOp (e : Entry) (env : Env) (σ : Store) : St := run env (init σ) e.body

/-- what the getter the delivery talks about returned BEFORE the operation -/
def Ev.before (env : Env) (σ : Store) (ev : Ev) : Val := eval env [] σ ev.sj ev.obs

/-- what that getter returns in store `s` -/
def Ev.getterIn (env : Env) (s : Store) (ev : Ev) : Val := eval env [] s ev.sj ev.obs

/-- sentence 1 for one delivery: an old value, if carried, is what the getter returned before the
operation; a new value, if carried by anything but a will-notification, is what the getter returns
when the observer is called -/
def Ev.Truthful (env : Env) (σ : Store) (ev : Ev) : Prop :=
  (∀ o, ev.old = some o → o = ev.before env σ) ∧
  (ev.kind ≠ .will → ∀ n, ev.new = some n → n = ev.now env)

/-- Sentence 1 for one entry, from every store, for every argument. -/
def PayloadTruth (e : Entry) : Prop :=
  ∀ env σ, ∀ ev ∈ (runOp e env σ).evs, ev.Truthful env σ

/-- the did / changed notification that answers a will-notification -/
def pairs : List (String × String) := [
  ("Glyph.NameWillChange", "Glyph.NameChanged"),
  ("Glyph.LeftMarginWillChange", "Glyph.LeftMarginDidChange"),
  ("Glyph.RightMarginWillChange", "Glyph.RightMarginDidChange"),
  ("Glyph.TopMarginWillChange", "Glyph.TopMarginDidChange"),
  ("Glyph.BottomMarginWillChange", "Glyph.BottomMarginDidChange"),
  ("Glyph.ImageWillBeCleared", "Glyph.ImageCleared"),
  ("Glyph.ContourWillBeAdded", "Glyph.ContoursChanged"),
  ("Glyph.ContourWillBeDeleted", "Glyph.ContoursChanged"),
  ("Glyph.ComponentWillBeAdded", "Glyph.ComponentsChanged"),
  ("Glyph.ComponentWillBeDeleted", "Glyph.ComponentsChanged"),
  ("Glyph.AnchorWillBeAdded", "Glyph.AnchorsChanged"),
  ("Glyph.AnchorWillBeDeleted", "Glyph.AnchorsChanged"),
  ("Glyph.GuidelineWillBeAdded", "Glyph.GuidelinesChanged"),
  ("Glyph.GuidelineWillBeDeleted", "Glyph.GuidelinesChanged"),
  ("Font.GuidelineWillBeAdded", "Font.GuidelinesChanged"),
  ("Font.GuidelineWillBeDeleted", "Font.GuidelinesChanged"),
  ("Layer.GlyphWillBeAdded", "Layer.GlyphAdded"),
  ("Layer.GlyphWillBeDeleted", "Layer.GlyphDeleted"),
  ("LayerSet.DefaultLayerWillChange", "LayerSet.DefaultLayerChanged"),
  ("LayerSet.LayerWillBeDeleted", "LayerSet.LayerDeleted"),
  ("ImageSet.ImageWillBeAdded", "ImageSet.ImageAdded"),
  ("ImageSet.ImageWillBeDeleted", "ImageSet.ImageDeleted")]

def didOf (will : String) : Option String := (pairs.find? (fun p => p.1 = will)).map (·.2)

/-- Sentence 2 for one entry: every delivered will-notification is delivered while the state it talks
about (its getter, for its subject) is still what it was before the operation, and later in the same
run its matching did is delivered at an instant at which that state is already the final one. -/
def WillDid (e : Entry) : Prop :=
  ∀ env σ, ∀ pre ev post, (runOp e env σ).evs = pre ++ ev :: post → ev.kind = .will →
    ev.now env = ev.before env σ ∧
    ∃ d ∈ post, d.kind = .did ∧ didOf ev.name = some d.name ∧
      ev.getterIn env d.snap = ev.getterIn env (runOp e env σ).store

/-! ## 2. Syntactic criteria -/

/-- does evaluating the expression read the object's store? -/
def Expr.readsStore : Expr → Bool
  | .fld _ | .kfld => true
  | .arg _ | .var _ | .subj | .lit _ => false
  | .add a b | .sub a b | .eq a b | .and a b | .or a b | .cons a b | .remove a b | .mem a b | .sinsert a b =>
    a.readsStore || b.readsStore
  | .not a | .isNone a | .nth a _ | .isEmpty a => a.readsStore
  | .ite c a b | .insertAt c a b => c.readsStore || a.readsStore || b.readsStore

/-- the expression mentions neither a local variable nor the subject: its value depends on the store,
the arguments and the key only -/
def Expr.closed : Expr → Bool
  | .var _ | .subj => false
  | .arg _ | .fld _ | .kfld | .lit _ => true
  | .add a b | .sub a b | .eq a b | .and a b | .or a b | .cons a b | .remove a b | .mem a b | .sinsert a b =>
    a.closed && b.closed
  | .not a | .isNone a | .nth a _ | .isEmpty a => a.closed
  | .ite c a b | .insertAt c a b => c.closed && a.closed && b.closed

/-- a value expression whose evaluation does not depend on the store: an argument, a variable, a literal -/
def Expr.stable : Expr → Bool
  | .arg _ | .var _ | .lit _ => true
  | _ => false

inductive FieldKey where
  | named (f : String)
  | key
deriving DecidableEq, Repr

def FieldKey.name (env : Env) : FieldKey → String
  | .named f => f
  | .key => env.key

def obsKey : Expr → Option FieldKey
  | .fld f => some (.named f)
  | .kfld => some .key
  | _ => none

/-- abstract state of the payload analysis of a loop-free method -/
structure PA where
  /-- no statement so far changed the store -/
  pristine : Bool := true
  /-- variable ↦ closed expression whose value BEFORE the operation the variable holds -/
  olds : List (Nat × Expr) := []
  /-- field ↦ store-independent expression whose current value the field holds -/
  known : List (FieldKey × Expr) := []
  /-- hold brackets opened and not yet closed -/
  depth : Nat := 0
deriving Repr, DecidableEq

def PA.forget (a : PA) (v : Nat) : PA :=
  { a with olds := a.olds.filter (fun p => p.1 ≠ v),
           known := a.known.filter (fun p => p.2 ≠ .var v) }

/-- the store changed at field `fk`, which now holds the value of `e` (remembered when `e` is stable);
`key` may name any field, so facts about other fields survive only between named fields -/
def PA.wrote (a : PA) (fk : FieldKey) (e : Expr) : PA :=
  { a with pristine := false,
           known := (if e.stable then [(fk, e)] else []) ++
             a.known.filter (fun p => p.1 ≠ fk ∧ fk ≠ .key ∧ p.1 ≠ .key) }

/-- what is known whether or not a conditional statement ran -/
def PA.meet (a b : PA) : Option PA :=
  if a.depth = b.depth then
    some { pristine := a.pristine && b.pristine, olds := a.olds.filter (· ∈ b.olds),
           known := a.known.filter (· ∈ b.known), depth := a.depth }
  else none

/-- is the payload of a post justified by what the analysis knows? -/
def payloadJustified (a : PA) (k : Kind) (old new : Option Expr) (obs : Expr) : Bool :=
  (match old with
   | none => true
   | some (.var v) => decide ((v, obs) ∈ a.olds)
   | some _ => false) &&
  (k == .will ||
   match new with
   | none => true
   | some en =>
     (en == obs) ||
     (match obsKey obs with
      | some fk => decide ((fk, en) ∈ a.known)
      | none => false))

/-- one statement of the payload analysis; `none` = the criterion does not apply -/
def paAtom (a : PA) : Atom → Option PA
  | .capture v e =>
    let a' := a.forget v
    if a.pristine && e.closed then some { a' with olds := (v, e) :: a'.olds } else some a'
  | .set f e => some (a.wrote (.named f) e)
  | .setK e => some (a.wrote .key e)
  | .setOrUnset f e => some (a.wrote (.named f) e)
  | .post _ k _ o nw obs =>
    if a.depth = 0 && obs.closed && payloadJustified a k o nw obs then some a else none
  | .hold => some { a with depth := a.depth + 1 }
  | .release => if a.depth = 0 then none else some { a with depth := a.depth - 1 }
  | .dirty | .touch | .guard _ | .reject _ => some a
  | .when _ x => (paAtom a x).bind (PA.meet a)
  | .nested x => paAtom a x

def paAtoms (a : PA) : List Atom → Option PA
  | [] => some a
  | x :: xs => (paAtom a x).bind (fun a' => paAtoms a' xs)

/-- the statements of a loop-free method -/
def flatAtoms : List Stmt → Option (List Atom)
  | [] => some []
  | .atom a :: r => (flatAtoms r).map (a :: ·)
  | .forEach _ _ _ _ _ :: _ => none

/-- every post inside the statement satisfies `sp kind hasOld hasNew` -/
def Atom.allPosts (sp : Kind → Bool → Bool → Bool) : Atom → Bool
  | .post _ k _ o nw _ => sp k o.isSome nw.isSome
  | .when _ a => a.allPosts sp
  | .nested a => a.allPosts sp
  | _ => true

def Stmt.allPosts (sp : Kind → Bool → Bool → Bool) : Stmt → Bool
  | .atom a => a.allPosts sp
  | .forEach _ _ _ _ body => body.all (Atom.allPosts sp)

/-- no post carries an old or a new value -/
def spNoPayload : Kind → Bool → Bool → Bool := fun _ o n => !o && !n
/-- no post is a will-notification -/
def spNoWill : Kind → Bool → Bool → Bool := fun k _ _ => k != .will

/-- the payload criterion: the method is loop-free and the analysis justifies every payload, or no
post of the method carries old/new values at all -/
def payloadOk (e : Entry) : Bool :=
  (match flatAtoms e.body with
   | some as => (paAtoms {} as).isSome
   | none => false) || e.body.all (Stmt.allPosts spNoPayload)

def Atom.writes : Atom → Bool
  | .set _ _ | .setK _ | .setOrUnset _ _ => true
  | .when _ a => a.writes
  | .nested a => a.writes
  | _ => false

/-- before the will: only reads and checks -/
def Atom.preOk : Atom → Bool
  | .capture _ _ | .guard _ | .reject _ => true
  | _ => false

/-- the arguments whose truth a `reject (arg i)` among the statements has refuted once the method is
past them -/
def refutedArgs : List Atom → List Nat
  | [] => []
  | .reject (.arg i) :: r => i :: refutedArgs r
  | _ :: r => refutedArgs r

/-- between will and did: anything that neither stops the method, nor brackets holds, nor posts
another will; a `reject (arg i)` is allowed when the same argument was already refuted before the
will (arguments do not change: the repeated check cannot fire) -/
def Atom.midOk (refuted : List Nat) : Atom → Bool
  | .reject (.arg i) => decide (i ∈ refuted)
  | .guard _ | .reject _ | .hold | .release => false
  | .post _ k _ _ _ _ => k ≠ .will
  | .when _ a => a.midOk refuted
  | .nested a => a.midOk refuted
  | _ => true

/-- after the did: nothing that changes the store, brackets holds or posts another will -/
def Atom.sufOk : Atom → Bool
  | .set _ _ | .setK _ | .setOrUnset _ _ | .hold | .release => false
  | .post _ k _ _ _ _ => k ≠ .will
  | .when _ a => a.sufOk
  | .nested a => a.sufOk
  | _ => true

def Atom.isDidPost : Atom → Bool
  | .post _ .did _ _ _ _ => true
  | _ => false

/-- `pre ++ [post will] ++ mid ++ [post did] ++ suf` with the did matching the will -/
def straightWD (as : List Atom) : Bool :=
  match as.dropWhile Atom.preOk with
  | .post w .will _ _ _ _ :: rest =>
    match rest.dropWhile (fun a => !a.isDidPost) with
    | .post d .did _ _ _ _ :: suf =>
      (rest.takeWhile (fun a => !a.isDidPost)).all (Atom.midOk (refutedArgs (as.takeWhile Atom.preOk))) &&
        suf.all Atom.sufOk && didOf w == some d
    | _ => false
  | _ => false

/-- the Will/Did criterion: the method posts no will-notification at all, or it is loop-free and of
the straight shape -/
def willDidOk (e : Entry) : Bool :=
  e.body.all (Stmt.allPosts spNoWill) ||
  (match flatAtoms e.body with
   | some as => straightWD as
   | none => false)

/-! ## 3. The statement-order skeleton of an entry -/

def Src.rank : Src → Nat
  | .none => 0 | .const => 1 | .param => 2 | .capBefore => 3 | .capAfter => 4 | .readNow => 5

def Src.join (a b : Src) : Src := if a.rank < b.rank then b else a

/-- class of the leaves of a store-independent expression -/
def Expr.leafClass (caps : List (Nat × Src)) : Expr → Src
  | .arg _ | .subj => .param
  | .var v => (AL.get? caps v).getD .param
  | .lit _ => .const
  | .fld _ | .kfld => .const
  | .add a b | .sub a b | .eq a b | .and a b | .or a b | .cons a b | .remove a b | .mem a b | .sinsert a b =>
    (a.leafClass caps).join (b.leafClass caps)
  | .not a | .isNone a | .nth a _ | .isEmpty a => a.leafClass caps
  | .ite c a b | .insertAt c a b => ((c.leafClass caps).join (a.leafClass caps)).join (b.leafClass caps)

/-- where the value of an expression evaluated after `k` state changes comes from -/
def exprClass (k : Nat) (caps : List (Nat × Src)) (e : Expr) : Src :=
  if e.readsStore then (if k = 0 then .capBefore else .capAfter) else e.leafClass caps

/-- source class of a payload slot of a post after `k` state changes -/
def srcOf (k : Nat) (caps : List (Nat × Src)) : Option Expr → Src
  | none => .none
  | some (.lit _) => .const
  | some e => if e.readsStore then .readNow else exprClass k caps e

structure SkSt where
  k : Nat := 0
  caps : List (Nat × Src) := []
  evs : List SkEv := []

def SkSt.emit (s : SkSt) (e : SkEv) : SkSt := { s with evs := s.evs ++ [e] }
def SkSt.write (s : SkSt) : SkSt := { s with k := s.k + 1, evs := s.evs ++ [.write] }

/-- skeleton of one statement; `cond` = it runs on one path only, `inl` = it belongs to an inlined callee -/
def skAtom (s : SkSt) (cond inl : Bool) : Atom → SkSt
  | .capture v e =>
    let c := exprClass s.k s.caps e
    let c' := if cond then c.join ((AL.get? s.caps v).getD .param) else c
    { s with caps := AL.set s.caps v c' }
  | .set _ _ | .setK _ | .setOrUnset _ _ | .touch => s.write
  | .post n _ _ o nw _ => if inl then s else s.emit (.post (.lit n) (srcOf s.k s.caps o) (srcOf s.k s.caps nw))
  | .hold => if inl then s else s.emit .hold
  | .release => if inl then s else s.emit .release
  | .dirty | .guard _ | .reject _ => s
  | .when _ a => skAtom s true inl a
  | .nested a => skAtom s cond true a

def skStmt (s : SkSt) : Stmt → SkSt
  | .atom a => skAtom s false false a
  | .forEach v l _ own body =>
    let s0 : SkSt := { s with caps := AL.set s.caps v (exprClass s.k s.caps l) }
    if own then
      let s1 := body.foldl (fun s a => skAtom s false false a) { s0 with evs := [] }
      if s1.evs.isEmpty then { s1 with evs := s.evs }
      else { s1 with evs := s.evs ++ [.loopStart] ++ s1.evs ++ [.loopEnd] }
    else if body.any Atom.writes then s0.write else s0

/-- the statement order of an entry, in the vocabulary of the extracted skeletons -/
def entrySkel (e : Entry) : List SkEv := collapse (e.body.foldl skStmt {}).evs

def resolveEv (t : Tables) (cls : String) : SkEv → SkEv
  | .post r o n => match t.resolve cls r with
    | some s => .post (.lit s) o n
    | none => .post r o n
  | e => e

/-- the statement order of the method the entry transcribes, as extracted from the sources -/
def sourceSkel (t : Tables) (e : Entry) : Option (List SkEv) :=
  (t.skel e.srcCls e.method).map (fun evs => collapse (evs.map (resolveEv t e.cls)))

def followsSource (t : Tables) (e : Entry) : Bool := sourceSkel t e == some (entrySkel e)

/-! ## 4. Recorded findings and the entries outside the syntactic criteria -/

/-- F23 / F24: call sites that post will-notifications inside a hold bracket they impose themselves -/
def heldSites : List String := [
  "Glyph.clearContours", "Glyph.clearComponents", "Glyph.clearAnchors", "Glyph.clearGuidelines", "Glyph.clear",
  "Glyph.anchors=", "Glyph.guidelines=", "Glyph.decomposeComponent", "Glyph.decomposeAllComponents",
  "Glyph.copyDataFromGlyph", "Font.clearGuidelines", "Font.guidelines=", "Layer.insertGlyph"]

/-- callbacks that re-post another object's payload under their own name -/
def forwarders : List String := ["Layer._glyphNameChange", "Layer._glyphUnicodesChange"]

/-- F44: `Image.ColorChanged` re-posted from the layer's colour change carries the LAYER's colours -/
def payloadFindings : List String := ["Image.layerColorChanged"]

/-- documented and never posted: nothing (finding F25, `Layer.GlyphsChanged`, was repaired in /repo: the class
docstring no longer lists a notification that nothing posts) -/
def neverPosted : List (String × String) := []

/-! ## 5. The getter table (`NotifGetters.lean`) against the sources and the catalogue -/

/-- the data keys under which defcon hands over old and new values (the extractor refuses any other key that
starts with `old` / `new`: `harness/extract_notif.py`, "unrecognised old/new payload key") -/
def valueKeys : List String := ["oldValue", "newValue", "oldName", "newName", "oldColor", "newColor"]

def isValueKey (k : String) : Bool := decide (k ∈ valueKeys)

/-- posting statements that hand over somebody else's data instead of building a dict: `Image.ColorChanged`
re-posted from the layer's colour change (recorded finding F44) -/
def forwardedSites : List (String × String) := [("Image", "layerColorChangedNotificationCallback")]

/-- notifications that carry old/new values and are NOT attribute changes judged against a getter of the poster:
the two callbacks by which a layer forwards a glyph's payload (judged by `forward_faithful` and with the glyph),
and `ImageSet.FileNamesChanged`, posted once while an image set is filled from a UFO (`fileNames` "should not be
set externally"; the setter asserts that the set is empty) -/
def outsideTable : List String := ["Layer.GlyphNameChanged", "Layer.GlyphUnicodesChanged", "ImageSet.FileNamesChanged"]

/-- the names a posting statement can post: the literal, or the value of the `*NotificationName` attribute in
every class that inherits the statement -/
def siteNames (t : Tables) (s : PostSite) : List String :=
  match s.name with
  | .lit n => [n]
  | .attr a => (t.classes.filter (fun c => decide (s.cls ∈ t.mro 8 c.name))).filterMap (fun c => t.attrValue c.name a)

/-- the data keys of a posting statement are the ones the getter table says: its old and new key are there, no
other old / new value key is, and the key that names the item is there -/
def keysOk (g : Getter) (ks : List String) : Bool :=
  decide (g.oldKey ∈ ks) && decide (g.newKey ∈ ks) &&
  ks.all (fun k => !isValueKey k || k == g.oldKey || k == g.newKey) &&
  (match g.item with
   | some i => decide (i ∈ ks)
   | none => true)

def siteOk (t : Tables) (s : PostSite) : Bool :=
  (siteNames t s).all fun n =>
    match getterOf n, s.keys with
    | some g, some ks => keysOk g ks
    | none, some ks => !(ks.any isValueKey) || decide (n ∈ outsideTable)
    | _, none => decide ((s.cls, s.method) ∈ forwardedSites)

/-- no dead rows: every notification of the getter table is posted by some statement of the sources -/
def getterPosted (t : Tables) (g : Getter) : Bool := t.sites.any (fun s => decide (g.note ∈ siteNames t s))

/-- a catalogue statement that posts old/new values judges them against the getter the table names -/
def Atom.getterOk : Atom → Bool
  | .post n _ _ o nw obs =>
    (o.isNone && nw.isNone) ||
    (match getterOf n with
     | some g => decide (g.obs = obs)
     | none => false)
  | .when _ a => a.getterOk
  | .nested a => a.getterOk
  | _ => true

def Stmt.getterOk : Stmt → Bool
  | .atom a => a.getterOk
  | .forEach _ _ _ _ body => body.all Atom.getterOk

def entryGetterOk (e : Entry) : Bool := decide (e.id ∈ forwarders) || e.body.all Stmt.getterOk

/-- will-notifications and the data key of their subject agree with the Will/Did pairs of section 1 -/
def willTableOk : Bool :=
  (willSubject.map (·.1) == pairs.map (·.1))

end Setters
end DefconModel
