/-
Spec-side definitions for the format-branch part of M-Conv.
-/
import DefconModel.ConvSave
import DefconModel.Spec.Conv

namespace DefconModel
namespace Conv

/-- names are unique where the code keeps them in dicts -/
structure MemWF (m : Mem) : Prop where
  layerNames : (m.layers.map (fun l => l.name)).Nodup
  glyphNames : ∀ l ∈ m.layers, (AL.keys l.glyphs).Nodup
  imageNames : (AL.keys m.images).Nodup
  dataNames : (AL.keys m.data).Nodup
  /-- the format the font reports is the format of the UFO it is bound to -/
  boundFmt : ∀ d, m.bound = some d → m.fmt = some d.fmt

/-- a UFO 1/2 only holds what GLIF 1 can carry -/
def DiskGlif1 (d : Disk) : Prop := d.fmt ≠ .f3 → ∀ l ∈ d.layers, ∀ p ∈ l.glyphs, glif1 p.2 = p.2

def BoundGlif1 (m : Mem) : Prop := ∀ d, m.bound = some d → DiskGlif1 d

/-- names are unique in a UFO, and below format 3 there is exactly the one glyph directory of the
default layer -/
structure DiskWF (d : Disk) : Prop where
  layerNames : (d.layers.map (fun l => l.name)).Nodup
  glyphNames : ∀ l ∈ d.layers, (AL.keys l.glyphs).Nodup
  imageNames : (AL.keys d.images).Nodup
  dataNames : (AL.keys d.data).Nodup
  single : d.fmt ≠ .f3 → ∃ l, d.layers = [l] ∧ l.name = d.defaultName

/-- names are unique in a font's content -/
structure FullWF (c : Full) : Prop where
  layerNames : (c.layers.map (fun l => l.name)).Nodup
  glyphNames : ∀ l ∈ c.layers, (AL.keys l.glyphs).Nodup
  imageNames : (AL.keys c.images).Nodup
  dataNames : (AL.keys c.data).Nodup


/-- What a reopened UFO of format `t` shows (`c'`) of the content `c` a font held when it was saved:
`old` = the rename maps of the saved font, `mp` = the maps the reader built for the reopened one. -/
structure Preserved (find : Finder) (t : Fmt) (old : Option Maps) (mp : Maps) (c c' : Full) : Prop where
  /-- format 3 expresses everything -/
  all3 : t = .f3 → c' = c
  /-- below: one layer, the default layer's glyphs with what GLIF 1 carries; no images, no data -/
  glyphs : t ≠ .f3 → c'.layers = [⟨"public.default", (defaultGlyphs c).map (fun p => (p.1, glif1 p.2)), 0⟩] ∧
    c'.images = [] ∧ c'.data = []
  /-- kerning and groups modulo the rename maps: written under the old names both times -/
  kerning : t ≠ .f3 → downKerning (flip mp) c'.parts.kerning = downK old c.parts.kerning ∧
    downGroups (flip mp) c'.parts.groups = downG old c.parts.groups
  lib : c'.parts.lib = c.parts.lib
  /-- the info attributes the format defines -/
  info : c'.parts.info = infoFor t c.parts.info
  /-- PostScript hint values: in fontinfo for format 2, through the lib for format 1 -/
  hint : c'.parts.hint = c.parts.hint
  /-- the feature text, directly in format 2 … -/
  featuresDirect : t = .f2 → c'.parts.features = c.parts.features
  /-- … and through the lib in format 1: nothing of the text is lost by the split, and when no tag
  is repeated what comes back is the class definitions and the blocks, each stripped and
  newline-terminated, joined by newlines -/
  featuresViaLib : t = .f1 → ∃ cl fs, split find c.parts.features = .ok cl fs ∧ cl ++ flat fs = c.parts.features ∧
    (DistinctTags fs → c'.parts.features = joinNl (expectedPieces cl fs))

/-- What an operation on the layer set means for the content the getters show: nothing but the layer
set changes - a renamed layer keeps its glyphs and its place, a new layer is empty and comes last, a
deleted layer is gone with its glyphs, the order is the one asked for. -/
def applyFull (c : Full) : LayerOp → Full
  | .rename o n =>
    { c with layers := c.layers.map (fun l => if l.name = o then { l with name := n } else l),
             defaultName := if c.defaultName = o then n else c.defaultName }
  | .new n => { c with layers := c.layers ++ [⟨n, [], 0⟩] }
  | .delete n => { c with layers := c.layers.filter (fun l => l.name ≠ n) }
  | .setDefault n => { c with defaultName := n }
  | .reorder order => { c with layers := order.filterMap (fun n => c.layers.find? (fun l => l.name = n)) }
  | .setInfo n b => { c with layers := c.layers.map (fun l => if l.name = n then { l with info := b } else l) }

end Conv
end DefconModel
