/-
Specification side of C08 for `Contour.WindingDirectionChanged`: what `contour.clockwise` answers for a list of
points (M-Geom, `Geom.lean`: `clockwise` = "the signed area AreaPen computes is negative"; open contours are closed
implicitly, a contour without area — a lone point, a two-point stroke, collinear points, a symmetric figure eight —
is NOT clockwise), and the abstraction of a contour into the store of M-Setters.
-/
import DefconModel.Spec.Setters
import DefconModel.Geom

namespace DefconModel
namespace Setters

/-- `Contour._get_clockwise`: `self.getRepresentation("defcon.contour.area") < 0` -/
def clockwiseOf (pts : List Geom.Point) : Bool := decide (Geom.freshArea pts < 0)

/-- the contour encloses no area -/
def zeroArea (pts : List Geom.Point) : Bool := decide (Geom.freshArea pts = 0)

/-- a store of M-Setters describes a contour with these points -/
def DescribesContour (σ : Store) (pts : List Geom.Point) : Prop := getF σ "clockwise" = b2v (clockwiseOf pts)

/-- the deliveries of `Contour.WindingDirectionChanged` tell the truth about a contour that had points `pts` before
the operation and has points `pts'` when the observer is called -/
def WindingTruth (env : Env) (r : St) (pts pts' : List Geom.Point) : Prop :=
  ∀ ev ∈ r.evs, ev.name = "Contour.WindingDirectionChanged" →
    ev.old = some (b2v (clockwiseOf pts)) ∧ ev.new = some (b2v (clockwiseOf pts')) ∧
    ev.now env = b2v (clockwiseOf pts')

end Setters
end DefconModel
