/-
Specification side of M-Follow (C08, sentence 3 for the relayed `Component.BaseGlyphDataChanged`).
-/
import DefconModel.Follow

namespace DefconModel
namespace Follow

/-- the data of a component's base glyph as the public API shows it: the outline of the glyph that the layer
files under `component.baseGlyph` (`layer[component.baseGlyph]`); `none` = there is no such glyph -/
def baseData (w : World) (c : Comp) : Option Nat := (AL.get? w.filed c.base).bind (AL.get? w.data)

/-- the component observes exactly the glyph object that is filed under its base name — the layer when there
is none -/
def Bound (f : Filed) (c : Comp) : Prop := c.watch = (observe f c).watch

structure Inv (w : World) : Prop where
  /-- every component follows its base glyph -/
  bound : ∀ c ∈ w.comps, Bound w.filed c
  /-- a glyph object is filed under one name -/
  inj : ∀ n m o, AL.get? w.filed n = some o → AL.get? w.filed m = some o → n = m
  /-- filed objects have data (objects handed to `newGlyph` are new) -/
  known : ∀ n o, AL.get? w.filed n = some o → (AL.get? w.data o).isSome

end Follow
end DefconModel
