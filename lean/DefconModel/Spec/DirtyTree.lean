/-
Specification side of M-DirtyTree: what a well-formed object tree is, and which trees are reachable.
-/
import DefconModel.DirtyTree

namespace DefconModel
namespace DirtyTree

/-- Objects are numbered in the order in which they joined the font: a parent is older than its child.
(The harness numbers the initial tree that way — the driver refuses anything else — and every tree edit of the
table preserves it: `Props.C02.reachable_tree_wellformed`.) -/
def WF (t : Tree) : Prop := ∀ x p, parentOf t x = some p → p < x

/-- the same, as a check that can be run on a concrete tree (`wf_of_wfb`) -/
def wfb (t : Tree) : Bool :=
  (List.range t.length).all fun x => match parentOf t x with
    | some p => decide (p < x)
    | none => true

/-- a step of a history: a catalogued mutator call on an existing object, a hold, a release -/
inductive Step where
  | call (recv : Nat) (e : Entry) (same : Bool)
  | hold (x : Nat)
  | release (x : Nat)

def step (ts : TState) : Step → TState
  | .call recv e same => if recv < ts.tree.length then applyMut ts recv e same else ts
  | .hold x => holdT ts x
  | .release x => releaseT ts x

/-- the states reachable from a well-formed tree by any history -/
inductive Reachable : TState → Prop where
  | init (t : Tree) (s : Dirty.State) (h : WF t) : Reachable { tree := t, s := s }
  | step {ts : TState} (h : Reachable ts) (st : Step) : Reachable (step ts st)

end DirtyTree
end DefconModel
