/-
Specification side of C08 for the life cycle of a file name in an image set (`ImageSet.__setitem__`,
`__delitem__`, `save`): the state machine absent / present / scheduled for deletion, its histories, and what an
observer that evaluates `name in images` inside its callback is told.
-/
import DefconModel.Spec.Setters

namespace DefconModel
namespace Setters

/-- an operation on the image set: `images[name] = data` (`same` = the data has the digest of the entry kept under
the name — in the set, or among the scheduled deletions), `del images[name]`, `font.save()` (which performs the
scheduled deletions and forgets them: `_scheduledForDeletion.clear()`) -/
inductive ImgOp where
  | set (name : Int) (same : Bool)
  | del (name : Int)
  | save
deriving DecidableEq, Repr

/-- the field as a set of names -/
def namesOf (σ : Store) (f : String) : List Int :=
  match getF σ f with
  | .list xs => xs
  | _ => []

/-- what `name in images` answers -/
def imgHas (σ : Store) (n : Int) : Bool := (namesOf σ "names").contains n

/-- the name was deleted since the last save -/
def imgScheduled (σ : Store) (n : Int) : Bool := (namesOf σ "sched").contains n

inductive Phase where
  | absent | present | scheduled
deriving DecidableEq, Repr

def phase (σ : Store) (n : Int) : Phase :=
  if imgHas σ n then .present else if imgScheduled σ n then .scheduled else .absent

/-- one operation, as the catalogue entries run it (`save` posts nothing about single images) -/
def imgStep (σ : Store) : ImgOp → St
  | .set n same => runOp imageSetSetItem { args := [.int n, .int 0, b2v same] } σ
  | .del n => runOp imageSetDelItem { args := [.int n] } σ
  | .save => init (AL.set σ "sched" (.list []))

def imgRun (σ : Store) : List ImgOp → Store
  | [] => σ
  | op :: ops => imgRun (imgStep σ op).store ops

/-- a new image set -/
def imgEmpty : Store := [("names", .list []), ("sched", .list [])]

/-- what the observer is told, and what `name in images` answers inside its callback -/
def announced (r : St) : List (String × Val × Val) := r.evs.map (fun ev => (ev.name, ev.sj, ev.now {}))

/-- the two sets are duplicate free and disjoint -/
structure ImgWF (σ : Store) : Prop where
  names : ∃ ns, getF σ "names" = .list ns ∧ ns.Nodup
  sched : ∃ ss, getF σ "sched" = .list ss ∧ ss.Nodup
  disjoint : ∀ n, imgHas σ n = true → imgScheduled σ n = false

/-- the documented announcements of one transition -/
def ImgStepOk (σ : Store) (op : ImgOp) (r : St) : Prop :=
  match op with
  | .set n same =>
    imgHas r.store n = true ∧ imgScheduled r.store n = false ∧
    (∀ m, m ≠ n → imgHas r.store m = imgHas σ m ∧ imgScheduled r.store m = imgScheduled σ m) ∧
    (imgHas σ n = false →
      announced r = [("ImageSet.ImageWillBeAdded", .int n, b2v false), ("ImageSet.ImageAdded", .int n, b2v true)]) ∧
    (imgHas σ n = true → same = false → announced r = [("ImageSet.ImageChanged", .int n, b2v true)]) ∧
    (imgHas σ n = true → same = true → announced r = [] ∧ r.store = σ)
  | .del n =>
    (imgHas σ n = true →
      announced r = [("ImageSet.ImageWillBeDeleted", .int n, b2v true), ("ImageSet.ImageDeleted", .int n, b2v false)] ∧
      imgHas r.store n = false ∧ imgScheduled r.store n = true ∧
      (∀ m, m ≠ n → imgHas r.store m = imgHas σ m ∧ imgScheduled r.store m = imgScheduled σ m)) ∧
    (imgHas σ n = false → r.status = .raised ∧ r.evs = [] ∧ r.store = σ)
  | .save => r.evs = [] ∧ ∀ m, imgHas r.store m = imgHas σ m ∧ imgScheduled r.store m = false

end Setters
end DefconModel
