/-
Specification side of M-LayerSet: the invariants that make the in-place save of a layer set
correct for every history.
-/
import DefconModel.LayerSet

namespace DefconModel
namespace LayerSet

/-- consistency of the in-memory bookkeeping -/
structure MemOK (s : State) : Prop where
  layerKeys : (AL.keys s.layers).Nodup
  /-- distinct layer objects -/
  lids : ∀ n m l k, AL.get? s.layers n = some l → AL.get? s.layers m = some k → l.lid = k.lid → n = m
  orderNodup : s.order.Nodup
  orderIff : ∀ n, n ∈ s.order ↔ AL.contains s.layers n = true
  /-- the default layer is one of the layers -/
  defaultIn : ∃ n l, AL.get? s.layers n = some l ∧ s.default = some l.lid

/-- a `layerContents` in which at most one layer is mapped to the default directory -/
structure DiskOK (d : List (String × DLayer)) : Prop where
  keys : (AL.keys d).Nodup
  oneDefault : ∀ n m a b, AL.get? d n = some a → AL.get? d m = some b → a.isDefault = true → b.isDefault = true → n = m

/-- what the replayed history must have made of `layerContents`: exactly the memory layers that
are bound to a directory, each under its current name, flagged default iff it is the default -/
structure Rel (s : State) (d : List (String × DLayer)) : Prop where
  ok : DiskOK d
  sound : ∀ n dl, AL.get? d n = some dl → ∃ l, AL.get? s.layers n = some l ∧ l.lid = dl.lid ∧ l.onDisk = true
  complete : ∀ n l, AL.get? s.layers n = some l → l.onDisk = true → ∃ dl, AL.get? d n = some dl
  flag : ∀ n dl, AL.get? d n = some dl → (dl.isDefault = true ↔ s.default = some dl.lid)

/-- The history invariant: replaying the action history on the UFO's `layerContents` succeeds —
no ufoLib error, no silent merge of directories — and yields `Rel`. -/
def Sync (s : State) : Prop := ∃ d, replay s.history s.disk = .ok d ∧ Rel s d

/-- the `layercontents.plist` a correct save must write: the memory layers in layer order, the
default layer and only it mapped to the default directory -/
def expectedEntry (s : State) (n : String) : Option DLayer :=
  (AL.get? s.layers n).map (fun l => ⟨l.lid, decide (s.default = some l.lid)⟩)

/-- domain of the property: the default layer is never deleted and a rename never targets an
existing layer name -/
def delOK (s : State) (n : String) : Bool :=
  match AL.get? s.layers n with
  | some l => decide (s.default ≠ some l.lid)
  | none => true

def OpOK (s : State) : Op → Prop
  | .delLayer n => delOK s n = true
  | .rename _ n => AL.get? s.layers n = none
  | .setOrder o => o.Nodup
  | _ => True

instance (s : State) : (op : Op) → Decidable (OpOK s op)
  | .delLayer n => inferInstanceAs (Decidable (delOK s n = true))
  | .rename _ n => inferInstanceAs (Decidable (AL.get? s.layers n = none))
  | .setOrder o => inferInstanceAs (Decidable o.Nodup)
  | .newLayer _ => isTrue trivial
  | .setDefault _ => isTrue trivial
  | .saveInPlace => isTrue trivial
  | .saveAs => isTrue trivial

/-- layer object identities are handed out in increasing order -/
def Fresh (s : State) : Prop := ∀ n l, AL.get? s.layers n = some l → l.lid < s.nextLid

structure Inv (s : State) : Prop where
  mem : MemOK s
  sync : Sync s
  fresh : Fresh s

/-- a rejected operation changes nothing -/
def stepTotal (s : State) (op : Op) : State :=
  match step s op with
  | .ok s' => s'
  | .error _ => s

def run (s : State) (ops : List Op) : State := ops.foldl stepTotal s

def OpsOK : State → List Op → Prop
  | _, [] => True
  | s, op :: rest => OpOK s op ∧ OpsOK (stepTotal s op) rest

instance decOpsOK : (s : State) → (ops : List Op) → Decidable (OpsOK s ops)
  | _, [] => isTrue trivial
  | s, op :: rest =>
    match (inferInstance : Decidable (OpOK s op)), decOpsOK (stepTotal s op) rest with
    | isTrue a, isTrue b => isTrue ⟨a, b⟩
    | isFalse a, _ => isFalse (fun h => a h.1)
    | _, isFalse b => isFalse (fun h => b h.2)

end LayerSet
end DefconModel
