/-
Specification-side definitions for C17 (geometry and metrics).
-/
import DefconModel.Geom

namespace DefconModel
namespace Geom

end Geom
end DefconModel
