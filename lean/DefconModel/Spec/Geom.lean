/-
Specification-side definitions for C17 (geometry and metrics): what "a point of the outline" is,
box inclusion, the laws a curve-extrema oracle has to obey, validity of a point list, the cache
invariant, the independent ("spec") readings of control box and area the model is compared with.
Core Lean only (definitions); the proofs about them are in Lemmas/Geom*.lean.
-/
import DefconModel.Geom

namespace DefconModel
namespace Geom

/-! ## Bézier curves over ℚ -/

def lerp (a b t : Rat) : Rat := (1 - t) * a + t * b
def bez2 (a b c t : Rat) : Rat := (1 - t) ^ 2 * a + 2 * (1 - t) * t * b + t ^ 2 * c
def bez3 (a b c d t : Rat) : Rat :=
  (1 - t) ^ 3 * a + 3 * (1 - t) ^ 2 * t * b + 3 * (1 - t) * t ^ 2 * c + t ^ 3 * d

def Pt.lerp (p q : Pt) (t : Rat) : Pt := ⟨Geom.lerp p.x q.x t, Geom.lerp p.y q.y t⟩
def Pt.bez2 (p a q : Pt) (t : Rat) : Pt := ⟨Geom.bez2 p.x a.x q.x t, Geom.bez2 p.y a.y q.y t⟩
def Pt.bez3 (p a b q : Pt) (t : Rat) : Pt := ⟨Geom.bez3 p.x a.x b.x q.x t, Geom.bez3 p.y a.y b.y q.y t⟩

/-- the point at parameter `t` of what a primitive draws, the sub path having started at `s` and the
pen being at `c` (`closePath` draws the closing line back to `s`) -/
def Prim.at (s c : Pt) : Prim → Rat → Pt
  | .moveTo p, _ => p
  | .lineTo p, t => Pt.lerp c p t
  | .curveTo a b p, t => Pt.bez3 c a b p t
  | .qCurveTo a p, t => Pt.bez2 c a p t
  | .closePath, t => Pt.lerp c s t
  | .endPath, _ => c

/-- where a primitive leaves the pen -/
def Prim.endPt (c : Pt) : Prim → Pt
  | .moveTo p => p
  | .lineTo p => p
  | .curveTo _ _ p => p
  | .qCurveTo _ p => p
  | .closePath => c
  | .endPath => c

/-- pen state `some (start of the sub path, current point)`; `none` = no current point (before the
first `moveTo`, after `closePath/endPath`, as in `BasePen`) -/
def nextState (st : Option (Pt × Pt)) : Prim → Option (Pt × Pt)
  | .moveTo p => some (p, p)
  | .closePath => none
  | .endPath => none
  | pr => st.map (fun sc => (sc.1, pr.endPt sc.2))

/-- `q` is a point of what primitive `pr` draws in state `st` (without a current point a primitive
contributes just its own points) -/
def OnPrim (st : Option (Pt × Pt)) (pr : Prim) (q : Pt) : Prop :=
  match st with
  | none => q ∈ pr.pts
  | some (s, c) => ∃ t : Rat, 0 ≤ t ∧ t ≤ 1 ∧ q = pr.at s c t

/-- `q` is a point of the outline drawn by the primitives `ps` from pen state `st` -/
def OnPath : Option (Pt × Pt) → List Prim → Pt → Prop
  | _, [], _ => False
  | st, pr :: r, q => OnPrim st pr q ∨ OnPath (nextState st pr) r q

/-! ## Boxes -/

/-- `p` lies in the (closed) box -/
def Box.Has (b : Box) (p : Pt) : Prop := b.xMin ≤ p.x ∧ p.x ≤ b.xMax ∧ b.yMin ≤ p.y ∧ p.y ≤ b.yMax

/-- box `a` lies within box `b` -/
def Box.Within (a b : Box) : Prop := b.xMin ≤ a.xMin ∧ a.xMax ≤ b.xMax ∧ b.yMin ≤ a.yMin ∧ a.yMax ≤ b.yMax

/-- the same for the `None`-or-box values the pens return: "no bounds" lies within anything -/
def OWithin : Option Box → Option Box → Prop
  | none, _ => True
  | some _, none => False
  | some a, some b => a.Within b

/-- the box of a list of points, by a plain left-to-right min/max (the "independent computation"
of control-point bounds) -/
def boxOfPts : List Pt → Option Box
  | [] => none
  | p :: ps => some (ps.foldl Box.add (Box.ofPt p))

/-! ## What the model assumes about fontTools' numeric curve-extrema functions -/

/-- Laws of `calcCubicBounds / calcQuadraticBounds` the theorems use.  The exact box of the curve
satisfies all three (by the convex-hull property proved in `Lemmas/GeomHull.lean`); so does the box
of the control points, `hullOracle`, which the driver runs with. -/
structure CurveOracle.Lawful (o : CurveOracle) : Prop where
  /-- the answer contains every point of the curve -/
  cubic_has : ∀ p0 a b p (t : Rat), 0 ≤ t → t ≤ 1 → (o.cubic p0 a b p).Has (Pt.bez3 p0 a b p t)
  quad_has : ∀ p0 a p (t : Rat), 0 ≤ t → t ≤ 1 → (o.quad p0 a p).Has (Pt.bez2 p0 a p t)
  /-- the answer lies within every box that contains the control points -/
  cubic_within : ∀ p0 a b p (bx : Box), bx.Has p0 → bx.Has a → bx.Has b → bx.Has p → (o.cubic p0 a b p).Within bx
  quad_within : ∀ p0 a p (bx : Box), bx.Has p0 → bx.Has a → bx.Has p → (o.quad p0 a p).Within bx
  /-- translating the curve translates the answer -/
  cubic_shift : ∀ p0 a b p (dx dy : Rat),
    o.cubic (p0.shift dx dy) (a.shift dx dy) (b.shift dx dy) (p.shift dx dy) = (o.cubic p0 a b p).shift dx dy
  quad_shift : ∀ p0 a p (dx dy : Rat),
    o.quad (p0.shift dx dy) (a.shift dx dy) (p.shift dx dy) = (o.quad p0 a p).shift dx dy

/-! ## Valid point lists (UFO GLIF specification, as enforced by `glifLib`) -/

/-- the point list has an on-curve point -/
def hasOn (l : List Point) : Bool := l.any Point.onCurve

/-- every point is an on-curve point (an outline of straight lines) -/
def allOn (pts : List Point) : Bool := pts.all Point.onCurve

/-- no `move` after the first point -/
def noInnerMove : List Point → Bool
  | [] => true
  | _ :: ps => ps.all (fun p => p.seg ≠ some .move)

/-- a closed contour (does not start with `move`) contains no `move` at all -/
def noMove (pts : List Point) : Bool := pts.all (fun p => p.seg ≠ some .move)

/-- the last point is an on-curve point (an open contour must not end with off-curves) -/
def endsOnCurve (pts : List Point) : Bool :=
  match pts.getLast? with
  | none => true
  | some p => p.onCurve

/-- Point lists the reversal laws are stated for: closed contours without any `move`, and open
contours whose only `move` is the first point and which do not end with off-curve points. -/
def ReversibleShape (pts : List Point) : Prop :=
  (isOpen pts = false ∧ noMove pts = true) ∨ (isOpen pts = true ∧ noInnerMove pts = true ∧ endsOnCurve pts = true)

instance (pts : List Point) : Decidable (ReversibleShape pts) := by
  unfold ReversibleShape; infer_instance

/-- what stays attached to a point when a contour is reversed or rotated: everything but the segment type -/
def Point.core (p : Point) : Pt × Bool × Option String × Option String := (p.pt, p.smooth, p.name, p.ident)

/-! ## Cached representations are coherent -/

/-- what a representation request answers when nothing is cached: the factory's exception, or its value -/
def answer {β : Type} (err : Option Err) (fresh : β) : Except Err β :=
  match err with
  | some e => .error e
  | none => .ok fresh

/-- Every cached representation equals what its factory would return now. -/
structure Contour.CacheOK (o : CurveOracle) (c : Contour) : Prop where
  bnd : ∀ b, c.bnd = some b → drawErr c.points = none ∧ b = freshBnd o c.points
  cpb : ∀ b, c.cpb = some b → drawErr c.points = none ∧ b = freshCpb c.points
  area : ∀ a, c.area = some a → drawErr c.points = none ∧ a = freshArea c.points

def Glyph.CacheOK (o : CurveOracle) (g : Glyph) : Prop := ∀ c ∈ g.contours, c.CacheOK o

def World.CacheOK (o : CurveOracle) (w : World) : Prop := ∀ ng ∈ w.glyphs, ng.2.CacheOK o

/-- a glyph as the harness creates it: nothing cached yet -/
def Glyph.fresh (g : Glyph) : Prop := ∀ c ∈ g.contours, c.bnd = none ∧ c.cpb = none ∧ c.area = none

def Op.fresh : Op → Prop
  | .newGlyph _ g => g.fresh
  | _ => True

/-! ## Example objects (used by the non-vacuity examples in Props/C17.lean) -/

namespace Ex

def P (x y : Rat) (t : Option Seg) : Point := { pt := ⟨x, y⟩, seg := t }

/-- closed: a line, a cubic with two handles, a quadratic with an implied on-curve point; dyadic coordinates -/
def closed : List Point :=
  [P 0 0 (some .line), P 100 0 (some .line), P 150 (1 / 2) none, P 150 80 none, P 100 100 (some .curve),
   P 60 140 none, P 20 140 none, P 0 100 (some .qcurve)]

/-- open: move, line, cubic -/
def opened : List Point :=
  [P 0 0 (some .move), P 50 60 (some .line), P 70 10 none, P 90 (-5 / 8) none, P 100 0 (some .curve)]

/-- a polygon -/
def square : List Point := [P 10 20 (some .line), P 110 20 (some .line), P 110 120 (some .line), P 10 120 (some .line)]

/-- a glyph with two contours and a vertical origin, and a glyph referencing it through a flip -/
def base : Glyph := { width := 500, height := 700, vo := some 650, contours := [{ points := closed }, { points := square }],
                      anchors := [⟨5, 5⟩] }
def composite : Glyph :=
  { width := 300, height := 0, contours := [{ points := square }],
    components := [{ base := "base", t := ⟨-1, 0, 0, 1, 40, -7 / 2⟩ }] }
def world : World := { glyphs := [("base", base), ("comp", composite)] }

/-- a history: read, move (patches the caches), read, reverse, rotate, set margins -/
def history : List Op :=
  [.newGlyph "base" base, .newGlyph "comp" composite, .cBounds "base" 0, .cCpb "base" 0, .cArea "base" 0,
   .cMove "base" 0 (3 / 2) (-4), .cBounds "base" 0, .gBounds "comp", .setLeft "comp" 25, .gMargins "comp",
   .cReverse "base" 1, .cSetStart "base" 1 (-1), .setTop "base" 30, .gMove "comp" 1 1]

end Ex

end Geom
end DefconModel
