/-
Specification side of M-Lookups (C20): what "the cmap lists glyphs of the font", "the Unicode tables answer only
ordered tags" and "a base name" mean, and small fonts for the examples.  Written independently of the lemmas.
-/
import DefconModel.NameLookups
import DefconModel.Spec.NameSort

namespace DefconModel
namespace NameLookups
open NameSort

/-- every entry of the `UnicodeData` dict lists at least one name, and only glyph names of the font
(part of C09's invariant: the dict is the inverse of the glyphs' `unicodes`; `removeGlyphData` deletes a code
point with its last name) -/
def CmapWF (s : UData) : Prop := ∀ p ∈ s.cmap, p.2 ≠ [] ∧ ∀ n ∈ p.2, n ∈ s.names

instance (s : UData) : Decidable (CmapWF s) := by unfold CmapWF; infer_instance

/-- the Unicode tables answer only categories and scripts of the ordered tables (true of fontTools' data: the
harness enumerates all 0x110000 code points on every run) -/
def DBOrdered (db : UniDB) (T : Tables) : Prop :=
  (∀ v, db.category v ∈ T.orderedCategories) ∧ (∀ v, db.script v ∈ T.orderedScripts)

/-- a base name as designers write it: not empty, no "." and no "_" in it -/
def IsBase (a : Name) : Prop := a ≠ "" ∧ '.' ∉ a.toList ∧ '_' ∉ a.toList

instance (a : Name) : Decidable (IsBase a) := by unfold IsBase; infer_instance

/-- `a ++ sep ++ rest` with `sep` "." or "_": `a.alt`, `a_b`, `a_b.alt`, `a.alt.ss01`, … -/
def derived (a : Name) (sep : Char) (rest : String) : Name := a ++ String.singleton sep ++ rest

/-- the forced tables mirror each other (kept by `_loadForcedUnicodeValue`) -/
def ForcedWF (s : UData) : Prop :=
  ∀ n v, AL.get? s.forcedByName n = some v → AL.get? s.forcedByCode v = some n

/-- a look-up call that is not `forcedUnicodeForGlyphName` -/
def Ask.reads (a : Ask) : Prop := a.allocates = false

instance (a : Ask) : Decidable a.reads := by unfold Ask.reads; infer_instance

/-! ## who calls whom in the code (over `Gen/SortCalls.lean`) -/

/-- what a method must not reach if it is to leave the cmap and the forced-unicode tables alone: the allocating
look-up and its helpers, the two forced dicts themselves (read or written), every mutator of the `UnicodeData` dict,
assignment to / deletion of `self[...]`, `super(...)` (the way the mutators write), posting a notification -/
def writers : List String :=
  ["forcedUnicodeForGlyphName", "_loadForcedUnicodeValue", "_findAvailablePUACode", "_setupForcedValueDict",
   "_glyphNameToForcedUnicode", "_forcedUnicodeToGlyphName",
   "addGlyphData", "removeGlyphData", "__setitem__", "__delitem__", "clear", "update", "pop", "popitem", "setdefault",
   "<super>", "<item:Store>", "<item:Del>", "postNotification"]

/-- the sorting side of the class: `sortGlyphNames`, its recursion helpers and the `_sortBy…` / canned methods -/
def isSortMethod (m : String) : Bool :=
  m == "sortGlyphNames" || m == "_flattenSortResult" || m == "_sortRecurse" || m == "_cannedSortDesign" ||
  "_sortBy".toList.isPrefixOf m.toList

/-- property getters the look-ups go through to find the font (`self.font` → `layerSet` → `layer`) -/
def parentGetters : List String := ["font", "_get_font", "layerSet", "_get_layerSet", "layer", "_get_layer"]

/-- what M-Sort and M-Lookups take from `unicodeTools`: the functions ported into `NameLookups` over `UniDB`,
and the three ordered tables of `Tables` -/
def unicodeToolsUsed : List String :=
  ["unicodeTools.decompositionBase", "unicodeTools.closeRelative", "unicodeTools.script", "unicodeTools.block",
   "unicodeTools.category", "unicodeTools.orderedScripts", "unicodeTools.orderedBlocks",
   "unicodeTools.orderedCategories"]

/-- a set of names closed under "refers to" -/
def Closed (calls : List (String × List String)) (R : List String) : Prop :=
  ∀ m ∈ R, ∀ x ∈ (AL.get? calls m).getD [], x ∈ R

instance (calls : List (String × List String)) (R : List String) : Decidable (Closed calls R) := by
  unfold Closed; infer_instance

/-! ## small worlds for the examples -/

/-- Latin letters, an accented one (NFD: a + combining acute), ǻ (å + acute, å = a + ring: two links), parentheses -/
def demoDB : UniDB := tableDB [
  ⟨65, "Lu", "Latin", "Basic Latin", {}⟩,
  ⟨97, "Ll", "Latin", "Basic Latin", {}⟩,
  ⟨40, "Ps", "Common", "Basic Latin", {}⟩,
  ⟨41, "Pe", "Common", "Basic Latin", {}⟩,
  ⟨225, "Ll", "Latin", "Latin-1 Supplement", ⟨false, [97, 769]⟩⟩,
  ⟨229, "Ll", "Latin", "Latin-1 Supplement", ⟨false, [97, 778]⟩⟩,
  ⟨507, "Ll", "Latin", "Latin Extended-B", ⟨false, [229, 769]⟩⟩,
  ⟨170, "Lo", "Latin", "Latin-1 Supplement", ⟨true, [97]⟩⟩,
  ⟨769, "Mn", "Inherited", "Combining Diacritical Marks", {}⟩,
  ⟨778, "Mn", "Inherited", "Combining Diacritical Marks", {}⟩]
  [(40, 41)] [(41, 40)]

/-- glyphs with and without code points, suffixed and ligature names, a bracket pair with small-cap variants -/
def demoFont : UData where
  names := ["A", "a", "a.alt", "aacute", "aacute.alt", "aringacute", "a_a", "a_a.alt", "parenleft", "parenright",
            "parenleft.sc", "parenright.sc", ".notdef", "_part", "odd.alt"]
  unicodes := [("A", [65]), ("a", [97]), ("aacute", [225]), ("aringacute", [507]), ("parenleft", [40]),
               ("parenright", [41]), ("odd.alt", [65])]
  cmap := [(65, ["A", "odd.alt"]), (97, ["a"]), (225, ["aacute"]), (507, ["aringacute"]), (40, ["parenleft"]),
           (41, ["parenright"])]

end NameLookups
end DefconModel
