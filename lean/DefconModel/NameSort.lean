/-
M-Sort — executable model of `UnicodeData.sortGlyphNames` and every `_sortBy*` method of
`Lib/defcon/objects/uniData.py` (lines 409-975), statement by statement, with the container-partner
pass as repaired by `repo_fixes/C20-container-partners.diff` and `_sortByUnicodeLookup` as it is
(it emits only the tags of its ordered list: finding F21a).

Names are `String`s.  The font-dependent look-ups of `UnicodeData` (`unicodeForGlyphName`,
`pseudoUnicodeForGlyphName`, `category/script/blockForGlyphName`, `closeRelativeForGlyphName`,
`name in font`, `unicodeTools.decompositionBase`, `glyphNameForUnicode`) are PARAMETERS (`Env`);
the module constants (`orderedScripts/Blocks/Categories`, `_manualSortGroups`,
`_ligatureUniValues`, `_notReallyLigatures`) are PARAMETERS too (`Tables`; the real ones are
regenerated into `Gen/SortTables.lean`).

Python idioms and their models
* nested result lists           → `Blk` (`names` = list of str, `blocks` = list of lists)
* `d = {}; d[k].append(x)`      → `buckets` over `AL` (insertion-ordered dict of lists)
* `sorted(xs)`                  → `sortBy lt` (stable insertion sort; `str <` = code point order = Lean `String <`)
* `while xs:` loops             → fuel = length of the list they consume
* `list.remove(x)` / `.index(x)`→ `List.erase` / `List.idxOf` (total; the element is always present, see
                                   `Lemmas/NameSort.lean`: `manual_*`)
* `suffixToMagnet[suffix]`      → `AL.get?` with the suffix itself as fall-back; the fall-back is never used
                                   (`Lemmas/NameSortMagnets.lean`: the key is always present, no `KeyError`)
Core Lean only.
-/
import DefconModel.Util.AL

namespace DefconModel
namespace NameSort

abbrev Name := String

/-- look-ups of the surrounding `UnicodeData`/font, as functions -/
structure Env where
  unicodeFor : Name → Option Nat              -- unicodeForGlyphName
  pseudoUnicodeFor : Name → Option Nat        -- pseudoUnicodeForGlyphName
  categoryFor : Name → Bool → String          -- categoryForGlyphName(name, allowPseudoUnicode)
  scriptFor : Name → Bool → String
  blockFor : Name → Bool → String
  closeRelativeFor : Name → Bool → Option Name
  inFont : Name → Bool                        -- `name in self.font`
  decompBase : Nat → Int                      -- unicodeTools.decompositionBase (−1 = none)
  nameForUnicode : Int → Option Name          -- glyphNameForUnicode

/-- module-level constants the sort methods read -/
structure Tables where
  orderedScripts : List String
  orderedBlocks : List String
  orderedCategories : List String
  manualGroups : List (List Nat)
  ligatureUniValues : List Nat
  notReallyLigatures : List String

/-! ## Python string idioms -/

def hasDot (n : Name) : Bool := n.toList.contains '.'
def startsDot (n : Name) : Bool := n.toList.head? == some '.'
/-- `s.split(c)[0]` -/
def beforeFirst (c : Char) (cs : List Char) : List Char := cs.takeWhile (· != c)
/-- `s.split(c, 1)[1]` when `c` occurs in `s` -/
def afterFirst (c : Char) (cs : List Char) : List Char := (cs.dropWhile (· != c)).drop 1
/-- `name.split(".")[0]` -/
def baseOf (n : Name) : String := String.ofList (beforeFirst '.' n.toList)
/-- `name.split(".", 1)[1]` (the name contains a dot) -/
def suffixOf (n : Name) : String := String.ofList (afterFirst '.' n.toList)
/-- `name.split(".")[1]` (the name contains a dot): only up to the second dot -/
def secondPart (n : Name) : String := String.ofList (beforeFirst '.' (afterFirst '.' n.toList))
/-- strip trailing (ASCII) digits -/
def stripDigits (s : String) : String := String.ofList ((s.toList.reverse.dropWhile Char.isDigit).reverse)
/-- `s.lower()` (ASCII) -/
def lower (s : String) : List Char := s.toList.map Char.toLower

def strLt (a b : String) : Bool := decide (a < b)

/-! ## `sorted` -/

def insertBy {α : Type} (lt : α → α → Bool) (a : α) : List α → List α
  | [] => [a]
  | b :: r => if lt b a then b :: insertBy lt a r else a :: b :: r

/-- stable insertion sort: an element goes before the first one that is not smaller -/
def sortBy {α : Type} (lt : α → α → Bool) (l : List α) : List α := l.foldr (insertBy lt) []

/-! ## dict of lists -/

section Buckets
variable {κ α : Type} [DecidableEq κ]

/-- `if k not in d: d[k] = []` ; `d[k].append(a)` -/
def addTo (d : List (κ × List α)) (k : κ) (a : α) : List (κ × List α) :=
  match AL.get? d k with
  | none => AL.set d k [a]
  | some l => AL.set d k (l ++ [a])

def buckets (key : α → κ) (init : List (κ × List α)) (l : List α) : List (κ × List α) :=
  l.foldl (fun d a => addTo d (key a) a) init

/-- `d.get(k, [])` / `d[k]` for a key known to be present -/
def bucketOf (d : List (κ × List α)) (k : κ) : List α := (AL.get? d k).getD []
end Buckets

/-! ## nested lists -/

inductive Blk where
  | names (l : List Name)
  | blocks (l : List Blk)
deriving Repr, Inhabited

mutual
/-- `_flattenSortResult` -/
def Blk.flatten : Blk → List Name
  | .names l => l
  | .blocks bs => Blk.flattenList bs
def Blk.flattenList : List Blk → List Name
  | [] => []
  | b :: r => b.flatten ++ Blk.flattenList r
end

mutual
/-- `_sortRecurse`: apply the sort method to every innermost non-empty list of names -/
def sortRecurse (m : List Name → Blk) : Blk → Blk
  | .names [] => .names []
  | .names (a :: l) => m (a :: l)
  | .blocks bs => .blocks (sortRecurseList m bs)
def sortRecurseList (m : List Name → Blk) : List Blk → List Blk
  | [] => []
  | b :: r => sortRecurse m b :: sortRecurseList m r
end

def namesBlocks (ls : List (List Name)) : Blk := .blocks (ls.map .names)

/-! ## simple sorts -/

def valueFor (env : Env) (pseudo : Bool) (n : Name) : Option Nat :=
  if pseudo then env.pseudoUnicodeFor n else env.unicodeFor n

def sortByAlphabet (asc : Bool) (names : List Name) : Blk :=
  let r := sortBy strLt names
  .names (if asc then r else r.reverse)

def suffixKey (n : Name) : Option String :=
  if !hasDot n || startsDot n then none else some (suffixOf n)

def optLt : Option String → Option String → Bool
  | none, none => false
  | none, some _ => true
  | some _, none => false
  | some a, some b => strLt a b

def keyLt {β : Type} (a b : Option String × β) : Bool := optLt a.1 b.1

/-- `_sortBySuffix` (ignores `ascending`) -/
def sortBySuffix (names : List Name) : Blk :=
  let d := buckets suffixKey [(none, [])] names
  let noSuffix := bucketOf d none
  let rest := AL.erase d none
  namesBlocks (noSuffix :: (sortBy keyLt rest).map Prod.snd)

def natStrLt (a b : Nat × String) : Bool := a.1 < b.1 || (a.1 == b.1 && strLt a.2 b.2)

def withValue (env : Env) (pseudo : Bool) (n : Name) : Option (Nat × Name) :=
  match valueFor env pseudo n with
  | none => none
  | some v => some (v, n)

def sortByUnicode (env : Env) (asc pseudo : Bool) (names : List Name) : Blk :=
  let wv := names.filterMap (withValue env pseudo)
  let without := names.filter (fun n => (valueFor env pseudo n).isNone)
  let sorted := (sortBy natStrLt wv).map Prod.snd
  if asc then namesBlocks [sorted, without] else namesBlocks [without.reverse, sorted.reverse]

/-- `_sortByUnicodeLookup`: only the tags in the ordered list are emitted (the look-ups never return
`None`, so the trailing `[None]` of the code selects nothing) -/
def sortByUnicodeLookup (tagOf : Name → String) (ordered : List String) (asc : Bool)
    (names : List Name) : Blk :=
  let d := buckets tagOf [] names
  let ordered' := if ordered.isEmpty then sortBy strLt (AL.keys d) else ordered
  let res := ordered'.filterMap (AL.get? d)
  namesBlocks (if asc then res else res.reverse)

def decompKey (env : Env) (pseudo : Bool) (n : Name) : Option Name :=
  match valueFor env pseudo n with
  | none => none
  | some v =>
    match env.nameForUnicode (env.decompBase v) with
    | none => none
    | some base =>
      if hasDot n && !startsDot n then
        let cand := base ++ "." ++ secondPart n
        if env.inFont cand then some cand else some base
      else some base

/-- the `for base in noBase` loop with its `processedBases` set -/
def decompLoop (noBase : List Name) (d : List (Option Name × List Name)) :
    List Name → List Name → List (List Name)
  | [], _ => []
  | b :: r, processed =>
    if processed.contains b then decompLoop noBase d r processed
    else (List.replicate (noBase.count b) b ++ bucketOf d (some b)) :: decompLoop noBase d r (b :: processed)

def someKeys {β : Type} (d : List (Option Name × β)) : List Name := (AL.keys d).filterMap id

def sortByDecompositionBase (env : Env) (asc pseudo : Bool) (names : List Name) : Blk :=
  let d0 := buckets (decompKey env pseudo) [(none, [])] names
  let noBase := bucketOf d0 none
  let d := AL.erase d0 none
  let missing := (sortBy strLt (someKeys d)).filter (fun b => !noBase.contains b)
  let res := decompLoop noBase d noBase [] ++ (sortBy strLt missing).map (fun b => bucketOf d (some b))
  namesBlocks (if asc then res else res.reverse)

/-! ## complex sorts -/

/-- `suffix.lower().startswith(toMatch.lower())` and (same length or `suffix[:-diffLength]` all digits) -/
def matchCond (toMatch suffix : String) : Bool :=
  (lower toMatch).isPrefixOf (lower suffix) &&
    (suffix.length == toMatch.length ||
     (suffix.toList.take (suffix.length - (suffix.length - toMatch.length))).all Char.isDigit)

/-- the `while allSuffixes` loop; `magnets` is an insertion-ordered dict magnet ↦ suffixes -/
def magnetLoop : Nat → List String → List (String × List String) → List (String × List String)
  | 0, _, magnets => magnets
  | _ + 1, [], magnets => magnets
  | fuel + 1, orig :: rest, magnets =>
    let stripped := stripDigits orig
    let toMatch := if stripped.isEmpty then orig else stripped
    let ms := rest.filter (matchCond toMatch)
    let rest' := ms.foldl List.erase rest
    let key := if ms.isEmpty then orig else toMatch
    magnetLoop fuel rest' (AL.set magnets key (orig :: ms))

def setAll (m : List (String × String)) (p : String × List String) : List (String × String) :=
  p.2.foldl (fun m s => AL.set m s p.1) m

/-- sorted(set(...)) : distinct values, ascending -/
def dedup : List String → List String
  | [] => []
  | a :: r => if r.contains a then dedup r else a :: dedup r

def suffixToMagnet (suffixed : List Name) : List (String × String) :=
  let all := sortBy strLt (dedup (suffixed.map suffixOf))
  (magnetLoop all.length all []).foldl setAll []

def magnetOf (m : List (String × String)) (n : Name) : String :=
  (AL.get? m (suffixOf n)).getD (suffixOf n)

def b2i (b : Bool) : Int := if b then 1 else 0

def hasCat (env : Env) (pseudo : Bool) (cats : List String) (ns : List Name) : Bool :=
  ns.any (fun n => cats.contains (env.categoryFor n pseudo))

/-- the sortable tuple of one suffix group, numeric part -/
def weightKey (env : Env) (pseudo : Bool) (p : String × List Name) : List Int :=
  [b2i (hasCat env pseudo ["Lu", "Ll", "Lt"] p.2),
   b2i (hasCat env pseudo ["Nd", "Nl", "No"] p.2),
   b2i (hasCat env pseudo ["Sc", "Sk", "Sm", "So"] p.2),
   b2i (hasCat env pseudo ["Pc", "Pd", "Pe", "Pf", "Pi", "Po", "Ps"] p.2),
   b2i (hasCat env pseudo ["Lm", "Mn", "Mc", "Me"] p.2),
   b2i (hasCat env pseudo ["Zs"] p.2),
   - (p.2.length : Int),
   (p.1.length : Int)]

def lexLt : List Int → List Int → Bool
  | [], [] => false
  | [], _ :: _ => true
  | _ :: _, [] => false
  | a :: r, b :: s => a < b || (a == b && lexLt r s)

def weightLt (env : Env) (pseudo : Bool) (a b : String × List Name) : Bool :=
  lexLt (weightKey env pseudo a) (weightKey env pseudo b) ||
    (weightKey env pseudo a == weightKey env pseudo b && strLt a.1 b.1)

def isPlain (n : Name) : Bool := startsDot n || !hasDot n

def sortByWeightedSuffix (env : Env) (asc pseudo : Bool) (names : List Name) : Blk :=
  let noSuffix := names.filter isPlain
  let suffixed := names.filter (fun n => !isPlain n)
  if suffixed.isEmpty then .names noSuffix
  else
    let m := suffixToMagnet suffixed
    let suffixMap := buckets (magnetOf m) [] suffixed
    let groups := (sortBy (weightLt env pseudo) suffixMap).map Prod.snd
    if asc then namesBlocks (noSuffix :: groups)
    else namesBlocks ((noSuffix :: groups.map List.reverse).reverse)

def optMem (v : Option Nat) (l : List Nat) : Bool :=
  match v with
  | none => false
  | some x => l.contains x

def isLigature (env : Env) (T : Tables) (pseudo : Bool) (n : Name) : Bool :=
  let base := baseOf n
  if base.toList.contains '_' && !T.notReallyLigatures.contains base then true
  else if !pseudo && optMem (env.unicodeFor n) T.ligatureUniValues then true
  else if pseudo && optMem (env.pseudoUnicodeFor n) T.ligatureUniValues then true
  else ["ff", "fi", "fl", "ffi", "ffl"].contains base

def sortByLigature (env : Env) (T : Tables) (asc pseudo : Bool) (names : List Name) : Blk :=
  let lig := names.filter (isLigature env T pseudo)
  let notLig := names.filter (fun n => !isLigature env T pseudo n)
  if asc then namesBlocks [notLig, lig] else namesBlocks [lig.reverse, notLig.reverse]

/-! ## private sorts (used by the canned sort; also reachable through the type table) -/

inductive GenType where
  | uni | noUni | suffix
deriving DecidableEq

def truthy : Option Nat → Bool
  | none => false
  | some v => v != 0

def generalType (env : Env) (n : Name) : GenType :=
  if startsDot n then .noUni
  else if hasDot n then .suffix
  else if truthy (env.unicodeFor n) then .uni
  else .noUni

/-- `_sortByGeneralType` (`final.reverse` is not called in the code: the outer order never flips) -/
def sortByGeneralType (env : Env) (asc : Bool) (names : List Name) : Blk :=
  let a := names.filter (fun n => generalType env n = .uni)
  let b := names.filter (fun n => generalType env n = .noUni)
  let c := names.filter (fun n => generalType env n = .suffix)
  if asc then namesBlocks [a, b, c] else namesBlocks [a.reverse, b.reverse, c.reverse]

def sortByWhitespace (env : Env) (asc pseudo : Bool) (names : List Name) : Blk :=
  let sp := names.filter (fun n => env.categoryFor n pseudo == "Zs")
  let ns := names.filter (fun n => !(env.categoryFor n pseudo == "Zs"))
  if asc then namesBlocks [sp, ns] else namesBlocks [ns.reverse, sp.reverse]

/-- the `while glyphNames` loop of `_sortByContainerPartners` (as repaired): take the head; if its close
relative waits in the rest, move it right behind -/
def partnersLoop (env : Env) (pseudo : Bool) : Nat → List Name → List Name → List Name
  | 0, _, order => order
  | _ + 1, [], order => order
  | fuel + 1, g :: rest, order =>
    match env.closeRelativeFor g pseudo with
    | none => partnersLoop env pseudo fuel rest (order ++ [g])
    | some c =>
      if rest.contains c then partnersLoop env pseudo fuel (rest.erase c) (order ++ [g] ++ [c])
      else partnersLoop env pseudo fuel rest (order ++ [g])

def sortByContainerPartners (env : Env) (asc pseudo : Bool) (names : List Name) : Blk :=
  let r := partnersLoop env pseudo names.length names []
  .names (if asc then r else r.reverse)

def isNotdef (n : Name) : Bool := ".notdef".toList.isPrefixOf n.toList

def sortByNotdef (names : List Name) : Blk :=
  .names (names.filter (fun n => !isNotdef n) ++ names.filter isNotdef)

def manualSuffixKey (n : Name) : Option String := if hasDot n then some (suffixOf n) else none

/-- one suffix group `matched` of a manual group: remove `matched[1:]`, re-insert it behind `matched[0]` -/
def moveBehindFirst (names : List Name) (matched : List Name) : List Name :=
  match matched with
  | m0 :: m1 :: ms =>
    let removed := (m1 :: ms).foldl List.erase names
    let ip := removed.idxOf m0
    removed.take (ip + 1) ++ (m1 :: ms) ++ removed.drop (ip + 1)
  | _ => names

def manualGroup (mapping : List (Option Nat × List Name)) (names : List Name) (pairGroup : List Nat) :
    List Name :=
  let matched := pairGroup.flatMap (fun u => bucketOf mapping (some u))
  let suffixes := buckets manualSuffixKey [] matched
  suffixes.foldl (fun ns p => moveBehindFirst ns p.2) names

def sortByManualGroups (env : Env) (T : Tables) (pseudo : Bool) (names : List Name) : Blk :=
  let mapping := buckets (valueFor env pseudo) [] names
  .names (T.manualGroups.foldl (manualGroup mapping) names)

/-! ## dispatch, `sortGlyphNames`, the canned sort -/

inductive Basic where
  | alphabetical | unicode | category | block | script | suffix | decompositionBase
  | weightedSuffix | ligature
  | generalType | whitespaceCategory | containerPartners | manualGroups | notdef
deriving DecidableEq, Repr

inductive SortType where
  | basic (b : Basic)
  | cannedDesign
deriving DecidableEq, Repr

structure Desc (τ : Type) where
  type : τ
  ascending : Bool := true
  pseudo : Bool := false

def basicMethod (env : Env) (T : Tables) (d : Desc Basic) (names : List Name) : Blk :=
  match d.type with
  | .alphabetical => sortByAlphabet d.ascending names
  | .unicode => sortByUnicode env d.ascending d.pseudo names
  | .category => sortByUnicodeLookup (fun n => env.categoryFor n d.pseudo) T.orderedCategories d.ascending names
  | .block => sortByUnicodeLookup (fun n => env.blockFor n d.pseudo) T.orderedBlocks d.ascending names
  | .script => sortByUnicodeLookup (fun n => env.scriptFor n d.pseudo) T.orderedScripts d.ascending names
  | .suffix => sortBySuffix names
  | .decompositionBase => sortByDecompositionBase env d.ascending d.pseudo names
  | .weightedSuffix => sortByWeightedSuffix env d.ascending d.pseudo names
  | .ligature => sortByLigature env T d.ascending d.pseudo names
  | .generalType => sortByGeneralType env d.ascending names
  | .whitespaceCategory => sortByWhitespace env d.ascending d.pseudo names
  | .containerPartners => sortByContainerPartners env d.ascending d.pseudo names
  | .manualGroups => sortByManualGroups env T d.pseudo names
  | .notdef => sortByNotdef names

/-- one pass of the descriptor loop: `newBlocks = [_sortRecurse(blocks, …) for block in blocks]`
(the code passes the whole `blocks` list, not `block`) -/
def descStep (m : List Name → Blk) (blocks : List Blk) : List Blk :=
  blocks.map (fun _ => sortRecurse m (.blocks blocks))

/-- `sortGlyphNames` over any method table -/
def sortWith {τ : Type} (method : Desc τ → List Name → Blk) (ds : List (Desc τ)) (names : List Name) :
    List Name :=
  Blk.flattenList (ds.foldl (fun blocks d => descStep (method d) blocks) [.names names])

def cannedFirst (pseudo : Bool) : List (Desc Basic) :=
  [⟨.weightedSuffix, true, pseudo⟩, ⟨.ligature, true, pseudo⟩, ⟨.generalType, true, pseudo⟩,
   ⟨.whitespaceCategory, true, pseudo⟩, ⟨.alphabetical, true, pseudo⟩, ⟨.unicode, true, pseudo⟩,
   ⟨.category, true, pseudo⟩, ⟨.script, true, pseudo⟩, ⟨.decompositionBase, true, pseudo⟩]

def cannedSecond (pseudo : Bool) : List (Desc Basic) :=
  [⟨.containerPartners, true, pseudo⟩, ⟨.manualGroups, true, pseudo⟩, ⟨.notdef, true, pseudo⟩]

/-- `_cannedSortDesign` -/
def cannedSortDesign (env : Env) (T : Tables) (asc pseudo : Bool) (names : List Name) : Blk :=
  let r1 := sortWith (basicMethod env T) (cannedFirst pseudo) names
  let r2 := sortWith (basicMethod env T) (cannedSecond pseudo) r1
  .names (if asc then r2 else r2.reverse)

def method (env : Env) (T : Tables) (d : Desc SortType) (names : List Name) : Blk :=
  match d.type with
  | .basic b => basicMethod env T ⟨b, d.ascending, d.pseudo⟩ names
  | .cannedDesign => cannedSortDesign env T d.ascending d.pseudo names

/-- `UnicodeData.sortGlyphNames(glyphNames, sortDescriptors)` -/
def sortGlyphNames (env : Env) (T : Tables) (ds : List (Desc SortType)) (names : List Name) : List Name :=
  sortWith (method env T) ds names

/-! ## names of the dispatch table (tied to the code by `Gen/SortTables.lean`) -/

def Basic.all : List Basic :=
  [.alphabetical, .unicode, .category, .block, .script, .suffix, .decompositionBase, .weightedSuffix,
   .ligature, .generalType, .whitespaceCategory, .containerPartners, .manualGroups, .notdef]

def Basic.typeName : Basic → String
  | .alphabetical => "alphabetical" | .unicode => "unicode" | .category => "category"
  | .block => "block" | .script => "script" | .suffix => "suffix"
  | .decompositionBase => "decompositionBase" | .weightedSuffix => "weightedSuffix"
  | .ligature => "ligature" | .generalType => "_generalType"
  | .whitespaceCategory => "_whitespaceCategory" | .containerPartners => "_containerPartners"
  | .manualGroups => "_manualGroups" | .notdef => "_notdef"

def Basic.methodName : Basic → String
  | .alphabetical => "_sortByAlphabet" | .unicode => "_sortByUnicode" | .category => "_sortByCategory"
  | .block => "_sortByBlock" | .script => "_sortByScript" | .suffix => "_sortBySuffix"
  | .decompositionBase => "_sortByDecompositionBase" | .weightedSuffix => "_sortByWeightedSuffix"
  | .ligature => "_sortByLigature" | .generalType => "_sortByGeneralType"
  | .whitespaceCategory => "_sortByWhitespace" | .containerPartners => "_sortByContainerPartners"
  | .manualGroups => "_sortByManualGroups" | .notdef => "_sortByNotdef"

def SortType.all : List SortType := Basic.all.map .basic ++ [.cannedDesign]

def SortType.typeName : SortType → String
  | .basic b => b.typeName
  | .cannedDesign => "cannedDesign"

def SortType.methodName : SortType → String
  | .basic b => b.methodName
  | .cannedDesign => "_cannedSortDesign"

def SortType.ofString (s : String) : Option SortType := SortType.all.find? (fun t => t.typeName == s)

end NameSort
end DefconModel
