/-
M-GlyphOrder (the font-level part of M-Layer that serves C12): executable model of how
`defcon.Font` keeps `font.glyphOrder` in step with glyph creation, deletion and renaming in any
of its layers.  Ported statement by statement from

* `Lib/defcon/objects/font.py`
    `_get_glyphOrder` / `_set_glyphOrder`                      (lines 671-686)
    `updateGlyphOrder`                                         (lines 688-715)
    `_layerAddedNotificationCallback`, `_beginSelfLayerNotificationObservation`,
    `_layerWillBeDeletedNotificationCallback`                  (lines 1197-1215)
    `_glyphAddedNotificationCallback`, `_glyphDeletedNotificationCallback`,
    `_glyphRenamedNotificationCallback`                        (lines 1217-1240)
* `Lib/defcon/objects/layer.py`
    `newGlyph`, `insertGlyph`, `_insertGlyph`, `__delitem__`, `_deleteGlyph`, `keys`,
    `__contains__`, `_glyphNameChange` — only their effect on the layer's *name set* and the
    moment at which `Layer.GlyphAdded / GlyphDeleted / GlyphNameChanged` reach the font
    (always after the name set has changed).
* `Lib/defcon/objects/layerSet.py` `newLayer`, `__delitem__` (name → layer dict + layer order).

State: the layers in layer order, each with the set of glyph names `layer.keys()` and a flag
saying whether the font is registered for the layer's three notifications; and the value of
`font.lib.get("public.glyphOrder")` (`none` = key absent).

Core Lean only; no imports outside this project.
-/
import DefconModel.Util.AL

namespace DefconModel
namespace GlyphOrderV1

abbrev Name := String

structure Layer where
  /-- `layer.keys()` : a Python set, kept as a duplicate-free list (compared as a set) -/
  glyphs : List Name := []
  /-- the font observes `Layer.GlyphAdded/GlyphDeleted/GlyphNameChanged` of this layer -/
  observed : Bool := false
deriving DecidableEq, Repr

structure Font where
  /-- `font.layers` : `LayerSet._layers` in `layerOrder` -/
  layers : List (String × Layer) := []
  /-- `font.lib.get("public.glyphOrder")` -/
  lib : Option (List Name) := none
deriving DecidableEq, Repr

inductive Err where
  | keyError
deriving DecidableEq, Repr

inductive Res where
  | ok
  | err (e : Err)
deriving DecidableEq, Repr

inductive Op where
  /-- `font.layers[layer].newGlyph(g)` -/
  | newGlyph (layer : String) (g : Name)
  /-- `font.layers[layer].insertGlyph(source, name=g)` (g = the name the copy ends up with) -/
  | insertGlyph (layer : String) (g : Name)
  /-- `del font.layers[layer][g]` -/
  | delGlyph (layer : String) (g : Name)
  /-- `font.layers[layer][old].name = new` -/
  | rename (layer : String) (old new : Name)
  /-- `font.glyphOrder = v` (`none` = `None`) -/
  | setOrder (v : Option (List Name))
  /-- `font.lib["public.glyphOrder"] = v`, or `del font.lib["public.glyphOrder"]` for `none` -/
  | setLib (v : Option (List Name))
  /-- `font.newLayer(name)` -/
  | newLayer (name : String)
  /-- `del font.layers[name]` -/
  | delLayer (name : String)
deriving DecidableEq, Repr

/-! ### Python primitives -/

/-- `set.add` -/
def addName (l : List Name) (n : Name) : List Name := if n ∈ l then l else l ++ [n]

/-- `set.remove` / `set - {n}` -/
def removeName : List Name → Name → List Name
  | [], _ => []
  | x :: r, n => if x = n then removeName r n else x :: removeName r n

/-- `list.index(n)` (`none` = ValueError) -/
def indexOf? : List Name → Name → Option Nat
  | [], _ => none
  | x :: r, n => if x = n then some 0 else
    match indexOf? r n with
    | none => none
    | some i => some (i + 1)

/-! ### `Font.glyphOrder` (font.py 671-686) -/

/-- `_get_glyphOrder`: `list(self.lib.get("public.glyphOrder", []))` -/
def glyphOrder (f : Font) : List Name := f.lib.getD []

/-- `_set_glyphOrder` -/
def setGlyphOrder (f : Font) (value : Option (List Name)) : Font :=
  -- oldValue = self.lib.get("public.glyphOrder"); if oldValue == value: return
  if f.lib = value then f
  -- if value is None or len(value) == 0: delete the key if present
  else if value.getD [] = [] then { f with lib := none }
  -- else: self.lib["public.glyphOrder"] = value
  else { f with lib := value }

/-! ### `Font.updateGlyphOrder` (font.py 688-715) -/

/-- `index = None; if removedGlyph is not None: try: index = order.index(removedGlyph)` -/
def findIndex (order : List Name) : Option Name → Option Nat
  | none => none
  | some r => indexOf? order r

/-- the `else: if removedGlyph == addedGlyph: return` of the `try` -/
def earlyReturn (index : Option Nat) (added removed : Option Name) : Bool :=
  index.isSome && decide (removed = added)

/-- `if addedGlyph is not None: if addedGlyph not in order: (replace at index | append)` -/
def addStep (order : List Name) (index : Option Nat) : Option Name → List Name × Option Nat
  | none => (order, index)
  | some a =>
    if a ∈ order then (order, index)
    else
      match index with
      | some i => (order.set i a, none)
      | none => (order ++ [a], none)

/-- `if index is not None: del order[index]` -/
def delStep (order : List Name) : Option Nat → List Name
  | none => order
  | some i => order.eraseIdx i

def updateGlyphOrder (f : Font) (added removed : Option Name) : Font :=
  let order := glyphOrder f
  let index := findIndex order removed
  if earlyReturn index added removed then f
  else
    let r := addStep order index added
    setGlyphOrder f (some (delStep r.1 r.2))

/-! ### The font's layer callbacks (font.py 1217-1240) -/

def layerHas (n : Name) (kl : String × Layer) : Bool := decide (n ∈ kl.2.glyphs)

/-- `for layer in self.layers: if name in layer: … = True; break` -/
def anyLayerHas (f : Font) (n : Name) : Bool := f.layers.any (layerHas n)

/-- `_glyphAddedNotificationCallback` -/
def glyphAddedCb (f : Font) (n : Name) : Font := updateGlyphOrder f (some n) none

/-- `_glyphDeletedNotificationCallback` -/
def glyphDeletedCb (f : Font) (n : Name) : Font :=
  if anyLayerHas f n then f else updateGlyphOrder f none (some n)

/-- `_glyphRenamedNotificationCallback` -/
def glyphRenamedCb (f : Font) (old new : Name) : Font :=
  updateGlyphOrder f (some new) (if anyLayerHas f old then none else some old)

/-! ### Layer operations (layer.py) and their notifications -/

def setLayer (f : Font) (name : String) (l : Layer) : Font :=
  { f with layers := AL.set f.layers name l }

/-- `Layer.newGlyph(g)`: `_insertGlyph` (`_keys.add`, un-schedule a pending deletion), then
`Layer.GlyphAdded` — delivered to the font iff it observes the layer. -/
def newGlyph (f : Font) (layer : String) (g : Name) : Font × Res :=
  match AL.get? f.layers layer with
  | none => (f, .err .keyError)                      -- font.layers[layer] raises KeyError
  | some l =>
    let f1 := setLayer f layer { l with glyphs := addName l.glyphs g }
    (if l.observed then glyphAddedCb f1 g else f1, .ok)

/-- `Layer.insertGlyph(source, name=g)`: hold the layer's notifications, `newGlyph(g)`,
`copyDataFromGlyph` (does not touch names), release: the one `Layer.GlyphAdded` reaches the font
after the copy, with the same name set as `newGlyph` leaves. -/
def insertGlyph (f : Font) (layer : String) (g : Name) : Font × Res := newGlyph f layer g

/-- `Layer.__delitem__(g)`: KeyError unless `g in layer`; `_deleteGlyph`; `Layer.GlyphDeleted`. -/
def delGlyph (f : Font) (layer : String) (g : Name) : Font × Res :=
  match AL.get? f.layers layer with
  | none => (f, .err .keyError)
  | some l =>
    if g ∈ l.glyphs then
      let f1 := setLayer f layer { l with glyphs := removeName l.glyphs g }
      (if l.observed then glyphDeletedCb f1 g else f1, .ok)
    else (f, .err .keyError)

/-- `layer[old].name = new`: `Layer.__getitem__` raises KeyError unless `old in layer`;
`Glyph._set_name` does nothing when the name is unchanged; otherwise `Glyph.NameChanged` →
`Layer._glyphNameChange`: `_deleteGlyph(old)`, `_insertGlyph(glyph)` (silently replacing a glyph
already called `new`), then `Layer.GlyphNameChanged`. -/
def rename (f : Font) (layer : String) (old new : Name) : Font × Res :=
  match AL.get? f.layers layer with
  | none => (f, .err .keyError)
  | some l =>
    if old ∈ l.glyphs then
      if old = new then (f, .ok)
      else
        let f1 := setLayer f layer { l with glyphs := addName (removeName l.glyphs old) new }
        (if l.observed then glyphRenamedCb f1 old new else f1, .ok)
    else (f, .err .keyError)

/-- `LayerSet.newLayer(name)`: KeyError when the name is taken; the new (empty) layer is appended
to the layer order; `LayerSet.LayerAdded` → `Font._layerAddedNotificationCallback` →
`_beginSelfLayerNotificationObservation(layer)`. -/
def newLayer (f : Font) (name : String) : Font × Res :=
  if AL.contains f.layers name then (f, .err .keyError)
  else (setLayer f name { glyphs := [], observed := true }, .ok)

/-- `LayerSet.__delitem__(name)`: KeyError when absent; the font stops observing the layer
(`LayerWillBeDeleted`), the layer leaves the set.  The glyph order is not consulted. -/
def delLayer (f : Font) (name : String) : Font × Res :=
  if AL.contains f.layers name then ({ f with layers := AL.erase f.layers name }, .ok)
  else (f, .err .keyError)

/-- direct write to the lib: `font.lib["public.glyphOrder"] = v` / `del font.lib[...]`
(`del` of an absent key raises KeyError) -/
def setLib (f : Font) (v : Option (List Name)) : Font × Res :=
  match v with
  | some x => ({ f with lib := some x }, .ok)
  | none => if f.lib.isSome then ({ f with lib := none }, .ok) else (f, .err .keyError)

def step (f : Font) : Op → Font × Res
  | .newGlyph l g => newGlyph f l g
  | .insertGlyph l g => insertGlyph f l g
  | .delGlyph l g => delGlyph f l g
  | .rename l o n => rename f l o n
  | .setOrder v => (setGlyphOrder f v, .ok)
  | .setLib v => setLib f v
  | .newLayer n => newLayer f n
  | .delLayer n => delLayer f n

/-- the font after a whole history -/
def run (f : Font) : List Op → Font
  | [] => f
  | op :: ops => run (step f op).1 ops

end GlyphOrderV1
end DefconModel
