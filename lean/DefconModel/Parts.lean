/-
M-Parts: executable model of the lazily loaded top-level parts of a Font (info, groups, kerning,
features, lib): lazy getter, guarded assignment, and the `_save*` methods of
Lib/defcon/objects/font.py.

`Blob` is an opaque content identity; blob `0` is the empty value, which is also what reading an
absent file yields (and what ufoLib represents by removing/omitting the file).
Core Lean only.
-/
namespace DefconModel
namespace Parts

abbrev Blob := Nat

structure Part where
  /-- `None` until first accessed -/
  loaded : Option Blob := none
  dirty : Bool := false
  /-- content of the part's file in the UFO the font is bound to -/
  disk : Blob := 0
deriving DecidableEq, Repr

/-- the lazy getter (`_get_info`, `_get_kerning`, …): reads the file on first access -/
def get (p : Part) : Part × Blob :=
  match p.loaded with
  | some b => (p, b)
  | none => ({ p with loaded := some p.disk, dirty := false }, p.disk)

/-- an assignment through the part's API to content `b` (the objects' setters are guarded: no
change, no dirty flag) -/
def set (p : Part) (b : Blob) : Part :=
  let (p1, old) := get p
  if old = b then p1 else { p1 with loaded := some b, dirty := true }

/-- a change of the part's content that does NOT raise its dirty flag: editing an attribute of a
font-level guideline (stored in fontinfo) flags only the font (`Font._guidelineChanged`) -/
def setQuiet (p : Part) (b : Blob) : Part :=
  let (p1, _) := get p
  { p1 with loaded := some b }

/-- `_saveInfo`, `_saveGroups`, `_saveLib`: always written (which reads the part first) -/
def saveAlways (p : Part) : Part :=
  let (p1, b) := get p
  { p1 with disk := b, dirty := false }

/-- `_saveKerning`, `_saveFeatures`: `if self.<part>.dirty or saveAs:` — the test itself reads the part -/
def saveIfDirty (saveAs : Bool) (p : Part) : Part :=
  let (p1, b) := get p
  if p1.dirty ∨ saveAs then { p1 with disk := b, dirty := false } else p1

/-- a save-as writes into a new UFO whose file is absent before -/
def saveAsAlways (p : Part) : Part :=
  let (p1, b) := get { p with disk := p.disk }
  { p1 with disk := b, dirty := false }

/-- the abstract content -/
def abs (p : Part) : Blob := p.loaded.getD p.disk

/-- a loaded part that is not dirty equals its file -/
def WF (p : Part) : Prop := ∀ b, p.loaded = some b → p.dirty = false → p.disk = b

end Parts
end DefconModel
