/-
M-Serial: executable model of defcon's serialization layer

  BaseObject._serialize / the guarded setter loop           Lib/defcon/objects/base.py
  get/setDataFromSerialization of all 16 object kinds        font.py layerSet.py layer.py glyph.py contour.py
                                                             component.py info.py features.py imageSet.py dataSet.py
                                                             (+ BaseDictObject for lib/kerning/groups/anchor/guideline/image)

as the code stands WITH the repo_fixes/C14-*.diff applied (font guideline identifiers,
Layer.GlyphAdded on rebuild, image-set file names; C14-r2-1 concerns notifications the model does not carry).  The getter / setter key tables are NOT written here:
they are read from `Gen/SerialTables.lean`, which the harness regenerates from the Python sources on
every run.

Values.  Every leaf Python value (number, string, bytes, list, tuple, None …) is its canonical text
(`Val`); `"None"` is Python's None.  The model never computes with leaf values, it only moves and compares
them — exactly what the serialization code does.

Tree wiring.  Every child object carries two flags: `parent` (its parent accessor answers the object that
contains it) and `observed` (the container registered its `*.Changed` observer on it; `addObserver` is a
no-op without a dispatcher, i.e. outside a font, hence the `disp` flags).

Lazily built state of a layer: `Layer.ucache` is `Layer._unicodeData` (built from the glyphs on first access,
told about every glyph `_insertGlyph` inserts from then on); `peekAt` is the environment's observer of
`Layer.GlyphAdded` that reads it while glyphs come in.

Identifier registries (`Glyph._identifiers`, `Font._identifiers`) are `Reg`: the list of registered
identifiers, or the exception an `assert … not in identifiers` / `identifiers.remove` raised.

Core Lean only.
-/
import DefconModel.Util.AL
import DefconModel.Gen.SerialTables

namespace DefconModel
namespace Serial
open Gen.SerialTables

abbrev Val := String
abbrev Dict := List (Val × Val)

def pyNone : Val := "None"

/-! ### `BaseObject._serialize` and the guarded setter loop -/

/-- `whitelist is not None and key not in whitelist` or `blacklist is not None and key in blacklist` -/
def excluded (wl bl : Option (List String)) (k : String) : Bool :=
  (match wl with | some w => !(w.contains k) | none => false) ||
  (match bl with | some b => b.contains k | none => false)

/-- one round of the `_serialize` loop -/
def serStep {σ δ : Type} (get : String → σ → Option δ) (wl bl : Option (List String)) (o : σ)
    (data : List (String × δ)) (k : String) : List (String × δ) :=
  if excluded wl bl k then data
  else match get k o with
    | some v => AL.set data k v
    | none => data

/-- `_serialize(getters, whitelist, blacklist)`: `data[key] = getter(key)` for every admitted key, in order -/
def serializeWith {σ δ : Type} (get : String → σ → Option δ) (wl bl : Option (List String)) (o : σ)
    (getters : List String) : List (String × δ) :=
  getters.foldl (serStep get wl bl o) []

/-- one round of the setter loop -/
def setStep {σ δ : Type} (set : String → δ → σ → σ) (data : List (String × δ)) (o : σ) (k : String) : σ :=
  match AL.get? data k with
  | some v => set k v o
  | none => o

/-- `for key, setter in setters: if key not in data: continue; setter(key, data[key])` -/
def applySetters {σ δ : Type} (set : String → δ → σ → σ) (data : List (String × δ))
    (setters : List String) (o : σ) : σ :=
  setters.foldl (setStep set data) o

/-! ### dict primitives -/

/-- `d.update(other)` -/
def dictUpdate (d o : Dict) : Dict := o.foldl (fun d p => AL.set d p.1 p.2) d

/-- `d.get(k)` : None when absent -/
def dictGet (d : Dict) (k : Val) : Val := (AL.get? d k).getD pyNone

/-- attribute setters of Anchor / Guideline / Image:
`old = self.get(k); if value == old: return; self[k] = value` -/
def setAttr (d : Dict) (k v : Val) : Dict := if dictGet d k = v then d else AL.set d k v

/-- `Guideline._set_name/_set_color`: assigning None deletes the key -/
def setAttrDel (d : Dict) (k v : Val) : Dict :=
  if dictGet d k = v then d else if v = pyNone then AL.erase d k else AL.set d k v

/-! ### identifier registry -/

inductive Reg where
  | ok (ids : List Val)
  | fail (e : String)
deriving DecidableEq, Repr

/-- `assert value not in identifiers; identifiers.add(value)` (nothing for None) -/
def Reg.add : Reg → Val → Reg
  | .ok l, i => if i = pyNone then .ok l else if i ∈ l then .fail "AssertionError" else .ok (l ++ [i])
  | .fail e, _ => .fail e

/-- `identifiers.remove(value)` (nothing for None) -/
def Reg.remove : Reg → Val → Reg
  | .ok l, i => if i = pyNone then .ok l else if i ∈ l then .ok (l.erase i) else .fail "KeyError"
  | .fail e, _ => .fail e

def Reg.addAll (r : Reg) (ids : List Val) : Reg := ids.foldl Reg.add r

def Reg.error : Reg → Option String
  | .ok _ => none
  | .fail e => some e

/-! ### BaseDictObject kinds: Lib, Kerning, Groups, Anchor, Guideline, Image (and the file sets) -/

structure DictObj where
  items : Dict := []
  parent : Bool := false
  observed : Bool := false
deriving DecidableEq, Repr

/-- `BaseDictObject.getDataForSerialization`: one `simple_get` getter per key present -/
def DictObj.ser (wl bl : Option (List String)) (o : DictObj) : Dict :=
  serializeWith (fun k (o : DictObj) => AL.get? o.items k) wl bl o (AL.keys o.items)

/-- `BaseDictObject.setDataFromSerialization`: `self.clear(); self.update(data)` -/
def DictObj.deser (data : Dict) (o : DictObj) : DictObj := { o with items := dictUpdate [] data }

/-- `_defaultImage`, in its dict order -/
def imageDefaults : Dict :=
  [("fileName", "None"), ("color", "None"), ("xScale", "1"), ("xyScale", "0"), ("yxScale", "0"),
   ("yScale", "1"), ("xOffset", "0"), ("yOffset", "0")]

/-- Image overrides `clear`: `dict.clear()` then every default key is set again; then `update(data)` -/
def Image.deser (data : Dict) (o : DictObj) : DictObj := { o with items := dictUpdate imageDefaults data }

/-- identifier setter of Anchor / Guideline: never overwrites an identifier, nothing to do for None;
`assert value not in identifiers`, store, `identifiers.add(value)` (the parent's registry) -/
def setIdentItems (d : Dict) (v : Val) : Dict :=
  if dictGet d "identifier" ≠ pyNone then d
  else if v = pyNone then d
  else AL.set d "identifier" v

def setIdentReg (d : Dict) (r : Reg) (v : Val) : Reg :=
  if dictGet d "identifier" ≠ pyNone then r
  else if v = pyNone then r
  else r.add v

/-- x, y, name, color of `Anchor(glyph=self, anchorDict=d)` through the attribute setters -/
def Anchor.attrsOf (d : Dict) : Dict :=
  let it : Dict := []
  let it := setAttr it "x" (dictGet d "x")
  let it := setAttr it "y" (dictGet d "y")
  let it := setAttr it "name" (dictGet d "name")
  setAttr it "color" (dictGet d "color")

def Anchor.itemsOf (d : Dict) : Dict := setIdentItems (Anchor.attrsOf d) (dictGet d "identifier")

/-- `Anchor(glyph=self, anchorDict=d)`: x, y, name, color, identifier through the attribute setters -/
def Anchor.ofDict (d : Dict) (r : Reg) : DictObj × Reg :=
  ({ items := Anchor.itemsOf d, parent := true, observed := false },
   setIdentReg (Anchor.attrsOf d) r (dictGet d "identifier"))

def Guideline.attrsOf (d : Dict) : Dict :=
  let it : Dict := []
  let it := setAttr it "x" (dictGet d "x")
  let it := setAttr it "y" (dictGet d "y")
  let it := setAttr it "angle" (dictGet d "angle")
  let it := setAttrDel it "name" (dictGet d "name")
  setAttrDel it "color" (dictGet d "color")

def Guideline.itemsOf (d : Dict) : Dict := setIdentItems (Guideline.attrsOf d) (dictGet d "identifier")

/-- `Guideline(font=… | glyph=…, guidelineDict=d)` -/
def Guideline.ofDict (d : Dict) (r : Reg) : DictObj × Reg :=
  ({ items := Guideline.itemsOf d, parent := true, observed := false },
   setIdentReg (Guideline.attrsOf d) r (dictGet d "identifier"))

/-- `ImageSet/DataSet.setDataFromSerialization`: `_data = {}`, then `self[k] = data[k]` for every key -/
def FileSet.deser (data : Dict) (o : DictObj) : DictObj :=
  { o with items := data.foldl (fun d p => AL.set d p.1 p.2) [] }

/-! ### Features -/

structure Features where
  text : Val := pyNone
  parent : Bool := false
  observed : Bool := false
deriving DecidableEq, Repr

def Features.getField : String → Features → Option Val
  | "text", f => some f.text
  | _, _ => none

def Features.ser (wl bl : Option (List String)) (f : Features) : Dict :=
  serializeWith Features.getField wl bl f featuresGetters

/-- `if 'text' in data: self.text = data['text']` -/
def Features.deser (data : Dict) (f : Features) : Features :=
  match AL.get? data "text" with
  | some v => { f with text := v }
  | none => f

/-! ### Info: one generated property per entry of `_properties` -/

/-- a fresh Info: every private attribute holds (a copy of) its default -/
def Info.fresh : DictObj := { items := infoProperties }

def Info.default (k : String) : Val := (AL.get? infoProperties k).getD pyNone

/-- getters: every property whose value is not None -/
def Info.ser (wl bl : Option (List String)) (i : DictObj) : Dict :=
  serializeWith (fun k (i : DictObj) => AL.get? i.items k) wl bl i
    ((AL.keys infoProperties).filter (fun k => dictGet i.items k ≠ pyNone))

/-- the generated setter: `if old == value: return; if value is None: value = copy(default)`
(validation is a parameter of the domain: every stored value went in through this same setter) -/
def Info.setProp (k : String) (v : Val) (i : DictObj) : DictObj :=
  if dictGet i.items k = v then i
  else { i with items := AL.set i.items k (if v = pyNone then Info.default k else v) }

def Info.deser (data : Dict) (i : DictObj) : DictObj :=
  applySetters Info.setProp data (AL.keys infoProperties) i

/-! ### Contour -/

structure Point where
  x : Val
  y : Val
  seg : Val
  smooth : Val
  name : Val
  ident : Val
deriving DecidableEq, Repr

/-- the recorded point-pen calls of one contour: `beginPath(identifier=…)`, `addPoint(…)*`, `endPath()` -/
structure PenRec where
  ident : Val := pyNone
  points : List Point := []
deriving DecidableEq, Repr

structure Contour where
  ident : Val := pyNone
  points : List Point := []
  parent : Bool := false
  observed : Bool := false
deriving DecidableEq, Repr

def Contour.toPen (c : Contour) : PenRec := ⟨c.ident, c.points⟩

def Contour.getField : String → Contour → Option PenRec
  | "pen", c => some c.toPen
  | _, _ => none

def Contour.ser (wl bl : Option (List String)) (c : Contour) : List (String × PenRec) :=
  serializeWith Contour.getField wl bl c contourGetters

def PenRec.ids (p : PenRec) : List Val := p.ident :: p.points.map (·.ident)

/-- `Contour.setDataFromSerialization`: `clear()`, `identifier = None` (a no-op: the setter never
overwrites), then the recorder plays `beginPath` (sticky identifier setter), `addPoint`* (`insertPoint`
registers the point identifier), `endPath`.  `tracked`: the contour has a glyph, whose registry is `r`
(without a glyph `self.identifiers` is a throw-away empty set). -/
def Contour.deser (tracked : Bool) (data : List (String × PenRec)) (s : Contour × Reg) : Contour × Reg :=
  let c : Contour := { s.1 with points := [] }
  match AL.get? data "pen" with
  | none => (c, s.2)
  | some p =>
    let keep := c.ident ≠ pyNone ∨ p.ident = c.ident
    let c' : Contour := if keep then c else { c with ident := p.ident }
    let r1 := if tracked ∧ ¬ keep then s.2.add p.ident else s.2
    let r2 := if tracked then r1.addAll (p.points.map (·.ident)) else r1
    ({ c' with points := p.points }, r2)

/-! ### Component -/

structure Component where
  base : Val := pyNone
  transformation : Val := "(1, 0, 0, 1, 0, 0)"
  ident : Val := pyNone
  parent : Bool := false
  observed : Bool := false
deriving DecidableEq, Repr

def Component.getField : String → Component → Option Val
  | "baseGlyph", c => some c.base
  | "transformation", c => some c.transformation
  | "identifier", c => some c.ident
  | _, _ => none

def Component.ser (wl bl : Option (List String)) (c : Component) : Dict :=
  serializeWith Component.getField wl bl c componentGetters

def Component.setField (tracked : Bool) : String → Val → Component × Reg → Component × Reg
  | "baseGlyph", v, s => ({ s.1 with base := v }, s.2)
  | "transformation", v, s => ({ s.1 with transformation := v }, s.2)
  | "identifier", v, s =>
    if s.1.ident ≠ pyNone ∨ v = s.1.ident then s
    else ({ s.1 with ident := v }, if tracked then s.2.add v else s.2)
  | _, _, s => s

def Component.deser (tracked : Bool) (data : Dict) (s : Component × Reg) : Component × Reg :=
  applySetters (Component.setField tracked) data componentSetters s

/-! ### Glyph -/

structure Glyph where
  name : Val := pyNone
  unicodes : Val := "[]"
  width : Val := "0"
  height : Val := "0"
  note : Val := pyNone
  lib : DictObj := {}
  tempLib : DictObj := {}
  image : Option DictObj := none
  /-- `_shallowLoadedContours` -/
  shallow : Option (List PenRec) := none
  contours : List Contour := []
  components : List Component := []
  anchors : List DictObj := []
  guidelines : List DictObj := []
  reg : Reg := .ok []
  parent : Bool := false
  observed : Bool := false
  disp : Bool := false
deriving Repr

/-- values of a glyph's data dictionary -/
inductive GVal where
  | val (v : Val)
  | dict (d : Dict)
  | shallow (l : List PenRec)
  | contours (l : List (List (String × PenRec)))
  | dicts (l : List Dict)
deriving Repr

def freshImage (disp : Bool) : DictObj := { items := imageDefaults, parent := true, observed := disp }

/-- `_fullyLoadShallowLoadedContours`: the stored pen calls are played into a `GlyphObjectPointPen` -/
def Glyph.fullyLoad (g : Glyph) : Glyph :=
  match g.shallow with
  | none => g
  | some l =>
    l.foldl (fun (g : Glyph) p =>
      { g with
        reg := g.reg.addAll p.ids
        contours := g.contours ++ [{ ident := p.ident, points := p.points, parent := true, observed := g.disp }] })
      { g with shallow := none }

def dictIdent (d : DictObj) : Val := dictGet d.items "identifier"

/-- `Glyph.clear()`: contours (forcing the full load), components, anchors, guidelines are removed one by
one (their identifiers leave the registry), the image is reset to the defaults -/
def Glyph.clear (g : Glyph) : Glyph :=
  let g := g.fullyLoad
  let r := g.contours.reverse.foldl (fun r c => c.points.foldl (fun r p => r.remove p.ident) (r.remove c.ident)) g.reg
  let r := g.components.reverse.foldl (fun r c => r.remove c.ident) r
  let r := g.anchors.reverse.foldl (fun r a => r.remove (dictIdent a)) r
  let r := g.guidelines.reverse.foldl (fun r a => r.remove (dictIdent a)) r
  { g with contours := [], components := [], anchors := [], guidelines := [], reg := r,
           image := g.image.map (fun i => { i with items := imageDefaults }) }

/-- `list_init(self.instantiateContour, data)` -/
def buildContours (l : List (List (String × PenRec))) (r : Reg) : List Contour × Reg :=
  l.foldl (fun acc d =>
    let cr := Contour.deser true d ({ parent := true }, acc.2)
    (acc.1 ++ [cr.1], cr.2)) ([], r)

/-- `list_init(self.instantiateComponent, data)` -/
def buildComponents (l : List Dict) (r : Reg) : List Component × Reg :=
  l.foldl (fun acc d =>
    let cr := Component.deser true d ({ parent := true }, acc.2)
    (acc.1 ++ [cr.1], cr.2)) ([], r)

def buildDicts (mk : Dict → Reg → DictObj × Reg) (l : List Dict) (r : Reg) : List DictObj × Reg :=
  l.foldl (fun acc d =>
    let cr := mk d acc.2
    (acc.1 ++ [cr.1], cr.2)) ([], r)

/-- `_set_image(image)` with `image` not None: the glyph's own Image object is created if needed and the
eight entries are assigned through its attribute setters -/
def copyImage (temp : Dict) (items : Dict) : Dict :=
  ["fileName", "xScale", "xyScale", "yxScale", "yScale", "xOffset", "yOffset", "color"].foldl
    (fun it k => setAttr it k (dictGet temp k)) items

/-- `_set_lib`: the lib object is created on demand (parent = the glyph, observed), cleared and updated -/
def Glyph.setLib (d : Dict) (g : Glyph) : Glyph :=
  { g with lib := { items := dictUpdate [] d, parent := true, observed := g.disp } }

/-- `_set_tempLib`: same, but nobody observes a temp lib -/
def Glyph.setTempLib (d : Dict) (g : Glyph) : Glyph :=
  { g with tempLib := { items := dictUpdate [] d, parent := true, observed := false } }

/-- `init_set(list_init, self.instantiateContour, set_each(self.appendContour, True))` -/
def Glyph.setContours (l : List (List (String × PenRec))) (g : Glyph) : Glyph :=
  let built := buildContours l g.reg
  let g := { g with reg := built.2 }
  match built.1 with
  | [] => g
  | cs =>
    -- appendContour: `assert contour not in self` forces the full load of shallow contours first
    let g := g.fullyLoad
    { g with contours := g.contours ++ cs.map (fun c => { c with observed := g.disp }) }

def Glyph.setComponents (l : List Dict) (g : Glyph) : Glyph :=
  let built := buildComponents l g.reg
  { g with reg := built.2, components := g.components ++ built.1.map (fun c => { c with observed := g.disp }) }

/-- `self.guidelines = [instantiateGuideline(d) …]` (the glyph was cleared before: nothing to remove) -/
def Glyph.setGuidelines (l : List Dict) (g : Glyph) : Glyph :=
  let built := buildDicts Guideline.ofDict l g.reg
  { g with reg := built.2, guidelines := built.1.map (fun c => { c with observed := g.disp }) }

def Glyph.setAnchors (l : List Dict) (g : Glyph) : Glyph :=
  let built := buildDicts Anchor.ofDict l g.reg
  { g with reg := built.2, anchors := built.1.map (fun c => { c with observed := g.disp }) }

/-- `self.image = self.instantiateImage(d)` -/
def Glyph.setImage (d : Dict) (g : Glyph) : Glyph :=
  let temp := dictUpdate imageDefaults d
  let cur := g.image.getD (freshImage g.disp)
  { g with image := some { cur with items := copyImage temp cur.items } }

/-- plain `setattr(self, "_shallowLoadedContours", l)` -/
def Glyph.setShallow (l : List PenRec) (g : Glyph) : Glyph := { g with shallow := some l }

def Glyph.setField : String → GVal → Glyph → Glyph
  | "name", .val v, g => { g with name := v }
  | "unicodes", .val v, g => { g with unicodes := v }
  | "width", .val v, g => { g with width := v }
  | "height", .val v, g => { g with height := v }
  | "note", .val v, g => { g with note := v }
  | "lib", .dict d, g => g.setLib d
  | "tempLib", .dict d, g => g.setTempLib d
  | "_shallowLoadedContours", .shallow l, g => g.setShallow l
  | "_contours", .contours l, g => g.setContours l
  | "components", .dicts l, g => g.setComponents l
  | "guidelines", .dicts l, g => g.setGuidelines l
  | "anchors", .dicts l, g => g.setAnchors l
  | "image", .dict d, g => g.setImage d
  | _, _, g => g

def Glyph.imageObj (g : Glyph) : DictObj := g.image.getD (freshImage g.disp)

def Glyph.getField : String → Glyph → Option GVal
  | "name", g => some (.val g.name)
  | "unicodes", g => some (.val g.unicodes)
  | "width", g => some (.val g.width)
  | "height", g => some (.val g.height)
  | "note", g => some (.val g.note)
  | "components", g => some (.dicts (g.components.map (Component.ser none none)))
  | "anchors", g => some (.dicts (g.anchors.map (DictObj.ser none none)))
  | "guidelines", g => some (.dicts (g.guidelines.map (DictObj.ser none none)))
  | "image", g => some (.dict (g.imageObj.ser none none))
  | "lib", g => some (.dict (g.lib.ser none none))
  | "tempLib", g => some (.dict (g.tempLib.ser none none))
  | "_shallowLoadedContours", g => g.shallow.map .shallow
  | "_contours", g => some (.contours (g.contours.map (Contour.ser none none)))
  | _, _ => none

/-- the conditional tail of the getter table: `_shallowLoadedContours` if it is not None, else `_contours` -/
def glyphAltKey (g : Glyph) : List String :=
  match glyphGetAlt with
  | [a, b] => [if g.shallow.isSome then a else b]
  | _ => []

def Glyph.ser (wl bl : Option (List String)) (g : Glyph) : List (String × GVal) :=
  serializeWith Glyph.getField wl bl g (glyphGetters ++ glyphAltKey g)

def Glyph.deser (data : List (String × GVal)) (g : Glyph) : Glyph :=
  applySetters Glyph.setField data glyphSetters g.clear

/-! ### Layer -/

structure Layer where
  name : Val := pyNone
  color : Val := pyNone
  lib : DictObj := {}
  tempLib : DictObj := {}
  glyphs : List (Val × Glyph) := []
  parent : Bool := false
  observed : Bool := false
  disp : Bool := false
  err : Option String := none
  /-- `_unicodeData`: `none` = not built yet (it is built from the glyphs on first access); `some l` = the
  records (glyph name, unicodes) the object holds, in the order it was told them -/
  ucache : Option (List (Val × Val)) := none
  /-- the environment: an observer of `Layer.GlyphAdded` reads `layer.unicodeData` when the k-th glyph of the
  layer is announced, for every k listed (a glyph overview refreshing itself) -/
  peekAt : List Nat := []
deriving Repr

/-- `if glyph.unicodes:` -/
def hasUnicodes (u : Val) : Bool := u != "[]"

/-- the records `_get_unicodeData` collects from the glyphs when it builds the object -/
def cmapOfGlyphs (gs : List (Val × Glyph)) : List (Val × Val) :=
  (gs.filter (fun ng => hasUnicodes ng.2.unicodes)).map (fun ng => (ng.1, ng.2.unicodes))

/-- the end of `_insertGlyph`:
`if glyph.unicodes and self._unicodeData is not None: self._unicodeData.addGlyphData(name, glyph.unicodes)` -/
def cacheInsert (c : Option (List (Val × Val))) (n u : Val) : Option (List (Val × Val)) :=
  if hasUnicodes u then c.map (· ++ [(n, u)]) else c

/-- what `layer.unicodeData` answers: the stored object, built from the glyphs if there is none yet -/
def Layer.unicodeData (ly : Layer) : List (Val × Val) := ly.ucache.getD (cmapOfGlyphs ly.glyphs)

/-- `_get_unicodeData` as a state change: the object is built on first access and kept -/
def Layer.readUnicodeData (ly : Layer) : Layer := { ly with ucache := some ly.unicodeData }

/-- `postNotification("Layer.GlyphAdded")`: delivered only with a dispatcher; the observer of the environment
reads the unicode data at the scheduled announcements -/
def Layer.glyphAdded (ly : Layer) : Layer :=
  if ly.disp && ly.peekAt.contains ly.glyphs.length then ly.readUnicodeData else ly

inductive LVal where
  | val (v : Val)
  | dict (d : Dict)
  | glyphs (l : List (Val × List (String × GVal)))
deriving Repr

def orErr (a b : Option String) : Option String :=
  match a with
  | some e => some e
  | none => b

/-- `set_glyph(name, data)`: a new glyph of this layer is filled from the data (the layer does not observe it
yet, so its `Glyph.UnicodesChanged` is not heard), takes the dict key as its name, is inserted (`_insertGlyph`
starts the layer's observation and tells an existing unicode-data object about the glyph) and announced
(`Layer.GlyphAdded`) -/
def Layer.setGlyph (ly : Layer) (n : Val) (gd : List (String × GVal)) : Layer :=
  let g := Glyph.deser gd { parent := true, disp := ly.disp }
  Layer.glyphAdded { ly with
    glyphs := AL.set ly.glyphs n { g with name := n, observed := ly.disp }
    err := orErr ly.err g.reg.error
    ucache := cacheInsert ly.ucache n g.unicodes }

/-- `_set_lib`: create on demand (parent = the layer, observed), clear, update -/
def Layer.setLib (d : Dict) (ly : Layer) : Layer :=
  { ly with lib := { items := dictUpdate [] d, parent := true, observed := ly.disp } }

def Layer.setTempLib (d : Dict) (ly : Layer) : Layer :=
  { ly with tempLib := { items := dictUpdate [] d, parent := true, observed := false } }

/-- `set_glyphs`: every entry of the glyphs dictionary, in its order -/
def Layer.setGlyphs (l : List (Val × List (String × GVal))) (ly : Layer) : Layer :=
  l.foldl (fun (ly : Layer) p => ly.setGlyph p.1 p.2) ly

def Layer.setField : String → LVal → Layer → Layer
  | "lib", .dict d, ly => ly.setLib d
  | "tempLib", .dict d, ly => ly.setTempLib d
  | "color", .val v, ly => { ly with color := v }
  | "glyphs", .glyphs l, ly => ly.setGlyphs l
  | _, _, ly => ly

def Layer.getField : String → Layer → Option LVal
  | "lib", ly => some (.dict (ly.lib.ser none none))
  | "tempLib", ly => some (.dict (ly.tempLib.ser none none))
  | "color", ly => some (.val ly.color)
  | "glyphs", ly => some (.glyphs (ly.glyphs.map (fun p => (p.1, p.2.ser none none))))
  | _, _ => none

def Layer.ser (wl bl : Option (List String)) (ly : Layer) : List (String × LVal) :=
  serializeWith Layer.getField wl bl ly layerGetters

def Layer.deser (data : List (String × LVal)) (ly : Layer) : Layer :=
  applySetters Layer.setField data layerSetters ly

/-! ### LayerSet -/

structure LayerSet where
  /-- in `layerOrder` -/
  layers : List (Val × Layer) := []
  /-- name of the default layer, None if there is none -/
  default : Val := pyNone
  parent : Bool := false
  observed : Bool := false
  disp : Bool := false
  err : Option String := none
  /-- the environment (see `Layer.peekAt`): observers are registered with the font's dispatcher, so every layer
  made in this layer set is watched the same way -/
  peekAt : List Nat := []
deriving Repr

abbrev LayerEntry := Val × List (String × LVal) × Bool

def LayerSet.getField : String → LayerSet → Option (List LayerEntry)
  | "layers", ls => some (ls.layers.map (fun p => (p.1, p.2.ser none none, decide (p.1 = ls.default))))
  | _, _ => none

def LayerSet.ser (wl bl : Option (List String)) (ls : LayerSet) : List (String × List LayerEntry) :=
  serializeWith LayerSet.getField wl bl ls layerSetGetters

/-- `newLayer(name)` (KeyError on an existing name), fill it, make it the default if flagged -/
def LayerSet.addLayer (ls : LayerSet) (e : LayerEntry) : LayerSet :=
  if AL.contains ls.layers e.1 then { ls with err := orErr ls.err (some "KeyError") }
  else
    let ly := Layer.deser e.2.1
      { name := e.1, parent := true, observed := ls.disp, disp := ls.disp, peekAt := ls.peekAt }
    { ls with
      layers := ls.layers ++ [(e.1, ly)]
      default := if e.2.2 then e.1 else ls.default
      err := orErr ls.err ly.err }

def LayerSet.deser (data : List (String × List LayerEntry)) (ls : LayerSet) : LayerSet :=
  match AL.get? data "layers" with
  | none => ls
  | some l => l.foldl LayerSet.addLayer ls

/-! ### Font -/

structure Font where
  fmt : Val := pyNone
  maps : Val := pyNone
  data : DictObj := { parent := true, observed := true }
  images : DictObj := { parent := true, observed := true }
  features : Features := {}
  groups : DictObj := {}
  kerning : DictObj := {}
  lib : DictObj := {}
  tempLib : DictObj := {}
  info : DictObj := Info.fresh
  layers : LayerSet := { parent := true, observed := true, disp := true }
  guidelines : List DictObj := []
  reg : Reg := .ok []
deriving Repr

inductive FVal where
  | val (v : Val)
  | dict (d : Dict)
  | layers (d : List (String × List LayerEntry))
  | dicts (l : List Dict)
deriving Repr

def Font.getField : String → Font → Option FVal
  | "_ufoFormatVersion", f => some (.val f.fmt)
  | "_kerningGroupConversionRenameMaps", f => some (.val f.maps)
  | "data", f => some (.dict (f.data.ser none none))
  | "features", f => some (.dict (f.features.ser none none))
  | "groups", f => some (.dict (f.groups.ser none none))
  | "images", f => some (.dict (f.images.ser none none))
  | "info", f => some (.dict (Info.ser none none f.info))
  | "kerning", f => some (.dict (f.kerning.ser none none))
  | "layers", f => some (.layers (f.layers.ser none none))
  | "lib", f => some (.dict (f.lib.ser none none))
  | "tempLib", f => some (.dict (f.tempLib.ser none none))
  | "guidelines", f => some (.dicts (f.guidelines.map (DictObj.ser none none)))
  | _, _ => none

def Font.ser (wl bl : Option (List String)) (f : Font) : List (String × FVal) :=
  serializeWith Font.getField wl bl f fontGetters

/-- the sub-object getters of Font create the object with its parent and start observing it -/
def wired (o : DictObj) : DictObj := { o with parent := true, observed := true }

/-- `init_set_data` / `init_set_images`: a new file set (parent = the font, observed by it) filled from the data -/
def newFileSet (d : Dict) : DictObj := FileSet.deser d { parent := true, observed := true }

/-- `single_update` on a dict-like sub-object: the lazy getter creates it with its parent and starts
observing it; then clear + update -/
def updateWired (o : DictObj) (d : Dict) : DictObj := (wired o).deser d

/-- `init_set_layers`: end the old observations, a new layer set of this font, observe it, fill it (the observers
of the environment hang on the font's dispatcher: they watch the new layer set as they watched the old one) -/
def newLayerSet (peekAt : List Nat) (d : List (String × List LayerEntry)) : LayerSet :=
  LayerSet.deser d { parent := true, observed := true, disp := true, peekAt := peekAt }

/-- `set_guidelines` (after the fix): clearGuidelines(), `instantiateGuideline(guidelineDict=d)` for each,
then `self.guidelines = guides` -/
def Font.setGuidelines (l : List Dict) (f : Font) : Font :=
  let r := f.guidelines.reverse.foldl (fun r a => r.remove (dictIdent a)) f.reg
  let built := buildDicts Guideline.ofDict l r
  { f with reg := built.2, guidelines := built.1.map (fun c => { c with observed := true }) }

def Font.setField : String → FVal → Font → Font
  | "_ufoFormatVersion", .val v, f => { f with fmt := v }
  | "_kerningGroupConversionRenameMaps", .val v, f => { f with maps := v }
  | "data", .dict d, f => { f with data := newFileSet d }
  | "features", .dict d, f => { f with features := Features.deser d { f.features with parent := true, observed := true } }
  | "groups", .dict d, f => { f with groups := updateWired f.groups d }
  | "images", .dict d, f => { f with images := newFileSet d }
  | "info", .dict d, f => { f with info := Info.deser d (wired f.info) }
  | "kerning", .dict d, f => { f with kerning := updateWired f.kerning d }
  | "layers", .layers d, f => { f with layers := newLayerSet f.layers.peekAt d }
  | "lib", .dict d, f => { f with lib := updateWired f.lib d }
  | "tempLib", .dict d, f => { f with tempLib := ({ f.tempLib with parent := true }).deser d }
  | "guidelines", .dicts l, f => f.setGuidelines l
  | _, _, f => f

def Font.deser (data : List (String × FVal)) (f : Font) : Font :=
  applySetters Font.setField data fontSetters f

def Font.error (f : Font) : Option String := orErr f.layers.err f.reg.error

/-! ### change propagation: which nodes reach the root

A change of a node makes the node dirty and posts its `*.Changed`; the container's observer callback then
does the same for the container, and so on.  So a change reaches every ancestor iff every link on the way
up is observed.  `…propagation path o up` lists, for the node at `path` and every node below it, whether
all links from it up to the root are observed (`up`: the links above the node's own link are). -/

def ns (n : Nat) : String := ToString.toString n

def idx {α : Type} (l : List α) : List (String × α) := l.zipIdx.map fun p => (ns p.2, p.1)

def Glyph.propagation (p : String) (g : Glyph) (up : Bool) : List (String × Bool) :=
  let u := up && g.observed
  let f := g.fullyLoad
  [(p, u), (p ++ "/lib", u && g.lib.observed), (p ++ "/image", u && g.imageObj.observed)]
  ++ (idx f.contours).map (fun ic => (p ++ "/c/" ++ ic.1, u && ic.2.observed))
  ++ (idx f.components).map (fun ic => (p ++ "/k/" ++ ic.1, u && ic.2.observed))
  ++ (idx f.anchors).map (fun ic => (p ++ "/a/" ++ ic.1, u && ic.2.observed))
  ++ (idx f.guidelines).map (fun ic => (p ++ "/g/" ++ ic.1, u && ic.2.observed))

def Layer.propagation (p : String) (ly : Layer) (up : Bool) : List (String × Bool) :=
  let u := up && ly.observed
  [(p, u), (p ++ "/lib", u && ly.lib.observed)]
  ++ ly.glyphs.flatMap (fun ng => ng.2.propagation (p ++ "/G/" ++ ng.1) u)

/-- `up`: the link from the layer set to whatever observes it (inside a font: the font) is fine; for a layer
set on its own the chain ends at the layer set -/
def LayerSet.propagation (p : String) (ls : LayerSet) (up : Bool) : List (String × Bool) :=
  ls.layers.flatMap (fun nl => nl.2.propagation (p ++ "/L/" ++ nl.1) up)

def Font.propagation (f : Font) : List (String × Bool) :=
  [("features", f.features.observed), ("data", f.data.observed), ("images", f.images.observed),
   ("groups", f.groups.observed), ("kerning", f.kerning.observed), ("lib", f.lib.observed),
   ("info", f.info.observed)]
  ++ f.layers.propagation "layers" f.layers.observed
  ++ (idx f.guidelines).map (fun ic => ("fg/" ++ ic.1, ic.2.observed))

end Serial
end DefconModel
