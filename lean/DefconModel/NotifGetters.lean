/-
The getter table of C08: for every attribute-change notification that carries old and new values, WHICH public
getter of the posting object those values talk about.

* `oldKey` / `newKey`: the keys of the notification's data dict that carry the two values;
* `item`: the data key that names the item of the object the values are about (`key` of a dict object,
  `attribute` of Info), when the getter takes one;
* `attr`: the public attribute the property's sentence "what the getter returned" refers to — `object.<attr>`,
  a dotted path (`defaultLayer.name`, `None` when a link is `None`), `[item]` = `object[data[item]]` (`None` when
  absent), `<item>` = `getattr(object, data[item])`;
* `obs`: the same getter as the model reads it (an expression over the object's store in M-Setters).

This table used to live in the Python harness (`c08_world.PAYLOAD`).  Here it is data the theorems of
`Props/C08.lean` speak about: `getter_keys_follow_source` (every `postNotification` of the sources hands over
exactly these keys — over the table regenerated from the AST), `payload_sites_have_getters` (no posting
statement with an old/new key is left out), `catalogue_reads_table_getters` (every catalogue entry judges a
payload against the getter this table names).  The harness builds its observers FROM this table's rendering
(`(getter-table)` of the `setters` driver is compared with the harness's copy on every run).

Core Lean only.
-/
import DefconModel.SettersCatalogue
import DefconModel.NotifTables

namespace DefconModel
namespace Setters

structure Getter where
  note : String
  oldKey : String := "oldValue"
  newKey : String := "newValue"
  item : Option String := none
  attr : String
  obs : Expr
deriving Repr, Inhabited

open Expr in
def getters : List Getter := [
  { note := "Glyph.NameWillChange", attr := "name", obs := fld "_name" },
  { note := "Glyph.NameChanged", attr := "name", obs := fld "_name" },
  { note := "Glyph.UnicodesChanged", attr := "unicodes", obs := fld "_unicodes" },
  { note := "Glyph.WidthChanged", attr := "width", obs := fld "_width" },
  { note := "Glyph.HeightChanged", attr := "height", obs := fld "_height" },
  { note := "Glyph.NoteChanged", attr := "note", obs := fld "_note" },
  { note := "Glyph.MarkColorChanged", attr := "markColor", obs := fld "markColor" },
  { note := "Glyph.VerticalOriginChanged", attr := "verticalOrigin", obs := fld "vo" },
  { note := "Glyph.LeftMarginWillChange", attr := "leftMargin", obs := leftMarginG },
  { note := "Glyph.LeftMarginDidChange", attr := "leftMargin", obs := leftMarginG },
  { note := "Glyph.RightMarginWillChange", attr := "rightMargin", obs := rightMarginG },
  { note := "Glyph.RightMarginDidChange", attr := "rightMargin", obs := rightMarginG },
  { note := "Glyph.TopMarginWillChange", attr := "topMargin", obs := topMarginG },
  { note := "Glyph.TopMarginDidChange", attr := "topMargin", obs := topMarginG },
  { note := "Glyph.BottomMarginWillChange", attr := "bottomMargin", obs := bottomMarginG },
  { note := "Glyph.BottomMarginDidChange", attr := "bottomMargin", obs := bottomMarginG },
  { note := "Anchor.XChanged", attr := "x", obs := fld "x" },
  { note := "Anchor.YChanged", attr := "y", obs := fld "y" },
  { note := "Anchor.NameChanged", attr := "name", obs := fld "name" },
  { note := "Anchor.ColorChanged", attr := "color", obs := fld "color" },
  { note := "Anchor.IdentifierChanged", attr := "identifier", obs := fld "identifier" },
  { note := "Guideline.XChanged", attr := "x", obs := fld "x" },
  { note := "Guideline.YChanged", attr := "y", obs := fld "y" },
  { note := "Guideline.AngleChanged", attr := "angle", obs := fld "angle" },
  { note := "Guideline.NameChanged", attr := "name", obs := fld "name" },
  { note := "Guideline.ColorChanged", attr := "color", obs := fld "color" },
  { note := "Guideline.IdentifierChanged", attr := "identifier", obs := fld "identifier" },
  { note := "Image.FileNameChanged", attr := "fileName", obs := fld "fileName" },
  { note := "Image.TransformationChanged", attr := "transformation", obs := imageTransformationG },
  { note := "Image.ColorChanged", attr := "color", obs := fld "color" },
  { note := "Component.BaseGlyphChanged", attr := "baseGlyph", obs := fld "_baseGlyph" },
  { note := "Component.TransformationChanged", attr := "transformation", obs := fld "_transformation" },
  { note := "Component.IdentifierChanged", attr := "identifier", obs := fld "_identifier" },
  { note := "Contour.WindingDirectionChanged", attr := "clockwise", obs := fld "clockwise" },
  { note := "Contour.IdentifierChanged", attr := "identifier", obs := fld "_identifier" },
  { note := "Layer.NameChanged", oldKey := "oldName", newKey := "newName", attr := "name", obs := fld "_name" },
  { note := "Layer.ColorChanged", oldKey := "oldColor", newKey := "newColor", attr := "color", obs := fld "_color" },
  { note := "LayerSet.DefaultLayerChanged", attr := "defaultLayer.name", obs := fld "default" },
  { note := "LayerSet.LayerOrderChanged", attr := "layerOrder", obs := fld "order" },
  { note := "Font.GlyphOrderChanged", attr := "glyphOrder", obs := fld "glyphOrder" },
  { note := "Info.ValueChanged", item := some "attribute", attr := "<item>", obs := kfld },
  { note := "Features.TextChanged", attr := "text", obs := fld "_text" },
  { note := "Lib.ItemSet", item := some "key", attr := "[item]", obs := kfld },
  { note := "Kerning.PairSet", item := some "key", attr := "[item]", obs := kfld },
  { note := "Groups.GroupSet", item := some "key", attr := "[item]", obs := kfld }]

def getterOf (n : String) : Option Getter := getters.find? (fun g => g.note = n)

/-- Will/Did pairs: the data key that names the subject of a will-notification (`object` for the members of a
glyph or font, `name` for glyphs of a layer, layers of a layer set and images of an image set; none for
attribute pairs) -/
def willSubject : List (String × Option String) := [
  ("Glyph.NameWillChange", none), ("Glyph.LeftMarginWillChange", none), ("Glyph.RightMarginWillChange", none),
  ("Glyph.TopMarginWillChange", none), ("Glyph.BottomMarginWillChange", none), ("Glyph.ImageWillBeCleared", none),
  ("Glyph.ContourWillBeAdded", some "object"), ("Glyph.ContourWillBeDeleted", some "object"),
  ("Glyph.ComponentWillBeAdded", some "object"), ("Glyph.ComponentWillBeDeleted", some "object"),
  ("Glyph.AnchorWillBeAdded", some "object"), ("Glyph.AnchorWillBeDeleted", some "object"),
  ("Glyph.GuidelineWillBeAdded", some "object"), ("Glyph.GuidelineWillBeDeleted", some "object"),
  ("Font.GuidelineWillBeAdded", some "object"), ("Font.GuidelineWillBeDeleted", some "object"),
  ("Layer.GlyphWillBeAdded", some "name"), ("Layer.GlyphWillBeDeleted", some "name"),
  ("LayerSet.DefaultLayerWillChange", none), ("LayerSet.LayerWillBeDeleted", some "name"),
  ("ImageSet.ImageWillBeAdded", some "name"), ("ImageSet.ImageWillBeDeleted", some "name")]

end Setters
end DefconModel
