/-
Types of the tables `Gen/NotifNames.lean` regenerates from the defcon sources (AST) on every run,
and the functions that read them:

* per class: the notification names its docstring DOCUMENTS, its `*NotificationName` class
  attributes, and every `self.postNotification(...)` in its body (a string literal, or a reference to
  such a class attribute) — `postedNames` resolves the references along the base classes the way
  Python does, so an inherited `self.postNotification(self.changeNotificationName)` counts for the
  subclass under the subclass's own value of the attribute;
* per `self.postNotification(...)` statement: the data keys it hands over (`sites`);
* per method that posts, holds or releases: its statement-order *skeleton* — the posts (with where
  their old/new payload comes from), hold / release, loops and state changes, in source order.

Core Lean only.
-/
namespace DefconModel
namespace Setters

inductive NameRef where
  | lit (s : String)
  | attr (a : String)
deriving DecidableEq, Repr, Inhabited

structure ClassInfo where
  name : String
  bases : List String
  documented : List String
  attrs : List (String × Option String)
  /-- `(method, notification)` for every `self.postNotification` in a method of the class -/
  posts : List (String × NameRef)
deriving Repr, Inhabited

/-- where a payload value comes from -/
inductive Src where
  | none        -- no such payload slot
  | param       -- a function of the method's parameters only
  | capBefore   -- read from the object before the method's first state change
  | capAfter    -- read from the object after a state change, before the post
  | readNow     -- read from the object in the post statement itself
  | const
deriving DecidableEq, Repr, Inhabited

inductive SkEv where
  | post (n : NameRef) (old new : Src)
  | hold
  | release
  | write
  | loopStart
  | loopEnd
deriving DecidableEq, Repr, Inhabited

structure MethodSkel where
  cls : String
  method : String
  evs : List SkEv
deriving Repr, Inhabited

/-- one `self.postNotification(...)` statement: the keyword names of the `dict(...)` it hands over as data, in
source order; `none` = the payload is not written as a dict call (a forwarded `notification.data`) -/
structure PostSite where
  cls : String
  method : String
  name : NameRef
  keys : Option (List String)
deriving DecidableEq, Repr, Inhabited

structure Tables where
  classes : List ClassInfo
  skeletons : List MethodSkel
  sites : List PostSite := []
deriving Repr, Inhabited

def Tables.cls (t : Tables) (n : String) : Option ClassInfo := t.classes.find? (fun c => c.name = n)

/-- the classes along which Python looks an attribute up, nearest first (linearised depth-first,
left to right; defcon's hierarchy is a tree below `BaseObject` except `BaseDictObject(dict, BaseObject)`) -/
def Tables.mro (t : Tables) : Nat → String → List String
  | 0, _ => []
  | fuel + 1, n =>
    match t.cls n with
    | none => []
    | some c => n :: c.bases.flatMap (t.mro fuel)

/-- value of class attribute `a` seen from class `n` -/
def Tables.attrValue (t : Tables) (n a : String) : Option String :=
  ((t.mro 8 n).findSome? (fun c => (t.cls c).bind (fun ci => (ci.attrs.find? (fun p => p.1 = a)).map (·.2)))).join

def Tables.resolve (t : Tables) (n : String) : NameRef → Option String
  | .lit s => some s
  | .attr a => t.attrValue n a

/-- every name an instance of class `n` can post: the posts of its own methods and of the methods
it inherits, attribute references resolved from `n` -/
def Tables.postedNames (t : Tables) (n : String) : List String :=
  (t.mro 8 n).flatMap fun c =>
    match t.cls c with
    | none => []
    | some ci => ci.posts.filterMap (fun p => t.resolve n p.2)

def Tables.skel (t : Tables) (c m : String) : Option (List SkEv) :=
  (t.skeletons.find? (fun s => s.cls = c ∧ s.method = m)).map (·.evs)

/-- runs of consecutive state changes count once -/
def collapse : List SkEv → List SkEv
  | [] => []
  | e :: r =>
    match e, collapse r with
    | .write, .write :: r' => .write :: r'
    | e, r' => e :: r'

end Setters
end DefconModel
