/-
C02 over M-NOTIFY executions: the theorems of `Props/C02.lean` (about the abstract machine M-Dirty)
restated for what the exact model of the notification centre does on the registrations of the object
tree, and obtained from them through the simulation of `Link/DirtyNotify.lean`.

`k : Conc` is a centre wired for the chain `x :: rest` (changed object … font) together with the flags
and the logger's record observed so far; `cTouch` = "store the flag of `x`, post `Changed` of `x`",
`cRelease` = `releaseHeldNotifications` of a chain node, both executed by `Notify.exec` with the parents'
callbacks armed.  Holds and disables: any pattern of object-scoped ones (`Wired`/`Shape`).
-/
import DefconModel.Link.DirtyNotify
import DefconModel.Props.C02

namespace DefconModel.Link
open DefconModel Notify

/-- a sequence of releases `(node, its chain above)`, executed in the centre -/
def cReleaseAll (lg : Obj) (fuel : Nat) (k : Conc) (rels : List (Nat × List Nat)) : Conc :=
  rels.foldl (fun k r => cRelease lg fuel k r.1 r.2) k

/-- the simulation carries along any sequence of releases of nodes of the chain -/
theorem releaseAll_ok (lg : Obj) (fuel : Nat) (chain : List Nat) (rels : List (Nat × List Nat))
    (hf : chain.length ≤ fuel) (hsuf : ∀ r ∈ rels, ∃ pre, chain = pre ++ r.1 :: r.2) :
    ∀ (k : Conc) (s : Dirty.State), Wired lg chain k.centre → Sim k s →
      Wired lg chain (cReleaseAll lg fuel k rels).centre ∧
      (cReleaseAll lg fuel k rels).centre.registry = k.centre.registry ∧
      Sim (cReleaseAll lg fuel k rels) (Props.C02.releaseAll s rels) := by
  induction rels with
  | nil => intro k s hw hsim; exact ⟨hw, rfl, hsim⟩
  | cons r rels ih =>
    intro k s hw hsim
    obtain ⟨pre, hc⟩ := hsuf r (by simp)
    have hlen : (r.1 :: r.2).length ≤ fuel := by
      have : chain.length = pre.length + (r.1 :: r.2).length := by rw [hc]; simp
      omega
    have h1 := release_ok lg fuel k s chain pre r.1 r.2 hc hw hlen hsim
    obtain ⟨h2, h3, h4⟩ := ih (fun r' hr' => hsuf r' (List.mem_cons_of_mem _ hr')) _ _ h1.wired h1.sim
    exact ⟨h2, h3.trans h1.registry, h4⟩

/-- **C02, first sentence, in the centre.**  Take a centre wired for the chain `x :: rest` (every parent
observes `Changed` of its child with a callback that sets its flag and posts its own `Changed`; a logger hears
everything), with whatever object-scoped holds are active - on the changed object, on ancestors, elsewhere, nested
to any count, with or without something queued already - and none of the chain's objects disabled.  Execute the
change of `x` (flag, `post Changed x`) and then releases of chain nodes in ANY order; if no hold is left at the end,
then every object from `x` up to the font is flagged and the logger has received `Changed` of each - in the
execution of M-Notify (`Notify.exec`, fuel ≥ length of the chain), not only in the abstract machine.  Obtained from
`Props.C02.change_propagates` through `touch_simulates` / `release_simulates`; the registrations are the same
afterwards. -/
theorem change_propagates_in_the_centre (lg : Obj) (fuel : Nat) (k : Conc) (x : Nat) (rest : List Nat)
    (rels : List (Nat × List Nat))
    (hw : Wired lg (x :: rest) k.centre) (hf : (x :: rest).length ≤ fuel)
    (hdis : ∀ a ∈ x :: rest, AL.contains k.centre.disabled (okey a) = false)
    (hsuf : ∀ r ∈ rels, ∃ pre, x :: rest = pre ++ r.1 :: r.2)
    (hall : (cReleaseAll lg fuel (cTouch lg fuel k x rest) rels).centre.holds = []) :
    (∀ a ∈ x :: rest, a ∈ (cReleaseAll lg fuel (cTouch lg fuel k x rest) rels).flags ∧
        a ∈ (cReleaseAll lg fuel (cTouch lg fuel k x rest) rels).log) ∧
    (cReleaseAll lg fuel (cTouch lg fuel k x rest) rels).centre.registry = k.centre.registry := by
  have hs0 := sim_abs k hw.shape
  have ht := touch_ok lg fuel k (abs k) (x :: rest) [] x rest rfl hw hf hs0
  obtain ⟨_, hreg, hsim⟩ := releaseAll_ok lg fuel (x :: rest) rels hf hsuf _ _ ht.wired ht.sim
  have hdis' : ∀ a ∈ x :: rest, a ∉ (abs k).disabled := fun a ha => (sim_disabled_iff hs0 a).mpr (hdis a ha)
  have hsuf' : ∀ r ∈ rels, r.1 ∈ x :: rest → ∃ pre, x :: rest = pre ++ r.1 :: r.2 ∧ r.1 ∉ pre := by
    intro r hr _
    obtain ⟨pre, hc⟩ := hsuf r hr
    refine ⟨pre, hc, fun hm => ?_⟩
    have hnd := hw.nodup
    rw [hc] at hnd
    exact (List.nodup_append.mp hnd).2.2 _ hm _ (by simp) rfl
  have hall' : (Props.C02.releaseAll (Dirty.touch (abs k) x rest) rels).holds = [] := by
    rw [hsim.holds]; unfold absHolds; rw [hall]; rfl
  have main := Props.C02.change_propagates (abs k) x rest rels hdis' hsuf' hall'
  refine ⟨fun a ha => ?_, hreg.trans ht.registry⟩
  have := main a ha
  rw [hsim.dirty, hsim.log] at this
  exact this

/-- with no hold at all the whole chain is flagged and heard by the logger within the one execution -/
theorem change_propagates_immediately_in_the_centre (lg : Obj) (fuel : Nat) (k : Conc) (x : Nat) (rest : List Nat)
    (hw : Wired lg (x :: rest) k.centre) (hf : (x :: rest).length ≤ fuel)
    (hdis : ∀ a ∈ x :: rest, AL.contains k.centre.disabled (okey a) = false)
    (hh : k.centre.holds = []) :
    ∀ a ∈ x :: rest, a ∈ (cTouch lg fuel k x rest).flags ∧ a ∈ (cTouch lg fuel k x rest).log := by
  have hs0 := sim_abs k hw.shape
  have ht := touch_ok lg fuel k (abs k) (x :: rest) [] x rest rfl hw hf hs0
  have hdis' : ∀ a ∈ x :: rest, a ∉ (abs k).disabled := fun a ha => (sim_disabled_iff hs0 a).mpr (hdis a ha)
  have main := Props.C02.change_propagates_immediately (abs k) x rest hdis'
    (by show absHolds k.centre = []; unfold absHolds; rw [hh]; rfl)
  intro a ha
  have := main a ha
  rw [ht.sim.dirty, ht.sim.log] at this
  exact this

/-- a guarded setter driving the centre: assigning the held value executes nothing -/
def cGuardedSet (lg : Obj) (fuel : Nat) (k : Conc) (x : Nat) (rest : List Nat) (old new : Nat) : Conc :=
  if old = new then k else cTouch lg fuel k x rest

/-- the guarded setter in the centre simulates M-Dirty's `guardedSet`, whatever the two values -/
theorem guardedSet_simulates (lg : Obj) (fuel : Nat) (k : Conc) (s : Dirty.State) (x : Nat) (rest : List Nat)
    (old new : Nat) (hw : Wired lg (x :: rest) k.centre) (hf : (x :: rest).length ≤ fuel) (hsim : Sim k s) :
    Sim (cGuardedSet lg fuel k x rest old new) (Props.C02.guardedSet s x rest old new) := by
  unfold cGuardedSet Props.C02.guardedSet
  split
  · exact hsim
  · exact touch_simulates lg fuel k s (x :: rest) [] x rest rfl hw hf hsim

/-- **C02, second sentence, in the centre.**  Re-assigning the value an attribute already holds reaches no
operation of the notification centre: the centre (registry, hold queues, disables, scripts), every flag and the
logger's record are exactly what they were, and the abstract state the execution simulates is the unchanged one
(`Props.C02.same_value_silent`). -/
theorem same_value_silent_in_the_centre (lg : Obj) (fuel : Nat) (k : Conc) (s : Dirty.State) (x : Nat)
    (rest : List Nat) (v : Nat) (hsim : Sim k s) :
    cGuardedSet lg fuel k x rest v v = k ∧ Sim (cGuardedSet lg fuel k x rest v v) s := by
  have h : cGuardedSet lg fuel k x rest v v = k := by unfold cGuardedSet; simp
  refine ⟨h, ?_⟩
  rw [h]
  exact hsim

/-- … stated against M-Dirty: the execution of the same-value assignment simulates `guardedSet … v v`, which is `s` -/
theorem same_value_silent_simulated (lg : Obj) (fuel : Nat) (k : Conc) (s : Dirty.State) (x : Nat)
    (rest : List Nat) (v : Nat) (hw : Wired lg (x :: rest) k.centre) (hf : (x :: rest).length ≤ fuel) (hsim : Sim k s) :
    Sim (cGuardedSet lg fuel k x rest v v) (Props.C02.guardedSet s x rest v v) ∧
    Props.C02.guardedSet s x rest v v = s :=
  ⟨guardedSet_simulates lg fuel k s x rest v v hw hf hsim, Props.C02.same_value_silent s x rest v⟩

/-! ### non-vacuity: a contour (3) in a glyph (2) in a font (1), logger 9, the glyph held -/

/-- the wired centre of the chain, then `glyph.holdNotifications()` -/
def demo : Conc := cHold 9 3 ⟨wiring 9 [3, 2, 1], [], []⟩ 2

example : Wired 9 [3, 2, 1] demo.centre :=
  (hold_ok 9 3 ⟨wiring 9 [3, 2, 1], [], []⟩ _ [3, 2, 1] 2 (wiring_wired 9 [3, 2, 1] (by decide)) (by decide)
    (sim_abs _ (wiring_wired 9 [3, 2, 1] (by decide)).shape)).wired

/-- the registrations are those that `addObserver` makes -/
example : (run 1 {} (.add 9 logM none none none :: wireAdds [3, 2, 1])).1.registry = demo.centre.registry := by decide

/-- the hold is in the middle of the chain, nothing is disabled -/
example : demo.centre.holds = [(okey 2, ⟨1, [], []⟩)] ∧ demo.centre.disabled = [] ∧
    (∀ a ∈ [3, 2, 1], AL.contains demo.centre.disabled (okey a) = false) := by decide

/-- the change of the contour: the logger hears the contour, the glyph's callback flags the glyph, the glyph's own
`Changed` waits in the glyph's hold; the font has seen nothing yet -/
example : (cTouch 9 3 demo 3 [2, 1]).flags = [3, 2] ∧ (cTouch 9 3 demo 3 [2, 1]).log = [3] ∧
    (cTouch 9 3 demo 3 [2, 1]).centre.holds = [(okey 2, ⟨1, [note 2], []⟩)] := by decide

/-- it is what M-Dirty says (here even on the nose) -/
example : (abs (cTouch 9 3 demo 3 [2, 1])).dirty = (Dirty.touch (abs demo) 3 [2, 1]).dirty ∧
    (abs (cTouch 9 3 demo 3 [2, 1])).log = (Dirty.touch (abs demo) 3 [2, 1]).log ∧
    (abs (cTouch 9 3 demo 3 [2, 1])).holds = (Dirty.touch (abs demo) 3 [2, 1]).holds ∧
    (abs (cTouch 9 3 demo 3 [2, 1])).pending = (Dirty.touch (abs demo) 3 [2, 1]).pending ∧
    (abs (cTouch 9 3 demo 3 [2, 1])).pending = [2] ∧
    (abs (cTouch 9 3 demo 3 [2, 1])).disabled = (Dirty.touch (abs demo) 3 [2, 1]).disabled := by decide

/-- the hypotheses of `change_propagates_in_the_centre` are met by the release of the glyph … -/
example : (cReleaseAll 9 3 (cTouch 9 3 demo 3 [2, 1]) [(2, [1])]).centre.holds = [] ∧
    (∀ r ∈ [((2 : Nat), [(1 : Nat)])], ∃ pre, [3, 2, 1] = pre ++ r.1 :: r.2) :=
  ⟨by decide, by intro r hr; simp at hr; subst hr; exact ⟨[3], rfl⟩⟩

/-- … and so is its conclusion, with the deliveries in chain order -/
example : (cReleaseAll 9 3 (cTouch 9 3 demo 3 [2, 1]) [(2, [1])]).flags = [3, 2, 1] ∧
    (cReleaseAll 9 3 (cTouch 9 3 demo 3 [2, 1]) [(2, [1])]).log = [3, 2, 1] ∧
    (cReleaseAll 9 3 (cTouch 9 3 demo 3 [2, 1]) [(2, [1])]).centre.registry = demo.centre.registry := by decide

/-- the raw event trace of the change in M-Notify: two deliveries, then the queued post returns -/
example : (run 3 demo.centre (arm [3, 2, 1] ++ [.post changed 3 0 none])).2 =
    [.ret .ok, .ret .ok, .deliver 9 logM changed 3 0, .deliver 2 childChanged changed 3 0, .ret .ok, .ret .ok] := by
  decide

/-- same-value assignment: nothing moves; a different value: the change above -/
example : cGuardedSet 9 3 demo 3 [2, 1] 5 5 = demo ∧
    (cGuardedSet 9 3 demo 3 [2, 1] 5 6).flags = [3, 2] := ⟨(same_value_silent_in_the_centre 9 3 demo (abs demo) 3 [2, 1] 5
      (sim_abs _ (hold_ok 9 3 ⟨wiring 9 [3, 2, 1], [], []⟩ _ [3, 2, 1] 2 (wiring_wired 9 [3, 2, 1] (by decide)) (by decide)
        (sim_abs _ (wiring_wired 9 [3, 2, 1] (by decide)).shape)).wired.shape)).1, by decide⟩

/-- one unit of fuel less than the chain is long and the execution is cut: the bound on the fuel is needed -/
example : (cTouch 9 2 ⟨wiring 9 [3, 2, 1], [], []⟩ 3 [2, 1]).log ≠ [3, 2, 1] ∧
    (cTouch 9 3 ⟨wiring 9 [3, 2, 1], [], []⟩ 3 [2, 1]).log = [3, 2, 1] := by decide

/-! ### a second instance: contour 4 / glyph 3 / layer 2 / font 1, glyph held twice, layer held once, and an
unrelated object (7) disabled; the releases come in a "wrong" order (layer first) -/

def demo2 : Conc := cDisable 9 4 (cHold 9 4 (cHold 9 4 (cHold 9 4 ⟨wiring 9 [4, 3, 2, 1], [], []⟩ 3) 2) 3) 7

example : demo2.centre.holds = [(okey 3, ⟨2, [], []⟩), (okey 2, ⟨1, [], []⟩)] ∧
    demo2.centre.disabled = [(okey 7, 1)] := by decide

example : (cReleaseAll 9 4 (cTouch 9 4 demo2 4 [3, 2, 1]) [(2, [1]), (3, [2, 1]), (3, [2, 1])]).centre.holds = [] ∧
    (cReleaseAll 9 4 (cTouch 9 4 demo2 4 [3, 2, 1]) [(2, [1]), (3, [2, 1]), (3, [2, 1])]).flags = [4, 3, 2, 1] ∧
    (cReleaseAll 9 4 (cTouch 9 4 demo2 4 [3, 2, 1]) [(2, [1]), (3, [2, 1]), (3, [2, 1])]).log = [4, 3, 2, 1] := by
  decide

/-- a second change while the glyph is held is coalesced in the centre's queue, as in M-Dirty -/
example : (cTouch 9 4 (cTouch 9 4 demo2 4 [3, 2, 1]) 4 [3, 2, 1]).centre.holds =
    (cTouch 9 4 demo2 4 [3, 2, 1]).centre.holds ∧
    (cTouch 9 4 (cTouch 9 4 demo2 4 [3, 2, 1]) 4 [3, 2, 1]).log = [4, 4] := by decide

/-- a disabled glyph cuts the propagation in the centre exactly as in M-Dirty (`disabled_change_not_announced`) -/
example : (cTouch 9 4 (cDisable 9 4 ⟨wiring 9 [4, 3, 2, 1], [], []⟩ 3) 4 [3, 2, 1]).flags = [4, 3] ∧
    (cTouch 9 4 (cDisable 9 4 ⟨wiring 9 [4, 3, 2, 1], [], []⟩ 3) 4 [3, 2, 1]).log = [4] := by decide

end DefconModel.Link
