/-
Link M-Dirty ⟵ M-Notify: the abstract propagation machine of C02 (`DefconModel/Dirty.lean`) is what
the exact model of the notification centre of C04 (`DefconModel/Notify.lean`) DOES on the
registrations that the object tree makes.

The wiring.  For a chain `x₀ :: x₁ :: … :: xₙ` of distinct objects (changed object … font) the tree
registers, for every node `xᵢ` with parent `xᵢ₊₁`,

    (observer := xᵢ₊₁, method := childChanged, notification := Changed, observable := xᵢ)

(this is `beginSelf<Child>NotificationObservation`), and the callback sets the parent's dirty flag,
i.e. posts the parent's own `Changed`.  A universal logger `lg` is registered for `(None, None)`;
what it receives is M-Dirty's `log`.

How the pieces of M-Dirty are read off an M-Notify execution (`Conc`, `abs`):
  * `holds`    : the object-scoped holds `(None, x, None)` with their counts, in dictionary order;
  * `pending`  : the objects whose hold has a queued `Changed`;
  * `disabled` : the object-scoped disables `(None, x, None)`;
  * `log`      : the senders of the deliveries to the logger, in order (`observe`);
  * `dirty`    : the flag of the changed object is set by the mutator itself, the flag of a parent
                 by its `childChanged` callback: the delivery event to `(xᵢ₊₁, childChanged)` IS the
                 assignment `xᵢ₊₁.dirty = True` (`observe`), after which the callback's script posts
                 `Changed` of `xᵢ₊₁`.

Two points of M-Notify that shape the statements:
  * callback scripts of M-Notify are ONE-SHOT (erased when they run).  A bound method is persistent,
    so every concrete operation first re-arms the callbacks of the chain with `script` operations
    (`arm`); within one operation every callback of a chain of distinct nodes runs at most once.
  * M-Dirty keeps `pending` and `disabled` as lists in first-post / most-recent-first order, orders
    that the centre does not store (its queues are per hold, its disables are counted per key).
    M-Dirty only ever asks `x ∈ pending`, `x ∈ disabled`; the simulation is therefore stated up to
    that (`Eqv`: `dirty`, `holds`, `log` equal on the nose; `pending`, `disabled` equal as sets), as a
    forward simulation `Sim k s → Sim (cOp k) (Dirty.op s)` - so it composes along any operation
    sequence - with `Sim k (abs k)` to start from (`sim_abs`) and `Sim k s ↔ Eqv (abs k) s`.

Proved here, for ARBITRARY patterns of object-scoped holds (any counts, with or without a queued
`Changed`) and object-scoped disables, on chain nodes and elsewhere, and any fuel ≥ chain length:
  `post_sim`          the induction on the chain: `post Changed x` in a wired, armed centre is `announce`
  `release_sim`       `release (None, x, None)` is M-Dirty's `release` (count down / erase / re-post the queue)
  `touch_simulates`, `release_simulates` (for `x` = any node of the wired chain, `rest` = the chain above it),
  `hold_simulates`, `disable_simulates` (any object)
  `wiring_invariant`  the registry (hence the wiring) is unchanged by these executions and `Wired` is preserved
  `sim_abs`, `sim_iff_eqv`, `abs_touch`, `abs_release`   the functional reading `abs ∘ cOp ≈ Dirty.op ∘ abs`
  `wiring_wired`      the canonical wired centre of a chain of distinct nodes is `Wired`; `wiring_eq_adds`: it
                      is what the `addObserver` calls build from the empty centre.
The corollaries for C02 are in `Link/DirtyNotifyProps.lean`.
Remaining work (not needed for C02's statement): a TREE of chains sharing their upper parts (here: one
chain and its upper parts; holds/disables on objects off the chain are allowed but never released);
observer-scoped and name-scoped holds/disables are outside `Shape` (M-Dirty has no counterpart for
them); `enable` has no M-Dirty operation; dead (collected) chain objects are excluded by `Wired`.

Core Lean only.
-/
import DefconModel.Util.AL
import DefconModel.Dirty
import DefconModel.Notify

namespace DefconModel
namespace Link
open Notify

/-! ### vocabulary -/

/-- the notification name `*.Changed` -/
def changed : Name := 0
/-- the logger's method -/
def logM : Meth := 0
/-- the parent's callback (`_contourChanged`, `_glyphDirtyStateChange`, `_objectDirtyStateChange`, …) -/
def childChanged : Meth := 1

/-- the object-scoped suspension key `(notification=None, observable=y, observer=None)` -/
def okey (y : Nat) : HKey := (none, some y, none)
/-- the queued `Changed` of `y` -/
def note (y : Nat) : Note := ⟨changed, y, 0, none⟩

def nodeOf : HKey → Nat
  | (_, some y, _) => y
  | _ => 0

@[simp] theorem nodeOf_okey (y : Nat) : nodeOf (okey y) = y := rfl

theorem okey_inj {a b : Nat} (h : okey a = okey b) : a = b := by
  simpa [okey] using h

/-! ### the wiring of a chain as a centre -/

/-- what the parent's callback does after having set its flag: post its own `Changed` -/
def parentScript (p : Nat) : List Op := [.post changed p 0 none]

def wireReg : List Nat → List (RKey × List Reg)
  | x :: p :: r => ((some changed, some x), [⟨p, childChanged, none⟩]) :: wireReg (p :: r)
  | _ => []

/-- the canonical wired centre of a chain: the logger under `(None, None)`, every parent under
`(Changed, child)` -/
def wiring (lg : Obj) (chain : List Nat) : Center :=
  { registry := ((none, none), [⟨lg, logM, none⟩]) :: wireReg chain }

/-- the `addObserver` calls that make it -/
def wireAdds : List Nat → List Op
  | x :: p :: r => .add p childChanged (some changed) (some x) none :: wireAdds (p :: r)
  | _ => []

/-- (re-)arming the callbacks of a chain: `script` operations -/
def arm : List Nat → List Op
  | _ :: p :: r => .script p childChanged (parentScript p) :: arm (p :: r)
  | _ => []

/-- the effect of `arm` on the centre -/
def armC (c : Center) : List Nat → Center
  | _ :: p :: r => armC { c with scripts := AL.set c.scripts (p, childChanged) (parentScript p) } (p :: r)
  | _ => c

/-! ### the concrete state and its abstraction -/

/-- a centre together with what has been observed of its executions so far -/
structure Conc where
  centre : Center
  flags : List Nat := []
  log : List Nat := []

def setFlagL (fl : List Nat) (x : Nat) : List Nat := if x ∈ fl then fl else fl ++ [x]

/-- one event: a delivery to a `childChanged` callback sets the observer's flag, a delivery to the
logger is logged by sender; results of operations are not observations -/
def obsEv (lg : Obj) (st : List Nat × List Nat) : Ev → List Nat × List Nat
  | .deliver o m _ s _ =>
    if m = childChanged then (setFlagL st.1 o, st.2)
    else if m = logM ∧ o = lg then (st.1, st.2 ++ [s])
    else st
  | _ => st

def observe (lg : Obj) (evs : List Ev) (st : List Nat × List Nat) : List Nat × List Nat :=
  evs.foldl (obsEv lg) st

def absHolds (c : Center) : List (Nat × Nat) := c.holds.map (fun p => (nodeOf p.1, p.2.count))

/-- the abstraction -/
def abs (k : Conc) : Dirty.State :=
  { dirty := k.flags
    holds := absHolds k.centre
    pending := (k.centre.holds.filter (fun p => !p.2.queue.isEmpty)).map (fun p => nodeOf p.1)
    disabled := k.centre.disabled.map (fun p => nodeOf p.1)
    log := k.log }

/-- running operations of the centre and observing the events -/
def cRun (lg : Obj) (fuel : Nat) (k : Conc) (ops : List Op) : Conc :=
  ⟨(run fuel k.centre ops).1, (observe lg (run fuel k.centre ops).2 (k.flags, k.log)).1,
    (observe lg (run fuel k.centre ops).2 (k.flags, k.log)).2⟩

/-- `x.dirty = True` by a mutator of `x`: the flag is stored, `Changed` of `x` is posted -/
def cTouch (lg : Obj) (fuel : Nat) (k : Conc) (x : Nat) (rest : List Nat) : Conc :=
  cRun lg fuel { k with flags := setFlagL k.flags x } (arm (x :: rest) ++ [.post changed x 0 none])

/-- `x.releaseHeldNotifications()` -/
def cRelease (lg : Obj) (fuel : Nat) (k : Conc) (x : Nat) (rest : List Nat) : Conc :=
  cRun lg fuel k (arm (x :: rest) ++ [.release none (some x) none])

/-- `x.holdNotifications()` -/
def cHold (lg : Obj) (fuel : Nat) (k : Conc) (x : Nat) : Conc := cRun lg fuel k [.hold none (some x) none none]

/-- `x.disableNotifications()` -/
def cDisable (lg : Obj) (fuel : Nat) (k : Conc) (x : Nat) : Conc := cRun lg fuel k [.disable none (some x) none]

/-! ### what "wired" means -/

def RegChain (c : Center) : List Nat → Prop
  | [] => True
  | [x] => regsAt c (some changed, some x) = []
  | x :: p :: r => regsAt c (some changed, some x) = [⟨p, childChanged, none⟩] ∧ RegChain c (p :: r)

/-- the registrations a post of `Changed` by a chain node can meet -/
structure Regs (lg : Obj) (chain : List Nat) (c : Center) : Prop where
  logger : regsAt c (none, none) = [⟨lg, logM, none⟩]
  byName : regsAt c (some changed, none) = []
  byObj : ∀ x ∈ chain, regsAt c (none, some x) = []
  chain : RegChain c chain

/-- every hold and every disable is object-scoped; a hold on `y` has nothing or `Changed` of `y` queued -/
structure Shape (c : Center) : Prop where
  holdKeys : ∀ p ∈ c.holds, ∃ y, p.1 = okey y ∧ (p.2.queue = [] ∨ p.2.queue = [note y])
  holdsNodup : (AL.keys c.holds).Nodup
  disKeys : ∀ p ∈ c.disabled, ∃ y, p.1 = okey y

structure Wired (lg : Obj) (chain : List Nat) (c : Center) : Prop where
  regs : Regs lg chain c
  shape : Shape c
  nodup : chain.Nodup
  alive : ∀ a ∈ chain, a ∉ c.dead
  lgAlive : lg ∉ c.dead
  lgPlain : AL.get? c.scripts (lg, logM) = none

/-- the callbacks of the parents on the chain are armed -/
def Armed (c : Center) (chain : List Nat) : Prop :=
  ∀ a ∈ chain.tail, AL.get? c.scripts (a, childChanged) = some (parentScript a)

/-- `Changed` of `y` waits in the hold on `y` -/
def queued (c : Center) (y : Nat) : Prop := ∃ h, AL.get? c.holds (okey y) = some h ∧ h.queue ≠ []

/-- the simulation relation -/
structure Sim (k : Conc) (s : Dirty.State) : Prop where
  dirty : s.dirty = k.flags
  log : s.log = k.log
  holds : s.holds = absHolds k.centre
  pending : ∀ y, y ∈ s.pending ↔ queued k.centre y
  disabled : ∀ y, y ∈ s.disabled ↔ AL.contains k.centre.disabled (okey y) = true

/-- equality of M-Dirty states up to the order (and multiplicity) of `pending` and `disabled`, which M-Dirty
reads by membership only -/
structure Eqv (s s' : Dirty.State) : Prop where
  dirty : s.dirty = s'.dirty
  log : s.log = s'.log
  holds : s.holds = s'.holds
  pending : ∀ y, y ∈ s.pending ↔ y ∈ s'.pending
  disabled : ∀ y, y ∈ s.disabled ↔ y ∈ s'.disabled

/-! ### association lists under an injective renaming of keys -/

section ALmap
variable {α β : Type}

theorem al_get?_map (f : HKey → Nat) (g : α → β) (l : List (HKey × α)) (k : HKey)
    (hinj : ∀ p ∈ l, f p.1 = f k → p.1 = k) :
    AL.get? (l.map (fun p => (f p.1, g p.2))) (f k) = (AL.get? l k).map g := by
  induction l with
  | nil => rfl
  | cons p r ih =>
    obtain ⟨k', v⟩ := p
    have ih' := ih (fun q hq => hinj q (List.mem_cons_of_mem _ hq))
    by_cases h : k' = k
    · subst h; simp
    · have h' : ¬ f k' = f k := fun e => h (hinj (k', v) (by simp) e)
      simp only [List.map_cons, AL.get?_cons, h, h', if_false]
      exact ih'

theorem al_set_map (f : HKey → Nat) (g : α → β) (l : List (HKey × α)) (k : HKey) (v : α)
    (hinj : ∀ p ∈ l, f p.1 = f k → p.1 = k) :
    (AL.set l k v).map (fun p => (f p.1, g p.2)) = AL.set (l.map (fun p => (f p.1, g p.2))) (f k) (g v) := by
  induction l with
  | nil => rfl
  | cons p r ih =>
    obtain ⟨k', v'⟩ := p
    have ih' := ih (fun q hq => hinj q (List.mem_cons_of_mem _ hq))
    by_cases h : k' = k
    · subst h; simp [AL.set]
    · have h' : ¬ f k' = f k := fun e => h (hinj (k', v') (by simp) e)
      simp only [AL.set, List.map_cons, h, h', if_false]
      rw [ih']

theorem al_erase_map (f : HKey → Nat) (g : α → β) (l : List (HKey × α)) (k : HKey)
    (hinj : ∀ p ∈ l, f p.1 = f k → p.1 = k) :
    (AL.erase l k).map (fun p => (f p.1, g p.2)) = AL.erase (l.map (fun p => (f p.1, g p.2))) (f k) := by
  induction l with
  | nil => rfl
  | cons p r ih =>
    obtain ⟨k', v'⟩ := p
    have ih' := ih (fun q hq => hinj q (List.mem_cons_of_mem _ hq))
    by_cases h : k' = k
    · subst h; simp [AL.erase]
    · have h' : ¬ f k' = f k := fun e => h (hinj (k', v') (by simp) e)
      simp only [AL.erase, List.map_cons, h, h', if_false]
      rw [ih']

/-- overwriting a value by one with the same image does not show through the map -/
theorem al_set_map_same (f : HKey → Nat) (g : α → β) (l : List (HKey × α)) (k : HKey) (v v' : α)
    (hg : AL.get? l k = some v) (hv : g v' = g v) :
    (AL.set l k v').map (fun p => (f p.1, g p.2)) = l.map (fun p => (f p.1, g p.2)) := by
  induction l with
  | nil => simp at hg
  | cons p r ih =>
    obtain ⟨k', w⟩ := p
    by_cases h : k' = k
    · subst h
      simp at hg
      subst hg
      simp [AL.set, hv]
    · simp only [AL.get?_cons, h, if_false] at hg
      simp only [AL.set, List.map_cons, h, if_false]
      rw [ih hg]

theorem contains_false_of_keys {l : List (HKey × α)} (h : ∀ p ∈ l, ∃ y, p.1 = okey y) (k : HKey)
    (hk : ∀ y, k ≠ okey y) : AL.contains l k = false := by
  rw [AL.contains_false_iff]
  cases hg : AL.get? l k with
  | none => rfl
  | some v =>
    obtain ⟨y, hy⟩ := h _ (AL.mem_of_get? hg)
    exact absurd hy (hk y)

end ALmap

/-! ### reading the tables of a well-shaped centre -/

theorem Shape.holdKeys' {c : Center} (h : Shape c) : ∀ p ∈ c.holds, ∃ y, p.1 = okey y := by
  intro p hp
  obtain ⟨y, hy, _⟩ := h.holdKeys p hp
  exact ⟨y, hy⟩

theorem Shape.inj_holds {c : Center} (h : Shape c) (x : Nat) : ∀ p ∈ c.holds, nodeOf p.1 = nodeOf (okey x) → p.1 = okey x := by
  intro p hp e
  obtain ⟨y, hy⟩ := h.holdKeys' p hp
  rw [hy] at e ⊢
  simp at e
  rw [e]

theorem get?_absHolds {c : Center} (h : Shape c) (x : Nat) :
    AL.get? (absHolds c) x = (AL.get? c.holds (okey x)).map Hold.count :=
  al_get?_map nodeOf Hold.count c.holds (okey x) (h.inj_holds x)

theorem held_iff {c : Center} (h : Shape c) {s : Dirty.State} (hs : s.holds = absHolds c) (x : Nat) :
    Dirty.held s x = AL.contains c.holds (okey x) := by
  unfold Dirty.held AL.contains
  rw [hs, get?_absHolds h]
  cases AL.get? c.holds (okey x) <;> rfl

theorem queue_cases {c : Center} (h : Shape c) {x : Nat} {hd : Hold} (hg : AL.get? c.holds (okey x) = some hd) :
    hd.queue = [] ∨ hd.queue = [note x] := by
  obtain ⟨y, hy, hq⟩ := h.holdKeys _ (AL.mem_of_get? hg)
  have : x = y := okey_inj hy
  subst this
  exact hq

theorem isDisabled_sender {c : Center} (h : Shape c) (n : Name) (x : Nat) :
    isDisabled c (senderKeys n x) = AL.contains c.disabled (okey x) := by
  have h1 := contains_false_of_keys h.disKeys (none, none, none) (by intro y; simp [okey])
  have h2 := contains_false_of_keys h.disKeys (some n, none, none) (by intro y; simp [okey])
  have h3 := contains_false_of_keys h.disKeys (some n, some x, none) (by intro y; simp [okey])
  simp [isDisabled, senderKeys, h1, h2, h3, okey]

theorem firstHold_sender {c : Center} (h : Shape c) (n : Name) (x : Nat) :
    firstHold c (senderKeys n x) = if AL.contains c.holds (okey x) then some (okey x) else none := by
  have h1 := contains_false_of_keys h.holdKeys' (none, none, none) (by intro y; simp [okey])
  have h2 := contains_false_of_keys h.holdKeys' (some n, none, none) (by intro y; simp [okey])
  have h3 := contains_false_of_keys h.holdKeys' (some n, some x, none) (by intro y; simp [okey])
  by_cases hc : AL.contains c.holds (none, some x, none) = true
  · simp [firstHold, senderKeys, List.find?, h1, h2, okey, hc]
  · simp [firstHold, senderKeys, List.find?, h1, h2, h3, okey, hc]

theorem isDisabled_observer {c : Center} (h : Shape c) (n : Name) (s o : Nat) :
    isDisabled c (observerKeys n s o) = false := by
  have h1 := contains_false_of_keys h.disKeys (none, none, some o) (by intro y; simp [okey])
  have h2 := contains_false_of_keys h.disKeys (some n, none, some o) (by intro y; simp [okey])
  have h3 := contains_false_of_keys h.disKeys (none, some s, some o) (by intro y; simp [okey])
  have h4 := contains_false_of_keys h.disKeys (some n, some s, some o) (by intro y; simp [okey])
  simp [isDisabled, observerKeys, h1, h2, h3, h4]

theorem firstHold_observer {c : Center} (h : Shape c) (n : Name) (s o : Nat) :
    firstHold c (observerKeys n s o) = none := by
  have h1 := contains_false_of_keys h.holdKeys' (none, none, some o) (by intro y; simp [okey])
  have h2 := contains_false_of_keys h.holdKeys' (some n, none, some o) (by intro y; simp [okey])
  have h3 := contains_false_of_keys h.holdKeys' (none, some s, some o) (by intro y; simp [okey])
  have h4 := contains_false_of_keys h.holdKeys' (some n, some s, some o) (by intro y; simp [okey])
  simp [firstHold, observerKeys, List.find?, h1, h2, h3, h4]

/-! ### observing events -/

@[simp] theorem observe_nil (lg : Obj) (st : List Nat × List Nat) : observe lg [] st = st := rfl

@[simp] theorem observe_cons (lg : Obj) (e : Ev) (evs : List Ev) (st : List Nat × List Nat) :
    observe lg (e :: evs) st = observe lg evs (obsEv lg st e) := rfl

@[simp] theorem observe_append (lg : Obj) (a b : List Ev) (st : List Nat × List Nat) :
    observe lg (a ++ b) st = observe lg b (observe lg a st) := by
  simp [observe, List.foldl_append]

@[simp] theorem obsEv_ret (lg : Obj) (st : List Nat × List Nat) (r : Res) : obsEv lg st (.ret r) = st := rfl

@[simp] theorem obsEv_logger (lg : Obj) (st : List Nat × List Nat) (n : Name) (s : Obj) (d : Data) :
    obsEv lg st (.deliver lg logM n s d) = (st.1, st.2 ++ [s]) := by
  simp [obsEv, logM, childChanged]

@[simp] theorem obsEv_parent (lg : Obj) (st : List Nat × List Nat) (p : Obj) (n : Name) (s : Obj) (d : Data) :
    obsEv lg st (.deliver p childChanged n s d) = (setFlagL st.1 p, st.2) := by
  simp [obsEv]

/-- results of operations leave the observation alone -/
theorem observe_rets (lg : Obj) (evs : List Ev) (h : ∀ e ∈ evs, ∃ r, e = .ret r) (st : List Nat × List Nat) :
    observe lg evs st = st := by
  induction evs generalizing st with
  | nil => rfl
  | cons e r ih =>
    obtain ⟨res, rfl⟩ := h e (by simp)
    simp only [observe_cons, obsEv_ret]
    exact ih (fun e he => h e (List.mem_cons_of_mem _ he)) st

theorem setFlag_dirty (s : Dirty.State) (x : Nat) : (Dirty.setFlag s x).dirty = setFlagL s.dirty x := by
  unfold Dirty.setFlag setFlagL
  split <;> rfl

theorem setFlag_log (s : Dirty.State) (x : Nat) : (Dirty.setFlag s x).log = s.log := by
  unfold Dirty.setFlag; split <;> rfl
theorem setFlag_holds (s : Dirty.State) (x : Nat) : (Dirty.setFlag s x).holds = s.holds := by
  unfold Dirty.setFlag; split <;> rfl
theorem setFlag_pending (s : Dirty.State) (x : Nat) : (Dirty.setFlag s x).pending = s.pending := by
  unfold Dirty.setFlag; split <;> rfl
theorem setFlag_disabled (s : Dirty.State) (x : Nat) : (Dirty.setFlag s x).disabled = s.disabled := by
  unfold Dirty.setFlag; split <;> rfl

/-! ### one `post Changed x` in a well-shaped centre, case by case -/

theorem runAll_cons' {α} (f : Center → α → Center × List Ev) (c : Center) (x : α) (xs : List α) :
    runAll f c (x :: xs) = ((runAll f (f c x).1 xs).1, (f c x).2 ++ (runAll f (f c x).1 xs).2) := rfl

theorem post_disabled (rec : Center → Op → Center × List Ev) {c : Center} (h : Shape c) (x : Nat)
    (hd : AL.contains c.disabled (okey x) = true) : post rec c changed x 0 none = (c, []) := by
  unfold post
  rw [isDisabled_sender h, hd]
  simp

theorem post_held (rec : Center → Op → Center × List Ev) {c : Center} (h : Shape c) (x : Nat)
    (hd : AL.contains c.disabled (okey x) = false) (hh : AL.contains c.holds (okey x) = true) :
    post rec c changed x 0 none = (enqueue c (okey x) (note x), []) := by
  unfold post
  rw [isDisabled_sender h, hd, firstHold_sender h, hh]
  simp [note]

theorem post_open (rec : Center → Op → Center × List Ev) {c : Center} (h : Shape c) (x : Nat)
    (hd : AL.contains c.disabled (okey x) = false) (hh : AL.contains c.holds (okey x) = false) :
    post rec c changed x 0 none = runAll (deliverKey rec changed x 0 none) c (registryKeys changed x) := by
  unfold post
  rw [isDisabled_sender h, hd, firstHold_sender h, hh]
  simp

theorem deliverKey_empty (rec : Center → Op → Center × List Ev) (n : Name) (s : Obj) (d : Data) (t : Option Obj)
    {c : Center} {k : RKey} (h : regsAt c k = []) : deliverKey rec n s d t c k = (c, []) := by
  unfold deliverKey; rw [h]; rfl

theorem deliverOne_plain (rec : Center → Op → Center × List Ev) (n : Name) (s : Obj) (d : Data)
    {c : Center} (h : Shape c) (r : Reg) (ha : r.observer ∉ c.dead) :
    deliverOne rec n s d none c r = callback rec c r n s d := by
  unfold deliverOne
  rw [isDisabled_observer h, firstHold_observer h]
  simp [ha]

theorem deliverKey_single (rec : Center → Op → Center × List Ev) (n : Name) (s : Obj) (d : Data)
    {c : Center} (h : Shape c) {k : RKey} {r : Reg} (hr : regsAt c k = [r]) (ha : r.observer ∉ c.dead) :
    deliverKey rec n s d none c k = callback rec c r n s d := by
  unfold deliverKey
  rw [hr, runAll_cons', deliverOne_plain rec n s d h r ha]
  simp [runAll]

theorem callback_plain (rec : Center → Op → Center × List Ev) (c : Center) (r : Reg) (n : Name) (s : Obj) (d : Data)
    (h : AL.get? c.scripts (r.observer, r.meth) = none) :
    callback rec c r n s d = (c, [.deliver r.observer r.meth n s d]) := by
  unfold callback; rw [h]

theorem callback_script (rec : Center → Op → Center × List Ev) (c : Center) (r : Reg) (n : Name) (s : Obj) (d : Data)
    (ops : List Op) (h : AL.get? c.scripts (r.observer, r.meth) = some ops) :
    callback rec c r n s d =
      ((runAll rec { c with scripts := AL.erase c.scripts (r.observer, r.meth) } ops).1,
        .deliver r.observer r.meth n s d ::
          (runAll rec { c with scripts := AL.erase c.scripts (r.observer, r.meth) } ops).2) := by
  unfold callback; rw [h]

/-- the centre after the callback of `p` has consumed its script -/
def fired (c : Center) (p : Nat) : Center := { c with scripts := AL.erase c.scripts (p, childChanged) }

/-- not held, not disabled, top of the chain: the logger hears it, nobody else -/
theorem post_top (rec : Center → Op → Center × List Ev) (lg : Obj) {c : Center} {x : Nat}
    (hr : Regs lg [x] c) (h : Shape c) (hl : lg ∉ c.dead) (hp : AL.get? c.scripts (lg, logM) = none)
    (hd : AL.contains c.disabled (okey x) = false) (hh : AL.contains c.holds (okey x) = false) :
    post rec c changed x 0 none = (c, [.deliver lg logM changed x 0]) := by
  rw [post_open rec h x hd hh]
  have e1 : deliverKey rec changed x 0 none c (none, none) = (c, [.deliver lg logM changed x 0]) := by
    rw [deliverKey_single rec changed x 0 h hr.logger hl, callback_plain _ _ _ _ _ _ hp]
  have e2 := deliverKey_empty rec changed x 0 none (hr.byObj x (by simp))
  have e3 := deliverKey_empty rec changed x 0 none hr.byName
  have e4 : deliverKey rec changed x 0 none c (some changed, some x) = (c, []) :=
    deliverKey_empty rec changed x 0 none hr.chain
  simp [registryKeys, runAll_cons', e1, e2, e3, e4, runAll]

/-- not held, not disabled, with a parent `p`: the logger hears it, then the parent's callback runs (flag, then
`Changed` of `p` one level of fuel down) -/
theorem post_step (fuel : Nat) (lg : Obj) {c : Center} {x p : Nat} {r : List Nat}
    (hr : Regs lg (x :: p :: r) c) (h : Shape c) (hl : lg ∉ c.dead) (hpa : p ∉ c.dead)
    (hp : AL.get? c.scripts (lg, logM) = none)
    (hs : AL.get? c.scripts (p, childChanged) = some (parentScript p))
    (hd : AL.contains c.disabled (okey x) = false) (hh : AL.contains c.holds (okey x) = false) :
    post (exec (fuel + 1)) c changed x 0 none =
      ((post (exec fuel) (fired c p) changed p 0 none).1,
        .deliver lg logM changed x 0 :: .deliver p childChanged changed x 0 ::
          ((post (exec fuel) (fired c p) changed p 0 none).2 ++ [.ret .ok])) := by
  rw [post_open _ h x hd hh]
  have e1 : deliverKey (exec (fuel + 1)) changed x 0 none c (none, none) = (c, [.deliver lg logM changed x 0]) := by
    rw [deliverKey_single _ changed x 0 h hr.logger hl, callback_plain _ _ _ _ _ _ hp]
  have e2 := deliverKey_empty (exec (fuel + 1)) changed x 0 none (hr.byObj x (by simp))
  have e3 := deliverKey_empty (exec (fuel + 1)) changed x 0 none hr.byName
  have e4 : deliverKey (exec (fuel + 1)) changed x 0 none c (some changed, some x) =
      ((post (exec fuel) (fired c p) changed p 0 none).1,
        .deliver p childChanged changed x 0 :: ((post (exec fuel) (fired c p) changed p 0 none).2 ++ [.ret .ok])) := by
    rw [deliverKey_single _ changed x 0 h hr.chain.1 hpa, callback_script _ _ _ _ _ _ _ hs]
    simp [parentScript, runAll_cons', runAll, exec, step, fired]
  simp [registryKeys, runAll_cons', e1, e2, e3, e4, runAll]

/-! ### M-Dirty's `announce`, case by case -/

theorem announce_disabled (s : Dirty.State) (x : Nat) (rest : List Nat) (hd : x ∈ s.disabled) :
    Dirty.announce s (x :: rest) = s := by
  simp [Dirty.announce, hd]

theorem announce_held (s : Dirty.State) (x : Nat) (rest : List Nat) (hd : x ∉ s.disabled) (hh : Dirty.held s x = true) :
    Dirty.announce s (x :: rest) = if x ∈ s.pending then s else { s with pending := s.pending ++ [x] } := by
  simp [Dirty.announce, hd, hh]

theorem announce_top (s : Dirty.State) (x : Nat) (hd : x ∉ s.disabled) (hh : Dirty.held s x = false) :
    Dirty.announce s [x] = { s with log := s.log ++ [x] } := by
  simp [Dirty.announce, hd, hh]

theorem announce_step (s : Dirty.State) (x p : Nat) (r : List Nat) (hd : x ∉ s.disabled) (hh : Dirty.held s x = false) :
    Dirty.announce s (x :: p :: r) = Dirty.announce (Dirty.setFlag { s with log := s.log ++ [x] } p) (p :: r) := by
  rw [Dirty.announce]
  simp [hd, hh]

/-! ### structural facts -/

theorem Regs.tail {lg : Obj} {x : Nat} {rest : List Nat} {c : Center} (h : Regs lg (x :: rest) c) : Regs lg rest c := by
  refine ⟨h.logger, h.byName, fun a ha => h.byObj a (List.mem_cons_of_mem _ ha), ?_⟩
  cases rest with
  | nil => trivial
  | cons p r => exact h.chain.2

theorem regChain_congr {c c' : Center} (h : c'.registry = c.registry) (chain : List Nat) :
    RegChain c chain → RegChain c' chain := by
  have hk : ∀ k, regsAt c' k = regsAt c k := by intro k; simp [regsAt, h]
  induction chain with
  | nil => intro _; trivial
  | cons x rest ih =>
    cases rest with
    | nil => intro hc; simp only [RegChain] at hc ⊢; rw [hk]; exact hc
    | cons p r =>
      intro hc
      exact ⟨by rw [hk]; exact hc.1, ih hc.2⟩

theorem Regs.congr {lg : Obj} {chain : List Nat} {c c' : Center} (h : c'.registry = c.registry)
    (hr : Regs lg chain c) : Regs lg chain c' := by
  have hk : ∀ k, regsAt c' k = regsAt c k := by intro k; simp [regsAt, h]
  exact ⟨by rw [hk]; exact hr.logger, by rw [hk]; exact hr.byName,
    fun x hx => by rw [hk]; exact hr.byObj x hx, regChain_congr h chain hr.chain⟩

theorem Shape.congr {c c' : Center} (h : Shape c) (h1 : c'.holds = c.holds) (h2 : c'.disabled = c.disabled) : Shape c' :=
  ⟨by rw [h1]; exact h.holdKeys, by rw [h1]; exact h.holdsNodup, by rw [h2]; exact h.disKeys⟩

theorem okey_ne {a b : Nat} (h : a ≠ b) : okey a ≠ okey b := fun e => h (okey_inj e)

/-- what one execution establishes: the registry and the dead set are untouched, the centre is still
well-shaped, the logger is still passive, and the observed state simulates `s'` -/
structure Step (lg : Obj) (c : Center) (fl lo : List Nat) (c' : Center) (evs : List Ev) (s' : Dirty.State) : Prop where
  registry : c'.registry = c.registry
  dead : c'.dead = c.dead
  shape : Shape c'
  lgPlain : AL.get? c'.scripts (lg, logM) = none
  sim : Sim ⟨c', (observe lg evs (fl, lo)).1, (observe lg evs (fl, lo)).2⟩ s'

/-- queuing `Changed` of `x` in the hold on `x` -/
theorem enqueue_step (lg : Obj) {c : Center} {fl lo : List Nat} {s : Dirty.State} (x : Nat)
    (hS : Shape c) (hp : AL.get? c.scripts (lg, logM) = none) (hsim : Sim ⟨c, fl, lo⟩ s)
    (hh : AL.contains c.holds (okey x) = true) :
    Step lg c fl lo (enqueue c (okey x) (note x)) []
      (if x ∈ s.pending then s else { s with pending := s.pending ++ [x] }) := by
  obtain ⟨h, hg⟩ := (AL.contains_iff_get? _ _).mp hh
  unfold enqueue
  rw [hg]
  simp only
  rcases queue_cases hS hg with hq | hq
  · -- nothing queued yet
    have hx : x ∉ s.pending := by
      intro hx
      obtain ⟨h', hg', hne⟩ := (hsim.pending x).mp hx
      rw [hg] at hg'; cases hg'
      exact hne hq
    have hn : note x ∉ h.queue := by rw [hq]; simp
    simp only [hn, hx, if_false]
    refine ⟨rfl, rfl, ⟨?_, ?_, hS.disKeys⟩, hp, ⟨hsim.dirty, hsim.log, ?_, ?_, hsim.disabled⟩⟩
    · intro q hqm
      rcases AL.mem_set hqm with e | e
      · subst e; exact ⟨x, rfl, Or.inr (by simp [hq])⟩
      · exact hS.holdKeys q e
    · exact AL.nodup_keys_set _ _ _ hS.holdsNodup
    · show s.holds = (AL.set c.holds (okey x) _).map _
      rw [al_set_map_same nodeOf Hold.count c.holds (okey x) h { h with queue := h.queue ++ [note x] } hg rfl]
      exact hsim.holds
    · intro y
      show y ∈ s.pending ++ [x] ↔ queued _ y
      by_cases e : y = x
      · subst e
        simp only [List.mem_append, List.mem_singleton, or_true, true_iff]
        exact ⟨_, AL.get?_set_self _ _ _, by simp⟩
      · have hne : okey x ≠ okey y := okey_ne (fun e' => e e'.symm)
        simp only [List.mem_append, List.mem_singleton, e, or_false]
        rw [hsim.pending y]
        unfold queued
        simp only [AL.get?_set_ne _ _ _ _ hne]
  · -- already queued: coalesced
    have hx : x ∈ s.pending := (hsim.pending x).mpr ⟨h, hg, by rw [hq]; simp⟩
    have hn : note x ∈ h.queue := by rw [hq]; simp
    simp only [hn, hx, if_true]
    exact ⟨rfl, rfl, hS, hp, hsim⟩

theorem sim_disabled_iff {k : Conc} {s : Dirty.State} (h : Sim k s) (x : Nat) :
    x ∉ s.disabled ↔ AL.contains k.centre.disabled (okey x) = false := by
  rw [h.disabled x]; cases AL.contains k.centre.disabled (okey x) <;> simp

/-- THE INDUCTION ON THE CHAIN.  In a wired and armed centre with an arbitrary pattern of object-scoped holds
and disables, with fuel for the length of the chain, `post Changed x` does - as seen through the observed flags,
the logger and the hold table - exactly what M-Dirty's `announce` does along `x :: rest`. -/
theorem post_sim (lg : Obj) (rest : List Nat) : ∀ (fuel : Nat) (x : Nat) (c : Center) (fl lo : List Nat) (s : Dirty.State),
    rest.length ≤ fuel → (x :: rest).Nodup → Regs lg (x :: rest) c → Armed c (x :: rest) → Shape c →
    (∀ a ∈ x :: rest, a ∉ c.dead) → lg ∉ c.dead → AL.get? c.scripts (lg, logM) = none →
    Sim ⟨c, fl, lo⟩ s →
    Step lg c fl lo (post (exec fuel) c changed x 0 none).1 (post (exec fuel) c changed x 0 none).2
      (Dirty.announce s (x :: rest)) := by
  induction rest with
  | nil =>
    intro fuel x c fl lo s _ _ hr _ hS _ hl hp hsim
    by_cases hd : AL.contains c.disabled (okey x) = true
    · rw [post_disabled _ hS x hd, announce_disabled s x [] ((hsim.disabled x).mpr hd)]
      exact ⟨rfl, rfl, hS, hp, hsim⟩
    · have hd' : AL.contains c.disabled (okey x) = false := by simpa using hd
      have hds : x ∉ s.disabled := (sim_disabled_iff hsim x).mpr hd'
      by_cases hh : AL.contains c.holds (okey x) = true
      · rw [post_held _ hS x hd' hh, announce_held s x [] hds (by rw [held_iff hS hsim.holds]; exact hh)]
        exact enqueue_step lg x hS hp hsim hh
      · have hh' : AL.contains c.holds (okey x) = false := by simpa using hh
        rw [post_top _ lg hr hS hl hp hd' hh', announce_top s x hds (by rw [held_iff hS hsim.holds]; exact hh')]
        refine ⟨rfl, rfl, hS, hp, ?_⟩
        simp only [observe_cons, observe_nil, obsEv_logger]
        exact ⟨hsim.dirty, by show s.log ++ [x] = lo ++ [x]; rw [hsim.log], hsim.holds, hsim.pending, hsim.disabled⟩
  | cons p r ih =>
    intro fuel x c fl lo s hf hnd hr ha hS hal hl hp hsim
    by_cases hd : AL.contains c.disabled (okey x) = true
    · rw [post_disabled _ hS x hd, announce_disabled s x _ ((hsim.disabled x).mpr hd)]
      exact ⟨rfl, rfl, hS, hp, hsim⟩
    · have hd' : AL.contains c.disabled (okey x) = false := by simpa using hd
      have hds : x ∉ s.disabled := (sim_disabled_iff hsim x).mpr hd'
      by_cases hh : AL.contains c.holds (okey x) = true
      · rw [post_held _ hS x hd' hh, announce_held s x _ hds (by rw [held_iff hS hsim.holds]; exact hh)]
        exact enqueue_step lg x hS hp hsim hh
      · have hh' : AL.contains c.holds (okey x) = false := by simpa using hh
        obtain ⟨f, rfl⟩ : ∃ f, fuel = f + 1 := by
          cases fuel with
          | zero => simp at hf
          | succ f => exact ⟨f, rfl⟩
        have hnd' : (p :: r).Nodup := (List.nodup_cons.mp hnd).2
        have hpr : p ∉ r := (List.nodup_cons.mp hnd').1
        have hs : AL.get? c.scripts (p, childChanged) = some (parentScript p) := ha p (by simp)
        rw [post_step f lg hr hS hl (hal p (by simp)) hp hs hd' hh',
          announce_step s x p r hds (by rw [held_iff hS hsim.holds]; exact hh')]
        -- the state in which the parent's post starts
        have hsim1 : Sim ⟨fired c p, setFlagL fl p, lo ++ [x]⟩ (Dirty.setFlag { s with log := s.log ++ [x] } p) := by
          refine ⟨?_, ?_, ?_, ?_, ?_⟩
          · rw [setFlag_dirty]; show setFlagL s.dirty p = _; rw [hsim.dirty]
          · rw [setFlag_log]; show s.log ++ [x] = _; rw [hsim.log]
          · rw [setFlag_holds]; exact hsim.holds
          · rw [setFlag_pending]; exact hsim.pending
          · rw [setFlag_disabled]; exact hsim.disabled
        have hp1 : AL.get? (fired c p).scripts (lg, logM) = none := by
          show AL.get? (AL.erase c.scripts (p, childChanged)) (lg, logM) = none
          rw [AL.get?_erase_ne _ _ _ (by simp [logM, childChanged])]; exact hp
        have ha1 : Armed (fired c p) (p :: r) := by
          intro a har
          show AL.get? (AL.erase c.scripts (p, childChanged)) (a, childChanged) = _
          have hap : a ≠ p := fun e => hpr (e ▸ har)
          rw [AL.get?_erase_ne _ _ _ (fun e => hap (Prod.mk.inj e).1.symm)]
          exact ha a (List.mem_cons_of_mem _ har)
        have hrec := ih f p (fired c p) (setFlagL fl p) (lo ++ [x]) _ (by simpa using hf) hnd'
          (Regs.congr (c := c) rfl hr.tail) ha1 (hS.congr rfl rfl)
          (fun a ha' => hal a (List.mem_cons_of_mem _ ha')) hl hp1 hsim1
        refine ⟨hrec.registry, hrec.dead, hrec.shape, hrec.lgPlain, ?_⟩
        have := hrec.sim
        simpa using this

/-! ### arming -/

theorem armC_frame (c : Center) (chain : List Nat) :
    (armC c chain).registry = c.registry ∧ (armC c chain).holds = c.holds ∧
    (armC c chain).disabled = c.disabled ∧ (armC c chain).dead = c.dead := by
  induction chain generalizing c with
  | nil => exact ⟨rfl, rfl, rfl, rfl⟩
  | cons x rest ih =>
    cases rest with
    | nil => exact ⟨rfl, rfl, rfl, rfl⟩
    | cons p r => exact ih _

theorem armC_scripts_other (c : Center) (chain : List Nat) (key : Obj × Meth)
    (h : ∀ a ∈ chain.tail, (a, childChanged) ≠ key) :
    AL.get? (armC c chain).scripts key = AL.get? c.scripts key := by
  induction chain generalizing c with
  | nil => rfl
  | cons x rest ih =>
    cases rest with
    | nil => rfl
    | cons p r =>
      show AL.get? (armC _ (p :: r)).scripts key = _
      rw [ih _ (fun a ha => h a (List.mem_cons_of_mem _ ha))]
      exact AL.get?_set_ne _ _ _ _ (h p (by simp))

theorem armC_armed (c : Center) (chain : List Nat) (hnd : chain.Nodup) : Armed (armC c chain) chain := by
  induction chain generalizing c with
  | nil => intro a ha; simp at ha
  | cons x rest ih =>
    cases rest with
    | nil => intro a ha; simp at ha
    | cons p r =>
      have hnd' : (p :: r).Nodup := (List.nodup_cons.mp hnd).2
      have hpr : p ∉ r := (List.nodup_cons.mp hnd').1
      intro a ha
      simp only [List.tail_cons, List.mem_cons] at ha
      rcases ha with rfl | ha
      · show AL.get? (armC _ (a :: r)).scripts (a, childChanged) = _
        rw [armC_scripts_other _ _ _ (fun b hb e => hpr (by rw [← (Prod.mk.inj e).1]; exact hb))]
        exact AL.get?_set_self _ _ _
      · exact ih _ hnd' a ha

/-- running the arming operations = `armC`, and only operation results are emitted -/
theorem run_arm (fuel : Nat) (chain : List Nat) (ops : List Op) (c : Center) :
    ∃ pre, (∀ e ∈ pre, ∃ r, e = Ev.ret r) ∧
      runAll (exec (fuel + 1)) c (arm chain ++ ops) =
        ((runAll (exec (fuel + 1)) (armC c chain) ops).1, pre ++ (runAll (exec (fuel + 1)) (armC c chain) ops).2) := by
  induction chain generalizing c with
  | nil => exact ⟨[], by simp, rfl⟩
  | cons x rest ih =>
    cases rest with
    | nil => exact ⟨[], by simp, rfl⟩
    | cons p r =>
      obtain ⟨pre, hpre, he⟩ := ih { c with scripts := AL.set c.scripts (p, childChanged) (parentScript p) }
      refine ⟨.ret .ok :: pre, ?_, ?_⟩
      · intro e hm
        simp only [List.mem_cons] at hm
        rcases hm with rfl | hm
        · exact ⟨_, rfl⟩
        · exact hpre e hm
      · show runAll (exec (fuel + 1)) c (Op.script p childChanged (parentScript p) :: (arm (p :: r) ++ ops)) = _
        rw [runAll_cons']
        show ((runAll (exec (fuel + 1)) { c with scripts := AL.set c.scripts (p, childChanged) (parentScript p) }
            (arm (p :: r) ++ ops)).1, [Ev.ret Res.ok] ++ (runAll (exec (fuel + 1))
            { c with scripts := AL.set c.scripts (p, childChanged) (parentScript p) } (arm (p :: r) ++ ops)).2) = _
        rw [he]
        rfl

/-- the simulation relation looks at the hold and disable tables only -/
theorem Sim.congr {c c' : Center} {fl lo : List Nat} {s : Dirty.State} (h : Sim ⟨c, fl, lo⟩ s)
    (h1 : c'.holds = c.holds) (h2 : c'.disabled = c.disabled) : Sim ⟨c', fl, lo⟩ s := by
  refine ⟨h.dirty, h.log, ?_, ?_, ?_⟩
  · show s.holds = absHolds c'
    unfold absHolds; rw [h1]; exact h.holds
  · intro y
    rw [h.pending y]
    show queued c y ↔ queued c' y
    unfold queued; rw [h1]
  · intro y
    rw [h.disabled y]
    show AL.contains c.disabled _ = true ↔ AL.contains c'.disabled _ = true
    rw [h2]

/-- hypotheses of `post_sim` from `Wired`, after arming -/
theorem Wired.step {lg : Obj} {chain : List Nat} {c c' : Center}
    (hw : Wired lg chain c) (h1 : c'.registry = c.registry) (h2 : c'.dead = c.dead) (h3 : Shape c')
    (h4 : AL.get? c'.scripts (lg, logM) = none) : Wired lg chain c' :=
  ⟨hw.regs.congr h1, h3, hw.nodup, by rw [h2]; exact hw.alive, by rw [h2]; exact hw.lgAlive, h4⟩

/-! ### release -/

theorem sim_erase {c : Center} {fl lo : List Nat} {s : Dirty.State} {x : Nat}
    (hS : Shape c) (hsim : Sim ⟨c, fl, lo⟩ s) (pend' : List Nat)
    (hp : ∀ y, y ∈ pend' ↔ y ∈ s.pending ∧ y ≠ x) :
    Shape { c with holds := AL.erase c.holds (okey x) } ∧
    Sim ⟨{ c with holds := AL.erase c.holds (okey x) }, fl, lo⟩
      { s with holds := AL.erase s.holds x, pending := pend' } := by
  refine ⟨⟨fun q hq => hS.holdKeys q (AL.mem_erase hq), AL.nodup_keys_erase _ _ hS.holdsNodup, hS.disKeys⟩,
    ⟨hsim.dirty, hsim.log, ?_, ?_, hsim.disabled⟩⟩
  · show AL.erase s.holds x = (AL.erase c.holds (okey x)).map _
    rw [al_erase_map nodeOf Hold.count c.holds (okey x) (hS.inj_holds x), hsim.holds]
    rfl
  · intro y
    show y ∈ pend' ↔ queued _ y
    rw [hp y, hsim.pending y]
    unfold queued
    show _ ↔ ∃ h, AL.get? (AL.erase c.holds (okey x)) (okey y) = some h ∧ h.queue ≠ []
    by_cases e : y = x
    · subst e
      rw [AL.get?_erase_self_of_nodup _ _ hS.holdsNodup]
      simp
    · rw [AL.get?_erase_ne _ _ _ (okey_ne (fun e' => e e'.symm))]
      simp [e]

/-- `release` of the object-scoped hold on `x` in a wired and armed centre is M-Dirty's `release` -/
theorem release_sim (lg : Obj) (fuel : Nat) (x : Nat) (rest : List Nat) (c : Center) (fl lo : List Nat) (s : Dirty.State)
    (hf : rest.length ≤ fuel) (hnd : (x :: rest).Nodup) (hr : Regs lg (x :: rest) c) (ha : Armed c (x :: rest))
    (hS : Shape c) (hal : ∀ a ∈ x :: rest, a ∉ c.dead) (hl : lg ∉ c.dead)
    (hp : AL.get? c.scripts (lg, logM) = none) (hsim : Sim ⟨c, fl, lo⟩ s) :
    Step lg c fl lo (release (exec fuel) c (okey x)).1 (release (exec fuel) c (okey x)).2
      (Dirty.release s x rest) := by
  have hget : AL.get? s.holds x = (AL.get? c.holds (okey x)).map Hold.count := by
    rw [hsim.holds]; exact get?_absHolds hS x
  cases hg : AL.get? c.holds (okey x) with
  | none =>
    rw [hg] at hget
    simp only [release, hg, Dirty.release, hget, Option.map_none]
    exact ⟨rfl, rfl, hS, hp, by simpa using hsim⟩
  | some h =>
    rw [hg] at hget
    simp only [Option.map_some] at hget
    by_cases hn : h.count - 1 = 0
    · rcases queue_cases hS hg with hq | hq
      · -- nothing was queued
        have hx : x ∉ s.pending := by
          intro hx
          obtain ⟨h', hg', hne⟩ := (hsim.pending x).mp hx
          rw [hg] at hg'; cases hg'
          exact hne hq
        obtain ⟨hS1, hsim1⟩ := sim_erase (x := x) hS hsim s.pending
          (fun y => ⟨fun hy => ⟨hy, fun e => hx (e ▸ hy)⟩, fun hy => hy.1⟩)
        simp only [release, hg, hn, if_true, hq, runAll, Dirty.release, hget, hx, if_false]
        exact ⟨rfl, rfl, hS1, hp, by simpa using hsim1⟩
      · -- `Changed` of `x` was queued: it is posted again
        have hx : x ∈ s.pending := (hsim.pending x).mpr ⟨h, hg, by rw [hq]; simp⟩
        obtain ⟨hS1, hsim1⟩ := sim_erase (x := x) hS hsim (s.pending.filter (· ≠ x))
          (fun y => by simp)
        have hxa : x ∉ c.dead := hal x (by simp)
        have hrec := post_sim lg rest fuel x { c with holds := AL.erase c.holds (okey x) } fl lo _ hf hnd
          (Regs.congr (c := c) rfl hr) ha hS1 hal hl hp hsim1
        have hrel : release (exec fuel) c (okey x) =
            ((post (exec fuel) { c with holds := AL.erase c.holds (okey x) } changed x 0 none).1,
              (post (exec fuel) { c with holds := AL.erase c.holds (okey x) } changed x 0 none).2 ++ [.ret .ok]) := by
          simp [release, hg, hn, hq, runAll, repost, note, hxa]
        have hdr : Dirty.release s x rest =
            Dirty.announce { s with holds := AL.erase s.holds x, pending := s.pending.filter (· ≠ x) } (x :: rest) := by
          simp [Dirty.release, hget, hn, hx]
        rw [hrel, hdr]
        refine ⟨hrec.registry, hrec.dead, hrec.shape, hrec.lgPlain, ?_⟩
        have := hrec.sim
        simpa using this
    · -- a nested hold: only the count goes down
      simp only [release, hg, hn, if_false, Dirty.release, hget]
      refine ⟨rfl, rfl, ⟨?_, AL.nodup_keys_set _ _ _ hS.holdsNodup, hS.disKeys⟩, hp, ?_⟩
      · intro q hqm
        rcases AL.mem_set hqm with e | e
        · subst e
          exact ⟨x, rfl, (queue_cases hS hg : h.queue = [] ∨ h.queue = [note x])⟩
        · exact hS.holdKeys q e
      · simp only [observe_cons, observe_nil, obsEv_ret]
        refine ⟨hsim.dirty, hsim.log, ?_, ?_, hsim.disabled⟩
        · show AL.set s.holds x (h.count - 1) = (AL.set c.holds (okey x) _).map _
          rw [al_set_map nodeOf Hold.count c.holds (okey x) _ (hS.inj_holds x), hsim.holds]
          rfl
        · intro y
          rw [hsim.pending y]
          show queued c y ↔ ∃ h', AL.get? (AL.set c.holds (okey x) _) (okey y) = some h' ∧ h'.queue ≠ []
          unfold queued
          by_cases e : y = x
          · subst e
            rw [AL.get?_set_self, hg]
            simp
          · rw [AL.get?_set_ne _ _ _ _ (okey_ne (fun e' => e e'.symm))]

/-! ### the four operations of M-Dirty, simulated -/

theorem Regs.suffix {lg : Obj} {c : Center} (pre : List Nat) {chain : List Nat} (h : Regs lg (pre ++ chain) c) :
    Regs lg chain c := by
  induction pre with
  | nil => exact h
  | cons a pre ih => exact ih (Regs.tail (x := a) h)

/-- a centre wired for a chain is wired for every upper part of it -/
theorem Wired.suffix {lg : Obj} {c : Center} (pre : List Nat) {chain : List Nat} (h : Wired lg (pre ++ chain) c) :
    Wired lg chain c :=
  ⟨h.regs.suffix pre, h.shape, (List.nodup_append.mp h.nodup).2.1,
    fun a ha => h.alive a (List.mem_append_right _ ha), h.lgAlive, h.lgPlain⟩

/-- arm, then one operation: what is observed is what that operation emits -/
theorem cRun_arm (lg : Obj) (f : Nat) (k : Conc) (chain : List Nat) (op : Op) :
    cRun lg (f + 1) k (arm chain ++ [op]) =
      ⟨(exec (f + 1) (armC k.centre chain) op).1,
        (observe lg (exec (f + 1) (armC k.centre chain) op).2 (k.flags, k.log)).1,
        (observe lg (exec (f + 1) (armC k.centre chain) op).2 (k.flags, k.log)).2⟩ := by
  obtain ⟨pre, hpre, he⟩ := run_arm f chain [op] k.centre
  unfold cRun run
  rw [he]
  simp only [observe_append, observe_rets lg pre hpre, runAll, List.append_nil]

/-- what one top-level operation establishes -/
structure Ok (lg : Obj) (chain : List Nat) (k k' : Conc) (s' : Dirty.State) : Prop where
  registry : k'.centre.registry = k.centre.registry
  wired : Wired lg chain k'.centre
  sim : Sim k' s'

theorem touch_ok (lg : Obj) (fuel : Nat) (k : Conc) (s : Dirty.State) (chain pre : List Nat) (x : Nat) (rest : List Nat)
    (hc : chain = pre ++ x :: rest) (hw : Wired lg chain k.centre) (hf : (x :: rest).length ≤ fuel) (hsim : Sim k s) :
    Ok lg chain k (cTouch lg fuel k x rest) (Dirty.touch s x rest) := by
  obtain ⟨f, rfl⟩ : ∃ f, fuel = f + 1 := by
    cases fuel with
    | zero => simp at hf
    | succ f => exact ⟨f, rfl⟩
  have hw' : Wired lg (x :: rest) k.centre := Wired.suffix pre (hc ▸ hw)
  obtain ⟨a1, a2, a3, a4⟩ := armC_frame k.centre (x :: rest)
  have hsim0 : Sim ⟨armC k.centre (x :: rest), setFlagL k.flags x, k.log⟩ (Dirty.setFlag s x) := by
    refine Sim.congr (c := k.centre) ⟨?_, ?_, ?_, ?_, ?_⟩ a2 a3
    · rw [setFlag_dirty, hsim.dirty]
    · rw [setFlag_log]; exact hsim.log
    · rw [setFlag_holds]; exact hsim.holds
    · rw [setFlag_pending]; exact hsim.pending
    · rw [setFlag_disabled]; exact hsim.disabled
  have hst := post_sim lg rest f x (armC k.centre (x :: rest)) (setFlagL k.flags x) k.log _
    (by simpa using hf) hw'.nodup (hw'.regs.congr a1) (armC_armed _ _ hw'.nodup) (hw'.shape.congr a2 a3)
    (by rw [a4]; exact hw'.alive) (by rw [a4]; exact hw'.lgAlive)
    (by rw [armC_scripts_other _ _ _ (fun a _ => by simp [logM, childChanged])]; exact hw'.lgPlain) hsim0
  unfold cTouch
  rw [cRun_arm]
  have hex : exec (f + 1) (armC k.centre (x :: rest)) (.post changed x 0 none) =
      ((post (exec f) (armC k.centre (x :: rest)) changed x 0 none).1,
        (post (exec f) (armC k.centre (x :: rest)) changed x 0 none).2 ++ [.ret .ok]) := rfl
  rw [hex]
  have hreg := hst.registry.trans a1
  refine ⟨hreg, hw.step hreg (hst.dead.trans a4) hst.shape hst.lgPlain, ?_⟩
  have := hst.sim
  simpa [Dirty.touch] using this

theorem release_ok (lg : Obj) (fuel : Nat) (k : Conc) (s : Dirty.State) (chain pre : List Nat) (x : Nat) (rest : List Nat)
    (hc : chain = pre ++ x :: rest) (hw : Wired lg chain k.centre) (hf : (x :: rest).length ≤ fuel) (hsim : Sim k s) :
    Ok lg chain k (cRelease lg fuel k x rest) (Dirty.release s x rest) := by
  obtain ⟨f, rfl⟩ : ∃ f, fuel = f + 1 := by
    cases fuel with
    | zero => simp at hf
    | succ f => exact ⟨f, rfl⟩
  have hw' : Wired lg (x :: rest) k.centre := Wired.suffix pre (hc ▸ hw)
  obtain ⟨a1, a2, a3, a4⟩ := armC_frame k.centre (x :: rest)
  have hsim0 : Sim ⟨armC k.centre (x :: rest), k.flags, k.log⟩ s := Sim.congr (c := k.centre) hsim a2 a3
  have hst := release_sim lg f x rest (armC k.centre (x :: rest)) k.flags k.log s
    (by simpa using hf) hw'.nodup (hw'.regs.congr a1) (armC_armed _ _ hw'.nodup) (hw'.shape.congr a2 a3)
    (by rw [a4]; exact hw'.alive) (by rw [a4]; exact hw'.lgAlive)
    (by rw [armC_scripts_other _ _ _ (fun a _ => by simp [logM, childChanged])]; exact hw'.lgPlain) hsim0
  unfold cRelease
  rw [cRun_arm]
  have hex : exec (f + 1) (armC k.centre (x :: rest)) (.release none (some x) none) =
      release (exec f) (armC k.centre (x :: rest)) (okey x) := rfl
  rw [hex]
  have hreg := hst.registry.trans a1
  exact ⟨hreg, hw.step hreg (hst.dead.trans a4) hst.shape hst.lgPlain, hst.sim⟩

theorem hold_ok (lg : Obj) (fuel : Nat) (k : Conc) (s : Dirty.State) (chain : List Nat) (x : Nat)
    (hw : Wired lg chain k.centre) (hf : 1 ≤ fuel) (hsim : Sim k s) :
    Ok lg chain k (cHold lg fuel k x) (Dirty.hold s x) := by
  obtain ⟨f, rfl⟩ : ∃ f, fuel = f + 1 := ⟨fuel - 1, by omega⟩
  have hS := hw.shape
  have hrun : cHold lg (f + 1) k x = ⟨hold k.centre (okey x) none, k.flags, k.log⟩ := rfl
  rw [hrun]
  have hget : AL.get? s.holds x = (AL.get? k.centre.holds (okey x)).map Hold.count := by
    rw [hsim.holds]; exact get?_absHolds hS x
  have hShape : Shape (hold k.centre (okey x) none) := by
    refine ⟨?_, AL.nodup_keys_set _ _ _ hS.holdsNodup, hS.disKeys⟩
    intro q hqm
    rcases AL.mem_set hqm with e | e
    · subst e
      refine ⟨x, rfl, ?_⟩
      cases hg : AL.get? k.centre.holds (okey x) with
      | none => exact Or.inl rfl
      | some h0 => exact (queue_cases hS hg : h0.queue = [] ∨ h0.queue = [note x])
    · exact hS.holdKeys q e
  refine ⟨rfl, hw.step rfl rfl hShape hw.lgPlain, ⟨hsim.dirty, hsim.log, ?_, ?_, hsim.disabled⟩⟩
  · show AL.set s.holds x ((AL.get? s.holds x).getD 0 + 1) = (AL.set k.centre.holds (okey x) _).map _
    have hh : s.holds = List.map (fun p => (nodeOf p.1, Hold.count p.2)) k.centre.holds := hsim.holds
    rw [hget, al_set_map nodeOf Hold.count k.centre.holds (okey x) _ (hS.inj_holds x), ← hh]
    cases AL.get? k.centre.holds (okey x) <;> rfl
  · intro y
    show y ∈ s.pending ↔ ∃ h', AL.get? (AL.set k.centre.holds (okey x) _) (okey y) = some h' ∧ h'.queue ≠ []
    rw [hsim.pending y]
    unfold queued
    by_cases e : y = x
    · subst e
      rw [AL.get?_set_self]
      cases AL.get? k.centre.holds (okey y) <;> simp
    · rw [AL.get?_set_ne _ _ _ _ (okey_ne (fun e' => e e'.symm))]

theorem disable_ok (lg : Obj) (fuel : Nat) (k : Conc) (s : Dirty.State) (chain : List Nat) (x : Nat)
    (hw : Wired lg chain k.centre) (hf : 1 ≤ fuel) (hsim : Sim k s) :
    Ok lg chain k (cDisable lg fuel k x) (Dirty.disable s x) := by
  obtain ⟨f, rfl⟩ : ∃ f, fuel = f + 1 := ⟨fuel - 1, by omega⟩
  have hS := hw.shape
  have hrun : cDisable lg (f + 1) k x = ⟨disable k.centre (okey x), k.flags, k.log⟩ := rfl
  rw [hrun]
  have hShape : Shape (disable k.centre (okey x)) := by
    refine ⟨hS.holdKeys, hS.holdsNodup, ?_⟩
    intro q hqm
    rcases AL.mem_set hqm with e | e
    · subst e; exact ⟨x, rfl⟩
    · exact hS.disKeys q e
  refine ⟨rfl, hw.step rfl rfl hShape hw.lgPlain, ⟨hsim.dirty, hsim.log, hsim.holds, hsim.pending, ?_⟩⟩
  intro y
  show y ∈ x :: s.disabled ↔ AL.contains (AL.set k.centre.disabled (okey x) _) (okey y) = true
  rw [AL.contains_set, List.mem_cons, hsim.disabled y]
  by_cases e : y = x
  · subst e; simp
  · have : okey x ≠ okey y := okey_ne (fun e' => e e'.symm)
    simp [e, this]

/-- **touch_simulates.**  In a centre wired for a chain, with an arbitrary pattern of object-scoped holds and
disables, storing the flag of a chain node `x` and executing `post Changed x` (fuel ≥ length of `x`'s chain) is, seen
through the abstraction, exactly M-Dirty's `touch` (the centre stays wired: next theorem). -/
theorem touch_simulates (lg : Obj) (fuel : Nat) (k : Conc) (s : Dirty.State) (chain pre : List Nat) (x : Nat)
    (rest : List Nat) (hc : chain = pre ++ x :: rest) (hw : Wired lg chain k.centre)
    (hf : (x :: rest).length ≤ fuel) (hsim : Sim k s) :
    Sim (cTouch lg fuel k x rest) (Dirty.touch s x rest) :=
  (touch_ok lg fuel k s chain pre x rest hc hw hf hsim).sim

/-- **release_simulates**: `release (None, x, None)` in the centre is M-Dirty's `release` -/
theorem release_simulates (lg : Obj) (fuel : Nat) (k : Conc) (s : Dirty.State) (chain pre : List Nat) (x : Nat)
    (rest : List Nat) (hc : chain = pre ++ x :: rest) (hw : Wired lg chain k.centre)
    (hf : (x :: rest).length ≤ fuel) (hsim : Sim k s) :
    Sim (cRelease lg fuel k x rest) (Dirty.release s x rest) :=
  (release_ok lg fuel k s chain pre x rest hc hw hf hsim).sim

/-- **hold_simulates** (any object `x`, on the chain or not) -/
theorem hold_simulates (lg : Obj) (fuel : Nat) (k : Conc) (s : Dirty.State) (chain : List Nat) (x : Nat)
    (hw : Wired lg chain k.centre) (hf : 1 ≤ fuel) (hsim : Sim k s) :
    Sim (cHold lg fuel k x) (Dirty.hold s x) :=
  (hold_ok lg fuel k s chain x hw hf hsim).sim

/-- **disable_simulates** (any object `x`) -/
theorem disable_simulates (lg : Obj) (fuel : Nat) (k : Conc) (s : Dirty.State) (chain : List Nat) (x : Nat)
    (hw : Wired lg chain k.centre) (hf : 1 ≤ fuel) (hsim : Sim k s) :
    Sim (cDisable lg fuel k x) (Dirty.disable s x) :=
  (disable_ok lg fuel k s chain x hw hf hsim).sim

/-! ### the abstraction function -/

theorem contains_of_mem {α : Type} {l : List (HKey × α)} {k : HKey} {v : α} (h : (k, v) ∈ l) : AL.contains l k = true := by
  induction l with
  | nil => simp at h
  | cons q r ih =>
    obtain ⟨k', v'⟩ := q
    by_cases e : k' = k
    · simp [AL.contains, e]
    · simp only [List.mem_cons, Prod.mk.injEq] at h
      rcases h with h | h
      · exact absurd h.1.symm e
      · have := ih h
        simpa [AL.contains, e] using this

/-- the abstraction of a well-shaped centre is in the simulation relation with it -/
theorem sim_abs (k : Conc) (hS : Shape k.centre) : Sim k (abs k) := by
  refine ⟨rfl, rfl, rfl, ?_, ?_⟩
  · intro y
    show y ∈ (k.centre.holds.filter (fun p => !p.2.queue.isEmpty)).map (fun p => nodeOf p.1) ↔ queued k.centre y
    constructor
    · intro hy
      obtain ⟨p, hp, hpy⟩ := List.mem_map.mp hy
      obtain ⟨hpm, hq⟩ := List.mem_filter.mp hp
      obtain ⟨y', hy', _⟩ := hS.holdKeys p hpm
      have : y' = y := by rw [hy'] at hpy; simpa using hpy
      subst this
      refine ⟨p.2, ?_, by simpa using hq⟩
      rw [← hy']
      exact AL.get?_of_mem_nodup hS.holdsNodup hpm
    · rintro ⟨h, hg, hne⟩
      refine List.mem_map.mpr ⟨(okey y, h), List.mem_filter.mpr ⟨AL.mem_of_get? hg, by simpa using hne⟩, rfl⟩
  · intro y
    show y ∈ k.centre.disabled.map (fun p => nodeOf p.1) ↔ _
    constructor
    · intro hy
      obtain ⟨p, hp, hpy⟩ := List.mem_map.mp hy
      obtain ⟨y', hy'⟩ := hS.disKeys p hp
      have : y' = y := by rw [hy'] at hpy; simpa using hpy
      subst this
      rw [← hy']
      exact contains_of_mem (v := p.2) hp
    · intro hc
      obtain ⟨v, hg⟩ := (AL.contains_iff_get? _ _).mp hc
      exact List.mem_map.mpr ⟨(okey y, v), AL.mem_of_get? hg, rfl⟩

/-- the simulation relation IS "equal to the abstraction, up to the order of `pending` and `disabled`" -/
theorem sim_iff_eqv (k : Conc) (hS : Shape k.centre) (s : Dirty.State) : Sim k s ↔ Eqv (abs k) s := by
  have h0 := sim_abs k hS
  constructor
  · intro h
    exact ⟨h0.dirty.trans h.dirty.symm, h0.log.trans h.log.symm, h0.holds.trans h.holds.symm,
      fun y => (h0.pending y).trans (h.pending y).symm, fun y => (h0.disabled y).trans (h.disabled y).symm⟩
  · intro h
    exact ⟨h.dirty.symm.trans h0.dirty, h.log.symm.trans h0.log, h.holds.symm.trans h0.holds,
      fun y => (h.pending y).symm.trans (h0.pending y), fun y => (h.disabled y).symm.trans (h0.disabled y)⟩

/-- the functional reading of `touch_simulates`: abstraction commutes with the change, up to `Eqv` -/
theorem abs_touch (lg : Obj) (fuel : Nat) (k : Conc) (x : Nat) (rest : List Nat)
    (hw : Wired lg (x :: rest) k.centre) (hf : (x :: rest).length ≤ fuel) :
    Eqv (abs (cTouch lg fuel k x rest)) (Dirty.touch (abs k) x rest) := by
  have h := touch_ok lg fuel k (abs k) (x :: rest) [] x rest rfl hw hf (sim_abs k hw.shape)
  exact (sim_iff_eqv _ h.wired.shape _).mp h.sim

/-- … and with the release of a hold -/
theorem abs_release (lg : Obj) (fuel : Nat) (k : Conc) (x : Nat) (rest : List Nat)
    (hw : Wired lg (x :: rest) k.centre) (hf : (x :: rest).length ≤ fuel) :
    Eqv (abs (cRelease lg fuel k x rest)) (Dirty.release (abs k) x rest) := by
  have h := release_ok lg fuel k (abs k) (x :: rest) [] x rest rfl hw hf (sim_abs k hw.shape)
  exact (sim_iff_eqv _ h.wired.shape _).mp h.sim

/-- **The wiring is invariant**: none of the four executions changes the registry - callbacks included - and the
centre they leave is wired for the same chain. -/
theorem wiring_invariant (lg : Obj) (fuel : Nat) (k : Conc) (chain pre : List Nat) (x : Nat) (rest : List Nat)
    (hc : chain = pre ++ x :: rest) (hw : Wired lg chain k.centre) (hf : (x :: rest).length ≤ fuel) (y : Nat) :
    ((cTouch lg fuel k x rest).centre.registry = k.centre.registry ∧ Wired lg chain (cTouch lg fuel k x rest).centre) ∧
    ((cRelease lg fuel k x rest).centre.registry = k.centre.registry ∧ Wired lg chain (cRelease lg fuel k x rest).centre) ∧
    ((cHold lg fuel k y).centre.registry = k.centre.registry ∧ Wired lg chain (cHold lg fuel k y).centre) ∧
    ((cDisable lg fuel k y).centre.registry = k.centre.registry ∧ Wired lg chain (cDisable lg fuel k y).centre) := by
  have h1 : 1 ≤ fuel := by simp at hf; omega
  have hs := sim_abs k hw.shape
  have a := touch_ok lg fuel k _ chain pre x rest hc hw hf hs
  have b := release_ok lg fuel k _ chain pre x rest hc hw hf hs
  have c := hold_ok lg fuel k _ chain y hw h1 hs
  have d := disable_ok lg fuel k _ chain y hw h1 hs
  exact ⟨⟨a.registry, a.wired⟩, ⟨b.registry, b.wired⟩, ⟨c.registry, c.wired⟩, ⟨d.registry, d.wired⟩⟩

/-! ### the canonical wired centre -/

theorem get?_append_of_none {κ α : Type} [DecidableEq κ] (l m : List (κ × α)) (k : κ) (h : AL.get? l k = none) :
    AL.get? (l ++ m) k = AL.get? m k := by
  induction l with
  | nil => rfl
  | cons q r ih =>
    obtain ⟨k', v⟩ := q
    by_cases e : k' = k
    · simp [e] at h
    · simp only [AL.get?_cons, e, if_false] at h
      simp only [List.cons_append, AL.get?_cons, e, if_false]
      exact ih h

theorem set_absent {κ α : Type} [DecidableEq κ] (l : List (κ × α)) (k : κ) (v : α) (h : AL.get? l k = none) :
    AL.set l k v = l ++ [(k, v)] := by
  induction l with
  | nil => rfl
  | cons q r ih =>
    obtain ⟨k', v'⟩ := q
    by_cases e : k' = k
    · simp [e] at h
    · simp only [AL.get?_cons, e, if_false] at h
      simp only [AL.set, e, if_false, List.cons_append]
      rw [ih h]

theorem get?_wireReg_none (chain : List Nat) (k : RKey) (h : ∀ a ∈ chain, k ≠ (some changed, some a)) :
    AL.get? (wireReg chain) k = none := by
  induction chain with
  | nil => rfl
  | cons x rest ih =>
    cases rest with
    | nil => rfl
    | cons p r =>
      show AL.get? (((some changed, some x), _) :: wireReg (p :: r)) k = none
      rw [AL.get?_cons, if_neg (fun e => h x (by simp) e.symm)]
      exact ih (fun a ha => h a (List.mem_cons_of_mem _ ha))

theorem regChain_wire (chain : List Nat) (hnd : chain.Nodup) (c : Center) (pre : List (RKey × List Reg))
    (hc : c.registry = pre ++ wireReg chain) (hpre : ∀ a ∈ chain, AL.get? pre (some changed, some a) = none) :
    RegChain c chain := by
  induction chain generalizing pre with
  | nil => trivial
  | cons x rest ih =>
    cases rest with
    | nil =>
      show regsAt c _ = []
      unfold regsAt
      rw [hc, get?_append_of_none _ _ _ (hpre x (by simp))]
      rfl
    | cons p r =>
      have hx : x ∉ p :: r := (List.nodup_cons.mp hnd).1
      refine ⟨?_, ?_⟩
      · unfold regsAt
        rw [hc, get?_append_of_none _ _ _ (hpre x (by simp))]
        simp [wireReg]
      · refine ih (List.nodup_cons.mp hnd).2 (pre ++ [((some changed, some x), [⟨p, childChanged, none⟩])]) ?_ ?_
        · rw [hc]; simp [wireReg]
        · intro a ha
          rw [get?_append_of_none _ _ _ (hpre a (List.mem_cons_of_mem _ ha))]
          have : x ≠ a := fun e => hx (e ▸ ha)
          simp [this]

/-- the canonical wired centre of a chain of distinct nodes is wired -/
theorem wiring_wired (lg : Obj) (chain : List Nat) (hnd : chain.Nodup) : Wired lg chain (wiring lg chain) := by
  refine ⟨⟨?_, ?_, ?_, ?_⟩, ⟨by intro p hp; simp [wiring] at hp, by simp [wiring, AL.keys], by intro p hp; simp [wiring] at hp⟩,
    hnd, by intro a _; simp [wiring], by simp [wiring], rfl⟩
  · simp [regsAt, wiring]
  · unfold regsAt wiring
    simp only [AL.get?_cons]
    rw [if_neg (by simp), get?_wireReg_none chain _ (by intro a _; simp)]
    rfl
  · intro x _
    unfold regsAt wiring
    simp only [AL.get?_cons]
    rw [if_neg (by simp), get?_wireReg_none chain _ (by intro a _; simp)]
    rfl
  · refine regChain_wire chain hnd _ [((none, none), [⟨lg, logM, none⟩])] rfl ?_
    intro a _
    simp

/-- … and it is what the `addObserver` calls of the tree build, starting from any centre that has no
registration under the keys `(Changed, xᵢ)` yet -/
theorem run_wireAdds (chain : List Nat) (hnd : chain.Nodup) (c : Center)
    (hc : ∀ a ∈ chain, AL.get? c.registry (some changed, some a) = none) :
    (run 1 c (wireAdds chain)).1 = { c with registry := c.registry ++ wireReg chain } := by
  induction chain generalizing c with
  | nil => simp [wireAdds, wireReg, run, runAll]
  | cons x rest ih =>
    cases rest with
    | nil => simp [wireAdds, wireReg, run, runAll]
    | cons p r =>
      have hx : x ∉ p :: r := (List.nodup_cons.mp hnd).1
      have hg := hc x (by simp)
      have hadd : (exec 1 c (.add p childChanged (some changed) (some x) none)).1 =
          { c with registry := c.registry ++ [((some changed, some x), [⟨p, childChanged, none⟩])] } := by
        simp [exec, step, add, hasReg, regsAt, hg, set_absent _ _ _ hg]
      show (runAll (exec 1) c (_ :: wireAdds (p :: r))).1 = _
      rw [runAll_cons']
      show (run 1 _ (wireAdds (p :: r))).1 = _
      rw [hadd, ih (List.nodup_cons.mp hnd).2]
      · simp [wireReg]
      · intro a ha
        show AL.get? (c.registry ++ _) _ = none
        rw [get?_append_of_none _ _ _ (hc a (List.mem_cons_of_mem _ ha))]
        have : x ≠ a := fun e => hx (e ▸ ha)
        simp [this]

theorem wiring_eq_adds (lg : Obj) (chain : List Nat) (hnd : chain.Nodup) :
    (run 1 {} (.add lg logM none none none :: wireAdds chain)).1 = wiring lg chain := by
  show (runAll (exec 1) {} (_ :: wireAdds chain)).1 = _
  rw [runAll_cons']
  show (run 1 (exec 1 {} (.add lg logM none none none)).1 (wireAdds chain)).1 = _
  have h0 : (exec 1 {} (.add lg logM none none none)).1 = { registry := [((none, none), [⟨lg, logM, none⟩])] } := by
    simp [exec, step, add, hasReg, regsAt, AL.set]
  rw [h0, run_wireAdds chain hnd _ (by intro a _; simp)]
  rfl

end Link
end DefconModel
