/-
M-FileSet: executable model of `defcon.objects.imageSet.ImageSet` and `defcon.objects.dataSet.DataSet`
(per-file state, pending deletions, `save`), as the code stands after the F18/F32 fixes.

  entries  `_data`                 : name ↦ {data (None until read), dirty, onDisk}
  sched    `_scheduledForDeletion` : name ↦ the entry it had
  dirty    the set's own dirty flag
  disk     the directory of the UFO the font is bound to (what `font._reader` reads)

`Blob` is an opaque content identity.  `silentEqual` distinguishes the two classes: `ImageSet`
returns early when the assigned bytes have the digest of what it holds; `DataSet` always replaces.
Core Lean only.
-/
import DefconModel.Util.AL

namespace DefconModel
namespace FileSet

abbrev Blob := Nat

structure Entry where
  data : Option Blob
  dirty : Bool
  onDisk : Bool
deriving DecidableEq, Repr

structure State where
  entries : List (String × Entry) := []
  sched : List (String × Entry) := []
  dirty : Bool := false
  disk : List (String × Blob) := []
deriving Repr

inductive Err where
  | keyError
deriving DecidableEq, Repr

/-- a set freshly bound to a UFO directory: `fileNames = reader.get…DirectoryListing()` -/
def opened (disk : List (String × Blob)) : State :=
  { entries := disk.map (fun p => (p.1, ⟨none, false, true⟩)), disk := disk }

/-- `__getitem__` : read the bytes on first access -/
def getItem (s : State) (n : String) : Except Err (State × Blob) :=
  match AL.get? s.entries n with
  | none => .error .keyError
  | some e =>
    match e.data with
    | some b => .ok (s, b)
    | none =>
      match AL.get? s.disk n with
      | none => .error .keyError      -- the reader raises; outside the well-formed domain
      | some b => .ok ({ s with entries := AL.set s.entries n { e with data := some b, onDisk := true } }, b)

/-- first step of `__setitem__`: a name scheduled for deletion gets its entry back -/
def restore (s : State) (n : String) : State :=
  match AL.get? s.sched n with
  | some e => { s with entries := AL.set s.entries n e, sched := AL.erase s.sched n }
  | none => s

/-- `del self._data[fileName]` then re-insert: the name moves to the end of the dict -/
def replaceEntry (es : List (String × Entry)) (n : String) (e : Entry) : List (String × Entry) :=
  AL.erase es n ++ [(n, e)]

def onDiskOf (s : State) (n : String) : Bool :=
  match AL.get? s.entries n with
  | some e => e.onDisk
  | none => false

/-- `__setitem__` -/
def setItem (silentEqual : Bool) (s : State) (n : String) (b : Blob) : Except Err State :=
  let s1 := restore s n
  match AL.get? s1.entries n with
  | none => .ok { s1 with entries := AL.set s1.entries n ⟨some b, true, false⟩, dirty := true }
  | some _ =>
    match getItem s1 n with
    | .error e => .error e
    | .ok (s2, old) =>
      if silentEqual ∧ old = b then .ok s2
      else .ok { s2 with entries := replaceEntry s2.entries n ⟨some b, true, onDiskOf s2 n⟩, dirty := true }

/-- `__delitem__` -/
def delItem (s : State) (n : String) : Except Err State :=
  match getItem s n with
  | .error e => .error e
  | .ok (s1, _) =>
    match AL.get? s1.entries n with
    | none => .error .keyError
    | some e => .ok { s1 with entries := AL.erase s1.entries n, sched := AL.set s1.sched n e, dirty := true }

/-- write loop: `w name entry` is what gets written for an entry (nothing when `none`) -/
def applyW (d : List (String × Blob)) (n : String) : Option Blob → List (String × Blob)
  | some b => AL.set d n b
  | none => d

def foldW (w : String → Entry → Option Blob) (es : List (String × Entry)) (d : List (String × Blob)) :
    List (String × Blob) :=
  es.foldl (fun d p => applyW d p.1 (w p.1 p.2)) d

/-- `save` writes dirty entries; on save-as also entries that were read and not modified -/
def writeVal (saveAs : Bool) (_n : String) (e : Entry) : Option Blob :=
  match e.data with
  | some b => if e.dirty ∨ saveAs then some b else none
  | none => none

/-- on save-as, unread entries that exist in the old UFO are copied from it -/
def copyVal (disk : List (String × Blob)) (n : String) (e : Entry) : Option Blob :=
  match e.data with
  | none => AL.get? disk n
  | some _ => none

/-- the writes of `save` into a destination directory `dest`: remove the scheduled names that
exist there, then write -/
def writeOut (saveAs : Bool) (s : State) (dest : List (String × Blob)) : List (String × Blob) :=
  foldW (writeVal saveAs) s.entries (s.sched.foldl (fun d p => AL.erase d p.1) dest)

def copyUnread (s : State) (dest : List (String × Blob)) : List (String × Blob) :=
  foldW (copyVal s.disk) s.entries dest

/-- flags of an entry after `save`: written entries become clean and on disk -/
def cleanE (saveAs : Bool) (e : Entry) : Entry :=
  match e.data with
  | some b => if e.dirty ∨ saveAs then ⟨some b, false, true⟩ else e
  | none => e

def cleanEntries (saveAs : Bool) (es : List (String × Entry)) : List (String × Entry) :=
  es.map (fun p => (p.1, cleanE saveAs p.2))

/-- `save(writer, saveAs=False)` followed by the font re-binding to the written UFO -/
def saveInPlace (s : State) : State :=
  { s with disk := writeOut false s s.disk, entries := cleanEntries false s.entries, sched := [], dirty := false }

/-- `save(writer, saveAs=True)` into a directory that currently holds `dest`
(empty for a new location; the font then re-binds to it) -/
def saveAs (s : State) (dest : List (String × Blob)) : State :=
  { s with disk := writeOut true s (copyUnread s dest), entries := cleanEntries true s.entries, sched := [],
           dirty := false }

inductive Op where
  | get (n : String)
  | set (n : String) (b : Blob)
  | del (n : String)
  | saveInPlace
  | saveAsNew
deriving Repr

def step (silentEqual : Bool) (s : State) : Op → Except Err State
  | .get n => (getItem s n).map Prod.fst
  | .set n b => setItem silentEqual s n b
  | .del n => delItem s n
  | .saveInPlace => .ok (saveInPlace s)
  | .saveAsNew => .ok (saveAs s [])

def stepTotal (silentEqual : Bool) (s : State) (op : Op) : State :=
  match step silentEqual s op with
  | .ok s' => s'
  | .error _ => s

def run (silentEqual : Bool) (s : State) (ops : List Op) : State := ops.foldl (stepTotal silentEqual) s

end FileSet
end DefconModel
