/-
S-expressions: the line protocol between the Python harness and the Lean model drivers.
Import-free (core Lean only).  Not part of any proved core: this is glue, listed in the
trusted base of the correspondence check.
-/
namespace DefconModel

inductive SExp where
  | atom (s : String)
  | str (s : String)
  | list (xs : List SExp)
deriving Repr, Inhabited, BEq

namespace SExp

private def isDelim (c : Char) : Bool :=
  c == '(' || c == ')' || c == ' ' || c == '\n' || c == '\t' || c == '\r' || c == '"'

/-- Tokens: "(" ")" atoms and quoted strings (with \" and \\ escapes). -/
inductive Tok where
  | lp | rp | atom (s : String) | str (s : String)
deriving Repr

partial def tokenize (cs : List Char) (acc : Array Tok) : Option (Array Tok) :=
  match cs with
  | [] => some acc
  | '(' :: r => tokenize r (acc.push .lp)
  | ')' :: r => tokenize r (acc.push .rp)
  | '"' :: r =>
    let rec go (cs : List Char) (s : String) : Option (String × List Char) :=
      match cs with
      | [] => none
      | '"' :: r => some (s, r)
      | '\\' :: 'n' :: r => go r (s.push '\n')
      | '\\' :: c :: r => go r (s.push c)
      | c :: r => go r (s.push c)
    match go r "" with
    | none => none
    | some (s, r') => tokenize r' (acc.push (.str s))
  | c :: r =>
    if c == ' ' || c == '\n' || c == '\t' || c == '\r' then tokenize r acc
    else
      let tok := (c :: r).takeWhile (fun c => !isDelim c)
      let rest := (c :: r).dropWhile (fun c => !isDelim c)
      tokenize rest (acc.push (.atom (String.ofList tok)))

/-- Parse a token array with an explicit stack (no recursion on nesting). -/
def parseToks (ts : Array Tok) : Option SExp := Id.run do
  let mut stack : List (List SExp) := []   -- reversed partial lists
  let mut result : Option SExp := none
  for t in ts do
    match t with
    | .lp => stack := [] :: stack
    | .rp =>
      match stack with
      | [] => return none
      | top :: rest =>
        let v := SExp.list top.reverse
        match rest with
        | [] => result := some v; stack := []
        | p :: rest' => stack := (v :: p) :: rest'
    | .atom s =>
      match stack with
      | [] => result := some (.atom s)
      | p :: rest => stack := (.atom s :: p) :: rest
    | .str s =>
      match stack with
      | [] => result := some (.str s)
      | p :: rest => stack := (.str s :: p) :: rest
  if stack.isEmpty then result else none

def parse (line : String) : Option SExp :=
  match tokenize line.toList #[] with
  | none => none
  | some ts => parseToks ts

private def escape (s : String) : String :=
  s.foldl (fun acc c =>
    if c == '"' then acc ++ "\\\"" else if c == '\\' then acc ++ "\\\\"
    else if c == '\n' then acc ++ "\\n" else acc.push c) ""

partial def toString : SExp → String
  | .atom s => s
  | .str s => "\"" ++ escape s ++ "\""
  | .list xs => "(" ++ " ".intercalate (xs.map toString) ++ ")"

instance : ToString SExp := ⟨SExp.toString⟩

/-! Small encoders/decoders used by the drivers. -/

def ofNat (n : Nat) : SExp := .atom (ToString.toString n)
def ofInt (n : Int) : SExp := .atom (ToString.toString n)
def ofBool (b : Bool) : SExp := .atom (if b then "true" else "false")
def ofOpt {α} (f : α → SExp) : Option α → SExp
  | none => .atom "none"
  | some a => .list [.atom "some", f a]
def ofList {α} (f : α → SExp) (xs : List α) : SExp := .list (xs.map f)
def tagged (tag : String) (xs : List SExp) : SExp := .list (.atom tag :: xs)
def err (e : String) : SExp := .list [.atom "err", .atom e]

def asNat? : SExp → Option Nat
  | .atom s => s.toNat?
  | _ => none
def asInt? : SExp → Option Int
  | .atom s => s.toInt?
  | _ => none
def asBool? : SExp → Option Bool
  | .atom "true" => some true
  | .atom "false" => some false
  | _ => none
def asStr? : SExp → Option String
  | .str s => some s
  | _ => none
def asList? : SExp → Option (List SExp)
  | .list xs => some xs
  | _ => none
/-- `none` ↦ some none ; `(some x)` ↦ some (some (f x)) ; else fail -/
def asOpt? {α} (f : SExp → Option α) : SExp → Option (Option α)
  | .atom "none" => some none
  | .list [.atom "some", x] => (f x).map some
  | _ => none
def asListOf? {α} (f : SExp → Option α) : SExp → Option (List α)
  | .list xs => xs.mapM f
  | _ => none

end SExp
end DefconModel
