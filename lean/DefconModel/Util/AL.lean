/-
Association lists with the semantics of a Python `dict` / `OrderedDict`:
insertion ordered, assignment to an existing key keeps its position, deletion removes it.
Own primitives by structural recursion (one simp-normal form), import-free.
-/
namespace DefconModel
namespace AL

variable {κ : Type} {α : Type} [DecidableEq κ]

def get? : List (κ × α) → κ → Option α
  | [], _ => none
  | (k', v) :: r, k => if k' = k then some v else get? r k

def contains (l : List (κ × α)) (k : κ) : Bool := (get? l k).isSome

/-- `d[k] = v` : replace in place, or append at the end. -/
def set : List (κ × α) → κ → α → List (κ × α)
  | [], k, v => [(k, v)]
  | (k', v') :: r, k, v => if k' = k then (k', v) :: r else (k', v') :: set r k v

/-- `del d[k]` (no-op when absent; callers check presence where Python would raise). -/
def erase : List (κ × α) → κ → List (κ × α)
  | [], _ => []
  | (k', v') :: r, k => if k' = k then r else (k', v') :: erase r k

def keys (l : List (κ × α)) : List κ := l.map Prod.fst

@[simp] theorem get?_nil (k : κ) : get? ([] : List (κ × α)) k = none := rfl
@[simp] theorem get?_cons (k' k : κ) (v : α) (r : List (κ × α)) :
    get? ((k', v) :: r) k = if k' = k then some v else get? r k := rfl

@[simp] theorem get?_set_self (l : List (κ × α)) (k : κ) (v : α) :
    get? (set l k v) k = some v := by
  induction l with
  | nil => simp [set]
  | cons p r ih =>
    obtain ⟨k', v'⟩ := p
    by_cases h : k' = k <;> simp [set, h, ih]

@[simp] theorem get?_set_ne (l : List (κ × α)) (k k2 : κ) (v : α) (h : k ≠ k2) :
    get? (set l k v) k2 = get? l k2 := by
  induction l with
  | nil => simp [set, h]
  | cons p r ih =>
    obtain ⟨k', v'⟩ := p
    by_cases h1 : k' = k
    · subst h1; simp [set, h]
    · by_cases h2 : k' = k2
      · subst h2; simp [set, h1]
      · simp [set, h1, h2, ih]

theorem get?_set (l : List (κ × α)) (k k2 : κ) (v : α) :
    get? (set l k v) k2 = if k = k2 then some v else get? l k2 := by
  by_cases h : k = k2
  · subst h; simp
  · simp [h]

@[simp] theorem get?_erase_ne (l : List (κ × α)) (k k2 : κ) (h : k ≠ k2) :
    get? (erase l k) k2 = get? l k2 := by
  induction l with
  | nil => simp [erase]
  | cons p r ih =>
    obtain ⟨k', v'⟩ := p
    by_cases h1 : k' = k
    · subst h1; simp [erase, h]
    · by_cases h2 : k' = k2
      · subst h2; simp [erase, h1]
      · simp [erase, h1, h2, ih]

theorem keys_erase_sublist (l : List (κ × α)) (k : κ) : (keys (erase l k)).Sublist (keys l) := by
  induction l with
  | nil => simp [erase, keys]
  | cons p r ih =>
    obtain ⟨k', v'⟩ := p
    by_cases h1 : k' = k
    · simp [erase, h1, keys]
    · simpa [erase, h1, keys] using ih

theorem mem_keys_of_get? {l : List (κ × α)} {k : κ} {v : α} (h : get? l k = some v) :
    k ∈ keys l := by
  induction l with
  | nil => simp at h
  | cons p r ih =>
    obtain ⟨k', v'⟩ := p
    by_cases h1 : k' = k
    · simp [keys, h1]
    · simp [h1] at h
      have := ih h
      simp [keys] at this ⊢
      exact Or.inr this

theorem get?_eq_none_of_not_mem {l : List (κ × α)} {k : κ} (h : k ∉ keys l) :
    get? l k = none := by
  induction l with
  | nil => rfl
  | cons p r ih =>
    obtain ⟨k', v'⟩ := p
    simp [keys] at h
    have h1 : k' ≠ k := fun e => h.1 e.symm
    simp [h1]
    exact ih (by simpa [keys] using h.2)

theorem get?_erase_self_of_nodup (l : List (κ × α)) (k : κ) (h : (keys l).Nodup) :
    get? (erase l k) k = none := by
  induction l with
  | nil => simp [erase]
  | cons p r ih =>
    obtain ⟨k', v'⟩ := p
    simp [keys] at h
    by_cases h1 : k' = k
    · subst h1
      simp [erase]
      exact get?_eq_none_of_not_mem (by simpa [keys] using h.1)
    · simp [erase, h1]
      exact ih (by simpa [keys] using h.2)

theorem keys_set (l : List (κ × α)) (k : κ) (v : α) :
    keys (set l k v) = if k ∈ keys l then keys l else keys l ++ [k] := by
  induction l with
  | nil => simp [set, keys]
  | cons p r ih =>
    obtain ⟨k', v'⟩ := p
    by_cases h1 : k' = k
    · subst h1; simp [set, keys]
    · have h1' : ¬ k = k' := fun e => h1 e.symm
      simp only [set, h1, keys, List.map_cons, if_false, List.mem_cons, h1', false_or] at ih ⊢
      rw [ih]
      split <;> simp [*]

theorem nodup_keys_set (l : List (κ × α)) (k : κ) (v : α) (h : (keys l).Nodup) :
    (keys (set l k v)).Nodup := by
  rw [keys_set]
  split
  · exact h
  · rename_i hk
    rw [List.nodup_append]
    refine ⟨h, by simp, ?_⟩
    intro a ha b hb
    simp at hb
    subst hb
    intro e; subst e; exact hk ha

theorem nodup_keys_erase (l : List (κ × α)) (k : κ) (h : (keys l).Nodup) :
    (keys (erase l k)).Nodup :=
  (keys_erase_sublist l k).nodup h

end AL
end DefconModel

namespace DefconModel
namespace AL
variable {κ : Type} {α : Type} [DecidableEq κ]

theorem mem_of_get? {l : List (κ × α)} {k : κ} {v : α} (h : get? l k = some v) : (k, v) ∈ l := by
  induction l with
  | nil => simp at h
  | cons p r ih =>
    obtain ⟨k', v'⟩ := p
    by_cases h1 : k' = k
    · subst h1; simp at h; simp [h]
    · simp [h1] at h; exact List.mem_cons_of_mem _ (ih h)

theorem mem_set {l : List (κ × α)} {k : κ} {v : α} {p : κ × α} (h : p ∈ set l k v) :
    p = (k, v) ∨ p ∈ l := by
  induction l with
  | nil => simp [set] at h; exact Or.inl h
  | cons q r ih =>
    obtain ⟨k', v'⟩ := q
    by_cases h1 : k' = k
    · subst h1
      simp [set] at h
      rcases h with h | h
      · exact Or.inl h
      · exact Or.inr (List.mem_cons_of_mem _ h)
    · simp [set, h1] at h
      rcases h with h | h
      · exact Or.inr (by simp [h])
      · rcases ih h with h | h
        · exact Or.inl h
        · exact Or.inr (List.mem_cons_of_mem _ h)

theorem mem_erase {l : List (κ × α)} {k : κ} {p : κ × α} (h : p ∈ erase l k) : p ∈ l := by
  induction l with
  | nil => simp [erase] at h
  | cons q r ih =>
    obtain ⟨k', v'⟩ := q
    by_cases h1 : k' = k
    · simp [erase, h1] at h; exact List.mem_cons_of_mem _ h
    · simp [erase, h1] at h
      rcases h with h | h
      · simp [h]
      · exact List.mem_cons_of_mem _ (ih h)

theorem get?_of_mem_nodup {l : List (κ × α)} {k : κ} {v : α} (hn : (keys l).Nodup) (h : (k, v) ∈ l) :
    get? l k = some v := by
  induction l with
  | nil => simp at h
  | cons q r ih =>
    obtain ⟨k', v'⟩ := q
    simp [keys] at hn
    simp at h
    rcases h with h | h
    · obtain ⟨rfl, rfl⟩ := h; simp
    · have : k' ≠ k := by
        intro e; subst e; exact hn.1 v h
      simp [this]
      exact ih (by simpa [keys] using hn.2) h

@[simp] theorem contains_set (l : List (κ × α)) (k k2 : κ) (v : α) :
    contains (set l k v) k2 = (decide (k = k2) || contains l k2) := by
  unfold contains
  rw [get?_set]
  by_cases h : k = k2 <;> simp [h]

end AL
end DefconModel

namespace DefconModel
namespace AL
variable {κ : Type} {α : Type} [DecidableEq κ]

theorem contains_iff_get? (l : List (κ × α)) (k : κ) : contains l k = true ↔ ∃ v, get? l k = some v := by
  unfold contains; cases get? l k <;> simp

theorem contains_false_iff (l : List (κ × α)) (k : κ) : contains l k = false ↔ get? l k = none := by
  unfold contains; cases get? l k <;> simp

theorem get?_erase (l : List (κ × α)) (k k2 : κ) (h : (keys l).Nodup) :
    get? (erase l k) k2 = if k = k2 then none else get? l k2 := by
  by_cases e : k = k2
  · subst e; simp [get?_erase_self_of_nodup _ _ h]
  · simp [e]

theorem get?_map_val {β : Type} (f : α → β) (l : List (κ × α)) (k : κ) :
    get? (l.map (fun p => (p.1, f p.2))) k = (get? l k).map f := by
  induction l with
  | nil => rfl
  | cons p r ih =>
    obtain ⟨k', v⟩ := p
    by_cases h : k' = k <;> simp [h, ih]

theorem keys_map_val {β : Type} (f : α → β) (l : List (κ × α)) :
    keys (l.map (fun p => (p.1, f p.2))) = keys l := by
  simp [keys, List.map_map, Function.comp_def]

theorem get?_foldl_erase (d : List (κ × α)) (ns : List κ) (k : κ) (h : (keys d).Nodup) :
    get? (ns.foldl (fun d n => erase d n) d) k = if k ∈ ns then none else get? d k := by
  induction ns generalizing d with
  | nil => simp
  | cons n ns ih =>
    simp only [List.foldl_cons]
    rw [ih _ (nodup_keys_erase _ _ h), get?_erase _ _ _ h]
    by_cases e : n = k
    · subst e; simp
    · have e' : ¬ k = n := fun x => e x.symm
      simp [e, e']

theorem nodup_keys_foldl_erase (d : List (κ × α)) (ns : List κ) (h : (keys d).Nodup) :
    (keys (ns.foldl (fun d n => erase d n) d)).Nodup := by
  induction ns generalizing d with
  | nil => exact h
  | cons n ns ih => exact ih _ (nodup_keys_erase _ _ h)

end AL
end DefconModel

namespace DefconModel
namespace AL
variable {κ : Type} {α : Type} [DecidableEq κ]

theorem get?_append_single (l : List (κ × α)) (n k : κ) (v : α) :
    get? (l ++ [(n, v)]) k = match get? l k with
      | some x => some x
      | none => if n = k then some v else none := by
  induction l with
  | nil => simp
  | cons p r ih =>
    obtain ⟨k', x⟩ := p
    by_cases hk : k' = k
    · simp [hk]
    · simp only [List.cons_append, get?_cons, hk, if_false]; exact ih

theorem get?_append_single' (l : List (κ × α)) (n k : κ) (v : α) :
    get? (l ++ [(n, v)]) k = if (get? l k).isSome then get? l k else if n = k then some v else none := by
  rw [get?_append_single]
  cases get? l k <;> simp

theorem keys_append_single (l : List (κ × α)) (n : κ) (v : α) : keys (l ++ [(n, v)]) = keys l ++ [n] := by
  simp [keys]

theorem nodup_keys_append_single (l : List (κ × α)) (n : κ) (v : α) (h : (keys l).Nodup) (hn : get? l n = none) :
    (keys (l ++ [(n, v)])).Nodup := by
  rw [keys_append_single, List.nodup_append]
  refine ⟨h, by simp, ?_⟩
  intro a ha b hb
  simp at hb; subst hb
  intro e; subst e
  simp only [keys, List.mem_map] at ha
  obtain ⟨⟨k, x⟩, hp, rfl⟩ := ha
  rw [get?_of_mem_nodup h hp] at hn
  simp at hn

end AL
end DefconModel
