/-
M-Layers: a font's layer set as far as glyph content and unicode data go — named `Layer.State`s (M-Layer,
`DefconModel/Layer.lean`) plus the name of the default layer.  `Font.newGlyph / insertGlyph / __getitem__ /
__delitem__ / unicodeData` are the default layer's (`Font._glyphSet`, Lib/defcon/objects/font.py); every
layer keeps its own lazily built `UnicodeData`; `UnicodeData.unicodeForGlyphName` looks the glyph up in
`self.font`, i.e. in the DEFAULT layer, whichever layer the data belong to.

Core Lean only.
-/
import DefconModel.Layer

namespace DefconModel
namespace Layers
open Layer

structure FState where
  layers : List (String × Layer.State) := []
  default : String := ""
deriving Repr

inductive FOp where
  /-- an operation on `font.layers[l]` -/
  | on (l : String) (op : Layer.Op)
  /-- the same operation through the Font API (`font.newGlyph`, `del font[n]`, `font.unicodeData`, …):
  it reaches the layer that is the default one at that moment -/
  | font (op : Layer.Op)
  /-- `font.layers.defaultLayer = font.layers[l]` -/
  | setDefault (l : String)
  /-- `font.newLayer(l)` for a name no layer carries -/
  | newLayer (l : String)
  /-- `font.save()` in place: every layer -/
  | save
  /-- `font.layers[l].unicodeData.unicodeForGlyphName(n)`: builds the data of layer `l` if need be, then reads
  glyph `n` of the DEFAULT layer -/
  | fwdOn (l : String) (n : String)
  /-- `font.layers[l].unicodeData.pseudoUnicodeForGlyphName(n)` -/
  | pseudoOn (l : String) (n : String)
deriving Repr

def stepOn (fs : FState) (l : String) (op : Layer.Op) : FState :=
  match AL.get? fs.layers l with
  | none => fs
  | some s => { fs with layers := AL.set fs.layers l (Layer.stepTotal s op) }

def step (fs : FState) : FOp → FState
  | .on l op => stepOn fs l op
  | .font op => stepOn fs fs.default op
  | .setDefault l => if AL.contains fs.layers l then { fs with default := l } else fs
  | .newLayer l => if AL.contains fs.layers l then fs else { fs with layers := fs.layers ++ [(l, {})] }
  | .save => { fs with layers := fs.layers.map (fun p => (p.1, Layer.save p.2)) }
  | .fwdOn l n => stepOn (stepOn fs l .touchUni) fs.default (.fwd n)
  | .pseudoOn l n => stepOn (stepOn fs l .touchUni) fs.default (.pseudo n)

def run (fs : FState) (ops : List FOp) : FState := ops.foldl step fs

/-- the layer `font[...]`, `font.newGlyph`, `font.unicodeData` talk to -/
def defaultLayer (fs : FState) : Option Layer.State := AL.get? fs.layers fs.default

/-- `font.unicodeData` as it stands (none: not built yet; the getter builds it: `.font .touchUni`) -/
def fontUni (fs : FState) : Option Cmap := (defaultLayer fs).bind (·.uni)

/-- the answer of `font.layers[l].unicodeData.unicodeForGlyphName(n)` -/
def fwdOn (fs : FState) (_l : String) (n : String) : Option Nat :=
  match defaultLayer fs with
  | none => none
  | some s => (Layer.fwd s n).2

def pseudoOn (fs : FState) (_l : String) (n : String) : Option Nat :=
  match defaultLayer fs with
  | none => none
  | some s => (Layer.pseudo s n).2

/-- a font opened on layers with the given glyph sets -/
def opened (layers : List (String × List (String × GRec))) (default : String) : FState :=
  { layers := layers.map (fun p => (p.1, Layer.opened p.2)), default := default }

end Layers
end DefconModel
