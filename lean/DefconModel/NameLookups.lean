/-
M-Lookups — executable model of the part of `Lib/defcon/objects/uniData.py` (lines 178-407) and
`Lib/defcon/tools/unicodeTools.py` (lines 279-298, 349-393) that DERIVES the look-ups M-Sort takes as its
`Env` parameter: `unicodeForGlyphName`, `glyphNameForUnicode`, `pseudoUnicodeForGlyphName` (name splitting
at "." and "_"), `forcedUnicodeForGlyphName` / `_loadForcedUnicodeValue` / `_findAvailablePUACode` (PUA
allocation), `glyphNameForForcedUnicode`, `script/block/categoryForGlyphName`,
`decompositionBaseForGlyphName` (suffix re-attachment) over `unicodeTools.decompositionBase` (its
recursion), `closeRelativeForGlyphName` / `openRelativeForGlyphName` (`_openCloseSearch`, suffix handling)
over the open/close tables and the loop that loads them.

What is left a PARAMETER is plain data:
* `UData`  — the font's glyph-name list, name → code points (`glyph.unicodes`), code point → names (the
             `UnicodeData` dict itself, in its own order), and the two forced-unicode dicts;
* `UniDB`  — facts of the Unicode database per code point (general category, script, block, decomposition
             mapping) and the open→close / close→open tables (the real ones are regenerated into
             `Gen/OpenClose.lean`).
`envOf db s` is the `Env` M-Sort sorts with: the composed model is `sortGlyphNames (envOf db s) T ds names`.

Python idioms and their models
* `name in font` / `font[name].unicodes`      → `List.contains` on `names` / `AL.get?` on `unicodes` (`[]` when absent)
* `self.get(value)` / `value in self`         → `AL.get?` on `cmap`
* `glyphList[0]` on an empty list             → `.raised "IndexError"` (never under `CmapWF`, Spec/NameLookups.lean)
* recursion (`decompositionBase`, `_findAvailablePUACode`) → fuel; out of fuel is the model of `RecursionError`
  (`-1` / `none`; never reached by the runs compared: the harness compares every answer)
* a method that assigns to `self._…`          → returns the new state beside its answer (`forcedUnicodeFor`, `ask`)
Core Lean only.
-/
import DefconModel.NameSort

namespace DefconModel
namespace NameLookups
open NameSort

/-- the answer of a method that may raise -/
inductive Res (α : Type) where
  | ok (a : α)
  | raised (what : String)
deriving Repr, DecidableEq

/-! ## parameters -/

/-- `unicodedata.decomposition(chr(v))`: `compat` = the string starts with "<" (a compatibility mapping),
`parts` = its hexadecimal fields as code points (`[]` for the empty string) -/
structure Decomp where
  compat : Bool := false
  parts : List Nat := []
deriving Repr, Inhabited, DecidableEq

/-- Unicode-database facts, as plain tables -/
structure UniDB where
  category : Nat → String
  script : Nat → String
  block : Nat → String
  decomposition : Nat → Decomp
  openToClose : List (Nat × Nat)       -- unicodeTools._openToClose
  closeToOpen : List (Nat × Nat)       -- unicodeTools._closeToOpen

/-- what the look-ups read (and, for the forced tables, write) of the font and its `UnicodeData` -/
structure UData where
  names : List Name                        -- glyph names of the font (`name in font`)
  unicodes : List (Name × List Nat)        -- `font[name].unicodes`
  cmap : List (Nat × List Name)            -- the `UnicodeData` dict: code point ↦ glyph names
  forcedByName : List (Name × Nat) := []   -- `_glyphNameToForcedUnicode`
  forcedByCode : List (Nat × Name) := []   -- `_forcedUnicodeToGlyphName`
deriving Repr, Inhabited, DecidableEq

/-! ## the open/close tables (`unicodeTools`, module level) -/

/-- the loop that fills `_openToClose` / `_closeToOpen` from the (open, close) pairs of `_openClosePairText`,
in text order: the first pair of an opener / of a closer wins -/
def loadPair (t : List (Nat × Nat) × List (Nat × Nat)) (p : Nat × Nat) : List (Nat × Nat) × List (Nat × Nat) :=
  (if AL.contains t.1 p.1 then t.1 else AL.set t.1 p.1 p.2,
   if AL.contains t.2 p.2 then t.2 else AL.set t.2 p.2 p.1)

def loadOpenClose (pairs : List (Nat × Nat)) : List (Nat × Nat) × List (Nat × Nat) :=
  pairs.foldl loadPair ([], [])

/-! ## `unicodeTools.decompositionBase` -/

def letterCategories : List String := ["Ll", "Lu", "Lt", "Lo"]

def maxCodePoint : Nat := 0x10FFFF

/-- `decompositionBase(value)`; `-1` = no base.  Fuel = depth of the recursion. -/
def decompositionBase (db : UniDB) : Nat → Nat → Int
  | 0, _ => -1
  | fuel + 1, v =>
    if v > maxCodePoint then -1                                  -- `chr(value)` raises ValueError
    else
      let d := db.decomposition v
      if d.compat then -1                                        -- startswith("<")
      else if d.parts.length < 2 then -1                         -- `" " not in decomposition`
      else
        match d.parts.filter (fun c => letterCategories.contains (db.category c)) with
        | [l] =>
          let f := decompositionBase db fuel l
          if f != -1 then
            let ff := decompositionBase db fuel f.toNat
            if ff != -1 then ff else f
          else (l : Int)
        | _ => -1                                                -- letterCount != 1

/-- depth the model allows (the longest chain in Unicode has 3 links) -/
def decompFuel : Nat := 12

/-! ## string idioms -/

def startsUnderscore (n : Name) : Bool := n.toList.head? == some '_'
def hasUnderscore (n : Name) : Bool := n.toList.contains '_'
/-- `name.split(".")[0].split("_")[0]` -/
def stemOf (n : Name) : Name := String.ofList (beforeFirst '_' (beforeFirst '.' n.toList))
/-- `base + "." + suffix` -/
def withSuffix (base suffix : String) : Name := base ++ "." ++ suffix

/-! ## value retrieval -/

/-- `name in self.font` -/
def inFont (s : UData) (n : Name) : Bool := s.names.contains n

/-- `unicodeForGlyphName` -/
def unicodeFor (s : UData) (n : Name) : Option Nat :=
  if inFont s n then ((AL.get? s.unicodes n).getD []).head? else none

/-- `glyphNameForUnicode` -/
def nameForUnicode (s : UData) (v : Nat) : Option Name := ((AL.get? s.cmap v).getD []).head?

/-- … as M-Sort calls it, on the result of `unicodeTools.decompositionBase` (`-1` is no key of the dict) -/
def nameForUnicodeI (s : UData) (v : Int) : Option Name := if v < 0 then none else nameForUnicode s v.toNat

/-- `pseudoUnicodeForGlyphName` -/
def pseudoUnicodeFor (s : UData) (n : Name) : Option Nat :=
  match unicodeFor s n with
  | some v => some v
  | none =>
    if startsDot n || startsUnderscore n then none
    else if !hasDot n && !hasUnderscore n then none
    else unicodeFor s (stemOf n)

/-- the `if allowPseudoUnicode: … else: …` head of every description look-up -/
def valueOf (s : UData) (pseudo : Bool) (n : Name) : Option Nat :=
  if pseudo then pseudoUnicodeFor s n else unicodeFor s n

/-! ## forced unicodes (the only look-up that writes) -/

def pua1Min : Nat := 0xE000
def pua1Max : Nat := 0xF8FF
def pua2Min : Nat := 0xF0000
def pua2Max : Nat := 0xFFFFD
def pua3Min : Nat := 0x100000
def pua3Max : Nat := 0x10FFFD

/-- "force the code into a viable position" and the last `else` branch of `_findAvailablePUACode` -/
def viablePUA (code : Nat) : Nat :=
  let code :=
    if code > pua1Max && code < pua2Min then pua2Min
    else if code > pua2Max && code < pua3Min then pua3Min
    else if code > pua3Max then pua1Min
    else code
  if (code ≥ pua1Min && code ≤ pua1Max) || (code ≥ pua2Min && code ≤ pua2Max) then code
  else if code < pua3Min || code > pua3Max then pua3Min
  else code

/-- `_findAvailablePUACode(existing, code)`: `code` is the candidate (`_privateUse1Min`, or the last one `+ 1`);
out of fuel = `RecursionError` -/
def findPUA (existing : List Nat) : Nat → Nat → Option Nat
  | 0, _ => none
  | fuel + 1, code =>
    let c := viablePUA code
    if !existing.contains c then some c else findPUA existing fuel (c + 1)

def puaFuel : Nat := 900

/-- `forcedUnicodeForGlyphName` with `_loadForcedUnicodeValue`: the new state and the value (`none` = raised) -/
def forcedUnicodeFor (s : UData) (n : Name) : UData × Option Nat :=
  match unicodeFor s n with
  | some v => (s, some v)
  | none =>
    match AL.get? s.forcedByName n with
    | some v => (s, some v)
    | none =>
      match findPUA (AL.keys s.forcedByCode) puaFuel pua1Min with
      | none => (s, none)
      | some v =>
        ({ s with forcedByCode := AL.set s.forcedByCode v n, forcedByName := AL.set s.forcedByName n v }, some v)

/-- `glyphNameForForcedUnicode` -/
def nameForForced (s : UData) (v : Nat) : Res (Option Name) :=
  match AL.get? s.cmap v with
  | some [] => .raised "IndexError"
  | some (g :: _) => .ok (some g)
  | none => .ok (AL.get? s.forcedByCode v)

/-! ## description retrieval -/

def scriptFor (db : UniDB) (s : UData) (n : Name) (pseudo : Bool) : String :=
  match valueOf s pseudo n with
  | none => "Unknown"
  | some v => db.script v

def blockFor (db : UniDB) (s : UData) (n : Name) (pseudo : Bool) : String :=
  match valueOf s pseudo n with
  | none => "No_Block"
  | some v => db.block v

def categoryFor (db : UniDB) (s : UData) (n : Name) (pseudo : Bool) : String :=
  match valueOf s pseudo n with
  | none => "Cn"
  | some v => db.category v

/-- `base + "." + glyphName.split(".", 1)[1]` if that is a glyph of the font, else `base`
(both `decompositionBaseForGlyphName` and `_openCloseSearch` end like this) -/
def reattach (s : UData) (n base : Name) : Name :=
  if hasDot n then
    if inFont s (withSuffix base (suffixOf n)) then withSuffix base (suffixOf n) else base
  else base

/-- `decompositionBaseForGlyphName` (answers the name itself when it finds nothing) -/
def decompositionBaseFor (db : UniDB) (s : UData) (n : Name) (pseudo : Bool) : Res Name :=
  match valueOf s pseudo n with
  | none => .ok n
  | some v =>
    let d := decompositionBase db decompFuel v
    if d = -1 then .ok n
    else
      match AL.get? s.cmap d.toNat with              -- `decomposition in font.unicodeData`
      | none => .ok n
      | some [] => .raised "IndexError"               -- `font.unicodeData[decomposition][0]`
      | some (b :: _) => .ok (reattach s n b)

/-- `_openCloseSearch` -/
def openCloseSearch (s : UData) (table : List (Nat × Nat)) (n : Name) (pseudo : Bool) : Option Name :=
  match valueOf s pseudo n with
  | none => none
  | some v =>
    match AL.get? table v with
    | none => none
    | some r =>
      match nameForUnicode s r with
      | none => none
      | some precise => if !pseudo then some precise else some (reattach s n precise)

def closeRelativeFor (db : UniDB) (s : UData) (n : Name) (pseudo : Bool) : Option Name :=
  openCloseSearch s db.openToClose n pseudo

def openRelativeFor (db : UniDB) (s : UData) (n : Name) (pseudo : Bool) : Option Name :=
  openCloseSearch s db.closeToOpen n pseudo

/-! ## the look-ups as calls on a state -/

inductive Ask where
  | contains (n : Name)                            -- `name in font`
  | unicode (n : Name)
  | nameForUnicode (v : Nat)
  | pseudoUnicode (n : Name)
  | forcedUnicode (n : Name)
  | nameForForced (v : Nat)
  | script (n : Name) (pseudo : Bool)
  | block (n : Name) (pseudo : Bool)
  | category (n : Name) (pseudo : Bool)
  | decompositionBase (n : Name) (pseudo : Bool)
  | closeRelative (n : Name) (pseudo : Bool)
  | openRelative (n : Name) (pseudo : Bool)
deriving Repr, DecidableEq

inductive Ans where
  | bool (b : Bool)
  | code (v : Option Nat)
  | name (n : Option Name)
  | tag (t : String)
  | raised (what : String)
deriving Repr, DecidableEq

def Ans.ofResName : Res Name → Ans
  | .ok n => .name (some n)
  | .raised e => .raised e

def Ans.ofResOptName : Res (Option Name) → Ans
  | .ok n => .name n
  | .raised e => .raised e

/-- the one look-up that may write -/
def Ask.allocates : Ask → Bool
  | .forcedUnicode _ => true
  | _ => false

/-- one call of a public look-up: the state afterwards and the answer -/
def ask (db : UniDB) (s : UData) : Ask → UData × Ans
  | .contains n => (s, .bool (inFont s n))
  | .unicode n => (s, .code (unicodeFor s n))
  | .nameForUnicode v => (s, .name (nameForUnicode s v))
  | .pseudoUnicode n => (s, .code (pseudoUnicodeFor s n))
  | .forcedUnicode n =>
    match forcedUnicodeFor s n with
    | (s', some v) => (s', .code (some v))
    | (s', none) => (s', .raised "RecursionError")
  | .nameForForced v => (s, Ans.ofResOptName (nameForForced s v))
  | .script n p => (s, .tag (scriptFor db s n p))
  | .block n p => (s, .tag (blockFor db s n p))
  | .category n p => (s, .tag (categoryFor db s n p))
  | .decompositionBase n p => (s, Ans.ofResName (decompositionBaseFor db s n p))
  | .closeRelative n p => (s, .name (closeRelativeFor db s n p))
  | .openRelative n p => (s, .name (openRelativeFor db s n p))

/-- a sequence of calls -/
def askAll (db : UniDB) (s : UData) : List Ask → UData × List Ans
  | [] => (s, [])
  | a :: r =>
    let (s1, x) := ask db s a
    let (s2, xs) := askAll db s1 r
    (s2, x :: xs)

/-! ## the `Env` of M-Sort, derived -/

/-- the look-ups M-Sort sorts with, computed from the font, the cmap and the Unicode tables -/
def envOf (db : UniDB) (s : UData) : Env where
  unicodeFor := unicodeFor s
  pseudoUnicodeFor := pseudoUnicodeFor s
  categoryFor := categoryFor db s
  scriptFor := scriptFor db s
  blockFor := blockFor db s
  closeRelativeFor := closeRelativeFor db s
  inFont := inFont s
  decompBase := decompositionBase db decompFuel
  nameForUnicode := nameForUnicodeI s

/-- the methods of `UnicodeData` behind the fields of `Env` (tied to the code by `Gen/SortCalls.lean`) -/
def envMethods : List String :=
  ["unicodeForGlyphName", "pseudoUnicodeForGlyphName", "categoryForGlyphName", "scriptForGlyphName",
   "blockForGlyphName", "closeRelativeForGlyphName", "_openCloseSearch", "glyphNameForUnicode"]

/-- the composed model: `font.unicodeData.sortGlyphNames(names, descriptors)` from the font, the cmap and the
Unicode tables -/
def sortFont (db : UniDB) (s : UData) (T : Tables) (ds : List (Desc SortType)) (names : List Name) : List Name :=
  sortGlyphNames (envOf db s) T ds names

/-! ## a `UniDB` from rows (examples, and the driver's per-case table) -/

structure DBRow where
  cp : Nat
  cat : String
  script : String
  block : String
  decomp : Decomp := {}
deriving Repr, Inhabited

def rowOf (rows : List DBRow) (v : Nat) : Option DBRow := rows.find? (fun r => r.cp == v)

/-- code points without a row get what fontTools answers for an unassigned code point -/
def tableDB (rows : List DBRow) (openToClose closeToOpen : List (Nat × Nat)) : UniDB where
  category v := ((rowOf rows v).map (·.cat)).getD "Cn"
  script v := ((rowOf rows v).map (·.script)).getD "Unknown"
  block v := ((rowOf rows v).map (·.block)).getD "No_Block"
  decomposition v := ((rowOf rows v).map (·.decomp)).getD {}
  openToClose := openToClose
  closeToOpen := closeToOpen

/-! ## who calls whom (over the table regenerated from the AST: `Gen/SortCalls.lean`) -/

/-- the methods reachable from `roots` through `self.<method>` references, `fuel` rounds -/
def reach (calls : List (String × List String)) : Nat → List String → List String
  | 0, seen => seen
  | fuel + 1, seen =>
    let next := seen.flatMap (fun m => (AL.get? calls m).getD [])
    let fresh := (next.filter (fun m => !seen.contains m)).eraseDups
    if fresh.isEmpty then seen else reach calls fuel (seen ++ fresh)

end NameLookups
end DefconModel
