/-
M-Notify: executable model of `defcon.tools.notifications.NotificationCenter`
(Lib/defcon/tools/notifications.py), statement by statement.

* `registry`  : `{(notification, observable): OrderedDict(observer: methodName)}`; the
                identifier registry is kept in step with it by the code, so the identifier is
                stored in the registration record (`Reg.ident`).
* `holds`     : `{(notification, observable, observer): {count, notifications, notes}}`
* `disabled`  : `{(notification, observable, observer): count}`
* `dead`      : objects (observers, senders) whose weak references have died (`kill` op = object
                collected)
* `scripts`   : what each observer callback does when invoked (re-entrancy): a one-shot list
                of operations, run the first time the callback `(observer, method)` fires.

Core Lean only; no imports outside this project.
-/
import DefconModel.Util.AL

namespace DefconModel
namespace Notify

abbrev Name := Nat
abbrev Obj := Nat
abbrev Meth := Nat
abbrev Data := Nat

abbrev RKey := Option Name × Option Obj
abbrev HKey := Option Name × Option Obj × Option Obj

structure Reg where
  observer : Obj
  meth : Meth
  ident : Option String
deriving DecidableEq, Repr

/-- A queued (held) notification: `(name, observableRef, data, observerRef-or-None)`. -/
structure Note where
  name : Name
  sender : Obj
  data : Data
  target : Option Obj
deriving DecidableEq, Repr

structure Hold where
  count : Nat
  queue : List Note
  notes : List Nat
deriving DecidableEq, Repr

inductive Err where
  | keyError | assertionError
deriving DecidableEq, Repr

inductive Op where
  | add (o : Obj) (m : Meth) (n : Option Name) (s : Option Obj) (ident : Option String)
  | remove (o : Obj) (n : Option Name) (s : Option Obj)
  | removeAll (o : Obj) (s : Option Obj)
  | has (o : Obj) (n : Option Name) (s : Option Obj)
  | find (o : Option Obj) (n : Option Name) (s : Option Obj) (pat : Option String)
  | post (n : Name) (s : Obj) (d : Data) (target : Option Obj)
  | hold (n : Option Name) (s : Option Obj) (o : Option Obj) (note : Option Nat)
  | release (n : Option Name) (s : Option Obj) (o : Option Obj)
  | disable (n : Option Name) (s : Option Obj) (o : Option Obj)
  | enable (n : Option Name) (s : Option Obj) (o : Option Obj)
  | areHeld (n : Option Name) (s : Option Obj) (o : Option Obj)
  | areDisabled (n : Option Name) (s : Option Obj) (o : Option Obj)
  | heldKeys
  | heldNotes (n : Option Name) (s : Option Obj) (o : Option Obj)
  | kill (o : Obj)
  | script (o : Obj) (m : Meth) (ops : List Op)
deriving Repr

/-- One found observation: observer (none when dead), observable, notification, identifier. -/
structure Found where
  observer : Option Obj
  observable : Option Obj
  notification : Option Name
  ident : Option String
deriving DecidableEq, Repr

inductive Res where
  | ok
  | bool (b : Bool)
  | found (l : List Found)
  | keys (l : List HKey)
  | notes (l : List Nat)
  | err (e : Err)
deriving DecidableEq, Repr

inductive Ev where
  /-- callback `(observer, method)` invoked with notification `(name, sender, data)` -/
  | deliver (o : Obj) (m : Meth) (n : Name) (s : Obj) (d : Data)
  /-- result of an operation (top level or issued from inside a callback) -/
  | ret (r : Res)
  | outOfFuel
deriving DecidableEq, Repr

structure Center where
  registry : List (RKey × List Reg) := []
  holds : List (HKey × Hold) := []
  disabled : List (HKey × Nat) := []
  dead : List Obj := []
  scripts : List ((Obj × Meth) × List Op) := []

/-! ### Glob matching: `fnmatch.fnmatchcase(identifier, pattern)`, i.e. the regular expression
    that `fnmatch.translate` builds (CPython 3.12), read as a token list -/

inductive Tok where
  /-- one given character -/
  | lit (c : Char)
  /-- `?` -/
  | any
  /-- `*` -/
  | star
  /-- `[seq]` / `[!seq]`: inclusive character ranges (a single member `x` is the range `x-x`) -/
  | set (neg : Bool) (items : List (Char × Char))
deriving DecidableEq, Repr

/-- one member of a bracket expression -/
inductive Item where
  | ch (c : Char)
  | range (lo hi : Char)
deriving DecidableEq, Repr

def Item.toRange : Item → Char × Char
  | .ch c => (c, c)
  | .range lo hi => (lo, hi)

/-- The members of a bracket expression (the text between `[` / `[!` and the closing `]`), as
`translate` reads it: a `-` that is neither the first character, nor the last, nor one of the two
characters that follow the upper end of a range joins its neighbours into a range; a range whose
ends are in the wrong order is dropped altogether ("Remove empty ranges"); everything else -
backslash, `^`, `[`, `&`, `~`, `|` included, which `translate` escapes - stands for itself. -/
def rawItems : List Char → List Item
  | [] => []
  | [a] => [.ch a]
  | [a, '-'] => [.ch a, .ch '-']
  | a :: '-' :: b :: rest => (if a ≤ b then [.range a b] else []) ++ rawItems rest
  | a :: b :: rest => .ch a :: rawItems (b :: rest)

/-- `translate` decides whether the set is negated AFTER it has dropped the empty ranges, by looking
at the first character that is left: `[a--!x]` loses `a--` and is read as `[!x]`; a range that
starts with that `!` loses its lower end and its hyphen becomes a member (`[a--!-c]` = `[!-c]`,
"neither `-` nor `c`").  `bang` = the pattern had a `!` right after the `[`. -/
def finishSet (bang : Bool) (its : List Item) : Bool × List (Char × Char) :=
  if bang then (true, its.map Item.toRange)
  else match its with
    | .ch c :: rest => if c = '!' then (true, rest.map Item.toRange) else (false, its.map Item.toRange)
    | .range lo hi :: rest =>
      if lo = '!' then (true, ('-', '-') :: (hi, hi) :: rest.map Item.toRange)
      else (false, its.map Item.toRange)
    | [] => (false, [])

/-- the characters before the first `]`, and what follows it; `none` when there is no `]` -/
def untilClose : List Char → Option (List Char × List Char)
  | [] => none
  | c :: r =>
    if c = ']' then some ([], r)
    else match untilClose r with
      | none => none
      | some (b, rest) => some (c :: b, rest)

def dropBang : List Char → Bool × List Char
  | '!' :: r => (true, r)
  | p => (false, p)

/-- a `]` that comes first (after the optional `!`) is a member, not the end -/
def leadClose : List Char → List Char × List Char
  | ']' :: r => ([']'], r)
  | p => ([], p)

/-- What follows a `[`: `(negated, members, rest of the pattern)`, or `none` when the bracket is
never closed (then the `[` stands for itself and the scan resumes right after it). -/
def splitSet (p : List Char) : Option (Bool × List Char × List Char) :=
  match untilClose (leadClose (dropBang p).2).2 with
  | none => none
  | some (body, rest) => some ((dropBang p).1, (leadClose (dropBang p).2).1 ++ body, rest)

def setTok (x : Bool × List Char × List Char) : Tok :=
  .set (finishSet x.1 (rawItems x.2.1)).1 (finishSet x.1 (rawItems x.2.1)).2

/-- the scan of `translate`; every step consumes at least one character, `fuel` = pattern length -/
def tokenizeF : Nat → List Char → List Tok
  | 0, _ => []
  | _ + 1, [] => []
  | f + 1, c :: p =>
    if c = '*' then .star :: tokenizeF f p
    else if c = '?' then .any :: tokenizeF f p
    else if c = '[' then
      match splitSet p with
      | none => .lit '[' :: tokenizeF f p
      | some x => setTok x :: tokenizeF f x.2.2
    else .lit c :: tokenizeF f p

def tokenize (p : List Char) : List Tok := tokenizeF p.length p

def inSet (items : List (Char × Char)) (c : Char) : Bool :=
  items.any (fun it => decide (it.1 ≤ c) && decide (c ≤ it.2))

/-- `*`: the rest of the pattern matches some suffix -/
def starM (f : List Char → Bool) : List Char → Bool
  | [] => f []
  | c :: s => f (c :: s) || starM f s

def litM (c : Char) (f : List Char → Bool) : List Char → Bool
  | [] => false
  | d :: s => c == d && f s

def anyM (f : List Char → Bool) : List Char → Bool
  | [] => false
  | _ :: s => f s

def setM (neg : Bool) (items : List (Char × Char)) (f : List Char → Bool) : List Char → Bool
  | [] => false
  | d :: s => (inSet items d != neg) && f s

/-- does the whole string match the token list? -/
def globT : List Tok → List Char → Bool
  | [] => fun s => s.isEmpty
  | .lit c :: ts => litM c (globT ts)
  | .any :: ts => anyM (globT ts)
  | .star :: ts => starM (globT ts)
  | .set neg items :: ts => setM neg items (globT ts)

def glob (p s : List Char) : Bool := globT (tokenize p) s

/-! ### Registry primitives -/

/-- The registrations stored under a key (`[]` when the key is absent). -/
def regsAt (c : Center) (k : RKey) : List Reg := (AL.get? c.registry k).getD []

def hasReg (c : Center) (k : RKey) (o : Obj) : Bool := (regsAt c k).any (fun r => r.observer = o)

/-- `addObserver` -/
def add (c : Center) (o : Obj) (m : Meth) (k : RKey) (ident : Option String) : Center × Res :=
  if hasReg c k o then (c, .err .assertionError)
  else ({ c with registry := AL.set c.registry k (regsAt c k ++ [⟨o, m, ident⟩]) }, .ok)

/-- removal of `o` from one key; inner dict deleted when it becomes empty -/
def removeKey (c : Center) (o : Obj) (k : RKey) : Center :=
  match AL.get? c.registry k with
  | none => c
  | some regs =>
    let regs' := regs.filter (fun r => r.observer ≠ o)
    if regs'.isEmpty then { c with registry := AL.erase c.registry k }
    else { c with registry := AL.set c.registry k regs' }

/-- keys under which `o` is registered for observable `s` (the observer-key backtrack) -/
def backtrack (c : Center) (o : Obj) (s : Option Obj) : List RKey :=
  (c.registry.filter (fun kr => kr.1.2 = s ∧ kr.2.any (fun r => r.observer = o))).map Prod.fst

def removeAll (c : Center) (o : Obj) (s : Option Obj) : Center × Res :=
  match backtrack c o s with
  | [] => (c, .err .keyError)
  | ks => (ks.foldl (fun c k => removeKey c o k) c, .ok)

/-- identifier filter of `findObservations`: no pattern matches everything; a pattern never
matches a registration without identifier; otherwise `fnmatchcase` -/
def identOk : Option String → Option String → Bool
  | none, _ => true
  | some _, none => false
  | some p, some i => glob p.toList i.toList

def obsOk : Option Obj → Obj → Bool
  | none, _ => true
  | some o, x => x == o

def keyOk (n : Option Name) (s : Option Obj) (k : RKey) : Bool :=
  (n.isNone || k.1 == n) && (s.isNone || k.2 == s)

/-- what dereferencing the weak reference to `x` gives: `none` once `x` has died -/
def liveRef (c : Center) (x : Obj) : Option Obj := if x ∈ c.dead then none else some x

def liveRef? (c : Center) : Option Obj → Option Obj
  | none => none
  | some x => liveRef c x

def findObs (c : Center) (o : Option Obj) (n : Option Name) (s : Option Obj) (pat : Option String) :
    List Found :=
  c.registry.flatMap fun kr =>
    if keyOk n s kr.1 then
      kr.2.filterMap fun r =>
        if identOk pat r.ident && obsOk o r.observer then
          some ⟨liveRef c r.observer, liveRef? c kr.1.2, kr.1.1, r.ident⟩
        else none
    else []

/-! ### Hold / disable tables -/

def senderKeys (n : Name) (s : Obj) : List HKey :=
  [(none, none, none), (some n, none, none), (none, some s, none), (some n, some s, none)]

def observerKeys (n : Name) (s : Obj) (o : Obj) : List HKey :=
  [(none, none, some o), (some n, none, some o), (none, some s, some o), (some n, some s, some o)]

def registryKeys (n : Name) (s : Obj) : List RKey :=
  [(none, none), (none, some s), (some n, none), (some n, some s)]

def isDisabled (c : Center) (ks : List HKey) : Bool := ks.any (fun k => AL.contains c.disabled k)

def firstHold (c : Center) (ks : List HKey) : Option HKey := ks.find? (fun k => AL.contains c.holds k)

/-- append to the hold's queue unless an equal notification is already pending -/
def enqueue (c : Center) (hk : HKey) (note : Note) : Center :=
  match AL.get? c.holds hk with
  | none => c
  | some h =>
    if note ∈ h.queue then c
    else { c with holds := AL.set c.holds hk { h with queue := h.queue ++ [note] } }

def hold (c : Center) (hk : HKey) (note : Option Nat) : Center :=
  let h := (AL.get? c.holds hk).getD ⟨0, [], []⟩
  let notes := match note with
    | none => h.notes
    | some x => h.notes ++ [x]
  { c with holds := AL.set c.holds hk { h with count := h.count + 1, notes := notes } }

def disable (c : Center) (hk : HKey) : Center :=
  { c with disabled := AL.set c.disabled hk ((AL.get? c.disabled hk).getD 0 + 1) }

def enable (c : Center) (hk : HKey) : Center × Res :=
  match AL.get? c.disabled hk with
  | none => (c, .err .keyError)
  | some n =>
    if n - 1 = 0 then ({ c with disabled := AL.erase c.disabled hk }, .ok)
    else ({ c with disabled := AL.set c.disabled hk (n - 1) }, .ok)

/-! ### Sequencing helper: thread the state, concatenate the event logs -/

def runAll {α : Type} (f : Center → α → Center × List Ev) : Center → List α → Center × List Ev
  | c, [] => (c, [])
  | c, x :: xs =>
    let (c1, e1) := f c x
    let (c2, e2) := runAll f c1 xs
    (c2, e1 ++ e2)

/-! ### Posting.  `rec` is the interpreter for operations issued from inside callbacks
    (open recursion; tied by `exec` below with fuel). -/

/-- invoke callback `(o, m)`: log the delivery, then run its one-shot script if any -/
def callback (rec : Center → Op → Center × List Ev) (c : Center) (r : Reg)
    (n : Name) (s : Obj) (d : Data) : Center × List Ev :=
  match AL.get? c.scripts (r.observer, r.meth) with
  | none => (c, [.deliver r.observer r.meth n s d])
  | some ops =>
    let c1 := { c with scripts := AL.erase c.scripts (r.observer, r.meth) }
    let (c2, evs) := runAll rec c1 ops
    (c2, .deliver r.observer r.meth n s d :: evs)

/-- body of the inner `for observerRef, methodName in list(registry[key].items())` loop -/
def deliverOne (rec : Center → Op → Center × List Ev) (n : Name) (s : Obj) (d : Data)
    (target : Option Obj) (c : Center) (r : Reg) : Center × List Ev :=
  if target.isSome ∧ target ≠ some r.observer then (c, [])
  else if isDisabled c (observerKeys n s r.observer) then (c, [])
  else match firstHold c (observerKeys n s r.observer) with
    | some hk => (enqueue c hk ⟨n, s, d, some r.observer⟩, [])
    | none =>
      if r.observer ∈ c.dead then (c, [])
      else callback rec c r n s d

/-- one registry key: looked up when reached, its observer list snapshotted -/
def deliverKey (rec : Center → Op → Center × List Ev) (n : Name) (s : Obj) (d : Data)
    (target : Option Obj) (c : Center) (k : RKey) : Center × List Ev :=
  runAll (deliverOne rec n s d target) c (regsAt c k)

def post (rec : Center → Op → Center × List Ev) (c : Center) (n : Name) (s : Obj) (d : Data)
    (target : Option Obj) : Center × List Ev :=
  if isDisabled c (senderKeys n s) then (c, [])
  else match firstHold c (senderKeys n s) with
    | some hk => (enqueue c hk ⟨n, s, d, target⟩, [])
    | none => runAll (deliverKey rec n s d target) c (registryKeys n s)

/-- one queued notification at release: dropped when its sender has died meanwhile (there is no
object to post it for), posted again - restricted to its observer, if it has one - otherwise -/
def repost (rec : Center → Op → Center × List Ev) (c : Center) (q : Note) : Center × List Ev :=
  if q.sender ∈ c.dead then (c, []) else post rec c q.name q.sender q.data q.target

def release (rec : Center → Op → Center × List Ev) (c : Center) (hk : HKey) : Center × List Ev :=
  match AL.get? c.holds hk with
  | none => (c, [.ret (.err .keyError)])
  | some h =>
    if h.count - 1 = 0 then
      let c1 := { c with holds := AL.erase c.holds hk }
      let (c2, evs) := runAll (repost rec) c1 h.queue
      (c2, evs ++ [.ret .ok])
    else
      ({ c with holds := AL.set c.holds hk { h with count := h.count - 1 } }, [.ret .ok])

/-- One operation, with `rec` interpreting operations issued from callbacks. -/
def step (rec : Center → Op → Center × List Ev) (c : Center) : Op → Center × List Ev
  | .add o m n s ident => let (c', r) := add c o m (n, s) ident; (c', [.ret r])
  | .remove o n s => (removeKey c o (n, s), [.ret .ok])
  | .removeAll o s => let (c', r) := removeAll c o s; (c', [.ret r])
  | .has o n s => (c, [.ret (.bool (hasReg c (n, s) o))])
  | .find o n s pat => (c, [.ret (.found (findObs c o n s pat))])
  | .post n s d target => let (c', evs) := post rec c n s d target; (c', evs ++ [.ret .ok])
  | .hold n s o note => (hold c (n, s, o) note, [.ret .ok])
  | .release n s o => release rec c (n, s, o)
  | .disable n s o => (disable c (n, s, o), [.ret .ok])
  | .enable n s o => let (c', r) := enable c (n, s, o); (c', [.ret r])
  | .areHeld n s o => (c, [.ret (.bool (AL.contains c.holds (n, s, o)))])
  | .areDisabled n s o => (c, [.ret (.bool (AL.contains c.disabled (n, s, o)))])
  | .heldKeys => (c, [.ret (.keys (AL.keys c.holds))])
  | .heldNotes n s o =>
    match AL.get? c.holds (n, s, o) with
    | none => (c, [.ret (.err .keyError)])
    | some h => (c, [.ret (.notes h.notes)])
  | .kill o => ({ c with dead := o :: c.dead }, [.ret .ok])
  | .script o m ops => ({ c with scripts := AL.set c.scripts (o, m) ops }, [.ret .ok])

/-- The interpreter: nesting depth of callbacks bounded by `fuel`. -/
def exec : Nat → Center → Op → Center × List Ev
  | 0, c, _ => (c, [.outOfFuel])
  | fuel + 1, c, op => step (exec fuel) c op

/-- A callback-free interpreter (what `rec` is when no callback issues operations). -/
def noRec : Center → Op → Center × List Ev := fun c _ => (c, [.outOfFuel])

def run (fuel : Nat) (c : Center) (ops : List Op) : Center × List Ev := runAll (exec fuel) c ops

end Notify
end DefconModel
