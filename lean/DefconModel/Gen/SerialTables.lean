/-
REGENERATED on every run by harness/props/c14_extract.py from Lib/defcon/objects/*.py - do not edit.
Serialization key tables of every object kind (getter side / setter side), the provider class of each,
Info._properties (name, default) and fontTools' list of UFO 3 fontinfo attributes.
-/
namespace DefconModel.Gen.SerialTables

structure Row where
  kind : String
  getProvider : String
  setProvider : String
  getKeys : List String
  getAlt : List String
  getDyn : String
  setKeys : List (String × Bool)
  setDyn : String
deriving DecidableEq, Repr

def fontGetters : List String := ["_ufoFormatVersion", "_kerningGroupConversionRenameMaps", "data", "features", "groups", "images", "info", "kerning", "layers", "lib", "tempLib", "guidelines"]
def fontGetAlt : List String := []
def fontSetters : List String := ["_ufoFormatVersion", "_kerningGroupConversionRenameMaps", "data", "features", "groups", "images", "info", "kerning", "layers", "lib", "tempLib", "guidelines"]
def layerSetGetters : List String := ["layers"]
def layerSetGetAlt : List String := []
def layerSetSetters : List String := ["layers"]
def layerGetters : List String := ["lib", "tempLib", "color", "glyphs"]
def layerGetAlt : List String := []
def layerSetters : List String := ["lib", "tempLib", "color", "glyphs"]
def glyphGetters : List String := ["name", "unicodes", "width", "height", "note", "components", "anchors", "guidelines", "image", "lib", "tempLib"]
def glyphGetAlt : List String := ["_shallowLoadedContours", "_contours"]
def glyphSetters : List String := ["name", "unicodes", "width", "height", "note", "lib", "tempLib", "_shallowLoadedContours", "_contours", "components", "guidelines", "anchors", "image"]
def contourGetters : List String := ["pen"]
def contourGetAlt : List String := []
def contourSetters : List String := ["pen"]
def componentGetters : List String := ["baseGlyph", "transformation", "identifier"]
def componentGetAlt : List String := []
def componentSetters : List String := ["baseGlyph", "transformation", "identifier"]
def anchorGetters : List String := []
def anchorGetAlt : List String := []
def anchorSetters : List String := []
def guidelineGetters : List String := []
def guidelineGetAlt : List String := []
def guidelineSetters : List String := []
def imageGetters : List String := []
def imageGetAlt : List String := []
def imageSetters : List String := []
def libGetters : List String := []
def libGetAlt : List String := []
def libSetters : List String := []
def kerningGetters : List String := []
def kerningGetAlt : List String := []
def kerningSetters : List String := []
def groupsGetters : List String := []
def groupsGetAlt : List String := []
def groupsSetters : List String := []
def infoGetters : List String := []
def infoGetAlt : List String := []
def infoSetters : List String := []
def featuresGetters : List String := ["text"]
def featuresGetAlt : List String := []
def featuresSetters : List String := ["text"]
def imageSetGetters : List String := []
def imageSetGetAlt : List String := []
def imageSetSetters : List String := []
def dataSetGetters : List String := []
def dataSetGetAlt : List String := []
def dataSetSetters : List String := []

def rows : List Row := [
  { kind := "font", getProvider := "Font", setProvider := "Font",
    getKeys := fontGetters, getAlt := fontGetAlt, getDyn := "",
    setKeys := [("_ufoFormatVersion", true), ("_kerningGroupConversionRenameMaps", true), ("data", false), ("features", false), ("groups", false), ("images", false), ("info", false), ("kerning", false), ("layers", false), ("lib", false), ("tempLib", false), ("guidelines", false)], setDyn := "" },
  { kind := "layerSet", getProvider := "LayerSet", setProvider := "LayerSet",
    getKeys := layerSetGetters, getAlt := layerSetGetAlt, getDyn := "",
    setKeys := [("layers", false)], setDyn := "" },
  { kind := "layer", getProvider := "Layer", setProvider := "Layer",
    getKeys := layerGetters, getAlt := layerGetAlt, getDyn := "",
    setKeys := [("lib", true), ("tempLib", true), ("color", true), ("glyphs", false)], setDyn := "" },
  { kind := "glyph", getProvider := "Glyph", setProvider := "Glyph",
    getKeys := glyphGetters, getAlt := glyphGetAlt, getDyn := "",
    setKeys := [("name", true), ("unicodes", true), ("width", true), ("height", true), ("note", true), ("lib", true), ("tempLib", true), ("_shallowLoadedContours", false), ("_contours", false), ("components", false), ("guidelines", false), ("anchors", false), ("image", false)], setDyn := "" },
  { kind := "contour", getProvider := "Contour", setProvider := "Contour",
    getKeys := contourGetters, getAlt := contourGetAlt, getDyn := "",
    setKeys := [("pen", false)], setDyn := "" },
  { kind := "component", getProvider := "Component", setProvider := "Component",
    getKeys := componentGetters, getAlt := componentGetAlt, getDyn := "",
    setKeys := [("baseGlyph", true), ("transformation", true), ("identifier", true)], setDyn := "" },
  { kind := "anchor", getProvider := "BaseDictObject", setProvider := "BaseDictObject",
    getKeys := anchorGetters, getAlt := anchorGetAlt, getDyn := "keys",
    setKeys := [], setDyn := "update" },
  { kind := "guideline", getProvider := "BaseDictObject", setProvider := "BaseDictObject",
    getKeys := guidelineGetters, getAlt := guidelineGetAlt, getDyn := "keys",
    setKeys := [], setDyn := "update" },
  { kind := "image", getProvider := "BaseDictObject", setProvider := "BaseDictObject",
    getKeys := imageGetters, getAlt := imageGetAlt, getDyn := "keys",
    setKeys := [], setDyn := "update" },
  { kind := "lib", getProvider := "BaseDictObject", setProvider := "BaseDictObject",
    getKeys := libGetters, getAlt := libGetAlt, getDyn := "keys",
    setKeys := [], setDyn := "update" },
  { kind := "kerning", getProvider := "BaseDictObject", setProvider := "BaseDictObject",
    getKeys := kerningGetters, getAlt := kerningGetAlt, getDyn := "keys",
    setKeys := [], setDyn := "update" },
  { kind := "groups", getProvider := "BaseDictObject", setProvider := "BaseDictObject",
    getKeys := groupsGetters, getAlt := groupsGetAlt, getDyn := "keys",
    setKeys := [], setDyn := "update" },
  { kind := "info", getProvider := "Info", setProvider := "Info",
    getKeys := infoGetters, getAlt := infoGetAlt, getDyn := "properties",
    setKeys := [], setDyn := "properties" },
  { kind := "features", getProvider := "Features", setProvider := "Features",
    getKeys := featuresGetters, getAlt := featuresGetAlt, getDyn := "",
    setKeys := [("text", false)], setDyn := "" },
  { kind := "imageSet", getProvider := "ImageSet", setProvider := "ImageSet",
    getKeys := imageSetGetters, getAlt := imageSetGetAlt, getDyn := "fileNames",
    setKeys := [], setDyn := "items" },
  { kind := "dataSet", getProvider := "DataSet", setProvider := "DataSet",
    getKeys := dataSetGetters, getAlt := dataSetGetAlt, getDyn := "fileNames",
    setKeys := [], setDyn := "items" }
]

def infoProperties : List (String × String) := [
  ("ascender", "None"),
  ("capHeight", "None"),
  ("copyright", "None"),
  ("descender", "None"),
  ("familyName", "None"),
  ("italicAngle", "None"),
  ("macintoshFONDFamilyID", "None"),
  ("macintoshFONDName", "None"),
  ("note", "None"),
  ("openTypeGaspRangeRecords", "None"),
  ("openTypeHeadCreated", "None"),
  ("openTypeHeadFlags", "None"),
  ("openTypeHeadLowestRecPPEM", "None"),
  ("openTypeHheaAscender", "None"),
  ("openTypeHheaCaretOffset", "None"),
  ("openTypeHheaCaretSlopeRise", "None"),
  ("openTypeHheaCaretSlopeRun", "None"),
  ("openTypeHheaDescender", "None"),
  ("openTypeHheaLineGap", "None"),
  ("openTypeNameCompatibleFullName", "None"),
  ("openTypeNameDescription", "None"),
  ("openTypeNameDesigner", "None"),
  ("openTypeNameDesignerURL", "None"),
  ("openTypeNameLicense", "None"),
  ("openTypeNameLicenseURL", "None"),
  ("openTypeNameManufacturer", "None"),
  ("openTypeNameManufacturerURL", "None"),
  ("openTypeNamePreferredFamilyName", "None"),
  ("openTypeNamePreferredSubfamilyName", "None"),
  ("openTypeNameRecords", "None"),
  ("openTypeNameSampleText", "None"),
  ("openTypeNameUniqueID", "None"),
  ("openTypeNameVersion", "None"),
  ("openTypeNameWWSFamilyName", "None"),
  ("openTypeNameWWSSubfamilyName", "None"),
  ("openTypeOS2CodePageRanges", "None"),
  ("openTypeOS2FamilyClass", "None"),
  ("openTypeOS2Panose", "None"),
  ("openTypeOS2Selection", "None"),
  ("openTypeOS2StrikeoutPosition", "None"),
  ("openTypeOS2StrikeoutSize", "None"),
  ("openTypeOS2SubscriptXOffset", "None"),
  ("openTypeOS2SubscriptXSize", "None"),
  ("openTypeOS2SubscriptYOffset", "None"),
  ("openTypeOS2SubscriptYSize", "None"),
  ("openTypeOS2SuperscriptXOffset", "None"),
  ("openTypeOS2SuperscriptXSize", "None"),
  ("openTypeOS2SuperscriptYOffset", "None"),
  ("openTypeOS2SuperscriptYSize", "None"),
  ("openTypeOS2Type", "None"),
  ("openTypeOS2TypoAscender", "None"),
  ("openTypeOS2TypoDescender", "None"),
  ("openTypeOS2TypoLineGap", "None"),
  ("openTypeOS2UnicodeRanges", "None"),
  ("openTypeOS2VendorID", "None"),
  ("openTypeOS2WeightClass", "None"),
  ("openTypeOS2WidthClass", "None"),
  ("openTypeOS2WinAscent", "None"),
  ("openTypeOS2WinDescent", "None"),
  ("openTypeVheaCaretOffset", "None"),
  ("openTypeVheaCaretSlopeRise", "None"),
  ("openTypeVheaCaretSlopeRun", "None"),
  ("openTypeVheaVertTypoAscender", "None"),
  ("openTypeVheaVertTypoDescender", "None"),
  ("openTypeVheaVertTypoLineGap", "None"),
  ("postscriptBlueFuzz", "None"),
  ("postscriptBlueScale", "None"),
  ("postscriptBlueShift", "None"),
  ("postscriptBlueValues", "[]"),
  ("postscriptDefaultCharacter", "None"),
  ("postscriptDefaultWidthX", "None"),
  ("postscriptFamilyBlues", "[]"),
  ("postscriptFamilyOtherBlues", "[]"),
  ("postscriptFontName", "None"),
  ("postscriptForceBold", "None"),
  ("postscriptFullName", "None"),
  ("postscriptIsFixedPitch", "None"),
  ("postscriptNominalWidthX", "None"),
  ("postscriptOtherBlues", "[]"),
  ("postscriptSlantAngle", "None"),
  ("postscriptStemSnapH", "[]"),
  ("postscriptStemSnapV", "[]"),
  ("postscriptUnderlinePosition", "None"),
  ("postscriptUnderlineThickness", "None"),
  ("postscriptUniqueID", "None"),
  ("postscriptWeightName", "None"),
  ("postscriptWindowsCharacterSet", "None"),
  ("styleMapFamilyName", "None"),
  ("styleMapStyleName", "None"),
  ("styleName", "None"),
  ("trademark", "None"),
  ("unitsPerEm", "None"),
  ("versionMajor", "None"),
  ("versionMinor", "None"),
  ("woffMajorVersion", "None"),
  ("woffMetadataCopyright", "None"),
  ("woffMetadataCredits", "None"),
  ("woffMetadataDescription", "None"),
  ("woffMetadataExtensions", "None"),
  ("woffMetadataLicense", "None"),
  ("woffMetadataLicensee", "None"),
  ("woffMetadataTrademark", "None"),
  ("woffMetadataUniqueID", "None"),
  ("woffMetadataVendor", "None"),
  ("woffMinorVersion", "None"),
  ("xHeight", "None"),
  ("year", "None")
]

def ufo3InfoAttributes : List String := [
  "ascender",
  "capHeight",
  "copyright",
  "descender",
  "familyName",
  "guidelines",
  "italicAngle",
  "macintoshFONDFamilyID",
  "macintoshFONDName",
  "note",
  "openTypeGaspRangeRecords",
  "openTypeHeadCreated",
  "openTypeHeadFlags",
  "openTypeHeadLowestRecPPEM",
  "openTypeHheaAscender",
  "openTypeHheaCaretOffset",
  "openTypeHheaCaretSlopeRise",
  "openTypeHheaCaretSlopeRun",
  "openTypeHheaDescender",
  "openTypeHheaLineGap",
  "openTypeNameCompatibleFullName",
  "openTypeNameDescription",
  "openTypeNameDesigner",
  "openTypeNameDesignerURL",
  "openTypeNameLicense",
  "openTypeNameLicenseURL",
  "openTypeNameManufacturer",
  "openTypeNameManufacturerURL",
  "openTypeNamePreferredFamilyName",
  "openTypeNamePreferredSubfamilyName",
  "openTypeNameRecords",
  "openTypeNameSampleText",
  "openTypeNameUniqueID",
  "openTypeNameVersion",
  "openTypeNameWWSFamilyName",
  "openTypeNameWWSSubfamilyName",
  "openTypeOS2CodePageRanges",
  "openTypeOS2FamilyClass",
  "openTypeOS2Panose",
  "openTypeOS2Selection",
  "openTypeOS2StrikeoutPosition",
  "openTypeOS2StrikeoutSize",
  "openTypeOS2SubscriptXOffset",
  "openTypeOS2SubscriptXSize",
  "openTypeOS2SubscriptYOffset",
  "openTypeOS2SubscriptYSize",
  "openTypeOS2SuperscriptXOffset",
  "openTypeOS2SuperscriptXSize",
  "openTypeOS2SuperscriptYOffset",
  "openTypeOS2SuperscriptYSize",
  "openTypeOS2Type",
  "openTypeOS2TypoAscender",
  "openTypeOS2TypoDescender",
  "openTypeOS2TypoLineGap",
  "openTypeOS2UnicodeRanges",
  "openTypeOS2VendorID",
  "openTypeOS2WeightClass",
  "openTypeOS2WidthClass",
  "openTypeOS2WinAscent",
  "openTypeOS2WinDescent",
  "openTypeVheaCaretOffset",
  "openTypeVheaCaretSlopeRise",
  "openTypeVheaCaretSlopeRun",
  "openTypeVheaVertTypoAscender",
  "openTypeVheaVertTypoDescender",
  "openTypeVheaVertTypoLineGap",
  "postscriptBlueFuzz",
  "postscriptBlueScale",
  "postscriptBlueShift",
  "postscriptBlueValues",
  "postscriptDefaultCharacter",
  "postscriptDefaultWidthX",
  "postscriptFamilyBlues",
  "postscriptFamilyOtherBlues",
  "postscriptFontName",
  "postscriptForceBold",
  "postscriptFullName",
  "postscriptIsFixedPitch",
  "postscriptNominalWidthX",
  "postscriptOtherBlues",
  "postscriptSlantAngle",
  "postscriptStemSnapH",
  "postscriptStemSnapV",
  "postscriptUnderlinePosition",
  "postscriptUnderlineThickness",
  "postscriptUniqueID",
  "postscriptWeightName",
  "postscriptWindowsCharacterSet",
  "styleMapFamilyName",
  "styleMapStyleName",
  "styleName",
  "trademark",
  "unitsPerEm",
  "versionMajor",
  "versionMinor",
  "woffMajorVersion",
  "woffMetadataCopyright",
  "woffMetadataCredits",
  "woffMetadataDescription",
  "woffMetadataExtensions",
  "woffMetadataLicense",
  "woffMetadataLicensee",
  "woffMetadataTrademark",
  "woffMetadataUniqueID",
  "woffMetadataVendor",
  "woffMinorVersion",
  "xHeight",
  "year"
]

end DefconModel.Gen.SerialTables
