/-
REGENERATED on every run of `./check C13` by harness/extract_copyforms.py from the AST of
Lib/defcon/objects/{glyph,base,component,contour,point,layer,font}.py and pens/glyphObjectPointPen.py.
Do not edit.  The syntactic form of every statement of the copy paths that decides how a field is copied.
-/
namespace DefconModel
namespace Gen
namespace CopyForms

def forms : List (String × String) := [
  ("Glyph.copyDataFromGlyph.width", "assign"),
  ("Glyph.copyDataFromGlyph.height", "assign"),
  ("Glyph.copyDataFromGlyph.unicodes", "list"),
  ("Glyph.copyDataFromGlyph.note", "assign"),
  ("Glyph.copyDataFromGlyph.guidelines", "instantiate:instantiateGuideline"),
  ("Glyph.copyDataFromGlyph.anchors", "instantiate:instantiateAnchor"),
  ("Glyph.copyDataFromGlyph.image", "assign"),
  ("Glyph.copyDataFromGlyph.outline", "pen"),
  ("Glyph.copyDataFromGlyph.lib", "deepcopy"),
  ("Glyph._set_unicodes._unicodes", "list"),
  ("Glyph._get_unicodes", "list"),
  ("Component._set_transformation._transformation", "tuple"),
  ("Glyph._set_lib", "clear+update"),
  ("Glyph._set_image.fileName", "item"),
  ("Glyph._set_image.transformation", "tuple-of-items"),
  ("Glyph._set_image.color", "item"),
  ("Glyph._set_image._image", "kept"),
  ("Glyph._set_guidelines", "clear+append"),
  ("Glyph._set_anchors", "clear+append"),
  ("BaseDictObject.__deepcopy__", "deepcopy-items"),
  ("GlyphObjectPointPen.addComponent.baseGlyph", "assign"),
  ("GlyphObjectPointPen.addComponent.transformation", "assign"),
  ("GlyphObjectPointPen.addComponent.component", "instantiate:instantiateComponent"),
  ("GlyphObjectPointPen.beginPath.contour", "instantiate:instantiateContour"),
  ("GlyphObjectPointPen.addPoint", "forward"),
  ("Contour.addPoint", "unpack+new-point"),
  ("Point.__init__", "assign:_identifier,_name,_segmentType,_smooth,_x,_y"),
  ("Layer.insertGlyph", "newGlyph+copyDataFromGlyph"),
  ("Font.insertGlyph", "delegate:_glyphSet.insertGlyph")
]

end CopyForms
end Gen
end DefconModel
