/- REGENERATED on every run by harness/props/c02.py:extract from <repo>/Lib/defcon/objects — do not edit. -/
namespace DefconModel.Gen.Mutators

/-- (kind, public mutators found in the source: methods/setters that (transitively) set dirty or post) -/
def found : List (String × List String) := [
  ("anchor", ["color=", "identifier=", "name=", "x=", "y="]),
  ("component", ["baseGlyph=", "identifier=", "transformation="]),
  ("contour", ["addPoint", "appendPoint", "clear", "clockwise=", "generateIdentifierForPoint", "identifier=", "insertPoint", "move", "positionForProspectivePointInsertionAtSegmentAndT", "removePoint", "removeSegment", "reverse", "setDataFromSerialization", "setStartPoint", "splitAndInsertPointAtSegmentAndT"]),
  ("data", ["__delitem__", "__setitem__", "save"]),
  ("dict", ["__delitem__", "__setitem__", "clear", "setDataFromSerialization", "update"]),
  ("features", ["text="]),
  ("font", ["appendGuideline", "clearGuidelines", "glyphOrder=", "guidelines=", "insertGuideline", "reloadData", "reloadGlyphs", "reloadImages", "reloadLayers", "removeGuideline", "save", "setDataFromSerialization"]),
  ("glyph", ["anchors=", "appendAnchor", "appendComponent", "appendContour", "appendGuideline", "bottomMargin=", "clear", "clearAnchors", "clearComponents", "clearContours", "clearGuidelines", "contourIndex", "decomposeAllComponents", "decomposeComponent", "guidelines=", "height=", "image=", "insertAnchor", "insertComponent", "insertContour", "insertGuideline", "leftMargin=", "lib=", "markColor=", "name=", "note=", "removeAnchor", "removeComponent", "removeContour", "removeGuideline", "rightMargin=", "setDataFromSerialization", "topMargin=", "unicodes=", "verticalOrigin=", "width="]),
  ("guideline", ["angle=", "color=", "identifier=", "name=", "x=", "y="]),
  ("image", ["color=", "fileName=", "move", "transformation="]),
  ("images", ["__delitem__", "__setitem__", "fileNames=", "save", "setDataFromSerialization"]),
  ("layer", ["__delitem__", "color=", "insertGlyph", "name=", "newGlyph", "reloadGlyphs", "setDataFromSerialization"]),
  ("layerSet", ["__delitem__", "defaultLayer=", "layerOrder=", "newLayer", "reloadLayers", "save", "setDataFromSerialization"])
]

/-- (kind, mutators the catalogue of the correspondence harness drives) -/
def catalogue : List (String × List String) := [
  ("anchor", ["color=", "color=spelled", "move", "name=", "x=", "y="]),
  ("component", ["baseGlyph=", "move", "transformation="]),
  ("contour", ["appendPoint", "clear", "clockwise=", "identifier=", "insertPoint", "move", "removePoint", "reverse", "setStartPoint"]),
  ("data", ["__delitem__", "__setitem__"]),
  ("dict", ["__delitem__", "__setitem__", "clear", "update"]),
  ("features", ["text="]),
  ("font", ["appendGuideline", "clearGuidelines", "glyphOrder=", "guidelines=reordered", "removeGuideline"]),
  ("glyph", ["appendAnchor", "appendComponent", "appendContour", "appendGuideline", "bottomMargin=", "clear", "clearAnchors", "clearComponents", "clearContours", "clearGuidelines", "clearImage", "height=", "image=", "leftMargin=", "markColor=", "move", "name=", "note=", "reappendAnchor", "reappendComponent", "reappendContour", "reappendGuideline", "removeAnchor", "removeComponent", "removeContour", "removeGuideline", "rightMargin=", "topMargin=", "unicode=", "unicodes=", "verticalOrigin=", "width="]),
  ("guideline", ["color=", "color=spelled", "name=", "x="]),
  ("image", ["color=", "fileName=", "move", "transformation="]),
  ("images", ["__delitem__", "__setitem__", "__setitem__unread"]),
  ("layer", ["__delitem__", "color=", "color=spelled", "insertGlyph", "newGlyph"]),
  ("layerSet", ["__delitem__", "defaultLayer=", "layerOrder=", "newLayer"])
]

/-- (kind, mutators deliberately not driven here; reasons in harness/props/c02.py:EXEMPT) -/
def exempt : List (String × List String) := [
  ("anchor", ["deserialize", "endSelfNotificationObservation", "generateIdentifier", "identifier=", "setDataFromSerialization"]),
  ("component", ["deserialize", "endSelfNotificationObservation", "generateIdentifier", "identifier=", "setDataFromSerialization"]),
  ("contour", ["addPoint", "beginPath", "deserialize", "endPath", "endSelfNotificationObservation", "generateIdentifier", "generateIdentifierForPoint", "positionForProspectivePointInsertionAtSegmentAndT", "removeSegment", "setDataFromSerialization", "splitAndInsertPointAtSegmentAndT"]),
  ("data", ["deserialize", "endSelfNotificationObservation", "fileNames=", "reloadData", "save", "setDataFromSerialization", "testForExternalChanges"]),
  ("dict", ["deserialize", "setDataFromSerialization"]),
  ("features", ["deserialize", "endSelfNotificationObservation", "setDataFromSerialization"]),
  ("font", ["__delitem__", "close", "deserialize", "endSelfNotificationObservation", "guidelines=", "insertGlyph", "insertGuideline", "kerningGroupConversionRenameMaps=", "newGlyph", "newLayer", "path=", "reloadData", "reloadFeatures", "reloadGlyphs", "reloadGroups", "reloadImages", "reloadInfo", "reloadKerning", "reloadLayers", "reloadLib", "save", "saveData", "saveFeatures", "saveGroups", "saveImages", "saveInfo", "saveKerning", "saveLib", "setDataFromSerialization", "tempLib=", "testForExternalChanges", "updateGlyphOrder"]),
  ("glyph", ["addComponent", "addPoint", "anchors=", "beginPath", "contourIndex", "copyDataFromGlyph", "correctContourDirection", "decomposeAllComponents", "decomposeComponent", "deserialize", "endPath", "endSelfNotificationObservation", "guidelines=", "insertAnchor", "insertComponent", "insertContour", "insertGuideline", "lib=", "setDataFromSerialization", "tempLib="]),
  ("guideline", ["angle=", "deserialize", "endSelfNotificationObservation", "generateIdentifier", "identifier=", "setDataFromSerialization", "y="]),
  ("image", ["clear", "deserialize", "endSelfNotificationObservation", "setDataFromSerialization"]),
  ("images", ["deserialize", "endSelfNotificationObservation", "fileNames=", "reloadImages", "save", "setDataFromSerialization", "testForExternalChanges"]),
  ("layer", ["deserialize", "endSelfNotificationObservation", "lib=", "loadGlyph", "name=", "reloadGlyphs", "save", "saveGlyph", "setDataFromSerialization", "tempLib=", "testForExternalChanges"]),
  ("layerSet", ["deserialize", "endSelfNotificationObservation", "reloadLayers", "save", "setDataFromSerialization", "testForExternalChanges"])
]

end DefconModel.Gen.Mutators
