/-
M-SaveSteps: `Font.save` as a sequence of atomic steps, so that a failure can be injected after
any prefix (C18).  Ported from the control flow of `Font.save` (Lib/defcon/objects/font.py):

  * components are written one after the other; writing a component clears its dirty flag at once
    (`self.info.dirty = False`, `data["dirty"] = False`, `glyph.dirty = False`, …);
  * a glyph set is written in two phases: each dirty glyph's file (`writeGlyph`, flag cleared),
    and only at the end the listing (`writeContents`);
  * a save-as over an existing destination goes through a temporary directory; when everything
    is written the destination is put aside, the temporary UFO moved in, and what was put aside
    dropped; when the temporary UFO cannot be moved in, whatever part of it arrived is removed and
    the destination is put back (`except`);
  * `finally` removes the temporary directories; path, format, structure and the font's dirty flag
    are assigned only after all steps succeeded.

Content is abstracted to blobs (Nat).  Core Lean only.
-/
namespace DefconModel
namespace SaveSteps

/-- a UFO as the model sees it: one blob per atomic component (info, groups, kerning, lib,
features, images, data, layer info …), and one glyph set: the glif files present and the
listing (`contents.plist`) that makes them visible -/
structure Ufo where
  comps : List Nat := []
  files : List (Nat × Nat) := []      -- glyph id ↦ blob
  listing : List Nat := []            -- listed glyph ids
deriving DecidableEq, Repr

structure Font where
  comps : List Nat                    -- in-memory content per component
  compDirty : List Bool
  glyphs : List (Nat × Nat)           -- in-memory glyphs (all loaded, for simplicity)
  glyphDirty : List Nat               -- ids of dirty glyphs
  path : Nat
  format : Nat
  dirty : Bool
deriving DecidableEq, Repr

inductive Mode where
  | inPlace
  | saveAsNew (p : Nat)
  | saveAsOver (p : Nat)
deriving DecidableEq, Repr

/-- the file system: UFOs by path, plus at most one temporary UFO -/
structure World where
  font : Font
  disk : List (Nat × Ufo)
  temp : Option Ufo := none
  /-- the old destination of an overwriting save, while the new UFO is being moved in -/
  aside : Option Ufo := none
  /-- `contents` of the GlyphSet object this save works with (transient) -/
  gsContents : List Nat := []
deriving Repr

inductive Step where
  | mkTemp
  | writeComp (i : Nat)
  | openGlyphSet
  | writeGlyph (g : Nat)
  | writeContents
  | moveAside (p : Nat)
  | moveTemp (p : Nat)
  | dropAside
deriving DecidableEq, Repr

def lookup (d : List (Nat × Ufo)) (p : Nat) : Option Ufo := (d.find? (fun x => x.1 = p)).map Prod.snd
def store (d : List (Nat × Ufo)) (p : Nat) (u : Ufo) : List (Nat × Ufo) := (p, u) :: d.filter (fun x => x.1 ≠ p)
def remove (d : List (Nat × Ufo)) (p : Nat) : List (Nat × Ufo) := d.filter (fun x => x.1 ≠ p)

def setAt {α} (l : List α) (i : Nat) (v : α) : List α := l.set i v

/-- where this save writes: the font's own UFO, a new UFO, or the temporary one -/
inductive Target where
  | own | fresh (p : Nat) | temp
deriving DecidableEq, Repr

def target : Mode → Target
  | .inPlace => .own
  | .saveAsNew p => .fresh p
  | .saveAsOver _ => .temp

def getTarget (w : World) : Target → Ufo
  | .own => (lookup w.disk w.font.path).getD {}
  | .fresh p => (lookup w.disk p).getD { comps := w.font.comps.map (fun _ => 0) }
  | .temp => w.temp.getD { comps := w.font.comps.map (fun _ => 0) }

def putTarget (w : World) (t : Target) (u : Ufo) : World :=
  match t with
  | .own => { w with disk := store w.disk w.font.path u }
  | .fresh p => { w with disk := store w.disk p u }
  | .temp => { w with temp := some u }

def isSaveAs : Mode → Bool
  | .inPlace => false
  | _ => true

/-- the steps of one save, in the order `Font.save` performs them -/
def plan (f : Font) (m : Mode) : List Step :=
  (match m with
    | .saveAsOver _ => [Step.mkTemp]
    | _ => []) ++
  ((List.range f.comps.length).filter (fun i => isSaveAs m || f.compDirty.getD i false)).map Step.writeComp ++
  [Step.openGlyphSet] ++
  ((f.glyphs.map Prod.fst).filter (fun g => isSaveAs m || g ∈ f.glyphDirty)).map Step.writeGlyph ++
  [Step.writeContents] ++
  (match m with
    | .saveAsOver p => [Step.moveAside p, Step.moveTemp p, Step.dropAside]
    | _ => [])

/-- one atomic step -/
def exec (m : Mode) (w : World) : Step → World
  | .mkTemp => { w with temp := some { comps := w.font.comps.map (fun _ => 0) } }
  | .writeComp i =>
    let u := getTarget w (target m)
    let w1 := putTarget w (target m) { u with comps := setAt u.comps i (w.font.comps.getD i 0) }
    { w1 with font := { w1.font with compDirty := setAt w1.font.compDirty i false } }
  | .openGlyphSet => { w with gsContents := (getTarget w (target m)).listing }
  | .writeGlyph g =>
    let u := getTarget w (target m)
    let b := ((w.font.glyphs.find? (fun x => x.1 = g)).map Prod.snd).getD 0
    let w1 := putTarget w (target m) { u with files := (g, b) :: u.files.filter (fun x => x.1 ≠ g) }
    { w1 with font := { w1.font with glyphDirty := w1.font.glyphDirty.filter (· ≠ g) },
              gsContents := if g ∈ w1.gsContents then w1.gsContents else w1.gsContents ++ [g] }
  | .writeContents =>
    let u := getTarget w (target m)
    putTarget w (target m) { u with listing := w.gsContents }
  | .moveAside p => { w with aside := lookup w.disk p, disk := remove w.disk p }
  | .dropAside => { w with aside := none }
  | .moveTemp p =>
    match w.temp with
    | some u => { w with disk := store w.disk p u, temp := none }
    | none => w

/-- assignments made only after every step succeeded -/
def finalize (m : Mode) (w : World) : World :=
  let p := match m with
    | .inPlace => w.font.path
    | .saveAsNew p => p
    | .saveAsOver p => p
  { w with font := { w.font with path := p, dirty := false } }

/-- the `except` clause of the final replace (it guards the move of the new UFO onto the destination):
whatever part of the new UFO arrived at the destination is removed and the destination that was put
aside is put back (`store` replaces what lies at `p`).  The kinds of what arrived and of what is put
back — directory or regular file — matter to the calls that do this; that level is M-Replace
(`DefconModel/Replace.lean`). -/
def recover (m : Mode) (w : World) : World :=
  match m, w.aside with
  | .saveAsOver p, some u => { w with disk := store w.disk p u }
  | _, _ => w

/-- the `finally` clauses (both temporary directories go) -/
def cleanup (w : World) : World := { w with temp := none, aside := none, gsContents := [] }

def runSteps (m : Mode) (w : World) (steps : List Step) : World := steps.foldl (exec m) w

/-- a save that fails right before step number `k` (0-based) of its plan -/
def failAt (m : Mode) (w : World) (k : Nat) : World :=
  cleanup (recover m (runSteps m w ((plan w.font m).take k)))

/-- a save over `p` whose final move is TORN: everything is written, the destination is put aside, and
the move of the temporary UFO fails after `part` of it has arrived at the destination -/
def failTorn (p : Nat) (w : World) (part : Ufo) : World :=
  let steps := plan w.font (.saveAsOver p)
  let w1 := runSteps (.saveAsOver p) w (steps.take (steps.length - 2))
  cleanup (recover (.saveAsOver p) { w1 with disk := store w1.disk p part })

/-- a save that succeeds -/
def save (m : Mode) (w : World) : World :=
  finalize m (cleanup (runSteps m w (plan w.font m)))

/-- what re-opening the UFO at `p` shows: components, and the listed glyphs with their files -/
def reopen (w : World) (p : Nat) : Option (List Nat × List (Nat × Nat)) :=
  (lookup w.disk p).map (fun u => (u.comps, u.files.filter (fun x => x.1 ∈ u.listing)))

end SaveSteps
end DefconModel
