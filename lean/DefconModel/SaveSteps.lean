/-
M-SaveSteps: `Font.save` as a sequence of atomic steps, so that a failure can be injected after
any prefix (C18).  Ported from the control flow of `Font.save` (Lib/defcon/objects/font.py):

  * components are written one after the other; writing a component clears its dirty flag at once
    (`self.info.dirty = False`, `data["dirty"] = False`, `glyph.dirty = False`, …);
  * one layer's save has a fixed order INSIDE (`Layer.save`, then `LayerSet.save`): each dirty glyph's
    file (`writeGlyph`, flag cleared at once), then the file of each glyph scheduled for deletion is
    removed (`deleteGlyph`; in-place saves only), then the listing (`writeContents`) — and only after it
    the layer forgets its pending deletions (`_scheduledForDeletion.clear()`) —, then `layerinfo.plist`
    (`writeLayerInfo`);
  * a step can fail for two reasons: the ENVIRONMENT fails at it (`failAt k`: any step, once), or the
    step's own CONTENT cannot be written (`faulty`: a component, a glyph or the layer info whose data
    the writer rejects; it fails at exactly that step on every attempt until the content is corrected);
    and opening a glyph set whose `contents.plist` names a file that is gone raises (`stale`);
  * a save-as over an existing destination goes through a temporary directory; when everything
    is written the destination is put aside, the temporary UFO moved in, and what was put aside
    dropped; when the temporary UFO cannot be moved in, whatever part of it arrived is removed and
    the destination is put back (`except`);
  * `finally` removes the temporary directories; path, format, structure and the font's dirty flag
    are assigned only after all steps succeeded.

Content is abstracted to blobs (Nat).  Core Lean only.
-/
namespace DefconModel
namespace SaveSteps

/-- a UFO as the model sees it: one blob per atomic component (info, groups, kerning, lib,
features, images, data, layer info …), and one glyph set: the glif files present and the
listing (`contents.plist`) that makes them visible -/
structure Ufo where
  comps : List Nat := []
  files : List (Nat × Nat) := []      -- glyph id ↦ blob
  listing : List Nat := []            -- listed glyph ids
  layerinfo : Nat := 0                -- layerinfo.plist of the glyph set
deriving DecidableEq, Repr

structure Font where
  comps : List Nat                    -- in-memory content per component
  compDirty : List Bool
  glyphs : List (Nat × Nat)           -- in-memory glyphs (all loaded, for simplicity)
  glyphDirty : List Nat               -- ids of dirty glyphs
  path : Nat
  format : Nat
  dirty : Bool
  /-- glyphs deleted (or renamed away) in memory whose file is still to be removed: `_scheduledForDeletion` -/
  scheduled : List Nat := []
  layerInfo : Nat := 0                -- in-memory layer info (colour, lib)
  /-- CONTENT faults: components / glyphs / layer info whose own data cannot be written -/
  badComps : List Nat := []
  badGlyphs : List Nat := []
  badLayerInfo : Bool := false
deriving DecidableEq, Repr

inductive Mode where
  | inPlace
  | saveAsNew (p : Nat)
  | saveAsOver (p : Nat)
deriving DecidableEq, Repr

/-- the file system: UFOs by path, plus at most one temporary UFO -/
structure World where
  font : Font
  disk : List (Nat × Ufo)
  temp : Option Ufo := none
  /-- the old destination of an overwriting save, while the new UFO is being moved in -/
  aside : Option Ufo := none
  /-- `contents` of the GlyphSet object this save works with (transient) -/
  gsContents : List Nat := []
deriving Repr

inductive Step where
  | mkTemp
  | writeComp (i : Nat)
  | openGlyphSet
  | writeGlyph (g : Nat)
  | deleteGlyph (g : Nat)
  | writeContents
  | writeLayerInfo
  | moveAside (p : Nat)
  | moveTemp (p : Nat)
  | dropAside
deriving DecidableEq, Repr

def lookup (d : List (Nat × Ufo)) (p : Nat) : Option Ufo := (d.find? (fun x => x.1 = p)).map Prod.snd
def store (d : List (Nat × Ufo)) (p : Nat) (u : Ufo) : List (Nat × Ufo) := (p, u) :: d.filter (fun x => x.1 ≠ p)
def remove (d : List (Nat × Ufo)) (p : Nat) : List (Nat × Ufo) := d.filter (fun x => x.1 ≠ p)

def setAt {α} (l : List α) (i : Nat) (v : α) : List α := l.set i v

/-- where this save writes: the font's own UFO, a new UFO, or the temporary one -/
inductive Target where
  | own | fresh (p : Nat) | temp
deriving DecidableEq, Repr

def target : Mode → Target
  | .inPlace => .own
  | .saveAsNew p => .fresh p
  | .saveAsOver _ => .temp

def getTarget (w : World) : Target → Ufo
  | .own => (lookup w.disk w.font.path).getD {}
  | .fresh p => (lookup w.disk p).getD { comps := w.font.comps.map (fun _ => 0) }
  | .temp => w.temp.getD { comps := w.font.comps.map (fun _ => 0) }

def putTarget (w : World) (t : Target) (u : Ufo) : World :=
  match t with
  | .own => { w with disk := store w.disk w.font.path u }
  | .fresh p => { w with disk := store w.disk p u }
  | .temp => { w with temp := some u }

def isSaveAs : Mode → Bool
  | .inPlace => false
  | _ => true

/-- the steps of one save, in the order `Font.save` performs them -/
def plan (f : Font) (m : Mode) : List Step :=
  (match m with
    | .saveAsOver _ => [Step.mkTemp]
    | _ => []) ++
  ((List.range f.comps.length).filter (fun i => isSaveAs m || f.compDirty.getD i false)).map Step.writeComp ++
  [Step.openGlyphSet] ++
  ((f.glyphs.map Prod.fst).filter (fun g => isSaveAs m || g ∈ f.glyphDirty)).map Step.writeGlyph ++
  (if isSaveAs m then [] else f.scheduled.map Step.deleteGlyph) ++
  [Step.writeContents] ++
  [Step.writeLayerInfo] ++
  (match m with
    | .saveAsOver p => [Step.moveAside p, Step.moveTemp p, Step.dropAside]
    | _ => [])

/-- one atomic step -/
def exec (m : Mode) (w : World) : Step → World
  | .mkTemp => { w with temp := some { comps := w.font.comps.map (fun _ => 0) } }
  | .writeComp i =>
    let u := getTarget w (target m)
    let w1 := putTarget w (target m) { u with comps := setAt u.comps i (w.font.comps.getD i 0) }
    { w1 with font := { w1.font with compDirty := setAt w1.font.compDirty i false } }
  | .openGlyphSet => { w with gsContents := (getTarget w (target m)).listing }
  | .writeGlyph g =>
    let u := getTarget w (target m)
    let b := ((w.font.glyphs.find? (fun x => x.1 = g)).map Prod.snd).getD 0
    let w1 := putTarget w (target m) { u with files := (g, b) :: u.files.filter (fun x => x.1 ≠ g) }
    { w1 with font := { w1.font with glyphDirty := w1.font.glyphDirty.filter (· ≠ g) },
              gsContents := if g ∈ w1.gsContents then w1.gsContents else w1.gsContents ++ [g] }
  | .deleteGlyph g =>
    -- `if glyphName in glyphSet: glyphSet.deleteGlyph(glyphName)`: the file goes, and the entry of the glyph set
    let u := getTarget w (target m)
    let w1 := putTarget w (target m) { u with files := u.files.filter (fun x => x.1 ≠ g) }
    { w1 with gsContents := w1.gsContents.filter (· ≠ g) }
  | .writeContents =>
    -- `glyphSet.writeContents()`, and right after it (nothing in between can fail) the layer forgets what was
    -- scheduled for deletion: `self._scheduledForDeletion.clear()` (save-as saves too)
    let u := getTarget w (target m)
    let w1 := putTarget w (target m) { u with listing := w.gsContents }
    { w1 with font := { w1.font with scheduled := [] } }
  | .writeLayerInfo =>
    let u := getTarget w (target m)
    putTarget w (target m) { u with layerinfo := w.font.layerInfo }
  | .moveAside p => { w with aside := lookup w.disk p, disk := remove w.disk p }
  | .dropAside => { w with aside := none }
  | .moveTemp p =>
    match w.temp with
    | some u => { w with disk := store w.disk p u, temp := none }
    | none => w

/-- assignments made only after every step succeeded -/
def finalize (m : Mode) (w : World) : World :=
  let p := match m with
    | .inPlace => w.font.path
    | .saveAsNew p => p
    | .saveAsOver p => p
  { w with font := { w.font with path := p, dirty := false } }

/-- the `except` clause of the final replace (it guards the move of the new UFO onto the destination):
whatever part of the new UFO arrived at the destination is removed and the destination that was put
aside is put back (`store` replaces what lies at `p`).  The kinds of what arrived and of what is put
back — directory or regular file — matter to the calls that do this; that level is M-Replace
(`DefconModel/Replace.lean`). -/
def recover (m : Mode) (w : World) : World :=
  match m, w.aside with
  | .saveAsOver p, some u => { w with disk := store w.disk p u }
  | _, _ => w

/-- the `finally` clauses (both temporary directories go) -/
def cleanup (w : World) : World := { w with temp := none, aside := none, gsContents := [] }

def runSteps (m : Mode) (w : World) (steps : List Step) : World := steps.foldl (exec m) w

/-- a save that fails right before step number `k` (0-based) of its plan -/
def failAt (m : Mode) (w : World) (k : Nat) : World :=
  cleanup (recover m (runSteps m w ((plan w.font m).take k)))

/-- a save over `p` whose final move is TORN: everything is written, the destination is put aside, and
the move of the temporary UFO fails after `part` of it has arrived at the destination -/
def failTorn (p : Nat) (w : World) (part : Ufo) : World :=
  let steps := plan w.font (.saveAsOver p)
  let w1 := runSteps (.saveAsOver p) w (steps.take (steps.length - 2))
  cleanup (recover (.saveAsOver p) { w1 with disk := store w1.disk p part })

/-- a save that succeeds -/
def save (m : Mode) (w : World) : World :=
  finalize m (cleanup (runSteps m w (plan w.font m)))

/-! ### content faults, and a save attempt that stops at the first step that raises -/

/-- the step's own content cannot be written -/
def faulty (f : Font) : Step → Bool
  | .writeComp i => decide (i ∈ f.badComps)
  | .writeGlyph g => decide (g ∈ f.badGlyphs)
  | .writeLayerInfo => f.badLayerInfo
  | _ => false

/-- `contents.plist` names a glyph whose file is gone: building the glyph set raises (`GlifLibError`) -/
def stale (u : Ufo) : Bool := u.listing.any (fun g => !(u.files.any (fun x => x.1 = g)))

/-- does this step raise in this world, without the environment failing? -/
def stepFails (m : Mode) (w : World) : Step → Bool
  | .openGlyphSet => stale (getTarget w (target m))
  | s => faulty w.font s

/-- the index of the first step that raises when the environment does not fail (`none`: all of them run) -/
def faultAt (m : Mode) (w : World) : List Step → Option Nat
  | [] => none
  | s :: rest => if stepFails m w s then some 0 else (faultAt m (exec m w s) rest).map (· + 1)

/-- one call of `Font.save` in an environment that does not fail: it succeeds (`true`), or it stops at the first
step that raises — a CONTENT fault — exactly as a save whose environment fails at that step does (`failAt`) -/
def attempt (m : Mode) (w : World) : World × Bool :=
  match faultAt m w (plan w.font m) with
  | none => (save m w, true)
  | some k => (failAt m w k, false)

/-- what the user does to a font between two saves -/
inductive Edit where
  | setGlyph (g b : Nat)      -- new content for a glyph (a new glyph if there was none): corrects it if it was bad
  | delGlyph (g : Nat)
  | setComp (i v : Nat)
  | setLayerInfo (v : Nat)
  /-- the same assignments with a value the writer will reject (a `set` in a lib, an anchor without coordinates, a
  kerning value that is not a number …): memory takes it, every save raises at that step until it is replaced -/
  | spoilGlyph (g b : Nat)
  | spoilComp (i v : Nat)
  | spoilLayerInfo (v : Nat)
deriving DecidableEq, Repr

def edit (w : World) : Edit → World
  | .setGlyph g b =>
    { w with font := { w.font with
        glyphs := (g, b) :: w.font.glyphs.filter (fun x => x.1 ≠ g),
        glyphDirty := g :: w.font.glyphDirty,
        scheduled := w.font.scheduled.filter (· ≠ g),         -- `_insertGlyph`: no longer scheduled for deletion
        badGlyphs := w.font.badGlyphs.filter (· ≠ g), dirty := true } }
  | .delGlyph g =>
    -- `_deleteGlyph`: scheduled for deletion when the glyph set the layer reads from has it
    let onDisk := decide (g ∈ ((lookup w.disk w.font.path).getD {}).listing)
    { w with font := { w.font with
        glyphs := w.font.glyphs.filter (fun x => x.1 ≠ g),
        glyphDirty := w.font.glyphDirty.filter (· ≠ g),
        scheduled := if onDisk then g :: w.font.scheduled else w.font.scheduled,
        badGlyphs := w.font.badGlyphs.filter (· ≠ g), dirty := true } }
  | .setComp i v =>
    { w with font := { w.font with
        comps := setAt w.font.comps i v, compDirty := setAt w.font.compDirty i true,
        badComps := w.font.badComps.filter (· ≠ i), dirty := true } }
  | .setLayerInfo v =>
    { w with font := { w.font with layerInfo := v, badLayerInfo := false, dirty := true } }
  | .spoilGlyph g b =>
    { w with font := { w.font with
        glyphs := (g, b) :: w.font.glyphs.filter (fun x => x.1 ≠ g),
        glyphDirty := g :: w.font.glyphDirty,
        scheduled := w.font.scheduled.filter (· ≠ g),
        badGlyphs := g :: w.font.badGlyphs, dirty := true } }
  | .spoilComp i v =>
    { w with font := { w.font with
        comps := setAt w.font.comps i v, compDirty := setAt w.font.compDirty i true,
        badComps := i :: w.font.badComps, dirty := true } }
  | .spoilLayerInfo v =>
    { w with font := { w.font with layerInfo := v, badLayerInfo := true, dirty := true } }

def edits (w : World) (es : List Edit) : World := es.foldl edit w

/-- what happens to a font between one completed save and the next: edits, and in-place saves that fail at some step
(for either reason) -/
inductive Event where
  | edit (e : Edit)
  | failedSave (k : Nat)
deriving DecidableEq, Repr

def event (w : World) : Event → World
  | .edit e => edit w e
  | .failedSave k => failAt .inPlace w k

def events (w : World) (evs : List Event) : World := evs.foldl event w

/-- what re-opening the UFO at `p` shows: components, and the listed glyphs with their files -/
def reopen (w : World) (p : Nat) : Option (List Nat × List (Nat × Nat)) :=
  (lookup w.disk p).map (fun u => (u.comps, u.files.filter (fun x => x.1 ∈ u.listing)))

end SaveSteps
end DefconModel
