/-
M-Repr, part 4: the dependency matrix, mutator side, as a TABLE - per class and public mutator the content
cells a call may rewrite, the cells an effective call must rewrite, and its no-op guard - and the public
calls elaborated into the primitives of `Repr.lean` / `ReprHold.lean`.  Core Lean only.

A call reaches the model as `(receiver, mutator, effective | same)` (+ the new base name / the offset where the
primitive needs it).  `same` says that the condition of the method's guard holds in the state before the call
(equal value assigned, `setStartPoint` on an open contour, `clear()` of an empty dict …).  What then happens is
decided HERE:
  guard `.same`  the method compares first and returns: nothing is rewritten, nothing is posted;
  guard `.none`  the method has no such test: it runs to its posts although nothing is rewritten (`touch`).
An effective call rewrites the cells of its row: the model sets their stamps itself (`step`).

`changedCells` reads the stamps of two worlds and lists the cells that differ: the model's account of what a line
rewrote.  The adaptor fingerprints the same cells on the real objects before and after the call and sends the cells
whose fingerprint changed (`obs`); `cellVerdict` compares: every observed change must be one the model made (no
undeclared rewrite), and the cells a row says an effective call MUST rewrite must have been observed.
-/
import DefconModel.ReprHold

namespace DefconModel
namespace Repr

inductive Cell where
  /-- coordinates, segment types, smooth flags, names of a contour's points (the model keeps a translation apart) -/
  | contourPoints
  /-- the contour's identifier and the identifiers of its points -/
  | contourIdent
  /-- a component's base glyph name and transformation -/
  | compData
  | compIdent
  /-- name, width, height, unicodes, note, … of a glyph -/
  | glyphAttrs
  /-- which contours a glyph has, in order -/
  | glyphContours
  /-- which components a glyph has, in order -/
  | glyphComps
  | groupsDict
deriving DecidableEq, Repr, Inhabited

def Cell.name : Cell → String
  | .contourPoints => "contourPoints"
  | .contourIdent => "contourIdent"
  | .compData => "compData"
  | .compIdent => "compIdent"
  | .glyphAttrs => "glyphAttrs"
  | .glyphContours => "glyphContours"
  | .glyphComps => "glyphComps"
  | .groupsDict => "groupsDict"

def Cell.ofName? (s : String) : Option Cell :=
  [Cell.contourPoints, .contourIdent, .compData, .compIdent, .glyphAttrs, .glyphContours, .glyphComps,
   .groupsDict].find? fun c => c.name = s

inductive Guard where
  /-- no test: the body always runs to its posts -/
  | none
  /-- the method tests its argument against the current state first and returns without posting -/
  | same
deriving DecidableEq, Repr, Inhabited

structure MutSpec where
  cls : String
  /-- the method, named as in the regenerated `posts` table -/
  meth : String
  /-- cells of the receiver an effective call may rewrite -/
  cells : List Cell
  /-- cells an effective call always rewrites -/
  must : List Cell
  guard : Guard
deriving Repr, Inhabited

/-- THE TABLE.  (`Contour.move` and `Component._set_baseGlyph` carry an argument and have primitives of their own;
the compound Glyph mutators `clearContours`, `clearComponents`, `clear`, `move` are elaborated below from the
glyph's current children.) -/
def mutSpecs : List MutSpec := [
  ⟨"Contour", "appendPoint", [.contourPoints, .contourIdent], [.contourPoints], .none⟩,
  ⟨"Contour", "addPoint", [.contourPoints, .contourIdent], [.contourPoints], .none⟩,
  ⟨"Contour", "insertPoint", [.contourPoints, .contourIdent], [.contourPoints], .none⟩,
  ⟨"Contour", "removePoint", [.contourPoints, .contourIdent], [.contourPoints], .none⟩,
  ⟨"Contour", "setStartPoint", [.contourPoints, .contourIdent], [], .same⟩,
  ⟨"Contour", "clear", [.contourPoints, .contourIdent], [], .none⟩,
  ⟨"Contour", "reverse", [.contourPoints, .contourIdent], [], .none⟩,
  ⟨"Contour", "_set_clockwise", [.contourPoints, .contourIdent], [], .same⟩,
  ⟨"Contour", "removeSegment", [.contourPoints, .contourIdent], [.contourPoints], .none⟩,
  ⟨"Contour", "splitAndInsertPointAtSegmentAndT", [.contourPoints], [.contourPoints], .none⟩,
  ⟨"Contour", "setDataFromSerialization", [.contourPoints, .contourIdent], [], .none⟩,
  ⟨"Contour", "move", [.contourPoints], [.contourPoints], .none⟩,
  ⟨"Contour", "_set_identifier", [.contourIdent], [.contourIdent], .same⟩,
  ⟨"Contour", "generateIdentifier", [.contourIdent], [.contourIdent], .same⟩,
  ⟨"Contour", "generateIdentifierForPoint", [.contourIdent], [.contourIdent], .same⟩,
  ⟨"Contour", "_set_dirty", [], [], .none⟩,
  ⟨"Component", "_set_baseGlyph", [.compData], [.compData], .same⟩,
  ⟨"Component", "_set_transformation", [.compData], [.compData], .same⟩,
  ⟨"Component", "move", [.compData], [.compData], .same⟩,
  ⟨"Component", "_set_identifier", [.compIdent], [.compIdent], .same⟩,
  ⟨"Component", "generateIdentifier", [.compIdent], [.compIdent], .same⟩,
  ⟨"Component", "_set_dirty", [], [], .none⟩,
  ⟨"Glyph", "_set_width", [.glyphAttrs], [.glyphAttrs], .same⟩,
  ⟨"Glyph", "_set_height", [.glyphAttrs], [.glyphAttrs], .same⟩,
  ⟨"Glyph", "_set_note", [.glyphAttrs], [.glyphAttrs], .same⟩,
  ⟨"Glyph", "_set_unicodes", [.glyphAttrs], [.glyphAttrs], .same⟩,
  ⟨"Glyph", "_set_dirty", [], [], .none⟩,
  ⟨"Glyph", "clearImage", [], [], .same⟩,
  ⟨"Glyph", "copyDataFromGlyph", [.glyphAttrs], [], .none⟩,
  ⟨"Glyph", "decomposeComponent", [.glyphAttrs], [], .none⟩,
  ⟨"Glyph", "decomposeAllComponents", [.glyphAttrs], [], .same⟩,
  ⟨"Groups", "__setitem__", [.groupsDict], [.groupsDict], .same⟩,
  ⟨"Groups", "__delitem__", [.groupsDict], [.groupsDict], .none⟩,
  ⟨"Groups", "clear", [.groupsDict], [.groupsDict], .same⟩,
  ⟨"Groups", "update", [.groupsDict], [], .none⟩,
  ⟨"Groups", "pop", [.groupsDict], [.groupsDict], .same⟩,
  ⟨"Groups", "popitem", [.groupsDict], [.groupsDict], .same⟩,
  ⟨"Groups", "setdefault", [.groupsDict], [.groupsDict], .same⟩,
  ⟨"Groups", "__ior__", [.groupsDict], [], .none⟩]

def specOf (cls meth : String) : Option MutSpec :=
  mutSpecs.find? fun s => s.cls = cls && s.meth = meth

/-- the primitive's cell code for a row (`Repr.contourMutators` / `compMutators` must agree: `cells_agree`) -/
def ccellOf (pts attr : Cell) (cells : List Cell) : Option CCell :=
  match cells.contains pts, cells.contains attr with
  | true, true => some .both
  | true, false => some .pts
  | false, true => some .attr
  | false, false => none

/-- the rows of the table and the cell codes of the primitives say the same -/
def cellsAgree : Bool :=
  mutSpecs.all fun s =>
    if s.cls = "Contour" then
      s.meth = "move" || s.cells.isEmpty ||
        AL.get? contourMutators s.meth = ccellOf .contourPoints .contourIdent s.cells
    else if s.cls = "Component" then
      s.meth = "_set_baseGlyph" || s.cells.isEmpty ||
        AL.get? compMutators s.meth = ccellOf .compData .compIdent s.cells
    else if s.cls = "Glyph" then glyphMutators.contains s.meth
    else groupsMutators.contains s.meth

/-! ### public calls -/

inductive CallArg where
  | none
  | delta (dx dy : Int)
  | base (b : Option String)
deriving Repr, Inhabited

structure Call where
  recv : Obj
  meth : String
  /-- `false`: the condition of the method's guard holds in the state before the call -/
  eff : Bool
  arg : CallArg := .none
deriving Repr, Inhabited

section Elab
variable {V : Type}

/-- the primitives a call stands for, in the structure of `w`; `none`: no such row -/
def elabCall (w : World V) (c : Call) : Option (List Op) :=
  match c.recv, c.meth, c.arg with
  | .contour cid, "move", .delta dx dy => some [.cmove cid dx dy]
  | .comp kid, "_set_baseGlyph", .base b => if c.eff then some [.ksetBase kid b] else some []
  | .glyph g, "clearContours", _ =>
    (AL.get? w.glyphs g).map fun r => r.contours.reverse.map fun x => Op.remContour g x.id
  | .glyph g, "clearComponents", _ =>
    (AL.get? w.glyphs g).map fun r => r.comps.reverse.map fun x => Op.remComp g x.id
  | .glyph g, "clear", _ =>
    (AL.get? w.glyphs g).map fun r =>
      (r.contours.reverse.map fun x => Op.remContour g x.id) ++ (r.comps.reverse.map fun x => Op.remComp g x.id)
  | .glyph g, "move", .delta dx dy =>
    (AL.get? w.glyphs g).map fun r =>
      (r.contours.map fun x => Op.cmove x.id dx dy) ++
      (if dx = 0 ∧ dy = 0 then [] else r.comps.map fun x => Op.kmut x.id "move")
  | o, meth, _ =>
    match specOf o.cls meth with
    | none => none
    | some s =>
      if !c.eff then
        match s.guard with
        | .same => some []
        | .none => some [.touch o meth]
      else if s.cells.isEmpty then some [.touch o meth]
      else
        match o with
        | .contour cid => some [.cmut cid meth]
        | .comp kid => some [.kmut kid meth]
        | .glyph g => some [.gmut g meth]
        | .groups => some [.gset meth]

/-- the cells of the receiver that the row says the call must rewrite -/
def mustCells (c : Call) : List (Obj × Cell) :=
  if !c.eff then [] else
  match c.recv, c.meth, c.arg with
  | .contour _, "move", .delta dx dy => if dx = 0 ∧ dy = 0 then [] else [(c.recv, .contourPoints)]
  | _, _, _ => ((specOf c.recv.cls c.meth).map fun s => s.must.map fun x => (c.recv, x)).getD []

/-! ### the stamps of the content cells -/

def contourStamps (c : ContourS) : List ((Obj × Cell) × List Int) :=
  [((.contour c.id, .contourPoints), [Int.ofNat c.ver, c.ox, c.oy]), ((.contour c.id, .contourIdent), [Int.ofNat c.attr])]

def compStamps (k : CompS) : List ((Obj × Cell) × List Int) :=
  [((.comp k.id, .compData), [Int.ofNat k.data]), ((.comp k.id, .compIdent), [Int.ofNat k.attr])]

def cellStamps (w : World V) : List ((Obj × Cell) × List Int) :=
  (w.glyphs.flatMap fun p =>
    [((Obj.glyph p.1, Cell.glyphAttrs), [Int.ofNat p.2.attr]),
     ((Obj.glyph p.1, Cell.glyphContours), p.2.contours.map fun c => Int.ofNat c.id),
     ((Obj.glyph p.1, Cell.glyphComps), p.2.comps.map fun k => Int.ofNat k.id)] ++
    p.2.contours.flatMap contourStamps ++ p.2.comps.flatMap compStamps) ++
  w.looseC.flatMap contourStamps ++ w.looseK.flatMap compStamps ++
  [((Obj.groups, Cell.groupsDict), [Int.ofNat w.groupsVer])]

/-- the cells (of objects that exist before and after) whose stamp differs -/
def changedCells (w w' : World V) : List (Obj × Cell) :=
  let old := cellStamps w
  (cellStamps w').filterMap fun p =>
    match AL.get? old p.1 with
    | some s => if s = p.2 then none else some p.1
    | none => none

/-- (observed but not made by the model, must-cells not observed) - both empty when model and code agree -/
def cellVerdict (changed obs must : List (Obj × Cell)) : List (Obj × Cell) × List (Obj × Cell) :=
  (obs.filter fun x => !changed.contains x, must.filter fun x => !obs.contains x)

end Elab

end Repr
end DefconModel
