/-
M-Conv, part 2: the format branches of `Font.save` / `LayerSet.save` / `Font.__init__`
(Lib/defcon/objects/font.py, layerSet.py) at the level of *which components are written and read
back* for a target format, with the lazy loading that decides what the font in memory can still
see after it has been bound to the new UFO.

Content below the level the property speaks about is opaque (`Blob` = a number standing for a
value the harness hash-conses): a glyph is the pair (what GLIF 1 carries, the rest), an info
attribute / lib entry / image / data file is a blob.

* `Disk`    : a UFO as ufoLib decodes it file by file (kerning/groups RAW, i.e. before the reader's
              renaming; for UFO 1 the robofab lib entries apart from the other lib keys).
* `Mem`     : a Font object: the UFO it is bound to (`_reader`, the layers' glyph sets), its format,
              rename maps, and what is loaded (`none` = still only in the bound UFO).
* `read`    : `Font(path)`.   `save` : `Font.save(path, formatVersion=t)` that completes.
* `observe` : what the getters return once everything is asked for.

* `LayerOp`, `applyLayerOp` : the operations on the layer set between opening and saving (rename,
              new, delete, new default, reorder, layer info).  A layer in memory has the NAME it has in
              memory and, apart from it, the glyph directory its glyph set reads from (`src`), known by
              the name that directory has IN THE BOUND UFO: a renamed layer goes on reading from its old
              directory until a save binds it to a new one; a layer made in memory has none.
* `Op`, `step`, `run` : histories - getters that load single items, glyph edits, layer operations,
              saves that complete and saves that fail at the final replace, in any order.

Assumptions (stated in the evidence): top-level parts are loaded (the save loads them anyway); a layer
is renamed to a name no other layer has, the default layer is not deleted (defcon accepts both and
leaves a layer set that no longer is one); the lib does not use the three `org.robofab.*` keys UFO 1
reserves.
Core Lean only.
-/
import DefconModel.Conv
import DefconModel.Gen.InfoAttrs

namespace DefconModel
namespace Conv

abbrev Blob := Nat

inductive Fmt where
  | f1 | f2 | f3
deriving DecidableEq, Repr

def Fmt.below3 : Fmt → Bool
  | .f3 => false
  | _ => true

structure Glyph where
  /-- what GLIF 1 carries: unicodes, advance, note, outline and components without identifiers,
  named anchors as points, lib -/
  v1 : Blob
  /-- the rest: identifiers, guidelines, image, anchor colours … (0 = nothing) -/
  v2 : Blob
deriving DecidableEq, Repr

/-- what is left of a glyph in a GLIF 1 file -/
def glif1 (g : Glyph) : Glyph := { g with v2 := 0 }

structure Parts where
  kerning : Kerning := []
  groups : Groups := []
  lib : List (String × Blob) := []
  info : List (String × Blob) := []      -- fontinfo attributes other than hint values and guidelines
  hint : Hint Blob := {}
  guidelines : Blob := 0
  features : Text := []
deriving DecidableEq, Repr

structure DLayer where
  name : String
  glyphs : List (String × Glyph)
  info : Blob                             -- layerinfo.plist (colour, lib)
deriving DecidableEq, Repr

structure Disk where
  fmt : Fmt
  /-- format 3: all layers in order; below: exactly one glyph directory -/
  layers : List DLayer := []
  defaultName : String := "public.default"
  kerning : Kerning := []
  groups : Groups := []
  lib : List (String × Blob) := []
  info : List (String × Blob) := []
  hint : Hint Blob := {}                  -- in fontinfo.plist (formats 2, 3)
  guidelines : Blob := 0
  features : Text := []                   -- features.fea (formats 2, 3)
  v1feat : V1Feat := {}                   -- lib entries of format 1
  hintData : Option (HintData Blob) := none
  images : List (String × Blob) := []
  data : List (String × Blob) := []
deriving DecidableEq, Repr

/-- everything a font holds, fully loaded -/
structure Full where
  layers : List DLayer
  defaultName : String
  parts : Parts
  images : List (String × Blob)
  data : List (String × Blob)
deriving DecidableEq, Repr

structure MLayer where
  /-- the name the layer has in memory (`Layer.name`, the key in `LayerSet._layers`) -/
  name : String
  /-- `Layer._glyphSet`: the glyph directory of the bound UFO the layer reads its unloaded glyphs from,
  by the name that directory has in the UFO (`layercontents.plist`); `none`: no glyph set (a layer made
  in memory; a layer that is not the default one after a save below format 3) -/
  src : Option String
  glyphs : List (String × Option Glyph)   -- `none`: not loaded
  info : Blob
deriving DecidableEq, Repr

structure Mem where
  bound : Option Disk
  fmt : Option Fmt
  maps : Option Maps
  layers : List MLayer
  defaultName : String
  parts : Parts
  images : List (String × Option Blob)
  data : List (String × Option Blob)
deriving DecidableEq, Repr

/-! ### lazy items -/

/-- load every item that is not loaded from `old`; `none` when one is missing there -/
def fill {α : Type} (old : String → Option α) : List (String × Option α) → Option (List (String × α))
  | [] => some []
  | (n, some v) :: r => (fill old r).map (fun l => (n, v) :: l)
  | (n, none) :: r =>
    match old n with
    | none => none
    | some v => (fill old r).map (fun l => (n, v) :: l)

def loaded {α : Type} (l : List (String × α)) : List (String × Option α) := l.map (fun p => (p.1, some p.2))
def unloaded {α : Type} (l : List (String × α)) : List (String × Option α) := l.map (fun p => (p.1, none))

def allSome {α : Type} : List (Option α) → Option (List α)
  | [] => some []
  | none :: _ => none
  | some a :: r => (allSome r).map (fun l => a :: l)

/-- the glyph directory of the bound UFO a layer reads from: the one its glyph set was made for
(`Font.__init__`, `_fontSaveWasCompleted`), whatever the layer is called in memory by now -/
def diskLayer? (d : Option Disk) (src : Option String) : Option DLayer :=
  match d, src with
  | some d, some s => d.layers.find? (fun l => l.name = s)
  | _, _ => none

def diskGlyph? (d : Option Disk) (src : Option String) (g : String) : Option Glyph :=
  match diskLayer? d src with
  | none => none
  | some l => AL.get? l.glyphs g

def diskImage? (d : Option Disk) (n : String) : Option Blob :=
  match d with
  | none => none
  | some d => AL.get? d.images n

def diskData? (d : Option Disk) (n : String) : Option Blob :=
  match d with
  | none => none
  | some d => AL.get? d.data n

def observeLayer (m : Mem) (l : MLayer) : Option DLayer :=
  (fill (diskGlyph? m.bound l.src) l.glyphs).map (fun gs => ⟨l.name, gs, l.info⟩)

/-- what the getters of the font return when everything is asked for -/
def observe (m : Mem) : Option Full := do
  let layers ← allSome (m.layers.map (observeLayer m))
  let images ← fill (diskImage? m.bound) m.images
  let data ← fill (diskData? m.bound) m.data
  some ⟨layers, m.defaultName, m.parts, images, data⟩

/-! ### reading -/

def readParts (d : Disk) (mp : Maps) : Option Parts :=
  match d.fmt with
  | .f3 => some { kerning := d.kerning, groups := d.groups, lib := d.lib, info := d.info, hint := d.hint,
                  guidelines := d.guidelines, features := d.features }
  | .f2 => some { kerning := upKerning mp d.kerning, groups := upGroups mp d.groups, lib := d.lib, info := d.info,
                  hint := d.hint, guidelines := 0, features := d.features }
  | .f1 =>
    -- `_convertFromFormatVersion1RoboFabData`: features and hint values come out of the lib
    match (match d.hintData with
      | none => some ({} : Hint Blob)
      | some hd => applyHintData hd {}) with
    | none => none
    | some hint => some { kerning := upKerning mp d.kerning, groups := upGroups mp d.groups, lib := d.lib, info := d.info,
                          hint := hint, guidelines := 0, features := fromV1 d.v1feat }

/-- `Font(path)`: nothing below the top-level parts is loaded; `mp` = the rename maps ufoLib's
reader computed (ignored for format 3) -/
def read (d : Disk) (mp : Maps) : Option Mem :=
  (readParts d mp).map fun parts =>
    { bound := some d, fmt := some d.fmt, maps := if d.fmt = .f3 then none else some mp,
      layers := d.layers.map (fun l => ⟨l.name, some l.name, unloaded l.glyphs, l.info⟩),
      defaultName := d.defaultName, parts := parts,
      images := unloaded d.images, data := unloaded d.data }

/-! ### writing -/

def infoFor (t : Fmt) (info : List (String × Blob)) : List (String × Blob) :=
  match t with
  | .f3 => info
  | .f2 => info.filter (fun p => p.1 ∈ Gen.InfoAttrs.v2Attrs)
  | .f1 => info.filter (fun p => p.1 ∈ Gen.InfoAttrs.v1Attrs)

def downK (maps : Option Maps) (k : Kerning) : Kerning :=
  match maps with
  | none => k
  | some m => downKerning (flip m) k

def downG (maps : Option Maps) (g : Groups) : Groups :=
  match maps with
  | none => g
  | some m => downGroups (flip m) g

def defaultGlyphs (c : Full) : List (String × Glyph) :=
  match c.layers.find? (fun l => l.name = c.defaultName) with
  | none => []
  | some l => l.glyphs

/-- the UFO a completed save leaves for content `c` (`none`: the feature splitter asserts) -/
def write (find : Finder) (t : Fmt) (maps : Option Maps) (c : Full) : Option Disk :=
  match t with
  | .f3 =>
    some { fmt := .f3, layers := c.layers, defaultName := c.defaultName,
           kerning := c.parts.kerning, groups := c.parts.groups, lib := c.parts.lib, info := c.parts.info,
           hint := c.parts.hint, guidelines := c.parts.guidelines, features := c.parts.features,
           images := c.images, data := c.data }
  | .f2 =>
    some { fmt := .f2, layers := [⟨"public.default", (defaultGlyphs c).map (fun p => (p.1, glif1 p.2)), 0⟩],
           kerning := downK maps c.parts.kerning, groups := downG maps c.parts.groups, lib := c.parts.lib,
           info := infoFor .f2 c.parts.info, hint := c.parts.hint, features := c.parts.features }
  | .f1 =>
    match split find c.parts.features with
    | .ok classes feats =>
      some { fmt := .f1, layers := [⟨"public.default", (defaultGlyphs c).map (fun p => (p.1, glif1 p.2)), 0⟩],
             kerning := downK maps c.parts.kerning, groups := downG maps c.parts.groups, lib := c.parts.lib,
             info := infoFor .f1 c.parts.info,
             v1feat := toV1 {} classes feats, hintData := some (toHintData c.parts.hint) }
    | _ => none

/-- the layers a save leaves as lazily loaded as they were: below format 3 only the default layer
of a plain in-place save, in format 3 every layer of a plain in-place save.  The layers are the ones
of the layer set IN MEMORY, under the names they have there (`for layer in self.layers`): what the
bound UFO calls them plays no part. -/
def keepLazy (m : Mem) (t : Fmt) (saveAs : Bool) (l : MLayer) : Bool :=
  if t.below3 then (l.name = m.defaultName && !saveAs) else !saveAs

def preloadLayer (m : Mem) (c : Full) (t : Fmt) (saveAs : Bool) (l : MLayer) : MLayer :=
  if keepLazy m t saveAs l then l
  else match c.layers.find? (fun x => x.name = l.name) with
    | some x => { l with glyphs := loaded x.glyphs }
    | none => l

/-- what `Font.save` reads before it writes: for a target below format 3 the layers, images and
data that format cannot store (they would be out of reach once the font is bound to the new UFO);
on a save-as every layer that is written (`Layer.save` loads all glyphs) -/
def preload (m : Mem) (c : Full) (t : Fmt) (saveAs : Bool) : Mem :=
  { m with
    layers := m.layers.map (preloadLayer m c t saveAs),
    images := if t.below3 then loaded c.images else m.images,
    data := if t.below3 then loaded c.data else m.data }

/-- `LayerSet._fontSaveWasCompleted`: every layer gets the glyph set of the UFO just written - in format 3
the directory filed under the name the layer has in memory, below format 3 the one glyph directory for
the default layer and NO glyph set for any other layer -/
def rebind (m : Mem) (t : Fmt) (l : MLayer) : MLayer :=
  { l with src := if t.below3 then (if l.name = m.defaultName then some "public.default" else none) else some l.name }

/-- the font after a save of content `c` as format `t` that left the UFO `d` -/
def afterSave (m : Mem) (c : Full) (t : Fmt) (saveAs : Bool) (d : Disk) : Mem :=
  { preload m c t saveAs with
    layers := (m.layers.map (preloadLayer m c t saveAs)).map (rebind m t),
    bound := some d, fmt := some t }

/-- `Font.save(path, formatVersion=t)` that completes.  `inPlace`: to the font's own path.  A format
change (or another path) makes it a save-as.  `none`: something not loaded is missing from the
bound UFO, or the feature splitter asserts. -/
def save (find : Finder) (m : Mem) (t : Fmt) (inPlace : Bool) : Option Mem :=
  match observe m with
  | none => none
  | some c =>
    match write find t m.maps c with
    | none => none
    | some d =>
      let saveAs := !inPlace || m.fmt ≠ some t
      some (afterSave m c t saveAs d)

/-- `Font.save(path, formatVersion=t)` that FAILS AT THE FINAL REPLACE: everything was read and written
into the temporary UFO, the new UFO could not be moved onto the destination and the destination was put
back (M-Replace).  Only a save that goes through a temporary UFO can end this way — a conversion in place
or a save over an existing path, a save-as in both cases.  The font stays bound to the UFO it was bound
to and reports the format it reported; what the save read stays read.  `none`: as for `save`. -/
def saveFailsAtReplace (find : Finder) (m : Mem) (t : Fmt) : Option Mem :=
  match observe m with
  | none => none
  | some c =>
    match write find t m.maps c with
    | none => none
    | some _ => some (preload m c t true)

/-! ### the layer set between opening and saving -/

def layerNames (m : Mem) : List String := m.layers.map (fun l => l.name)

inductive LayerOp where
  /-- `layer.name = n` -/
  | rename (o n : String)
  /-- `font.newLayer(n)` -/
  | new (n : String)
  /-- `del font.layers[n]` -/
  | delete (n : String)
  /-- `font.layers.defaultLayer = font.layers[n]` -/
  | setDefault (n : String)
  /-- `font.layers.layerOrder = order` -/
  | reorder (order : List String)
  /-- colour / lib of a layer -/
  | setInfo (n : String) (b : Blob)
deriving DecidableEq, Repr

/-- `none`: defcon raises (KeyError, AssertionError), or the operation is outside the domain (renaming
onto the name of another layer, deleting the default layer) -/
def applyLayerOp (m : Mem) : LayerOp → Option Mem
  | .rename o n =>
    if o ∈ layerNames m ∧ n ∉ layerNames m then
      -- `_layerNameChange`: the layer is filed under the new name at the same place of the order; its
      -- glyph set is the object it was
      some { m with layers := m.layers.map (fun l => if l.name = o then { l with name := n } else l),
                    defaultName := if m.defaultName = o then n else m.defaultName }
    else none
  | .new n =>
    if n ∉ layerNames m then some { m with layers := m.layers ++ [⟨n, none, [], 0⟩] } else none
  | .delete n =>
    if n ∈ layerNames m ∧ n ≠ m.defaultName then some { m with layers := m.layers.filter (fun l => l.name ≠ n) }
    else none
  | .setDefault n =>
    if n ∈ layerNames m then some { m with defaultName := n } else none
  | .reorder order =>
    if order.isPerm (layerNames m) then
      some { m with layers := order.filterMap (fun n => m.layers.find? (fun l => l.name = n)) }
    else none
  | .setInfo n b =>
    if n ∈ layerNames m then some { m with layers := m.layers.map (fun l => if l.name = n then { l with info := b } else l) }
    else none

/-! ### histories -/

/-- a getter reads the items `names` that are not loaded yet -/
def markLoaded {α : Type} (old : String → Option α) (names : List String) (l : List (String × Option α)) :
    List (String × Option α) :=
  l.map fun p => if p.1 ∈ names ∧ p.2.isNone then (p.1, old p.1) else p

inductive Op where
  | layer (op : LayerOp)
  /-- getters read glyphs (layer name, glyph name), images, data files -/
  | load (glyphs : List (String × String)) (images data : List String)
  /-- a glyph is added or changed -/
  | setGlyph (layer glyph : String) (g : Glyph)
  | delGlyph (layer glyph : String)
  | setParts (p : Parts)
  | save (t : Fmt) (inPlace : Bool)
  /-- a save through a temporary UFO that fails at the final replace -/
  | saveFails (t : Fmt)
deriving DecidableEq, Repr

def loadItems (m : Mem) (gl : List (String × String)) (im da : List String) : Mem :=
  { m with
    layers := m.layers.map (fun l =>
      { l with glyphs := markLoaded (diskGlyph? m.bound l.src)
                  (gl.filterMap fun p => if p.1 = l.name then some p.2 else none) l.glyphs }),
    images := markLoaded (diskImage? m.bound) im m.images,
    data := markLoaded (diskData? m.bound) da m.data }

def setGlyph (m : Mem) (ln gn : String) (g : Glyph) : Mem :=
  { m with layers := m.layers.map fun l => if l.name = ln then { l with glyphs := AL.set l.glyphs gn (some g) } else l }

def delGlyph (m : Mem) (ln gn : String) : Mem :=
  { m with layers := m.layers.map fun l => if l.name = ln then { l with glyphs := AL.erase l.glyphs gn } else l }

def step (find : Finder) (m : Mem) : Op → Option Mem
  | .layer op => applyLayerOp m op
  | .load gl im da => some (loadItems m gl im da)
  | .setGlyph ln gn g => some (setGlyph m ln gn g)
  | .delGlyph ln gn => some (delGlyph m ln gn)
  | .setParts p => some { m with parts := p }
  | .save t ip => save find m t ip
  | .saveFails t => saveFailsAtReplace find m t

def run (find : Finder) (m : Mem) : List Op → Option Mem
  | [] => some m
  | op :: rest =>
    match step find m op with
    | none => none
    | some m' => run find m' rest

end Conv
end DefconModel
