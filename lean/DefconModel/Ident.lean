/-
M-Ident: executable model of defcon's identifier bookkeeping (property C10).

Modelled code (statement by statement, AFTER the `repo_fixes/C10-*.diff` patches):
  objects/glyph.py     `identifiers`, insert/remove/clear of contours, components, anchors, guidelines,
                       `instantiate*`, `_set_anchors/_set_guidelines`, `decomposeComponent(s)`,
                       `copyDataFromGlyph`, `clear`, `setDataFromSerialization`
  objects/contour.py   `insertPoint/removePoint/addPoint`, `clear`, `reverse`, `segments`,
                       `removeSegment`, `splitAndInsertPointAtSegmentAndT`, `setStartPoint`,
                       identifier setter, `generateIdentifier`, `generateIdentifierForPoint`
  objects/component.py, anchor.py, guideline.py   identifier setter, `generateIdentifier`
  objects/font.py      guidelines, `identifiers`, `setDataFromSerialization` (guidelines)
  objects/layer.py     `insertGlyph` (same layer, another layer, another font), `reloadGlyphs`, `loadGlyph`
                       (as far as identifiers go)
  objects/glyph.py     `_fullyLoadShallowLoadedContours`, `__len__/__iter__/__getitem__/__contains__`,
                       `_drawShallowLoadedContours`, `set_shallow_contours` (round 3)
  tools/identifiers.py `makeRandomIdentifier` (candidates are inputs; the retry loop is mirrored)
  pens/glyphObjectPointPen.py, decomposeComponentPointPen.py   incl. `skipConflictingIdentifiers`
  fontTools (ported)   `ReverseContourPointPen._flushContour`, the contour validity rules of
                       `PointToSegmentPen` (reached through `Contour.clockwise` in `reverse`)

A container (`Glyph`; the font is a container that only uses `guides`) holds its objects, its
identifier registry `reg` (a Python `set`: `regAdd` ignores a value already present), and the
objects that were created *for* it (`glyph=self`, so their identifiers are already registered) but
are not inserted yet: the contour a pen is drawing (`cur`), and objects instantiated in a batch
(`stC/stK/stA/stG`).  When an exception abandons such objects their identifiers stay registered:
`abandon` moves them to `leaked` (finding F29).  Between two top-level operations the staging
fields are always empty.

Coordinates, names, colours, transformations are not modelled: no identifier decision reads them.
Index arguments of `Op` are raw numbers reduced modulo the current length (`pick`), exactly as the
harness does, so that generated histories stay meaningful; the theorems quantify over all of them.
Refused calls (`rmAbsentPoint`, `rmAbsent`, `rmForeign`, `insAnchorBad`, `insGuideBad`, and the
assignments `setAnchorsBad` / `setGuidesBad` cut short by an invalid dict): the code raises before any
identifier statement runs (`list.remove`, the membership guards, `Color()` ahead of the identifier in
`Anchor/Guideline.__init__`); which stranger / which invalid colour is used is the harness's business.
Round 3: lazily loaded ("shallow") contours.  A glyph read by `Layer.loadGlyph` (`reopen`) keeps its outline as
recorded pen calls whose identifiers are reserved in the registry (`Glyph.shallow`; `contours` then are the
records); `deepen` is `_fullyLoadShallowLoadedContours`; `preload` says which glyphs an operation looks at before
anything else (and therefore loads), `penEnd` loads at the first `endPath` of a drawing, `deserialize` takes the
records of a shallow source over (`reserve`) and leaves the target shallow; a shallow glyph that is only READ
(`drawPoints` into another glyph's pen, `copyDataFromGlyph` / `Layer.insertGlyph` from it, decomposition of a
component that references it, `getDataForSerialization`) stays shallow.  `step = stepL ∘ preload`.
A re-opened font is modelled as read at once; the harness also leaves it unread until the first
guideline call (lazy reading of fontinfo.plist), the differential run checks that this is equivalent.
Domain restrictions shared with the harness (it does not call defcon there): `Contour.reverse`
only on contours fontTools can draw before and after (`drawOk`), no re-insertion of a component
that would make the component graph cyclic, files for reload/reopen with unique identifiers.
Core Lean only.
-/
namespace DefconModel
namespace Ident

abbrev Id := Nat

/-- segment type of a point: `None` (off curve), "move", "line", "curve", "qcurve" -/
inductive Typ where
  | off | move | line | curve | qcurve
deriving DecidableEq, Repr, Inhabited

structure Point where
  typ : Typ
  id : Option Id
deriving DecidableEq, Repr, Inhabited

structure Contour where
  id : Option Id := none
  pts : List Point := []
deriving DecidableEq, Repr, Inhabited

/-- a component: index of its base glyph in the world (9 = a name that is not in the layer) -/
structure Comp where
  base : Nat
  id : Option Id
deriving DecidableEq, Repr, Inhabited

inductive Err where
  | assertion | key | index | value | notImplemented | pen | exhausted | empty | cyclic
deriving DecidableEq, Repr

inductive Res where
  | ok
  | gen (v : Option Id)
  | err (e : Err)
deriving DecidableEq, Repr

structure Glyph where
  contours : List Contour := []
  comps : List Comp := []
  anchors : List (Option Id) := []
  guides : List (Option Id) := []
  /-- `self._identifiers` -/
  reg : List Id := []
  /-- the contour the pen is drawing (`pen._contour`, created with `glyph=self`) -/
  cur : Option Contour := none
  /-- instantiated (with `glyph=self`) but not inserted yet -/
  stC : List Contour := []
  stK : List Comp := []
  stA : List (Option Id) := []
  stG : List (Option Id) := []
  /-- identifiers registered by objects that were abandoned before insertion (F29) -/
  leaked : List Id := []
  /-- `bool(self._shallowLoadedContours)` : the glyph was read from a GLIF (or fed the serialisation of such a
  glyph) and nothing has looked at its contours yet; `contours` then are the recorded pen calls, no Contour /
  Point object exists, and the identifiers of the records are *reserved* in `reg` -/
  shallow : Bool := false
deriving DecidableEq, Repr, Inhabited

/-! ### small list helpers (Python list semantics) -/

/-- `list.insert(i, a)` : clamps to the end -/
def insertAt {α} : Nat → α → List α → List α
  | 0, a, l => a :: l
  | _ + 1, a, [] => [a]
  | n + 1, a, b :: l => b :: insertAt n a l

/-- python `l[-1]` -/
def last? {α} (l : List α) : Option α := l.getLast?

/-- python `l[-2]` -/
def last2? {α} (l : List α) : Option α :=
  if l.length < 2 then none else l[l.length - 2]?

/-- index reduced modulo the length (glue shared with the harness) -/
def pick {α} (l : List α) (r : Nat) : Option Nat :=
  if l.length = 0 then none else some (r % l.length)

/-! ### the registry (a Python set of strings) -/

def regAdd (r : List Id) (x : Id) : List Id := if x ∈ r then r else r ++ [x]

def regAddAll (r : List Id) (xs : List Id) : List Id := xs.foldl regAdd r

/-- `identifiers.discard(x)` for an optional identifier -/
def discardOpt (r : List Id) : Option Id → List Id
  | some x => r.erase x
  | none => r

/-- `identifiers.remove(x)` for each `x` in turn; stops (KeyError) at the first absent one -/
def regRemoveAll : List Id → List Id → List Id × Bool
  | r, [] => (r, true)
  | r, x :: xs => if x ∈ r then regRemoveAll (r.erase x) xs else (r, false)

/-- `identifiers.discard(x)` for each `x` in turn -/
def discardAll (r : List Id) (xs : List Id) : List Id := xs.foldl (fun r x => r.erase x) r

/-- `assert x not in identifiers; identifiers.add(x)` for each `x` in turn (`set_shallow_contours` of
`Glyph.setDataFromSerialization`): the registry, the identifiers reserved so far, and whether every
assertion held -/
def reserve (r : List Id) (done : List Id) : List Id → List Id × List Id × Bool
  | [] => (r, done, true)
  | x :: xs => if x ∈ r then (r, done, false) else reserve (regAdd r x) (done ++ [x]) xs

def optIds (v : Option Id) : List Id := v.toList

def ptIds (pts : List Point) : List Id := pts.filterMap (·.id)

def Contour.ids (c : Contour) : List Id := optIds c.id ++ ptIds c.pts

/-! ### `makeRandomIdentifier(existing)` : 50 attempts, candidates are inputs -/

def makeId (existing : List Id) : Nat → List Id → Except Err Id
  | 0, _ => .error .notImplemented
  | _ + 1, [] => .error .exhausted
  | n + 1, c :: cs => if c ∈ existing then makeId existing n cs else .ok c

/-! ### identifier setter of Contour / Component / Anchor / Guideline

`cur` the object's identifier, `reg` the registry of its container (for a detached object: a fresh
empty set).  Returns the new identifier, the registry and the outcome. -/

def setIdent (cur : Option Id) (reg : List Id) (v : Option Id) : Option Id × List Id × Res :=
  match cur with
  | some _ => (cur, reg, .ok)                       -- "don't allow overwriting an existing identifier"
  | none =>
    match v with
    | none => (none, reg, .ok)                      -- value == oldIdentifier
    | some x =>
      if x ∈ reg then (none, reg, .err .assertion)  -- assert value not in identifiers
      else (some x, regAdd reg x, .ok)

/-! ### fontTools: can `PointToSegmentPen` draw this contour (else `PenError`)? -/

/-- the points grouped into segments: each ends at an on-curve point; the rest is the trailing
run of off-curve points -/
def runs {α} (isOn : α → Bool) : List α → List α → List (List α) × List α
  | [], cur => ([], cur)
  | p :: r, cur =>
    if isOn p then
      let res := runs isOn r []
      ((cur ++ [p]) :: res.1, res.2)
    else runs isOn r (cur ++ [p])

def isOnT (t : Typ) : Bool := t != .off

/-- `_flushContour` on segments given as (type, point count): after an optional leading "move"
segment of exactly one point, every "line" has one point and no further "move" occurs -/
def flushOk (segs : List (Typ × Nat)) : Bool :=
  let body : List (Typ × Nat) → Bool := fun l => l.all fun s =>
    match s.1 with
    | .line => s.2 == 1
    | .curve => true
    | .qcurve => true
    | _ => false
  match segs with
  | [] => false
  | (.move, n) :: rest => n == 1 && body rest
  | l => body l

def segSummary (rs : List (List Typ)) : List (Typ × Nat) :=
  rs.map fun s => ((s.getLast?).getD .off, s.length)

/-- `PointToSegmentPen.endPath` + `_flushContour` raise no `PenError` on these point types -/
def drawOk (ts : List Typ) : Bool :=
  match ts with
  | [] => true
  | [_] => true
  | t0 :: rest =>
    if t0 = .move then
      -- open contour: a "move" segment for the first point, trailing off-curves are dropped
      flushOk ((.move, 1) :: segSummary (runs isOnT rest []).1)
    else
      match ts.findIdx? isOnT with
      | none => true                                      -- no on-curve point: one implied qcurve
      | some i =>
        let rot := ts.drop (i + 1) ++ ts.take (i + 1)     -- ends with the first on-curve point
        flushOk (segSummary (runs isOnT rot []).1)

/-! ### fontTools: `ReverseContourPointPen._flushContour` -/

/-- hand every on-curve point the segment type of the on-curve point before it -/
def shiftTypes : Typ → List Point → List Point
  | _, [] => []
  | lastT, p :: r =>
    if p.typ = .off then p :: shiftTypes lastT r
    else { p with typ := lastT } :: shiftTypes p.typ r

def revPts (pts : List Point) : List Point :=
  match pts with
  | [] => []
  | p0 :: rest =>
    if p0.typ = .move then
      -- open: reversed, leading off-curves dropped, starts with a move
      shiftTypes .move ((p0 :: rest).reverse.dropWhile fun p => p.typ = .off)
    else
      let rot := rest ++ [p0]
      let lastT := match rot.find? fun p => p.typ != .off with
        | some p => p.typ
        | none => .off
      shiftTypes lastT rot.reverse

/-! ### `Contour.segments` on labelled points -/

abbrev LP := Nat × Point

def isOnLP (p : LP) : Bool := p.2.typ != .off

def segments (pts : List LP) : List (List LP) :=
  match pts with
  | [] => []
  | _ =>
    let rs := runs isOnLP pts []
    match rs.2 with
    | [] =>
      -- the last point is on curve
      match rs.1 with
      | [] => []
      | s0 :: rest =>
        match s0.getLast? with
        | some p => if p.2.typ = .move then s0 :: rest else rest ++ [s0]
        | none => s0 :: rest
    | trail =>
      match rs.1 with
      | [] => [trail]
      | s0 :: rest => rest ++ [trail ++ s0]

def label (pts : List Point) : List LP := (List.range pts.length).zip pts

/-! ### contour operations, on a contour that belongs to container `g` (index `ci`) -/

def setPts (g : Glyph) (ci : Nat) (c : Contour) (pts : List Point) : Glyph :=
  { g with contours := g.contours.set ci { c with pts := pts } }

/-- `Contour.insertPoint(index, point)` -/
def insertPoint (g : Glyph) (ci idx : Nat) (p : Point) : Glyph × Res :=
  match g.contours[ci]? with
  | none => (g, .err .index)
  | some c =>
    match p.id with
    | none => (setPts g ci c (insertAt idx p c.pts), .ok)
    | some x =>
      if x ∈ g.reg then (g, .err .assertion)
      else ({ setPts g ci c (insertAt idx p c.pts) with reg := regAdd g.reg x }, .ok)

/-- `Contour.removePoint(point)` with `point = contour[pi]` -/
def removePoint (g : Glyph) (ci pi : Nat) : Glyph × Res :=
  match g.contours[ci]? with
  | none => (g, .err .index)
  | some c =>
    match c.pts[pi]? with
    | none => (g, .err .index)
    | some p =>
      let g1 := setPts g ci c (c.pts.eraseIdx pi)
      match p.id with
      | none => (g1, .ok)
      | some x => if x ∈ g.reg then ({ g1 with reg := g.reg.erase x }, .ok) else (g1, .err .key)

/-- `_removePointFreeingIdentifier` : remove the point at `pi`, discard its identifier -/
def dropPoint (g : Glyph) (ci pi : Nat) : Glyph :=
  match g.contours[ci]? with
  | none => g
  | some c =>
    match c.pts[pi]? with
    | none => g
    | some p => { setPts g ci c (c.pts.eraseIdx pi) with reg := discardOpt g.reg p.id }

/-- `Contour.clear()` -/
def clearContour (g : Glyph) (ci : Nat) : Glyph × Res :=
  match g.contours[ci]? with
  | none => (g, .err .index)
  | some c =>
    ({ setPts g ci c [] with reg := c.pts.foldl (fun r p => discardOpt r p.id) g.reg }, .ok)

/-- discard the identifier of `p` unless one of the kept points carries it -/
def discardUnlessKept (kept : List (Option Id)) (r : List Id) (p : Point) : List Id :=
  match p.id with
  | none => r
  | some x => if some x ∈ kept then r else r.erase x

/-- `Contour.reverse()` -/
def reverse (g : Glyph) (ci : Nat) : Glyph × Res :=
  match g.contours[ci]? with
  | none => (g, .err .index)
  | some c =>
    let new := revPts c.pts
    -- `reverse` reads `self.clockwise` before and after: a contour fontTools cannot draw raises
    -- PenError there (unless the area is cached).  Such contours are outside the domain: the
    -- harness probes drawability with fontTools and does not call `reverse` on them.
    if drawOk (c.pts.map (·.typ)) = false ∨ drawOk (new.map (·.typ)) = false then (g, .err .pen)
    else
      let kept := new.map (·.id)
      ({ setPts g ci c new with reg := c.pts.foldl (discardUnlessKept kept) g.reg }, .ok)

/-- `Contour.setStartPoint(index)` -/
def setStart (g : Glyph) (ci pi : Nat) : Glyph × Res :=
  match g.contours[ci]? with
  | none => (g, .err .index)
  | some c =>
    if (c.pts.filter fun p => p.typ != .off).length < 2 then (g, .ok)
    else
      match c.pts with
      | [] => (g, .ok)
      | p0 :: _ =>
        if p0.typ = .move then (g, .ok)
        else
          match c.pts[pi]? with
          | none => (g, .err .index)
          | some p =>
            if p.typ = .off then (g, .err .assertion)
            else (setPts g ci c (c.pts.drop pi ++ c.pts.take pi), .ok)

/-! #### removeSegment: the point list is edited object by object; `lbls` tracks which object sits
at which position (labels = positions when the operation started) -/

structure Edit where
  g : Glyph
  lbls : List Nat
deriving Repr

/-- `self._removePointFreeingIdentifier(point)`; `false` = `ValueError` (already removed) -/
def Edit.remove (ci : Nat) (e : Edit) (lbl : Nat) : Edit × Bool :=
  match e.lbls.idxOf? lbl with
  | none => (e, false)
  | some i => ({ g := dropPoint e.g ci i, lbls := e.lbls.eraseIdx i }, true)

def Edit.removeAll (ci : Nat) : Edit → List Nat → Edit × Bool
  | e, [] => (e, true)
  | e, l :: ls =>
    match Edit.remove ci e l with
    | (e', true) => Edit.removeAll ci e' ls
    | (e', false) => (e', false)

/-- `point.segmentType = t` for the object labelled `lbl` (no effect on the list if it was removed) -/
def Edit.setTyp (ci : Nat) (e : Edit) (lbl : Nat) (t : Typ) : Edit :=
  match e.lbls.idxOf? lbl with
  | none => e
  | some i =>
    match e.g.contours[ci]? with
    | none => e
    | some c =>
      match c.pts[i]? with
      | none => e
      | some p => { e with g := setPts e.g ci c (c.pts.set i { p with typ := t }) }

/-- insert two new off-curve points before the object labelled `lbl` (`ValueError` if it is gone) -/
def Edit.insertOffs (ci : Nat) (e : Edit) (lbl : Nat) : Edit × Bool :=
  match e.lbls.idxOf? lbl with
  | none => (e, false)
  | some i =>
    match e.g.contours[ci]? with
    | none => (e, false)
    | some c =>
      let new : List Point := [⟨.off, none⟩, ⟨.off, none⟩]
      let pts := if i = 0 then c.pts ++ new else c.pts.take i ++ new ++ c.pts.drop i
      ({ e with g := setPts e.g ci c pts }, true)

/-- pair a container with "ok", or with `ValueError` when the flag is false -/
def Glyph.withRes (g : Glyph) (ok : Bool) : Glyph × Res := if ok then (g, .ok) else (g, .err .value)

def lastTyp (s : List LP) : Typ := match s.getLast? with
  | some p => p.2.typ
  | none => .off

/-- the body of `removeSegment` once the three segments are known; `n` = number of points -/
def removeSegmentCore (g : Glyph) (ci n : Nat) (seg next prev : List LP) (preserve : Bool) : Glyph × Res :=
  let e0 : Edit := { g := g, lbls := List.range n }
  if preserve = false ∨ (lastTyp prev = .line ∧ lastTyp seg = .line ∧ lastTyp next = .line) then
    match Edit.removeAll ci e0 (seg.map (·.1)) with
    | (e1, false) => (e1.g, .err .value)
    | (e1, true) =>
      if lastTyp seg = .move then
        match Edit.removeAll ci e1 (next.dropLast.map (·.1)) with
        | (e2, false) => (e2.g, .err .value)
        | (e2, true) =>
          match next.getLast? with
          | none => (e2.g, .ok)
          | some p => ((Edit.setTyp ci e2 p.1 .move).g, .ok)
      else (e1.g, .ok)
  else
    -- gather the needed points (reads `segment[-2]`, `nextSegment[-2]` for curves)
    if lastTyp seg = .curve ∧ seg.length < 2 then (g, .err .index)
    else if lastTyp seg ≠ .curve ∧ lastTyp seg ≠ .line then (g, .err .notImplemented)
    else if lastTyp next = .curve ∧ next.length < 2 then (g, .err .index)
    else if lastTyp next ≠ .curve ∧ lastTyp next ≠ .line then (g, .err .notImplemented)
    else
      match Edit.removeAll ci e0 (seg.map (·.1)) with
      | (e1, false) => (e1.g, .err .value)
      | (e1, true) =>
        if lastTyp next ≠ .curve then
          match next.getLast? with
          | none => (e1.g, .ok)
          | some p => (Edit.insertOffs ci (Edit.setTyp ci e1 p.1 .curve) p.1).1.g.withRes
                        (Edit.insertOffs ci (Edit.setTyp ci e1 p.1 .curve) p.1).2
        else (e1.g, .ok)     -- only coordinates of the next segment's handles change

/-- `Contour.removeSegment(segmentIndex, preserveCurve)` -/
def removeSegment (g : Glyph) (ci si : Nat) (preserve : Bool) : Glyph × Res :=
  match g.contours[ci]? with
  | none => (g, .err .index)
  | some c =>
    let segs := segments (label c.pts)
    let n := segs.length
    match segs[si]? with
    | none => (g, .err .index)
    | some seg =>
      removeSegmentCore g ci c.pts.length seg
        (segs[(if si + 1 = n then 0 else si + 1)]?.getD [])
        (segs[(if si = 0 then n - 1 else si - 1)]?.getD []) preserve

/-- discard the identifiers of the points whose label is not kept -/
def discardUnlessLabel (kept : List Nat) (r : List Id) (p : LP) : List Id :=
  if p.1 ∈ kept then r else discardOpt r p.2.id

/-- the points of `lp` (labelled `c.pts`) that `split` keeps, given the positions `fi` of the
segment's first point (the previous on-curve) and `li` of its last point -/
def splitKept (lp : List LP) (fi li : Nat) : List LP × List LP :=
  if fi ≥ li then ((lp.drop li).take (fi + 1 - li), [])     -- the segment wraps around the list end
  else (lp.take (fi + 1), lp.drop li)

/-- the body of `split` with `insert=True`: the new point list is `first + new + last`; identifiers of
points that are not kept are discarded (patched) -/
def splitCore (g : Glyph) (ci : Nat) (c : Contour) (fi li : Nat) (new : List Point) : Glyph × Res :=
  let lp := label c.pts
  let k := splitKept lp fi li
  let kept := (k.1 ++ k.2).map (·.1)
  ({ setPts g ci c (k.1.map (·.2) ++ new ++ k.2.map (·.2)) with
      reg := lp.foldl (discardUnlessLabel kept) g.reg }, .ok)

/-- the points `split` inserts for a segment ending in a point of type `t` whose point count
(including the previous on-curve) is `len` -/
def splitNew (t : Typ) (len : Nat) : Except Err (List Point) :=
  match t with
  | .line => if len = 2 then .ok [⟨.line, none⟩] else .error .value
  | .curve =>
    if len = 4 then .ok [⟨.off, none⟩, ⟨.off, none⟩, ⟨.curve, none⟩, ⟨.off, none⟩, ⟨.off, none⟩]
    else .error .value
  | _ => .error .notImplemented

/-- `Contour.splitAndInsertPointAtSegmentAndT(segmentIndex, t)` -/
def split (g : Glyph) (ci si : Nat) : Glyph × Res :=
  match g.contours[ci]? with
  | none => (g, .err .index)
  | some c =>
    let segs := segments (label c.pts)
    let n := segs.length
    match segs[si]? with
    | none => (g, .err .index)
    | some seg =>
      let prev := segs[(if si = 0 then n - 1 else si - 1)]?.getD []
      match prev.getLast?, seg.getLast? with
      | some first, some lastP =>
        match splitNew lastP.2.typ (seg.length + 1) with
        | .error e => (g, .err e)
        | .ok new => splitCore g ci c first.1 lastP.1 new
      | _, _ => (g, .err .index)

/-- the contour's identifier setter -/
def setContourId (g : Glyph) (ci : Nat) (v : Option Id) : Glyph × Res :=
  match g.contours[ci]? with
  | none => (g, .err .index)
  | some c =>
    let r := setIdent c.id g.reg v
    ({ g with contours := g.contours.set ci { c with id := r.1 }, reg := r.2.1 }, r.2.2)

/-- `Contour.generateIdentifier()` -/
def genContourId (g : Glyph) (ci : Nat) (cands : List Id) : Glyph × Res :=
  match g.contours[ci]? with
  | none => (g, .err .index)
  | some c =>
    match c.id with
    | some x => (g, .gen (some x))
    | none =>
      match makeId g.reg 50 cands with
      | .error e => (g, .err e)
      | .ok x =>
        let r := setIdent c.id g.reg (some x)
        match r.2.2 with
        | .ok => ({ g with contours := g.contours.set ci { c with id := r.1 }, reg := r.2.1 }, .gen r.1)
        | res => (g, res)

/-- `Contour.generateIdentifierForPoint(point)` with `point = contour[pi]` -/
def genPointId (g : Glyph) (ci pi : Nat) (cands : List Id) : Glyph × Res :=
  match g.contours[ci]? with
  | none => (g, .err .index)
  | some c =>
    match c.pts[pi]? with
    | none => (g, .err .index)
    | some p =>
      match p.id with
      | some x => (g, .gen (some x))
      | none =>
        match makeId g.reg 50 cands with
        | .error e => (g, .err e)
        | .ok x =>
          ({ setPts g ci c (c.pts.set pi { p with id := some x }) with reg := regAdd g.reg x }, .gen (some x))

/-! ### inserting / removing objects -/

/-- first failing assertion of the (patched) `insertContour` loop: every incoming identifier must be
absent from the registry and from the identifiers seen before it -/
def freshAll (reg : List Id) : List Id → List Id → Bool
  | _, [] => true
  | seen, x :: xs => if x ∈ reg ∨ x ∈ seen then false else freshAll reg (seen ++ [x]) xs

/-- `Glyph.insertContour(index, contour)` for a detached contour -/
def insertContour (g : Glyph) (idx : Nat) (c : Contour) : Glyph × Res :=
  if freshAll g.reg [] c.ids then
    ({ g with contours := insertAt idx c g.contours, reg := regAddAll g.reg c.ids }, .ok)
  else (g, .err .assertion)

/-- `Glyph.removeContour(contour)` with `contour = glyph[ci]` ; also returns the removed object -/
def removeContour (g : Glyph) (ci : Nat) : Glyph × Res × Option Contour :=
  match g.contours[ci]? with
  | none => (g, .err .index, none)
  | some c =>
    match regRemoveAll g.reg c.ids with
    | (r, false) => ({ g with reg := r }, .err .key, none)
    | (r, true) => ({ g with reg := r, contours := g.contours.eraseIdx ci }, .ok, some c)

/-- `for contour in reversed(self): self.removeContour(contour)` ; `n` = contours still to remove -/
def clearContours : Nat → Glyph → Glyph × Res × List Contour
  | 0, g => (g, .ok, [])
  | n + 1, g =>
    match removeContour g n with
    | (g1, .ok, some c) =>
      let r := clearContours n g1
      (r.1, r.2.1, c :: r.2.2)
    | (g1, res, _) => (g1, res, [])

/-! ### lazily loaded ("shallow") contours

`Layer.loadGlyph` reads a GLIF with a `GlyphObjectLoadingPointPen`: the outline is kept as the recorded pen calls
(`Glyph._shallowLoadedContours`), the identifiers of the records are *reserved* in `glyph.identifiers`.  Every read
access to the contours (`len`, iteration, indexing, `in`, `contourIndex`) first runs
`Glyph._fullyLoadShallowLoadedContours` (`deepen`): the reservations are discarded one by one, then the records are
drawn through an ordinary `GlyphObjectPointPen`, whose contours and points register the identifiers again
(`Contour.identifier = ...` and `Contour.insertPoint` assert that the identifier is free).  An assertion that fails
there would leave through the read access; `deepen_never_rejects` (Lemmas/Ident) proves that this cannot
happen in a container that satisfies the invariant, so that branch is modelled as "the records are kept". -/

/-- the deepening pen's `addPoint` calls for one record; `none` = the assertion of `Contour.insertPoint` -/
def loadPoints (reg : List Id) (acc : List Point) : List Point → Option (List Id × List Point)
  | [] => some (reg, acc)
  | p :: ps =>
    match p.id with
    | none => loadPoints reg (acc ++ [p]) ps
    | some x => if x ∈ reg then none else loadPoints (regAdd reg x) (acc ++ [p]) ps

/-- `beginPath(identifier)`, `addPoint`*, `endPath` for one record -/
def loadContour (reg : List Id) (c : Contour) : Option (List Id × Contour) :=
  match c.id with
  | none =>
    match loadPoints reg [] c.pts with
    | none => none
    | some r => some (r.1, { id := none, pts := r.2 })
  | some x =>
    if x ∈ reg then none                                   -- the identifier setter's assertion
    else
      match loadPoints (regAdd reg x) [] c.pts with
      | none => none
      | some r => some (r.1, { id := some x, pts := r.2 })

def loadContours (reg : List Id) (acc : List Contour) : List Contour → Option (List Id × List Contour)
  | [] => some (reg, acc)
  | c :: cs =>
    match loadContour reg c with
    | none => none
    | some r => loadContours r.1 (acc ++ [r.2]) cs

/-- `Glyph._fullyLoadShallowLoadedContours()` -/
def deepen (g : Glyph) : Glyph :=
  if g.shallow then
    match loadContours (discardAll g.reg (g.contours.flatMap Contour.ids)) [] g.contours with
    | some r => { g with shallow := false, contours := r.2, reg := r.1 }
    | none => { g with shallow := false }
  else g

/-- insertion of a detached Component / Anchor / Guideline with identifier `v` : the new registry -/
def claimOpt (reg : List Id) (v : Option Id) : Option (List Id) :=
  match v with
  | none => some reg
  | some x => if x ∈ reg then none else some (regAdd reg x)

/-- removal of a Component / Anchor / Guideline with identifier `v` : `identifiers.remove` -/
def releaseOpt (reg : List Id) (v : Option Id) : Option (List Id) :=
  match v with
  | none => some reg
  | some x => if x ∈ reg then some (reg.erase x) else none

def insertComp (g : Glyph) (idx : Nat) (k : Comp) : Glyph × Res :=
  match claimOpt g.reg k.id with
  | none => (g, .err .assertion)
  | some r => ({ g with comps := insertAt idx k g.comps, reg := r }, .ok)

def insertAnchor (g : Glyph) (idx : Nat) (v : Option Id) : Glyph × Res :=
  match claimOpt g.reg v with
  | none => (g, .err .assertion)
  | some r => ({ g with anchors := insertAt idx v g.anchors, reg := r }, .ok)

def insertGuide (g : Glyph) (idx : Nat) (v : Option Id) : Glyph × Res :=
  match claimOpt g.reg v with
  | none => (g, .err .assertion)
  | some r => ({ g with guides := insertAt idx v g.guides, reg := r }, .ok)

def removeComp (g : Glyph) (i : Nat) : Glyph × Res × Option Comp :=
  match g.comps[i]? with
  | none => (g, .err .index, none)
  | some k =>
    match releaseOpt g.reg k.id with
    | none => (g, .err .key, none)
    | some r => ({ g with comps := g.comps.eraseIdx i, reg := r }, .ok, some k)

def removeAnchor (g : Glyph) (i : Nat) : Glyph × Res × Option (Option Id) :=
  match g.anchors[i]? with
  | none => (g, .err .index, none)
  | some v =>
    match releaseOpt g.reg v with
    | none => (g, .err .key, none)
    | some r => ({ g with anchors := g.anchors.eraseIdx i, reg := r }, .ok, some v)

def removeGuide (g : Glyph) (i : Nat) : Glyph × Res × Option (Option Id) :=
  match g.guides[i]? with
  | none => (g, .err .index, none)
  | some v =>
    match releaseOpt g.reg v with
    | none => (g, .err .key, none)
    | some r => ({ g with guides := g.guides.eraseIdx i, reg := r }, .ok, some v)

def clearComps : Nat → Glyph → Glyph × Res × List Comp
  | 0, g => (g, .ok, [])
  | n + 1, g =>
    match removeComp g n with
    | (g1, .ok, some c) =>
      let r := clearComps n g1
      (r.1, r.2.1, c :: r.2.2)
    | (g1, res, _) => (g1, res, [])

def clearAnchors : Nat → Glyph → Glyph × Res × List (Option Id)
  | 0, g => (g, .ok, [])
  | n + 1, g =>
    match removeAnchor g n with
    | (g1, .ok, some c) =>
      let r := clearAnchors n g1
      (r.1, r.2.1, c :: r.2.2)
    | (g1, res, _) => (g1, res, [])

def clearGuides : Nat → Glyph → Glyph × Res × List (Option Id)
  | 0, g => (g, .ok, [])
  | n + 1, g =>
    match removeGuide g n with
    | (g1, .ok, some c) =>
      let r := clearGuides n g1
      (r.1, r.2.1, c :: r.2.2)
    | (g1, res, _) => (g1, res, [])

/-- identifier setters of objects that are in the container -/
def setCompId (g : Glyph) (i : Nat) (v : Option Id) : Glyph × Res :=
  match g.comps[i]? with
  | none => (g, .err .index)
  | some k =>
    let r := setIdent k.id g.reg v
    ({ g with comps := g.comps.set i { k with id := r.1 }, reg := r.2.1 }, r.2.2)

def setAnchorId (g : Glyph) (i : Nat) (v : Option Id) : Glyph × Res :=
  match g.anchors[i]? with
  | none => (g, .err .index)
  | some a =>
    let r := setIdent a g.reg v
    ({ g with anchors := g.anchors.set i r.1, reg := r.2.1 }, r.2.2)

def setGuideId (g : Glyph) (i : Nat) (v : Option Id) : Glyph × Res :=
  match g.guides[i]? with
  | none => (g, .err .index)
  | some a =>
    let r := setIdent a g.reg v
    ({ g with guides := g.guides.set i r.1, reg := r.2.1 }, r.2.2)

/-- `generateIdentifier()` of a Component / Anchor / Guideline in the container: the candidate to use -/
def genFor (reg : List Id) (cur : Option Id) (cands : List Id) : Except Err (Option Id × Bool) :=
  match cur with
  | some x => .ok (some x, false)
  | none =>
    match makeId reg 50 cands with
    | .error e => .error e
    | .ok x => .ok (some x, true)

def genCompId (g : Glyph) (i : Nat) (cands : List Id) : Glyph × Res :=
  match g.comps[i]? with
  | none => (g, .err .index)
  | some k =>
    match genFor g.reg k.id cands with
    | .error e => (g, .err e)
    | .ok (v, false) => (g, .gen v)
    | .ok (v, true) =>
      match setCompId g i v with
      | (g1, .ok) => (g1, .gen v)
      | (_, res) => (g, res)

def genAnchorId (g : Glyph) (i : Nat) (cands : List Id) : Glyph × Res :=
  match g.anchors[i]? with
  | none => (g, .err .index)
  | some a =>
    match genFor g.reg a cands with
    | .error e => (g, .err e)
    | .ok (v, false) => (g, .gen v)
    | .ok (v, true) =>
      match setAnchorId g i v with
      | (g1, .ok) => (g1, .gen v)
      | (_, res) => (g, res)

def genGuideId (g : Glyph) (i : Nat) (cands : List Id) : Glyph × Res :=
  match g.guides[i]? with
  | none => (g, .err .index)
  | some a =>
    match genFor g.reg a cands with
    | .error e => (g, .err e)
    | .ok (v, false) => (g, .gen v)
    | .ok (v, true) =>
      match setGuideId g i v with
      | (g1, .ok) => (g1, .gen v)
      | (_, res) => (g, res)

/-! ### objects created for the container (`glyph=self`) before they are inserted -/

/-- identifiers held by staged objects -/
def Glyph.stagedIds (g : Glyph) : List Id :=
  (match g.cur with | some c => c.ids | none => []) ++ g.stC.flatMap Contour.ids
    ++ g.stK.filterMap (·.id) ++ g.stA.filterMap id ++ g.stG.filterMap id

/-- an exception left the staged objects behind: their identifiers stay registered (F29) -/
def abandon (g : Glyph) : Glyph :=
  { g with leaked := g.leaked ++ g.stagedIds, cur := none, stC := [], stK := [], stA := [], stG := [] }

/-- the pen forgets the contour it was drawing (`self._contour = ...` overwrites it): abandoned -/
def dropCur (g : Glyph) : Glyph :=
  match g.cur with
  | some c => { g with leaked := g.leaked ++ c.ids, cur := none }
  | none => g

/-- `beginPath` on a pen that holds no contour -/
def penBeginCore (g0 : Glyph) (v : Option Id) (skip : Bool) : Glyph × Bool :=
  match v with
  | none => ({ g0 with cur := some {} }, true)
  | some x =>
    if x ∈ g0.reg then
      if skip then ({ g0 with cur := some {} }, true)
      else ({ g0 with cur := some {} }, false)               -- the setter's assertion
    else ({ g0 with cur := some { id := some x }, reg := regAdd g0.reg x }, true)

/-- `GlyphObjectPointPen.beginPath(identifier)` ; a contour still held by the pen is abandoned -/
def penBegin (g : Glyph) (v : Option Id) (skip : Bool) : Glyph × Bool :=
  penBeginCore (dropCur g) v skip

/-- `GlyphObjectPointPen.addPoint(..., identifier)` -/
def penPoint (g : Glyph) (p : Point) (skip : Bool) : Glyph × Bool :=
  match g.cur with
  | none => (g, false)
  | some c =>
    match p.id with
    | none => ({ g with cur := some { c with pts := c.pts ++ [p] } }, true)
    | some x =>
      if x ∈ g.reg then
        if skip then ({ g with cur := some { c with pts := c.pts ++ [{ p with id := none }] } }, true)
        else (g, false)                                      -- insertPoint's assertion
      else ({ g with cur := some { c with pts := c.pts ++ [p] }, reg := regAdd g.reg x }, true)

/-- `GlyphObjectPointPen.endPath()` : `appendContour` of a contour that already belongs to the glyph;
`appendContour` asks for `len(self)` first, which fully loads contours that are still shallow -/
def penEnd (g : Glyph) : Glyph × Bool :=
  match g.cur with
  | none => (g, false)
  | some c =>
    let g' := deepen g
    ({ g' with contours := g'.contours ++ [c], cur := none }, true)

def penPoints (skip : Bool) : Glyph → List Point → Glyph × Bool
  | g, [] => (g, true)
  | g, p :: ps =>
    match penPoint g p skip with
    | (g1, true) => penPoints skip g1 ps
    | (g1, false) => (g1, false)

/-- one contour through the pen: beginPath, addPoint*, endPath -/
def penContour (skip : Bool) (g : Glyph) (c : Contour) : Glyph × Bool :=
  match penBegin g c.id skip with
  | (g1, false) => (g1, false)
  | (g1, true) =>
    match penPoints skip g1 c.pts with
    | (g2, false) => (g2, false)
    | (g2, true) => penEnd g2

def penContours (skip : Bool) : Glyph → List Contour → Glyph × Bool
  | g, [] => (g, true)
  | g, c :: cs =>
    match penContour skip g c with
    | (g1, true) => penContours skip g1 cs
    | (g1, false) => (g1, false)

/-- `GlyphObjectPointPen.addComponent(base, transformation, identifier)` -/
def penComp (skip : Bool) (g : Glyph) (k : Comp) : Glyph × Bool :=
  match k.id with
  | none => ({ g with comps := g.comps ++ [k] }, true)
  | some x =>
    if x ∈ g.reg then
      if skip then ({ g with comps := g.comps ++ [{ k with id := none }] }, true)
      else (g, false)                                        -- the setter's assertion; nothing kept
    else ({ g with comps := g.comps ++ [k], reg := regAdd g.reg x }, true)

def penComps (skip : Bool) : Glyph → List Comp → Glyph × Bool
  | g, [] => (g, true)
  | g, k :: ks =>
    match penComp skip g k with
    | (g1, true) => penComps skip g1 ks
    | (g1, false) => (g1, false)

/-- an outline through a new pen: contours, then components; the pen is dropped afterwards -/
def drawOutline (g : Glyph) (cs : List Contour) (ks : List Comp) (skip : Bool) : Glyph × Res :=
  match penContours skip g cs with
  | (g1, false) => (abandon g1, .err .assertion)
  | (g1, true) =>
    match penComps skip g1 ks with
    | (g2, false) => (abandon g2, .err .assertion)
    | (g2, true) => (g2, .ok)

/-- `instantiateGuideline(dict)` / `instantiateAnchor(dict)` / `instantiateComponent(dict)` -/
def stageGuide (g : Glyph) (v : Option Id) : Glyph × Bool :=
  match claimOpt g.reg v with
  | none => (g, false)
  | some r => ({ g with stG := g.stG ++ [v], reg := r }, true)

def stageAnchor (g : Glyph) (v : Option Id) : Glyph × Bool :=
  match claimOpt g.reg v with
  | none => (g, false)
  | some r => ({ g with stA := g.stA ++ [v], reg := r }, true)

def stageComp (g : Glyph) (k : Comp) : Glyph × Bool :=
  match claimOpt g.reg k.id with
  | none => (g, false)
  | some r => ({ g with stK := g.stK ++ [k], reg := r }, true)

/-- `instantiateContour(contourDict)` : the contour replays beginPath/addPoint on itself -/
def stageContour (g : Glyph) (c : Contour) : Glyph × Bool :=
  match penBegin g c.id false with
  | (g1, false) => (g1, false)
  | (g1, true) =>
    match penPoints false g1 c.pts with
    | (g2, false) => (g2, false)
    | (g2, true) =>
      match g2.cur with
      | none => (g2, false)
      | some c' => ({ g2 with stC := g2.stC ++ [c'], cur := none }, true)

def stageAll {α} (f : Glyph → α → Glyph × Bool) : Glyph → List α → Glyph × Bool
  | g, [] => (g, true)
  | g, a :: as =>
    match f g a with
    | (g1, true) => stageAll f g1 as
    | (g1, false) => (g1, false)

/-- `_set_guidelines(list of instantiated guidelines)` : clear, then append each (no registration:
they already belong to the container) -/
def commitGuides (g : Glyph) : Glyph × Res × List (Option Id) :=
  let r := clearGuides g.guides.length g
  match r.2.1 with
  | .ok => ({ r.1 with guides := r.1.guides ++ r.1.stG, stG := [] }, .ok, r.2.2)
  | res => (abandon r.1, res, r.2.2)

def commitAnchors (g : Glyph) : Glyph × Res × List (Option Id) :=
  let r := clearAnchors g.anchors.length g
  match r.2.1 with
  | .ok => ({ r.1 with anchors := r.1.anchors ++ r.1.stA, stA := [] }, .ok, r.2.2)
  | res => (abandon r.1, res, r.2.2)

/-- `glyph.guidelines = [dict, ...]` : clear, then `appendGuideline(dict)` one by one -/
def appendGuideDicts : Glyph → List (Option Id) → Glyph × Res
  | g, [] => (g, .ok)
  | g, v :: vs =>
    match insertGuide g g.guides.length v with
    | (g1, .ok) => appendGuideDicts g1 vs
    | (g1, res) => (g1, res)

def appendAnchorDicts : Glyph → List (Option Id) → Glyph × Res
  | g, [] => (g, .ok)
  | g, v :: vs =>
    match insertAnchor g g.anchors.length v with
    | (g1, .ok) => appendAnchorDicts g1 vs
    | (g1, res) => (g1, res)

def setGuides (g : Glyph) (vs : List (Option Id)) : Glyph × Res × List (Option Id) :=
  let r := clearGuides g.guides.length g
  match r.2.1 with
  | .ok => let a := appendGuideDicts r.1 vs; (a.1, a.2, r.2.2)
  | res => (r.1, res, r.2.2)

def setAnchors (g : Glyph) (vs : List (Option Id)) : Glyph × Res × List (Option Id) :=
  let r := clearAnchors g.anchors.length g
  match r.2.1 with
  | .ok => let a := appendAnchorDicts r.1 vs; (a.1, a.2, r.2.2)
  | res => (r.1, res, r.2.2)

/-- objects removed by a composite operation, by kind -/
structure Removed where
  contours : List Contour := []
  comps : List Comp := []
  anchors : List (Option Id) := []
  guides : List (Option Id) := []
deriving Repr, Inhabited

/-- `Glyph.clear()` -/
def clearGlyph (g : Glyph) : Glyph × Res × Removed :=
  let a := clearContours g.contours.length g
  match a.2.1 with
  | .ok =>
    let b := clearComps a.1.comps.length a.1
    match b.2.1 with
    | .ok =>
      let c := clearAnchors b.1.anchors.length b.1
      match c.2.1 with
      | .ok =>
        let d := clearGuides c.1.guides.length c.1
        (d.1, d.2.1, { contours := a.2.2, comps := b.2.2, anchors := c.2.2, guides := d.2.2 })
      | res => (c.1, res, { contours := a.2.2, comps := b.2.2, anchors := c.2.2 })
    | res => (b.1, res, { contours := a.2.2, comps := b.2.2 })
  | res => (a.1, res, { contours := a.2.2 })

/-- `Glyph.copyDataFromGlyph(src)` -/
def copyFrom (g src : Glyph) : Glyph × Res × Removed :=
  match stageAll stageGuide g src.guides with
  | (g1, false) => (abandon g1, .err .assertion, {})
  | (g1, true) =>
    let a := commitGuides g1
    match a.2.1 with
    | .ok =>
      match stageAll stageAnchor a.1 src.anchors with
      | (g2, false) => (abandon g2, .err .assertion, { guides := a.2.2 })
      | (g2, true) =>
        let b := commitAnchors g2
        match b.2.1 with
        | .ok =>
          let d := drawOutline b.1 src.contours src.comps false
          (d.1, d.2, { guides := a.2.2, anchors := b.2.2 })
        | res => (b.1, res, { guides := a.2.2, anchors := b.2.2 })
    | res => (a.1, res, { guides := a.2.2 })

/-- `Glyph.setDataFromSerialization`, after the outline: components, guidelines, anchors -/
def deserializeTail (g1 src : Glyph) (rm : Removed) : Glyph × Res × Removed :=
  match stageAll stageComp g1 src.comps with
  | (g2, false) => (abandon g2, .err .assertion, rm)
  | (g2, true) =>
    let g2 := { g2 with comps := g2.comps ++ g2.stK, stK := [] }
    match stageAll stageGuide g2 src.guides with
    | (g3, false) => (abandon g3, .err .assertion, rm)
    | (g3, true) =>
      let a := commitGuides g3
      match a.2.1 with
      | .ok =>
        match stageAll stageAnchor a.1 src.anchors with
        | (g4, false) => (abandon g4, .err .assertion, rm)
        | (g4, true) =>
          let b := commitAnchors g4
          (b.1, b.2.1, rm)
      | res => (a.1, res, rm)

/-- `Glyph.setDataFromSerialization(src.getDataForSerialization())`.  `clear()` comes first (it loads contours
that are still shallow, then removes them).  A source whose contours are still shallow serialises them as the
records they are (key `_shallowLoadedContours`): the glyph takes the records over, reserving their identifiers one
by one (`set_shallow_contours`), and is shallow itself afterwards; a reservation that fails leaves the identifiers
reserved before it registered, for records the glyph never gets (F29 family).  Otherwise the contours are
instantiated and appended. -/
def deserialize (g src : Glyph) : Glyph × Res × Removed :=
  let c := clearGlyph (deepen g)
  match c.2.1 with
  | .ok =>
    if src.shallow then
      match reserve c.1.reg [] (src.contours.flatMap Contour.ids) with
      | (r, done, false) => ({ c.1 with reg := r, leaked := c.1.leaked ++ done }, .err .assertion, c.2.2)
      | (r, _, true) =>
        deserializeTail { c.1 with reg := r, contours := c.1.contours ++ src.contours, shallow := true } src c.2.2
    else
      match stageAll stageContour c.1 src.contours with
      | (g1, false) => (abandon g1, .err .assertion, c.2.2)
      | (g1, true) => deserializeTail { g1 with contours := g1.contours ++ g1.stC, stC := [] } src c.2.2
  | res => (c.1, res, c.2.2)

/-- `Font.setDataFromSerialization(dict(guidelines=...))` (patched): clear, instantiate, assign -/
def fontDeserialize (g : Glyph) : Glyph × Res × List (Option Id) :=
  let vs := g.guides
  let r := clearGuides g.guides.length g
  match r.2.1 with
  | .ok =>
    match stageAll stageGuide r.1 vs with
    | (g1, false) => (abandon g1, .err .assertion, r.2.2)
    | (g1, true) =>
      let a := commitGuides g1
      (a.1, a.2.1, r.2.2 ++ a.2.2)
  | res => (r.1, res, r.2.2)

/-- what is in a GLIF file -/
structure Data where
  contours : List Contour := []
  comps : List Comp := []
  anchors : List (Option Id) := []
  guides : List (Option Id) := []
deriving Repr, Inhabited

/-- `glifLib.readGlyph(glyphObject=glyph, pointPen=glyph.getPointPen())` : outline, guidelines, anchors -/
def readInto (g : Glyph) (d : Data) : Glyph × Res × Removed :=
  let o := drawOutline g d.contours d.comps false
  match o.2 with
  | .ok =>
    let a := if d.guides = [] then (o.1, Res.ok, []) else setGuides o.1 d.guides
    match a.2.1 with
    | .ok =>
      let b := if d.anchors = [] then (a.1, Res.ok, []) else setAnchors a.1 d.anchors
      (b.1, b.2.1, { guides := a.2.2, anchors := b.2.2 })
    | res => (a.1, res, { guides := a.2.2 })
  | res => (o.1, res, {})

/-- `Layer.loadGlyph(name)` : the glyph is read with the loading pen, its contours stay shallow (an empty list of
records counts as "nothing to load") -/
def markShallow (g : Glyph) : Glyph := { g with shallow := !g.contours.isEmpty }

/-- `Layer.reloadGlyphs([name])` after the file was replaced (the glyph object exists: `clear()`, then an ordinary
pen; `step` loads shallow contours first, as `clear()` does) -/
def reload (g : Glyph) (d : Data) : Glyph × Res × Removed :=
  let c := clearGlyph g
  match c.2.1 with
  | .ok => let r := readInto c.1 d; (r.1, r.2.1, c.2.2)
  | res => (c.1, res, c.2.2)

/-! ### the world: three glyphs, the font (container 3), and the limbo of removed objects -/

structure World where
  conts : List Glyph := [{}, {}, {}, {}]
  limboC : List Contour := []
  limboK : List Comp := []
  limboA : List (Option Id) := []
  limboG : List (Option Id) := []
deriving Repr, Inhabited

def limboCap : Nat := 4

def pushLimbo {α} (l : List α) (x : α) : List α :=
  let l' := l ++ [x]
  if l'.length > limboCap then l'.drop 1 else l'

def pushAll {α} (l : List α) (xs : List α) : List α := xs.foldl pushLimbo l

def World.pushRemoved (w : World) (r : Removed) : World :=
  { w with limboC := pushAll w.limboC r.contours, limboK := pushAll w.limboK r.comps,
           limboA := pushAll w.limboA r.anchors, limboG := pushAll w.limboG r.guides }

/-- all contours a decomposing pen receives for base glyph `b`: its contours, then (recursively)
those of its components; `fuel` bounds the nesting (the component graph is acyclic) -/
def flatten (ws : List Glyph) : Nat → Nat → List Contour
  | 0, _ => []
  | f + 1, b =>
    match ws[b]? with
    | none => []
    | some bg => bg.contours ++ bg.comps.flatMap fun k => flatten ws f k.base

/-- `Glyph.decomposeComponent(component)` with `component = glyph.components[i]` -/
def decompose (ws : List Glyph) (g : Glyph) (i : Nat) : Glyph × Res × Option Comp :=
  match g.comps[i]? with
  | none => (g, .err .index, none)
  | some k =>
    match penContours true g (flatten ws 4 k.base) with
    | (g1, false) => (abandon g1, .err .assertion, none)
    | (g1, true) => removeComp g1 i

/-- `Glyph.decomposeAllComponents()` : `n` components still to go, always the first one -/
def decomposeAll (ws : List Glyph) : Nat → Glyph → Glyph × Res × List Comp
  | 0, g => (g, .ok, [])
  | n + 1, g =>
    match decompose ws g 0 with
    | (g1, .ok, some k) =>
      let r := decomposeAll ws n g1
      (r.1, r.2.1, k :: r.2.2)
    | (g1, res, _) => (g1, res, [])

inductive Op where
  | insContour (t r : Nat) (c : Contour)
  | reinsContour (t r k : Nat)
  | rmContour (t r : Nat)
  | clearContours (t : Nat)
  | insPoint (t rc rp : Nat) (p : Point)
  | addPoint (t rc : Nat) (p : Point)
  | rmPoint (t rc rp : Nat)
  | clearContour (t rc : Nat)
  | reverse (t rc : Nat)
  | rmSegment (t rc rs : Nat) (preserve : Bool)
  | split (t rc rs : Nat)
  | setStart (t rc rp : Nat)
  | setContourId (t rc : Nat) (v : Option Id)
  | genContourId (t rc : Nat) (cands : List Id)
  | genPointId (t rc rp : Nat) (cands : List Id)
  | insComp (t r : Nat) (k : Comp)
  | reinsComp (t r k : Nat)
  | rmComp (t r : Nat)
  | clearComps (t : Nat)
  | setCompId (t r : Nat) (v : Option Id)
  | genCompId (t r : Nat) (cands : List Id)
  | decompose (t r : Nat)
  | decomposeAll (t : Nat)
  | insAnchor (t r : Nat) (v : Option Id) (viaDict : Bool)
  | reinsAnchor (t r k : Nat)
  | rmAnchor (t r : Nat)
  | clearAnchors (t : Nat)
  | setAnchorId (t r : Nat) (v : Option Id)
  | genAnchorId (t r : Nat) (cands : List Id)
  | setAnchors (t : Nat) (vs : List (Option Id))
  | insGuide (t r : Nat) (v : Option Id) (viaDict : Bool)
  | reinsGuide (t r k : Nat)
  | rmGuide (t r : Nat)
  | clearGuides (t : Nat)
  | setGuideId (t r : Nat) (v : Option Id)
  | genGuideId (t r : Nat) (cands : List Id)
  | setGuides (t : Nat) (vs : List (Option Id))
  | limboSetId (kind k : Nat) (v : Option Id)
  | limboGenId (kind k : Nat) (cands : List Id)
  | limboAddPoint (k : Nat) (p : Point)
  | clearGlyph (t : Nat)
  | draw (t : Nat) (cs : List Contour) (ks : List Comp) (skip : Bool)
  | drawFrom (t src : Nat) (skip : Bool)
  | copyFrom (t src : Nat)
  | insertGlyph (t src : Nat)
  | roundtrip (t : Nat)
  | deserializeFrom (t src : Nat)
  | fontRoundtrip
  | instAnchor (t : Nat) (v : Option Id)
  | instGuide (t : Nat) (v : Option Id)
  | reload (t : Nat) (d : Data)
  | reopen (ds : List Data) (fg : List (Option Id)) (thenAnchor : Option (Nat × Id))
  /- calls the container refuses outright (see `step`) -/
  | rmAbsentPoint (t rc : Nat)
  | rmAbsent (kind t k : Nat)
  | rmForeign (kind t src r : Nat)
  | insAnchorBad (t r : Nat) (v : Option Id)
  | insGuideBad (t r : Nat) (v : Option Id)
  | setAnchorsBad (t : Nat) (vs : List (Option Id))
  | setGuidesBad (t : Nat) (vs : List (Option Id))
  /- round 3: a read access to the contours of glyph `t` (`len(glyph)`), and `Layer.insertGlyph` of glyph `src`
     into a layer of ANOTHER font, the copy made there being inserted back as glyph `t` -/
  | load (t : Nat)
  | insertGlyphVia (t src : Nat)
deriving Repr

def World.get (w : World) (t : Nat) : Glyph := w.conts[t]?.getD {}

def World.put (w : World) (t : Nat) (g : Glyph) : World := { w with conts := w.conts.set t g }

/-- run a container operation on container `t` -/
def World.on (w : World) (t : Nat) (f : Glyph → Glyph × Res) : World × Res :=
  let r := f (w.get t)
  (w.put t r.1, r.2)

def empty : Res := .err .empty

/-- identifier setter / generateIdentifier of a detached object (its `identifiers` is a fresh set) -/
def detachedSet (cur v : Option Id) : Option Id := (setIdent cur [] v).1

def detachedGen (cur : Option Id) (cands : List Id) : Except Err (Option Id) :=
  match cur with
  | some x => .ok (some x)
  | none =>
    match makeId [] 50 cands with
    | .error e => .error e
    | .ok x => .ok (some x)

/-- the contours of glyph `t` are looked at: contours that are still shallow are fully loaded -/
def World.load (w : World) (t : Nat) : World := w.put t (deepen (w.get t))

/-- What an operation does BEFORE anything else: the glyphs whose contours it looks at first (`len`, iteration,
indexing, `in`) are fully loaded.  `insertContour` / `appendContour` (`assert contour not in self`, `len(self)`),
`removeContour` (`contour not in self`), `clearContours` / `clear` / `Layer.reloadGlyphs` (`reversed(self)`),
`_decomposeComponent` (explicitly) look themselves; an operation that names a contour by its index looks when it
fetches that contour (glue shared with the harness, like `pick`).  Operations that return before they look
(an empty limbo, no component to decompose) load nothing. -/
def preload (w : World) : Op → World
  | .insContour t _ _ | .rmContour t _ | .clearContours t | .insPoint t _ _ _ | .addPoint t _ _ | .rmPoint t _ _
  | .clearContour t _ | .reverse t _ | .rmSegment t _ _ _ | .split t _ _ | .setStart t _ _ | .setContourId t _ _
  | .genContourId t _ _ | .genPointId t _ _ _ | .clearGlyph t | .reload t _ | .rmAbsentPoint t _ | .load t =>
    w.load t
  | .reinsContour t _ _ => if w.limboC = [] then w else w.load t
  | .decompose t _ | .decomposeAll t => if (w.get t).comps = [] then w else w.load t
  | .rmAbsent 0 t _ => if w.limboC = [] then w else w.load t
  | .rmForeign 0 t src _ =>
    -- the stranger is fetched from glyph `src` (a read access), then handed to glyph `t`
    if t = src then w
    else if ((w.load src).get src).contours = [] then w.load src else (w.load src).load t
  | _ => w

/-- an operation on a world whose glyphs it looks at first are loaded (`step` = `preload`, then this) -/
def stepL (w : World) : Op → World × Res
  | .insContour t r c =>
    let g := w.get t
    w.on t fun g' => insertContour g' (r % (g.contours.length + 1)) c
  | .reinsContour t r k =>
    match pick w.limboC k with
    | none => (w, empty)
    | some i =>
      match w.limboC[i]? with
      | none => (w, empty)
      | some c =>
        let g := w.get t
        match insertContour g (r % (g.contours.length + 1)) c with
        | (g1, .ok) => ({ w.put t g1 with limboC := w.limboC.eraseIdx i }, .ok)
        | (_, res) => (w, res)
  | .rmContour t r =>
    let g := w.get t
    match pick g.contours r with
    | none => (w, empty)
    | some i =>
      match removeContour g i with
      | (g1, res, some c) => ({ w.put t g1 with limboC := pushLimbo w.limboC c }, res)
      | (g1, res, none) => (w.put t g1, res)
  | .clearContours t =>
    let g := w.get t
    let r := clearContours g.contours.length g
    ({ w.put t r.1 with limboC := pushAll w.limboC r.2.2 }, r.2.1)
  | .insPoint t rc rp p =>
    let g := w.get t
    match pick g.contours rc with
    | none => (w, empty)
    | some ci =>
      let n := (g.contours[ci]?.getD {}).pts.length
      w.on t fun g' => insertPoint g' ci (rp % (n + 1)) p
  | .addPoint t rc p =>
    let g := w.get t
    match pick g.contours rc with
    | none => (w, empty)
    | some ci =>
      let n := (g.contours[ci]?.getD {}).pts.length
      w.on t fun g' => insertPoint g' ci n p
  | .rmPoint t rc rp =>
    let g := w.get t
    match pick g.contours rc with
    | none => (w, empty)
    | some ci =>
      match pick (g.contours[ci]?.getD {}).pts rp with
      | none => (w, empty)
      | some pi => w.on t fun g' => removePoint g' ci pi
  | .clearContour t rc =>
    match pick (w.get t).contours rc with
    | none => (w, empty)
    | some ci => w.on t fun g' => clearContour g' ci
  | .reverse t rc =>
    match pick (w.get t).contours rc with
    | none => (w, empty)
    | some ci => w.on t fun g' => reverse g' ci
  | .rmSegment t rc rs preserve =>
    let g := w.get t
    match pick g.contours rc with
    | none => (w, empty)
    | some ci =>
      match pick (segments (label (g.contours[ci]?.getD {}).pts)) rs with
      | none => (w, empty)
      | some si => w.on t fun g' => removeSegment g' ci si preserve
  | .split t rc rs =>
    let g := w.get t
    match pick g.contours rc with
    | none => (w, empty)
    | some ci =>
      match pick (segments (label (g.contours[ci]?.getD {}).pts)) rs with
      | none => (w, empty)
      | some si => w.on t fun g' => split g' ci si
  | .setStart t rc rp =>
    let g := w.get t
    match pick g.contours rc with
    | none => (w, empty)
    | some ci =>
      match pick (g.contours[ci]?.getD {}).pts rp with
      | none => (w, empty)
      | some pi => w.on t fun g' => setStart g' ci pi
  | .setContourId t rc v =>
    match pick (w.get t).contours rc with
    | none => (w, empty)
    | some ci => w.on t fun g' => setContourId g' ci v
  | .genContourId t rc cands =>
    match pick (w.get t).contours rc with
    | none => (w, empty)
    | some ci => w.on t fun g' => genContourId g' ci cands
  | .genPointId t rc rp cands =>
    let g := w.get t
    match pick g.contours rc with
    | none => (w, empty)
    | some ci =>
      match pick (g.contours[ci]?.getD {}).pts rp with
      | none => (w, empty)
      | some pi => w.on t fun g' => genPointId g' ci pi cands
  | .insComp t r k =>
    let g := w.get t
    w.on t fun g' => insertComp g' (r % (g.comps.length + 1)) k
  | .reinsComp t r k =>
    match pick w.limboK k with
    | none => (w, empty)
    | some i =>
      match w.limboK[i]? with
      | none => (w, empty)
      | some c =>
        if c.base ≠ 9 ∧ c.base ≤ t then (w, .err .cyclic)
        else
          let g := w.get t
          match insertComp g (r % (g.comps.length + 1)) c with
          | (g1, .ok) => ({ w.put t g1 with limboK := w.limboK.eraseIdx i }, .ok)
          | (_, res) => (w, res)
  | .rmComp t r =>
    let g := w.get t
    match pick g.comps r with
    | none => (w, empty)
    | some i =>
      match removeComp g i with
      | (g1, res, some c) => ({ w.put t g1 with limboK := pushLimbo w.limboK c }, res)
      | (g1, res, none) => (w.put t g1, res)
  | .clearComps t =>
    let g := w.get t
    let r := clearComps g.comps.length g
    ({ w.put t r.1 with limboK := pushAll w.limboK r.2.2 }, r.2.1)
  | .setCompId t r v =>
    match pick (w.get t).comps r with
    | none => (w, empty)
    | some i => w.on t fun g' => setCompId g' i v
  | .genCompId t r cands =>
    match pick (w.get t).comps r with
    | none => (w, empty)
    | some i => w.on t fun g' => genCompId g' i cands
  | .decompose t r =>
    let g := w.get t
    match pick g.comps r with
    | none => (w, empty)
    | some i =>
      match decompose w.conts g i with
      | (g1, res, some c) => ({ w.put t g1 with limboK := pushLimbo w.limboK c }, res)
      | (g1, res, none) => (w.put t g1, res)
  | .decomposeAll t =>
    let g := w.get t
    let r := decomposeAll w.conts g.comps.length g
    ({ w.put t r.1 with limboK := pushAll w.limboK r.2.2 }, r.2.1)
  | .insAnchor t r v _ =>
    let g := w.get t
    w.on t fun g' => insertAnchor g' (r % (g.anchors.length + 1)) v
  | .reinsAnchor t r k =>
    match pick w.limboA k with
    | none => (w, empty)
    | some i =>
      match w.limboA[i]? with
      | none => (w, empty)
      | some c =>
        let g := w.get t
        match insertAnchor g (r % (g.anchors.length + 1)) c with
        | (g1, .ok) => ({ w.put t g1 with limboA := w.limboA.eraseIdx i }, .ok)
        | (_, res) => (w, res)
  | .rmAnchor t r =>
    let g := w.get t
    match pick g.anchors r with
    | none => (w, empty)
    | some i =>
      match removeAnchor g i with
      | (g1, res, some c) => ({ w.put t g1 with limboA := pushLimbo w.limboA c }, res)
      | (g1, res, none) => (w.put t g1, res)
  | .clearAnchors t =>
    let g := w.get t
    let r := clearAnchors g.anchors.length g
    ({ w.put t r.1 with limboA := pushAll w.limboA r.2.2 }, r.2.1)
  | .setAnchorId t r v =>
    match pick (w.get t).anchors r with
    | none => (w, empty)
    | some i => w.on t fun g' => setAnchorId g' i v
  | .genAnchorId t r cands =>
    match pick (w.get t).anchors r with
    | none => (w, empty)
    | some i => w.on t fun g' => genAnchorId g' i cands
  | .setAnchors t vs =>
    let r := setAnchors (w.get t) vs
    ({ w.put t r.1 with limboA := pushAll w.limboA r.2.2 }, r.2.1)
  | .insGuide t r v _ =>
    let g := w.get t
    w.on t fun g' => insertGuide g' (r % (g.guides.length + 1)) v
  | .reinsGuide t r k =>
    match pick w.limboG k with
    | none => (w, empty)
    | some i =>
      match w.limboG[i]? with
      | none => (w, empty)
      | some c =>
        let g := w.get t
        match insertGuide g (r % (g.guides.length + 1)) c with
        | (g1, .ok) => ({ w.put t g1 with limboG := w.limboG.eraseIdx i }, .ok)
        | (_, res) => (w, res)
  | .rmGuide t r =>
    let g := w.get t
    match pick g.guides r with
    | none => (w, empty)
    | some i =>
      match removeGuide g i with
      | (g1, res, some c) => ({ w.put t g1 with limboG := pushLimbo w.limboG c }, res)
      | (g1, res, none) => (w.put t g1, res)
  | .clearGuides t =>
    let g := w.get t
    let r := clearGuides g.guides.length g
    ({ w.put t r.1 with limboG := pushAll w.limboG r.2.2 }, r.2.1)
  | .setGuideId t r v =>
    match pick (w.get t).guides r with
    | none => (w, empty)
    | some i => w.on t fun g' => setGuideId g' i v
  | .genGuideId t r cands =>
    match pick (w.get t).guides r with
    | none => (w, empty)
    | some i => w.on t fun g' => genGuideId g' i cands
  | .setGuides t vs =>
    let r := setGuides (w.get t) vs
    ({ w.put t r.1 with limboG := pushAll w.limboG r.2.2 }, r.2.1)
  | .limboSetId kind k v =>
    match kind with
    | 0 =>
      match pick w.limboC k with
      | none => (w, empty)
      | some i =>
        match w.limboC[i]? with
        | none => (w, empty)
        | some c => ({ w with limboC := w.limboC.set i { c with id := detachedSet c.id v } }, .ok)
    | 1 =>
      match pick w.limboK k with
      | none => (w, empty)
      | some i =>
        match w.limboK[i]? with
        | none => (w, empty)
        | some c => ({ w with limboK := w.limboK.set i { c with id := detachedSet c.id v } }, .ok)
    | 2 =>
      match pick w.limboA k with
      | none => (w, empty)
      | some i =>
        match w.limboA[i]? with
        | none => (w, empty)
        | some c => ({ w with limboA := w.limboA.set i (detachedSet c v) }, .ok)
    | _ =>
      match pick w.limboG k with
      | none => (w, empty)
      | some i =>
        match w.limboG[i]? with
        | none => (w, empty)
        | some c => ({ w with limboG := w.limboG.set i (detachedSet c v) }, .ok)
  | .limboGenId kind k cands =>
    match kind with
    | 0 =>
      match pick w.limboC k with
      | none => (w, empty)
      | some i =>
        match w.limboC[i]? with
        | none => (w, empty)
        | some c =>
          match detachedGen c.id cands with
          | .error e => (w, .err e)
          | .ok v => ({ w with limboC := w.limboC.set i { c with id := v } }, .gen v)
    | 1 =>
      match pick w.limboK k with
      | none => (w, empty)
      | some i =>
        match w.limboK[i]? with
        | none => (w, empty)
        | some c =>
          match detachedGen c.id cands with
          | .error e => (w, .err e)
          | .ok v => ({ w with limboK := w.limboK.set i { c with id := v } }, .gen v)
    | 2 =>
      match pick w.limboA k with
      | none => (w, empty)
      | some i =>
        match w.limboA[i]? with
        | none => (w, empty)
        | some c =>
          match detachedGen c cands with
          | .error e => (w, .err e)
          | .ok v => ({ w with limboA := w.limboA.set i v }, .gen v)
    | _ =>
      match pick w.limboG k with
      | none => (w, empty)
      | some i =>
        match w.limboG[i]? with
        | none => (w, empty)
        | some c =>
          match detachedGen c cands with
          | .error e => (w, .err e)
          | .ok v => ({ w with limboG := w.limboG.set i v }, .gen v)
  | .limboAddPoint k p =>
    match pick w.limboC k with
    | none => (w, empty)
    | some i =>
      match w.limboC[i]? with
      | none => (w, empty)
      | some c => ({ w with limboC := w.limboC.set i { c with pts := c.pts ++ [p] } }, .ok)
  | .clearGlyph t =>
    let r := clearGlyph (w.get t)
    ((w.put t r.1).pushRemoved r.2.2, r.2.1)
  | .draw t cs ks skip => w.on t fun g' => drawOutline g' cs ks skip
  | .drawFrom t src skip =>
    let s := w.get src
    w.on t fun g' => drawOutline g' s.contours s.comps skip
  | .copyFrom t src =>
    let r := copyFrom (w.get t) (w.get src)
    ((w.put t r.1).pushRemoved r.2.2, r.2.1)
  | .insertGlyph t src =>
    let r := copyFrom {} (w.get src)
    (w.put t r.1, r.2.1)
  | .roundtrip t =>
    let g := w.get t
    let r := deserialize g g
    ((w.put t r.1).pushRemoved r.2.2, r.2.1)
  | .deserializeFrom t src =>
    let r := deserialize (w.get t) (w.get src)
    ((w.put t r.1).pushRemoved r.2.2, r.2.1)
  | .fontRoundtrip =>
    let r := fontDeserialize (w.get 3)
    ({ w.put 3 r.1 with limboG := pushAll w.limboG r.2.2 }, r.2.1)
  | .instAnchor t v =>
    w.on t fun g' =>
      match stageAnchor g' v with
      | (g1, true) => (abandon g1, .ok)
      | (g1, false) => (g1, .err .assertion)
  | .instGuide t v =>
    w.on t fun g' =>
      match stageGuide g' v with
      | (g1, true) => (abandon g1, .ok)
      | (g1, false) => (g1, .err .assertion)
  | .reload t d =>
    let r := reload (w.get t) d
    ((w.put t r.1).pushRemoved r.2.2, r.2.1)
  | .reopen ds fg thenAnchor =>
    let r0 := readInto {} (ds[0]?.getD {})
    let r1 := readInto {} (ds[1]?.getD {})
    let r2 := readInto {} (ds[2]?.getD {})
    let rf := appendGuideDicts {} fg
    let w1 := { w with conts := [markShallow r0.1, markShallow r1.1, markShallow r2.1, rf.1] }
    -- files with a repeated identifier: outside the domain (glifLib refuses to write or read them)
    if r0.2.1 ≠ .ok ∨ r1.2.1 ≠ .ok ∨ r2.2.1 ≠ .ok ∨ rf.2 ≠ .ok then (w1, .err .assertion)
    else
      match thenAnchor with
      | none => (w1, .ok)
      | some (t, x) =>
        let g := w1.get t
        w1.on t fun g' => insertAnchor g' g.anchors.length (some x)
  /- `contour.removePoint(point)` with a Point object that is not in the contour (a point of another
     contour, the object `reverse()` replaced by a new one carrying the same identifier, a free-standing
     point): `self._points.remove(point)` comes first and raises ValueError; the identifier of the point
     — which an object of the glyph may well carry — is not looked at. -/
  | .rmAbsentPoint t rc =>
    match pick (w.get t).contours rc with
    | none => (w, empty)
    | some _ => (w, .err .value)
  /- `container.remove<Kind>(object)` with a detached object (one of the limbo): the membership test
     comes first (`IndexError` for a contour, `ValueError` for the other kinds). -/
  | .rmAbsent kind _ k =>
    match kind with
    | 0 => match pick w.limboC k with
      | none => (w, empty)
      | some _ => (w, .err .index)
    | 1 => match pick w.limboK k with
      | none => (w, empty)
      | some _ => (w, .err .value)
    | 2 => match pick w.limboA k with
      | none => (w, empty)
      | some _ => (w, .err .value)
    | _ => match pick w.limboG k with
      | none => (w, empty)
      | some _ => (w, .err .value)
  /- `container.remove<Kind>(object)` with an object that sits in ANOTHER container `src` -/
  | .rmForeign kind t src r =>
    if t = src then (w, empty)
    else
      match kind with
      | 0 => match pick (w.get src).contours r with
        | none => (w, empty)
        | some _ => (w, .err .index)
      | 1 => match pick (w.get src).comps r with
        | none => (w, empty)
        | some _ => (w, .err .value)
      | 2 => match pick (w.get src).anchors r with
        | none => (w, empty)
        | some _ => (w, .err .value)
      | _ => match pick (w.get src).guides r with
        | none => (w, empty)
        | some _ => (w, .err .value)
  /- `insertAnchor/appendAnchor/instantiateAnchor(dict)` (resp. guideline) with a dict that holds an
     identifier AND a colour `Color()` refuses: `__init__` assigns x, y, (angle,) name, color and only
     then identifier, so the ValueError leaves before the identifier setter has run. -/
  | .insAnchorBad _ _ _ => (w, .err .value)
  | .insGuideBad _ _ _ => (w, .err .value)
  /- `glyph.anchors = [valid dicts `vs`…, a dict with an invalid colour, …]` : clear, append the valid
     ones one by one, stop (ValueError) at the invalid one; whatever follows it is never looked at. -/
  | .setAnchorsBad t vs =>
    let r := setAnchors (w.get t) vs
    ({ w.put t r.1 with limboA := pushAll w.limboA r.2.2 },
     match r.2.1 with
     | .ok => .err .value
     | res => res)
  | .setGuidesBad t vs =>
    let r := setGuides (w.get t) vs
    ({ w.put t r.1 with limboG := pushAll w.limboG r.2.2 },
     match r.2.1 with
     | .ok => .err .value
     | res => res)
  | .load _ => (w, .ok)
  /- `otherFont.layers.defaultLayer.insertGlyph(src)` makes a copy in the other font (`newGlyph` +
     `copyDataFromGlyph`: a source that is still shallow is drawn from its records and stays shallow); that copy
     is then inserted into the home layer under the name of glyph `t`.  A first copy that fails leaves the home
     layer alone. -/
  | .insertGlyphVia t src =>
    let r1 := copyFrom {} (w.get src)
    match r1.2.1 with
    | .ok =>
      let r := copyFrom {} r1.1
      (w.put t r.1, r.2.1)
    | res => (w, res)

def step (w : World) (op : Op) : World × Res := stepL (preload w op) op

def run (w : World) : List Op → World
  | [] => w
  | op :: ops => run (step w op).1 ops

end Ident
end DefconModel
