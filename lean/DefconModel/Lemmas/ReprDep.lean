/-
Dependency soundness of M-Repr, event by event.

* eviction as an equation: an entry survives a delivery list iff no delivered event hits it;
* every "inner" mutator (one that rewrites content cells and posts, without changing which object
  belongs to which glyph or which glyph a name denotes) factors as  `applyDeliv (bumpOf w op) (evOf w op)`:
  first the stamps of the rewritten cells, then the evictions along the routes;
* `dep_event`: if such a call changes the view a representation reads, one of the events it delivers
  hits that representation.  Proved from `step_inv` by running the call on a *probe world* whose only cached
  value is the view itself (the universal factory `f view = view`).
-/
import DefconModel.Lemmas.ReprName
import DefconModel.ReprHold

namespace DefconModel
namespace Repr

variable {V : Type}

/-! ### eviction as an equation -/

theorem Cache.get?_evict_eq (facs : List (String × Destr)) (c : Cache V) (n nm : String) (sk : SubKey) :
    (Cache.evict facs c n).get? nm sk =
      if facs.any (fun p => decide (p.1 = nm) && p.2.hit n) then none else c.get? nm sk := by
  unfold Cache.evict
  induction facs generalizing c with
  | nil => simp
  | cons p r ih =>
    simp only [List.foldl_cons, List.any_cons]
    rw [ih]
    by_cases hr : r.any (fun p => decide (p.1 = nm) && p.2.hit n) = true
    · simp [hr]
    · simp only [hr, Bool.or_false, Bool.false_eq_true, if_false]
      by_cases hp : p.2.hit n = true
      · simp only [hp, if_true, Bool.and_true]
        rw [Cache.get?_destroyName]
        by_cases e : p.1 = nm <;> simp [e]
      · simp [hp]

theorem get?_evictObj_eq (T : Tables) (w : World V) (o : Obj) (n : String) (o' : Obj) (nm : String) (sk : SubKey) :
    (cacheOf (evictObj T w o n) o').get? nm sk =
      if hitB T w.regs (o, n) o' nm then none else (cacheOf w o').get? nm sk := by
  unfold evictObj hitB
  rw [cacheOf_setCache]
  by_cases e : o = o'
  · subst e
    simp only [if_true, decide_true, Bool.true_and]
    rw [Cache.get?_evict_eq]
  · simp [e]

theorem get?_applyDeliv_eq (T : Tables) (w : World V) (ds : List (Obj × String)) (o : Obj) (nm : String) (sk : SubKey) :
    (cacheOf (applyDeliv T w ds) o).get? nm sk =
      if ds.any (fun e => hitB T w.regs e o nm) then none else (cacheOf w o).get? nm sk := by
  unfold applyDeliv
  induction ds generalizing w with
  | nil => simp
  | cons d r ih =>
    simp only [List.foldl_cons, List.any_cons]
    rw [ih]
    have hr : (evictObj T w d.1 d.2).regs = w.regs := (sameStruct_evictObj T w d.1 d.2).regs
    rw [hr, get?_evictObj_eq]
    by_cases h1 : r.any (fun e => hitB T w.regs e o nm) = true
    · simp [h1]
    · simp only [h1, Bool.or_false, Bool.false_eq_true, if_false]

theorem applyDeliv_append' (T : Tables) (w : World V) (a b : List (Obj × String)) :
    applyDeliv T w (a ++ b) = applyDeliv T (applyDeliv T w a) b := by
  unfold applyDeliv; rw [List.foldl_append]

/-! ### inner mutators: stamps first, evictions second -/

theorem step_factor (P : Params V) (T : Tables) (w : World V) (op : Op) (hin : op.isInner = true) :
    (step P T w op).1 = applyDeliv T (bumpOf w op) (evOf T w op) := by
  cases op with
  | cmut cid meth =>
    simp only [step, doCmut, bumpOf, evOf]
    cases AL.get? contourMutators meth with
    | none => rfl
    | some cell =>
      cases hh : hostOfContour w.glyphs cid with
      | none =>
        simp only
        by_cases hl : w.looseC.any (fun c => c.id = cid) = true
        · simp only [hl, if_true]; rfl
        · simp only [hl]; rfl
      | some h => simp only [hh]; rfl
  | kmut kid meth =>
    simp only [step, doKmut, bumpOf, evOf]
    cases AL.get? compMutators meth with
    | none => rfl
    | some cell =>
      cases hh : hostOfComp w.glyphs kid with
      | none =>
        simp only
        by_cases hl : w.looseK.any (fun k => k.id = kid) = true
        · simp only [hl, if_true]; rfl
        · simp only [hl]; rfl
      | some h => simp only [hh]; rfl
  | gmut g meth =>
    simp only [step, doGmut, bumpOf, evOf]
    by_cases hm : glyphMutators.contains meth = true
    · by_cases hg : AL.contains w.glyphs g = true
      · simp only [hm, hg, Bool.not_true, Bool.false_eq_true, if_false]; rfl
      · simp only [hm, hg, Bool.not_true, Bool.not_false, Bool.false_eq_true, if_false, if_true]; rfl
    · simp only [hm, Bool.not_false, if_true]; rfl
  | gset meth =>
    simp only [step, doGset, bumpOf, evOf]
    by_cases hm : groupsMutators.contains meth = true
    · simp only [hm, Bool.not_true, Bool.false_eq_true, if_false]
    · simp only [hm, Bool.not_false, if_true]; rfl
  | touch o meth => rfl
  | _ => cases hin

/-! ### the same structure under other caches (of any value type) -/

def World.withCaches {V' : Type} (w : World V) (c : List (Obj × Cache V')) : World V' :=
  { clock := w.clock, fuel := w.fuel, glyphs := w.glyphs, looseC := w.looseC, looseK := w.looseK,
    groupsVer := w.groupsVer, regs := w.regs, caches := c }

variable {V' : Type}

theorem viewOf_withCaches (T : Tables) (w : World V) (c : List (Obj × Cache V')) (o : Obj) (nm : String) :
    viewOf T (w.withCaches c) o nm = viewOf T w o nm := by
  cases o <;> rfl

theorem attached_withCaches (w : World V) (c : List (Obj × Cache V')) (o : Obj) :
    attached (w.withCaches c) o = attached w o := by
  cases o <;> rfl

theorem dom_withCaches {w : World V} (c : List (Obj × Cache V')) (h : Dom w) : Dom (w.withCaches c) :=
  ⟨h.bounded, h.watch, h.wait, ⟨h.ids.looseC, h.ids.looseK, h.ids.oneC, h.ids.oneK, h.ids.keys⟩⟩

theorem bumpOf_withCaches (w : World V) (c : List (Obj × Cache V')) (op : Op) :
    bumpOf (w.withCaches c) op = (bumpOf w op).withCaches c := by
  cases op with
  | cmut cid meth =>
    simp only [bumpOf]
    cases AL.get? contourMutators meth with
    | none => rfl
    | some cell =>
      show (match hostOfContour w.glyphs cid with | some h => _ | none => _) = _
      cases hostOfContour w.glyphs cid with
      | none =>
        show (if w.looseC.any (fun c => c.id = cid) then _ else _) = _
        by_cases hl : w.looseC.any (fun c => c.id = cid) = true
        · simp only [hl, if_true]; rfl
        · simp only [hl]; rfl
      | some h => rfl
  | kmut kid meth =>
    simp only [bumpOf]
    cases AL.get? compMutators meth with
    | none => rfl
    | some cell =>
      show (match hostOfComp w.glyphs kid with | some h => _ | none => _) = _
      cases hostOfComp w.glyphs kid with
      | none =>
        show (if w.looseK.any (fun k => k.id = kid) then _ else _) = _
        by_cases hl : w.looseK.any (fun k => k.id = kid) = true
        · simp only [hl, if_true]; rfl
        · simp only [hl]; rfl
      | some h => rfl
  | gmut g meth =>
    simp only [bumpOf]
    have hgl : (w.withCaches c).glyphs = w.glyphs := rfl
    by_cases hm : glyphMutators.contains meth = true
    · by_cases hg : AL.contains w.glyphs g = true
      · simp only [hm, hgl, hg, Bool.not_true, Bool.false_eq_true, if_false]; rfl
      · simp only [hm, hgl, hg, Bool.not_true, Bool.not_false, Bool.false_eq_true, if_false, if_true]
    · simp only [hm, Bool.not_false, if_true]
  | gset meth =>
    simp only [bumpOf]
    by_cases hm : groupsMutators.contains meth = true
    · simp only [hm, Bool.not_true, Bool.false_eq_true, if_false]; rfl
    · simp only [hm, Bool.not_false, if_true]
  | _ => rfl

theorem bumpOf_caches (w : World V) (op : Op) : (bumpOf w op).caches = w.caches := by
  cases op with
  | cmut cid meth =>
    simp only [bumpOf]
    cases AL.get? contourMutators meth with
    | none => rfl
    | some cell =>
      cases hostOfContour w.glyphs cid with
      | none =>
        simp only
        by_cases hl : w.looseC.any (fun c => c.id = cid) = true
        · simp only [hl, if_true]; rfl
        · simp only [hl]; rfl
      | some h => rfl
  | kmut kid meth =>
    simp only [bumpOf]
    cases AL.get? compMutators meth with
    | none => rfl
    | some cell =>
      cases hostOfComp w.glyphs kid with
      | none =>
        simp only
        by_cases hl : w.looseK.any (fun k => k.id = kid) = true
        · simp only [hl, if_true]; rfl
        · simp only [hl]; rfl
      | some h => rfl
  | gmut g meth =>
    simp only [bumpOf]
    by_cases hm : glyphMutators.contains meth = true
    · by_cases hg : AL.contains w.glyphs g = true
      · simp only [hm, hg, Bool.not_true, Bool.false_eq_true, if_false]; rfl
      · simp only [hm, hg, Bool.not_true, Bool.not_false, Bool.false_eq_true, if_false, if_true]
    · simp only [hm, Bool.not_false, if_true]
  | gset meth =>
    simp only [bumpOf]
    by_cases hm : groupsMutators.contains meth = true
    · simp only [hm, Bool.not_true, Bool.false_eq_true, if_false]; rfl
    · simp only [hm, Bool.not_false, if_true]
  | _ => rfl

theorem bumpOf_regs (w : World V) (op : Op) : (bumpOf w op).regs = w.regs := by
  cases op with
  | cmut cid meth =>
    simp only [bumpOf]
    cases AL.get? contourMutators meth with
    | none => rfl
    | some cell =>
      cases hostOfContour w.glyphs cid with
      | none =>
        simp only
        by_cases hl : w.looseC.any (fun c => c.id = cid) = true
        · simp only [hl, if_true]; rfl
        · simp only [hl]; rfl
      | some h => rfl
  | kmut kid meth =>
    simp only [bumpOf]
    cases AL.get? compMutators meth with
    | none => rfl
    | some cell =>
      cases hostOfComp w.glyphs kid with
      | none =>
        simp only
        by_cases hl : w.looseK.any (fun k => k.id = kid) = true
        · simp only [hl, if_true]; rfl
        · simp only [hl]; rfl
      | some h => rfl
  | gmut g meth =>
    simp only [bumpOf]
    by_cases hm : glyphMutators.contains meth = true
    · by_cases hg : AL.contains w.glyphs g = true
      · simp only [hm, hg, Bool.not_true, Bool.false_eq_true, if_false]; rfl
      · simp only [hm, hg, Bool.not_true, Bool.not_false, Bool.false_eq_true, if_false, if_true]
    · simp only [hm, Bool.not_false, if_true]
  | gset meth =>
    simp only [bumpOf]
    by_cases hm : groupsMutators.contains meth = true
    · simp only [hm, Bool.not_true, Bool.false_eq_true, if_false]; rfl
    · simp only [hm, Bool.not_false, if_true]
  | _ => rfl

theorem evOf_withCaches (T : Tables) (w : World V) (c : List (Obj × Cache V')) (op : Op) :
    evOf T (w.withCaches c) op = evOf T w op := by
  cases op with
  | cmut cid meth =>
    simp only [evOf, bumpOf_withCaches]
    rfl
  | kmut kid meth =>
    simp only [evOf, bumpOf_withCaches]
    rfl
  | gmut g meth =>
    simp only [evOf, bumpOf_withCaches]
    rfl
  | touch o meth => cases o <;> rfl
  | _ => rfl

/-! ### the probe world: one cached value, the view itself -/

def shiftTok (dx dy : Int) : Tok → Tok
  | .c ver ox oy => .c ver (ox + dx) (oy + dy)
  | t => t

/-- the universal factory: the value of a representation is the view it reads -/
def uniParams : Params (List Tok) :=
  { f := fun _ _ toks _ => toks, patch := fun _ v dx dy => v.map (shiftTok dx dy) }

theorem uniParams_patchOK : PatchOK uniParams := by
  intro nm _ ver ox oy dx dy; rfl

def probeWorld (T : Tables) (w : World V) (o : Obj) (nm : String) : World (List Tok) :=
  w.withCaches [(o, [(nm, [(none, viewOf T w o nm)])])]

theorem probe_cache (T : Tables) (w : World V) (o : Obj) (nm : String) (o' : Obj) (nm' : String) (sk : SubKey) :
    (cacheOf (probeWorld T w o nm) o').get? nm' sk =
      if o = o' ∧ nm = nm' ∧ sk = none then some (viewOf T w o nm) else none := by
  unfold probeWorld cacheOf World.withCaches Cache.get?
  simp only [AL.get?_cons, AL.get?_nil]
  by_cases e1 : o = o'
  · subst e1
    simp only [if_true, Option.getD_some, AL.get?_cons, AL.get?_nil, true_and]
    by_cases e2 : nm = nm'
    · subst e2
      simp only [if_true, AL.get?_cons, AL.get?_nil, true_and]
      by_cases e3 : sk = none
      · subst e3; simp
      · have : ¬ (none = sk) := fun h => e3 h.symm
        simp [e3, this]
    · simp [e2]
  · simp [e1]

theorem probe_inv (T : Tables) (w : World V) (o : Obj) (nm : String) (hr : RegsDefault T w)
    (hatt : attached w o = true) (hreg : (facsOf T w.regs o.cls).any (fun p => p.1 = nm) = true) :
    Inv uniParams T (probeWorld T w o nm) := by
  refine ⟨?_, ?_, ?_, ?_⟩
  · intro o' nm' sk v h
    rw [probe_cache] at h
    by_cases e : o = o' ∧ nm = nm' ∧ sk = none
    · obtain ⟨e1, e2, e3⟩ := e
      subst e1; subst e2; subst e3
      simp only [and_self, if_true, Option.some.injEq] at h
      rw [← h]
      unfold fresh uniParams probeWorld
      simp only
      rw [viewOf_withCaches]
    · simp [e] at h
  · intro o' ha nm' sk
    rw [probe_cache]
    by_cases e : o = o'
    · subst e
      unfold probeWorld at ha
      rw [attached_withCaches, hatt] at ha; cases ha
    · simp [e]
  · intro o' nm' sk v h
    rw [probe_cache] at h
    by_cases e : o = o' ∧ nm = nm' ∧ sk = none
    · obtain ⟨e1, e2, e3⟩ := e
      subst e1; subst e2; subst e3
      exact ⟨hreg, fun _ => rfl⟩
    · simp [e] at h
  · exact hr

/-- **dep_event.**  An inner mutator that changes the view read by the representation `nm` of the attached object `o`
delivers an event that destroys `nm` on `o`. -/
theorem dep_event (T : Tables) (hcov : Coverage T = true) (w : World V) (op : Op) (hin : op.isInner = true)
    (hd : Dom w) (hd' : Dom (bumpOf w op)) (hr : RegsDefault T w) (o : Obj) (nm : String)
    (hatt : attached w o = true) (hreg : (facsOf T w.regs o.cls).any (fun p => p.1 = nm) = true)
    (hne : viewOf T (bumpOf w op) o nm ≠ viewOf T w o nm) :
    (evOf T w op).any (fun e => hitB T w.regs e o nm) = true := by
  cases hany : (evOf T w op).any (fun e => hitB T w.regs e o nm) with
  | true => rfl
  | false =>
    exfalso
    apply hne
    have hinv := probe_inv T w o nm hr hatt hreg
    have hdp : Dom (probeWorld T w o nm) := dom_withCaches _ hd
    have hfac := step_factor uniParams T (probeWorld T w o nm) op hin
    have hb : bumpOf (probeWorld T w o nm) op = (bumpOf w op).withCaches _ := bumpOf_withCaches w _ op
    have hdb : Dom (bumpOf (probeWorld T w o nm) op) := by rw [hb]; exact dom_withCaches _ hd'
    have hd2 : Dom (step uniParams T (probeWorld T w o nm) op).1 := by
      rw [hfac]; exact Dom.congr (sameStruct_applyDeliv T _ _) hdb
    have hi2 := step_inv uniParams T hcov uniParams_patchOK _ op hinv hdp hd2
    rw [hfac] at hi2
    have hent : (cacheOf (applyDeliv T (bumpOf (probeWorld T w o nm) op) (evOf T (probeWorld T w o nm) op)) o).get? nm none
        = some (viewOf T w o nm) := by
      rw [get?_applyDeliv_eq]
      have e1 : evOf T (probeWorld T w o nm) op = evOf T w op := evOf_withCaches T w _ op
      have e2 : (bumpOf (probeWorld T w o nm) op).regs = w.regs := by rw [bumpOf_regs]; rfl
      rw [e1, e2, hany]
      simp only [Bool.false_eq_true, if_false]
      have e3 : cacheOf (bumpOf (probeWorld T w o nm) op) o = cacheOf (probeWorld T w o nm) o := by
        unfold cacheOf; rw [bumpOf_caches]
      rw [e3, probe_cache]; simp
    have := hi2.coh _ _ _ _ hent
    unfold fresh uniParams at this
    simp only at this
    rw [viewOf_congr T (sameStruct_applyDeliv T _ _), hb, viewOf_withCaches] at this
    exact this.symm

/-- … so the entries under `nm` are gone after the call -/
theorem dep_evicts (P : Params V) (T : Tables) (hcov : Coverage T = true) (w : World V) (op : Op) (hin : op.isInner = true)
    (hd : Dom w) (hd' : Dom (step P T w op).1) (hr : RegsDefault T w) (o : Obj) (nm : String)
    (hatt : attached w o = true) (hreg : (facsOf T w.regs o.cls).any (fun p => p.1 = nm) = true)
    (hne : viewOf T (step P T w op).1 o nm ≠ viewOf T w o nm) (sk : SubKey) :
    (cacheOf (step P T w op).1 o).get? nm sk = none := by
  rw [step_factor P T w op hin] at hd' hne ⊢
  have hdb : Dom (bumpOf w op) := Dom.congr (sameStruct_applyDeliv T _ _).symm hd'
  rw [viewOf_congr T (sameStruct_applyDeliv T _ _)] at hne
  have := dep_event T hcov w op hin hd hdb hr o nm hatt hreg hne
  rw [get?_applyDeliv_eq, bumpOf_regs, this]
  simp

end Repr
end DefconModel
