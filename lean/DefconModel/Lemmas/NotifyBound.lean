/-
The conservation argument of Lemmas/NotifyOnce.lean for a notification that is posted SEVERAL times:
equal pending copies coalesce, so the number of times an observer receives it is a bound - at
least once, at most as often as it was posted - and every time it receives it in full.
Property theorems live in Props/C04.lean.
-/
import DefconModel.Lemmas.NotifyOnce

namespace DefconModel
namespace Notify

theorem not_inQueue_enqueue_ne {c : Center} {hk : HKey} {e : Note} (hk' : HKey) (q : Note) (hne : q ≠ e)
    (h : ¬ inQueue c hk e) : ¬ inQueue (enqueue c hk' q) hk e := by
  intro hin
  apply h
  obtain ⟨hd, hg, hm⟩ := hin
  unfold enqueue at hg
  cases hg' : AL.get? c.holds hk' with
  | none => rw [hg'] at hg; exact ⟨hd, hg, hm⟩
  | some h' =>
    rw [hg'] at hg
    simp only at hg
    split at hg
    · exact ⟨hd, hg, hm⟩
    · by_cases e' : hk' = hk
      · subst e'
        simp only [AL.get?_set_self, Option.some.injEq] at hg
        subst hg
        simp only [List.mem_append, List.mem_singleton] at hm
        rcases hm with hm | hm
        · exact ⟨h', hg', hm⟩
        · exact absurd hm.symm hne
      · rw [AL.get?_set_ne _ _ _ _ e'] at hg
        exact ⟨hd, hg, hm⟩

section
variable (rec : Center → Op → Center × List Ev) (n : Name) (s : Obj) (d : Data) (o : Obj)

/-- `o` is held and the copy restricted to it is not in its queue yet: it gets one (whatever else is
pending for it elsewhere), if it has a registration in the loop -/
theorem loop_held_absent (t : Option Obj) (ht : t = none ∨ t = some o) (c0 : Center) (q0 : Quiet c0) (hk : HKey)
    (hheld : firstHold c0 (observerKeys n s o) = some hk) (regs : List Reg) :
    ∀ c, SameShape c0 c → ¬ inQueue c hk ⟨n, s, d, some o⟩ →
      pend (runAll (deliverOne rec n s d t) c regs).1 n s d o =
        pend c n s d o + (if ∃ r ∈ regs, r.observer = o then 1 else 0) ∧
      delTo n s d o (runAll (deliverOne rec n s d t) c regs).2 = [] := by
  induction regs with
  | nil => intro c _ _; exact ⟨by simp [runAll], rfl⟩
  | cons r rs ih =>
    intro c hsh hnin
    have qc : Quiet c := hsh.frame.quiet q0
    rw [runAll_cons]
    have hsh' := hsh.trans (deliverOne_sameShape rec n s d t qc r)
    by_cases hro : r.observer = o
    · have ht' : ¬ (t.isSome ∧ t ≠ some r.observer) := by
        rcases ht with ht | ht
        · simp [ht]
        · simp [ht, hro]
      have hstep : deliverOne rec n s d t c r = (enqueue c hk ⟨n, s, d, some o⟩, []) := by
        rw [deliverOne_quiet rec n s d t qc r, if_neg ht', hsh.firstHold, hro, hheld]
      have hcont : AL.contains c.holds hk = true := by
        rw [hsh.holdKeys]; exact firstHold_contains hheld
      have hin : inQueue (enqueue c hk ⟨n, s, d, some o⟩) hk ⟨n, s, d, some o⟩ := inQueue_enqueue_self _ hcont
      have hfor : Note.isFor n s d o ⟨n, s, d, some o⟩ = true := by simp [Note.isFor]
      have hp1 : pend (enqueue c hk ⟨n, s, d, some o⟩) n s d o = pend c n s d o + 1 := by
        rw [AL.contains_iff_get?] at hcont
        obtain ⟨hd, hg⟩ := hcont
        have hm : (⟨n, s, d, some o⟩ : Note) ∉ hd.queue := fun hm => hnin ⟨hd, hg, hm⟩
        rw [pend_enqueue_fresh n s d o hg hm, hfor]; rfl
      rw [hstep] at hsh' ⊢
      obtain ⟨h3, h4⟩ := loop_held_present rec n s d o t c0 q0 hk hheld rs _ hsh' hin
      refine ⟨?_, by simpa [delTo] using h4⟩
      simp only at h3 ⊢
      rw [h3, hp1, if_pos ⟨r, by simp, hro⟩]
    · obtain ⟨h1, h2⟩ := step_irrelevant rec n s d o n s d t qc r (Or.inl (fun h => hro h.2.2.2))
      have hnin' : ¬ inQueue (deliverOne rec n s d t c r).1 hk ⟨n, s, d, some o⟩ := by
        rw [deliverOne_quiet rec n s d t qc r]
        split
        · exact hnin
        · split
          · apply not_inQueue_enqueue_ne _ _ _ hnin
            intro e
            injection e with _ _ _ e4
            exact hro (Option.some.inj e4)
          · split <;> exact hnin
      obtain ⟨h3, h4⟩ := ih _ hsh' hnin'
      refine ⟨?_, ?_⟩
      · rw [h3, h1]
        have : (∃ r' ∈ r :: rs, r'.observer = o) ↔ ∃ r' ∈ rs, r'.observer = o := by
          constructor
          · rintro ⟨r', hr', e⟩
            simp only [List.mem_cons] at hr'
            rcases hr' with rfl | hr'
            · exact absurd e hro
            · exact ⟨r', hr', e⟩
          · rintro ⟨r', hr', e⟩; exact ⟨r', by simp [hr'], e⟩
        simp only [this]
      · simp only [delTo, List.filter_append] at h2 h4 ⊢
        rw [h2, h4]; rfl

/-- a post of `(n, s, d)` that concerns `o`, whatever is pending already: either nothing is delivered
to `o` and afterwards at least one copy is pending for it - at most one more than before - or the
pending copies are as before and `o` got all it is due -/
theorem post_relevant_gen (t : Option Obj) (ht : t = none ∨ t = some o) {c : Center} (q : Quiet c) :
    (pend c n s d o ≤ pend (post rec c n s d t).1 n s d o ∧ pend (post rec c n s d t).1 n s d o ≤ pend c n s d o + 1 ∧
      1 ≤ pend (post rec c n s d t).1 n s d o ∧ delTo n s d o (post rec c n s d t).2 = []) ∨
    (pend (post rec c n s d t).1 n s d o = pend c n s d o ∧ delTo n s d o (post rec c n s d t).2 = due c n s d o) := by
  rw [post_quiet rec q]
  have hfor : Note.isFor n s d o ⟨n, s, d, t⟩ = true := by
    rcases ht with ht | ht <;> simp [Note.isFor, ht]
  cases hs : firstHold c (senderKeys n s) with
  | some hk =>
    left
    simp only
    have hcont := firstHold_contains hs
    have hin := inQueue_enqueue_self (c := c) ⟨n, s, d, t⟩ hcont
    obtain ⟨hd', hg', hm'⟩ := hin
    have hpos := pend_pos_of_mem n s d o hg' hm' hfor
    rw [AL.contains_iff_get?] at hcont
    obtain ⟨hd, hg⟩ := hcont
    by_cases hm : (⟨n, s, d, t⟩ : Note) ∈ hd.queue
    · rw [enqueue_of_mem hg hm] at hpos ⊢
      exact ⟨Nat.le_refl _, by omega, hpos, rfl⟩
    · rw [pend_enqueue_fresh n s d o hg hm, hfor]
      exact ⟨by omega, by simp, by simp, rfl⟩
  | none =>
    simp only
    cases ho : firstHold c (observerKeys n s o) with
    | some hk =>
      by_cases hin : inQueue c hk ⟨n, s, d, some o⟩
      · obtain ⟨h1, h2⟩ := loop_held_present rec n s d o t c q hk ho (matching c n s) c (SameShape.refl c) hin
        left
        obtain ⟨hd, hg, hm⟩ := hin
        have hpos := pend_pos_of_mem n s d o hg hm (by simp [Note.isFor] : Note.isFor n s d o ⟨n, s, d, some o⟩ = true)
        rw [h1]
        exact ⟨Nat.le_refl _, by omega, hpos, h2⟩
      · obtain ⟨h1, h2⟩ := loop_held_absent rec n s d o t ht c q hk ho (matching c n s) c (SameShape.refl c) hin
        by_cases hex : ∃ r ∈ matching c n s, r.observer = o
        · left; rw [h1, if_pos hex]; exact ⟨by omega, Nat.le_refl _, by omega, h2⟩
        · right
          rw [h1, if_neg hex]
          refine ⟨rfl, ?_⟩
          rw [h2]
          unfold due
          have : (matching c n s).filter (fun r => r.observer == o && !(c.dead.contains o)) = [] := by
            rw [List.filter_eq_nil_iff]
            intro r hr
            have : r.observer ≠ o := fun e => hex ⟨r, hr, e⟩
            simp [this]
          rw [this]; rfl
    | none =>
      right
      exact loop_free rec n s d o t ht c q ho (matching c n s) c (SameShape.refl c)

/-- `j` full rounds of deliveries -/
def batches (c0 : Center) (j : Nat) : List Ev := (List.replicate j (due c0 n s d o)).flatten

theorem batches_succ (c0 : Center) (j : Nat) :
    batches n s d o c0 (j + 1) = batches n s d o c0 j ++ due c0 n s d o := by
  unfold batches
  rw [List.replicate_succ', List.flatten_append]
  simp

/-- Where `(n, s, d)` stands for `o` after `k` posts of it: `o` has received `j` full rounds, and
rounds received plus copies pending are at most `k`, and at least one as soon as `k` is. -/
def Gd (c0 : Center) (k : Nat) (c : Center) (rest : List Note) (evs : List Ev) : Prop :=
  ∃ j, delTo n s d o evs = batches n s d o c0 j ∧
    j + pend c n s d o + cntL n s d o rest ≤ k ∧ (1 ≤ k → 1 ≤ j + pend c n s d o + cntL n s d o rest)

theorem Gd_irrelevant {c0 : Center} {k : Nat} {c c' : Center} {q : Note} {rest : List Note} {evs new : List Ev}
    (hq : Note.isFor n s d o q = false) (hp : pend c' n s d o = pend c n s d o)
    (hnew : delTo n s d o new = []) (h : Gd n s d o c0 k c (q :: rest) evs) :
    Gd n s d o c0 k c' rest (evs ++ new) := by
  obtain ⟨j, h1, h2, h3⟩ := h
  simp only [cntL_cons, hq, Bool.false_eq_true, if_false, Nat.zero_add] at h2 h3
  exact ⟨j, by rw [delTo_append, hnew, List.append_nil, h1], by rw [hp]; exact h2, by rw [hp]; exact h3⟩

theorem Gd_same {c0 : Center} {k : Nat} {c c' : Center} {evs new : List Ev}
    (hp : pend c' n s d o = pend c n s d o) (hnew : delTo n s d o new = [])
    (h : Gd n s d o c0 k c [] evs) : Gd n s d o c0 k c' [] (evs ++ new) := by
  obtain ⟨j, h1, h2, h3⟩ := h
  exact ⟨j, by rw [delTo_append, hnew, List.append_nil, h1], by rw [hp]; exact h2, by rw [hp]; exact h3⟩

theorem repost_Gd (c0 : Center) (q0 : Quiet c0) (hsl : s ∉ c0.dead) (k : Nat) (c : Center) (hf : Frame c0 c)
    (q : Note) (rest : List Note) (evs : List Ev) (h : Gd n s d o c0 k c (q :: rest) evs) :
    Frame c0 (repost rec c q).1 ∧ Gd n s d o c0 k (repost rec c q).1 rest (evs ++ (repost rec c q).2) := by
  have qc : Quiet c := hf.quiet q0
  unfold repost
  by_cases hdead : q.sender ∈ c.dead
  · rw [if_pos hdead]
    refine ⟨hf, ?_⟩
    have hq : Note.isFor n s d o q = false := by
      cases hh : Note.isFor n s d o q with
      | false => rfl
      | true =>
        rw [isFor_iff] at hh
        rw [hh.2.1, hf.dead] at hdead
        exact absurd hdead hsl
    exact Gd_irrelevant n s d o hq rfl rfl h
  · rw [if_neg hdead]
    refine ⟨hf.trans (post_sameShape rec qc _ _ _ _).frame, ?_⟩
    cases hq : Note.isFor n s d o q with
    | false =>
      have hcond : ¬ (q.name = n ∧ q.sender = s ∧ q.data = d) ∨ (q.target.isSome ∧ q.target ≠ some o) := by
        by_cases h3 : q.name = n ∧ q.sender = s ∧ q.data = d
        · right
          have : ¬ (q.target = none ∨ q.target = some o) := by
            intro ht
            have : Note.isFor n s d o q = true := (isFor_iff n s d o q).mpr ⟨h3.1, h3.2.1, h3.2.2, ht⟩
            rw [hq] at this; exact absurd this (by simp)
          cases hqt : q.target with
          | none => exact absurd (Or.inl hqt) this
          | some x => exact ⟨by simp, fun e => this (Or.inr (hqt.trans e))⟩
        · left; exact h3
      obtain ⟨h1, h2⟩ := post_irrelevant rec n s d o q.name q.sender q.data q.target qc hcond
      exact Gd_irrelevant n s d o hq h1 h2 h
    | true =>
      obtain ⟨e1, e2, e3, ht⟩ := (isFor_iff n s d o q).mp hq
      rw [e1, e2, e3]
      obtain ⟨j, h1, h2, h3⟩ := h
      simp only [cntL_cons, hq, if_true] at h2 h3
      rcases post_relevant_gen rec n s d o q.target ht qc with ⟨p1, p2, p3, p4⟩ | ⟨p1, p2⟩
      · exact ⟨j, by rw [delTo_append, p4, List.append_nil, h1], by omega, fun _ => by omega⟩
      · refine ⟨j + 1, ?_, by omega, fun _ => by omega⟩
        rw [delTo_append, p2, h1, batches_succ, hf.due]

theorem repost_loop_Gd (c0 : Center) (q0 : Quiet c0) (hsl : s ∉ c0.dead) (k : Nat) (rest : List Note) :
    ∀ (c : Center) (evs : List Ev), Frame c0 c → Gd n s d o c0 k c rest evs →
      Frame c0 (runAll (repost rec) c rest).1 ∧
      Gd n s d o c0 k (runAll (repost rec) c rest).1 [] (evs ++ (runAll (repost rec) c rest).2) := by
  induction rest with
  | nil => intro c evs hf h; simpa [runAll] using ⟨hf, h⟩
  | cons q rest ih =>
    intro c evs hf h
    rw [runAll_cons]
    obtain ⟨hf1, h1⟩ := repost_Gd rec n s d o c0 q0 hsl k c hf q rest evs h
    obtain ⟨hf2, h2⟩ := ih _ _ hf1 h1
    refine ⟨hf2, ?_⟩
    simpa [List.append_assoc] using h2

theorem release_Gd (c0 : Center) (q0 : Quiet c0) (hsl : s ∉ c0.dead) (k : Nat) (c : Center) (hk : HKey)
    (evs : List Ev) (hf : Frame c0 c) (h : Gd n s d o c0 k c [] evs) :
    Frame c0 (release rec c hk).1 ∧ Gd n s d o c0 k (release rec c hk).1 [] (evs ++ (release rec c hk).2) := by
  cases hg : AL.get? c.holds hk with
  | none =>
    have : release rec c hk = (c, [.ret (.err .keyError)]) := by unfold release; simp [hg]
    rw [this]
    exact ⟨hf, Gd_same n s d o rfl rfl h⟩
  | some hd =>
    by_cases hc : hd.count - 1 = 0
    · rw [release_last_eq rec hg hc]
      have hf1 : Frame c0 { c with holds := AL.erase c.holds hk } := ⟨hf.registry, hf.disabled, hf.dead, hf.scripts⟩
      have hp : pend { c with holds := AL.erase c.holds hk } n s d o + cntL n s d o hd.queue = pend c n s d o := by
        rw [pend_eq, pend_eq]
        exact wsum_erase (fun h => cntL n s d o h.queue) c.holds hk hd hg
      have h1 : Gd n s d o c0 k { c with holds := AL.erase c.holds hk } hd.queue evs := by
        obtain ⟨j, g1, g2, g3⟩ := h
        have hz : cntL n s d o [] = 0 := rfl
        rw [hz] at g2 g3
        exact ⟨j, g1, by omega, fun hk1 => by have := g3 hk1; omega⟩
      obtain ⟨hf2, h2⟩ := repost_loop_Gd rec n s d o c0 q0 hsl k hd.queue _ evs hf1 h1
      refine ⟨hf2, ?_⟩
      have := Gd_same n s d o (c' := (runAll (repost rec) { c with holds := AL.erase c.holds hk } hd.queue).1)
        (new := [.ret .ok]) rfl rfl h2
      simpa [List.append_assoc] using this
    · rw [release_nested_eq rec hg hc]
      refine ⟨⟨hf.registry, hf.disabled, hf.dead, hf.scripts⟩, ?_⟩
      apply Gd_same n s d o _ rfl h
      rw [pend_eq, pend_eq]
      have := wsum_set_some (fun h => cntL n s d o h.queue) c.holds hk hd { hd with count := hd.count - 1 } hg
      simp only at this ⊢
      omega

theorem exec_Gd (fuel : Nat) (c0 : Center) (q0 : Quiet c0) (hsl : s ∉ c0.dead) (k : Nat) (op : Op)
    (hop : isHoldOrPost op = true) (c : Center) (evs : List Ev)
    (hf : Frame c0 c) (h : Gd n s d o c0 k c [] evs) :
    Frame c0 (exec (fuel + 1) c op).1 ∧
    Gd n s d o c0 (k + postsOf n s d [op]) (exec (fuel + 1) c op).1 [] (evs ++ (exec (fuel + 1) c op).2) := by
  have qc : Quiet c := hf.quiet q0
  cases op with
  | post n' s' d' t =>
    cases t with
    | some x => simp [isHoldOrPost] at hop
    | none =>
      have hex : exec (fuel + 1) c (.post n' s' d' none) =
          ((post (exec fuel) c n' s' d' none).1, (post (exec fuel) c n' s' d' none).2 ++ [.ret .ok]) := rfl
      rw [hex]
      refine ⟨hf.trans (post_sameShape (exec fuel) qc _ _ _ _).frame, ?_⟩
      by_cases hne : n' = n ∧ s' = s ∧ d' = d
      · obtain ⟨e1, e2, e3⟩ := hne
        subst e1; subst e2; subst e3
        have hk1 : postsOf n' s' d' [Op.post n' s' d' none] = 1 := by simp [postsOf]
        rw [hk1]
        obtain ⟨j, g1, g2, g3⟩ := h
        have hz : cntL n' s' d' o [] = 0 := rfl
        rw [hz] at g2 g3
        unfold Gd
        rw [hz]
        dsimp only
        rcases post_relevant_gen (exec fuel) n' s' d' o none (Or.inl rfl) qc with ⟨p1, p2, p3, p4⟩ | ⟨p1, p2⟩
        · refine ⟨j, ?_, by omega, fun _ => by omega⟩
          rw [delTo_append, delTo_append, p4, g1, delTo_ret]; simp
        · refine ⟨j + 1, ?_, by omega, fun _ => by omega⟩
          rw [delTo_append, delTo_append, p2, g1, batches_succ, hf.due, delTo_ret]; simp
      · have hk0 : postsOf n s d [Op.post n' s' d' none] = 0 := by simp [postsOf, hne]
        rw [hk0]
        obtain ⟨h1, h2⟩ := post_irrelevant (exec fuel) n s d o n' s' d' none qc (Or.inl hne)
        apply Gd_same n s d o h1 _ h
        rw [delTo_append, h2]; rfl
  | hold n' s' o' note =>
    have hex : exec (fuel + 1) c (.hold n' s' o' note) = (hold c (n', s', o') note, [.ret .ok]) := rfl
    rw [hex]
    exact ⟨⟨hf.registry, hf.disabled, hf.dead, hf.scripts⟩, Gd_same n s d o (pend_hold n s d o c _ note) rfl h⟩
  | release n' s' o' =>
    have hex : exec (fuel + 1) c (.release n' s' o') = release (exec fuel) c (n', s', o') := rfl
    rw [hex]
    exact release_Gd (exec fuel) n s d o c0 q0 hsl k c _ evs hf h
  | add _ _ _ _ _ => simp [isHoldOrPost] at hop
  | remove _ _ _ => simp [isHoldOrPost] at hop
  | removeAll _ _ => simp [isHoldOrPost] at hop
  | has _ _ _ => simp [isHoldOrPost] at hop
  | find _ _ _ _ => simp [isHoldOrPost] at hop
  | disable _ _ _ => simp [isHoldOrPost] at hop
  | enable _ _ _ => simp [isHoldOrPost] at hop
  | areHeld _ _ _ => simp [isHoldOrPost] at hop
  | areDisabled _ _ _ => simp [isHoldOrPost] at hop
  | heldKeys => simp [isHoldOrPost] at hop
  | heldNotes _ _ _ => simp [isHoldOrPost] at hop
  | kill _ => simp [isHoldOrPost] at hop
  | script _ _ _ => simp [isHoldOrPost] at hop

theorem run_Gd (fuel : Nat) (c0 : Center) (q0 : Quiet c0) (hsl : s ∉ c0.dead) (ops : List Op) :
    ∀ (k : Nat) (c : Center) (evs : List Ev), (∀ op ∈ ops, isHoldOrPost op = true) →
      Frame c0 c → Gd n s d o c0 k c [] evs →
      Frame c0 (run (fuel + 1) c ops).1 ∧
      Gd n s d o c0 (k + postsOf n s d ops) (run (fuel + 1) c ops).1 [] (evs ++ (run (fuel + 1) c ops).2) := by
  induction ops with
  | nil => intro k c evs _ hf h; simpa [run, runAll, postsOf] using ⟨hf, h⟩
  | cons op ops ih =>
    intro k c evs hops hf h
    have hrun : run (fuel + 1) c (op :: ops) =
        ((run (fuel + 1) (exec (fuel + 1) c op).1 ops).1,
         (exec (fuel + 1) c op).2 ++ (run (fuel + 1) (exec (fuel + 1) c op).1 ops).2) := by
      unfold run; rw [runAll_cons]
    rw [hrun, postsOf_cons]
    obtain ⟨hf1, h1⟩ := exec_Gd n s d o fuel c0 q0 hsl k op (hops op (by simp)) c evs hf h
    obtain ⟨hf2, h2⟩ := ih _ _ _ (fun op' h' => hops op' (by simp [h'])) hf1 h1
    exact ⟨hf2, by simpa [List.append_assoc, Nat.add_assoc] using h2⟩

end

end Notify
end DefconModel
