/-
Helper lemmas for C18 (round 3): failures of an in-place save (environment or content), the edits between two
saves, and the retry.
-/
import DefconModel.Lemmas.SaveStepsSync

namespace DefconModel
namespace SaveSteps

/-! ### which prefixes of an in-place save leave the relation in place -/

/-- the steps that ran before the failure were all early-safe, or the listing was written -/
def SafePrefix (u : Ufo) (l : List Step) : Prop := (∀ s ∈ l, earlySafe u s = true) ∨ Step.writeContents ∈ l

theorem take_of_mem_split {α} (A C : List α) (x : α) (hx : x ∉ A) (k : Nat) (h : x ∈ (A ++ x :: C).take k) :
    (A ++ x :: C).take k = A ++ x :: C.take (k - A.length - 1) := by
  by_cases hk : k ≤ A.length
  · rw [List.take_append_of_le_length hk] at h
    exact absurd (List.mem_of_mem_take h) hx
  · rw [List.take_append, List.take_of_length_le (by omega)]
    obtain ⟨j, hj⟩ : ∃ j, k - A.length = j + 1 := ⟨k - A.length - 1, by omega⟩
    rw [hj, List.take_succ_cons]
    simp

/-- everything an in-place save does before it writes the listing -/
def beforeContents (f : Font) : List Step :=
  (dirtyComps f).map Step.writeComp ++ ([Step.openGlyphSet] ++ (dirtyKeys f).map Step.writeGlyph ++
    f.scheduled.map Step.deleteGlyph)

theorem plan_inPlace_contents (f : Font) :
    plan f .inPlace = beforeContents f ++ Step.writeContents :: [Step.writeLayerInfo] := by
  rw [plan_inPlace_split]
  simp [beforeContents, glyphPhaseCore]

theorem contents_not_before (f : Font) : Step.writeContents ∉ beforeContents f := by
  simp [beforeContents]

theorem run_to_contents (w : World) :
    runSteps .inPlace w (beforeContents w.font ++ [Step.writeContents]) =
      runSteps .inPlace (runSteps .inPlace w ((dirtyComps w.font).map Step.writeComp)) (glyphPhaseCore w.font) := by
  rw [← runSteps_append]
  congr 1
  simp [beforeContents, glyphPhaseCore]

theorem sync_to_contents {w : World} (h : Sync w) :
    Sync (runSteps .inPlace w (beforeContents w.font ++ [Step.writeContents])) := by
  rw [run_to_contents]
  have h1 := sync_run_comps h (dirtyComps w.font)
  have f1 := (runSteps_writeComps w (dirtyComps w.font)).1
  have hcore : glyphPhaseCore (runSteps .inPlace w ((dirtyComps w.font).map Step.writeComp)).font = glyphPhaseCore w.font := by
    rw [f1]; rfl
  have := (core_phase_sync h1).1
  rw [hcore] at this
  exact this

theorem failAt_inPlace (w : World) (k : Nat) :
    failAt .inPlace w k = cleanup (runSteps .inPlace w ((plan w.font .inPlace).take k)) := by
  unfold failAt; rw [recover_inPlace]

/-- **a failure of an in-place save after a safe prefix leaves the relation in place**: whatever ran before the failing
step were writes of components and of glyphs that `contents.plist` already lists — or the listing itself was written -/
theorem sync_failAt {w : World} (h : Sync w) (k : Nat) (hp : SafePrefix (own w) ((plan w.font .inPlace).take k)) :
    Sync (failAt .inPlace w k) := by
  rw [failAt_inPlace, sync_cleanup]
  rcases hp with hp | hp
  · exact (sync_run_early _ w h hp).1
  · rw [plan_inPlace_contents] at hp ⊢
    rw [take_of_mem_split _ _ _ (contents_not_before w.font) k hp]
    have hc := sync_to_contents h
    cases hj : k - (beforeContents w.font).length - 1 with
    | zero => simpa using hc
    | succ j =>
      have : beforeContents w.font ++ Step.writeContents :: List.take (j + 1) [Step.writeLayerInfo] =
          (beforeContents w.font ++ [Step.writeContents]) ++ [Step.writeLayerInfo] := by simp
      rw [this, runSteps_append]
      exact sync_exec_writeLayerInfo hc

/-! ### content faults -/

theorem faultAt_append (m : Mode) (a b : List Step) : ∀ (w : World),
    faultAt m w (a ++ b) = match faultAt m w a with
      | some k => some k
      | none => (faultAt m (runSteps m w a) b).map (· + a.length) := by
  induction a with
  | nil => intro w; simp [faultAt, runSteps]
  | cons s rest ih =>
    intro w
    simp only [List.cons_append, faultAt]
    by_cases hf : stepFails m w s = true
    · simp [hf]
    · simp only [hf, Bool.false_eq_true, if_false, ih, runSteps_cons]
      cases faultAt m (exec m w s) rest with
      | some k => simp
      | none => simp [Option.map_map, Function.comp_def, Nat.add_assoc]

theorem faultAt_lt (m : Mode) (l : List Step) : ∀ (w : World) (k : Nat), faultAt m w l = some k → k < l.length := by
  induction l with
  | nil => intro w k h; simp [faultAt] at h
  | cons s rest ih =>
    intro w k h
    simp only [faultAt] at h
    by_cases hf : stepFails m w s = true
    · simp [hf] at h; subst h; simp
    · simp only [hf, Bool.false_eq_true, if_false] at h
      cases hr : faultAt m (exec m w s) rest with
      | none => simp [hr] at h
      | some j =>
        simp [hr] at h; subst h
        have := ih _ _ hr
        simp; omega

/-- the content-fault tables of a font are not touched by the steps of a save -/
theorem exec_bad (m : Mode) (w : World) (s : Step) :
    (exec m w s).font.badComps = w.font.badComps ∧ (exec m w s).font.badGlyphs = w.font.badGlyphs ∧
    (exec m w s).font.badLayerInfo = w.font.badLayerInfo := by
  cases s <;> simp only [exec] <;> try (cases target m <;> simp [putTarget])
  · cases w.temp <;> simp

theorem faulty_congr (f f' : Font) (h1 : f'.badComps = f.badComps) (h2 : f'.badGlyphs = f.badGlyphs)
    (h3 : f'.badLayerInfo = f.badLayerInfo) (s : Step) : faulty f' s = faulty f s := by
  cases s <;> simp [faulty, h1, h2, h3]

/-- steps that are not the opening of the glyph set and whose content is fine do not raise -/
theorem faultAt_none (m : Mode) (l : List Step) : ∀ (w : World), (∀ s ∈ l, s ≠ .openGlyphSet ∧ faulty w.font s = false) →
    faultAt m w l = none := by
  induction l with
  | nil => intro w _; rfl
  | cons s rest ih =>
    intro w h
    obtain ⟨h1, h2⟩ := h s (by simp)
    have hsf : stepFails m w s = false := by
      cases s <;> first | exact absurd rfl h1 | exact h2
    simp only [faultAt, hsf, Bool.false_eq_true, if_false]
    obtain ⟨a, b, c⟩ := exec_bad m w s
    rw [ih (exec m w s) (fun s' hs' => ⟨(h s' (by simp [hs'])).1, by
      rw [faulty_congr _ _ a b c]; exact (h s' (by simp [hs'])).2⟩)]
    rfl

theorem faulty_noBad {f : Font} (h : NoBad f) (s : Step) : faulty f s = false := by
  obtain ⟨a, b, c⟩ := h
  cases s <;> simp [faulty, a, b, c]

theorem not_stale_of_sync {u : Ufo} {f : Font} (h : SyncUF u f) : stale u = false := by
  unfold stale
  rw [List.any_eq_false]
  intro g hg
  have := h.files g hg
  unfold fileOf at this
  simp only [Option.isSome_map, List.find?_isSome, decide_eq_true_eq] at this
  obtain ⟨x, hx, hxg⟩ := this
  have : u.files.any (fun x => decide (x.1 = g)) = true := List.any_eq_true.mpr ⟨x, hx, by simpa using hxg⟩
  simp [this]

theorem runSteps_bad (m : Mode) (l : List Step) : ∀ (w : World),
    (runSteps m w l).font.badComps = w.font.badComps ∧ (runSteps m w l).font.badGlyphs = w.font.badGlyphs ∧
    (runSteps m w l).font.badLayerInfo = w.font.badLayerInfo := by
  induction l with
  | nil => intro w; exact ⟨rfl, rfl, rfl⟩
  | cons s rest ih =>
    intro w
    obtain ⟨a, b, c⟩ := exec_bad m w s
    obtain ⟨a', b', c'⟩ := ih (exec m w s)
    rw [runSteps_cons]
    exact ⟨a'.trans a, b'.trans b, c'.trans c⟩

/-- after everything was corrected, an in-place save of a font in `Sync` runs through -/
theorem faultAt_none_of_sync {w : World} (h : Sync w) (hb : NoBad w.font) :
    faultAt .inPlace w (plan w.font .inPlace) = none := by
  have hsplit : plan w.font .inPlace = (dirtyComps w.font).map Step.writeComp ++ (Step.openGlyphSet ::
      ((dirtyKeys w.font).map Step.writeGlyph ++ w.font.scheduled.map Step.deleteGlyph ++
        [Step.writeContents, Step.writeLayerInfo])) := by
    rw [plan_inPlace_split]; simp [glyphPhaseCore]
  rw [hsplit, faultAt_append]
  have h0 : faultAt .inPlace w ((dirtyComps w.font).map Step.writeComp) = none := by
    apply faultAt_none
    intro s hs
    obtain ⟨i, _, rfl⟩ := List.mem_map.mp hs
    exact ⟨by simp, faulty_noBad hb _⟩
  rw [h0]
  simp only
  have h1 := sync_run_comps h (dirtyComps w.font)
  obtain ⟨a, b, c⟩ := runSteps_bad .inPlace ((dirtyComps w.font).map Step.writeComp) w
  generalize runSteps .inPlace w ((dirtyComps w.font).map Step.writeComp) = w1 at h1 a b c
  have hb1 : NoBad w1.font := by
    obtain ⟨x, y, z⟩ := hb
    exact ⟨a.trans x, b.trans y, c.trans z⟩
  have hopen : stepFails .inPlace w1 .openGlyphSet = false := not_stale_of_sync h1
  simp only [faultAt, hopen, Bool.false_eq_true, if_false]
  rw [faultAt_none]
  · rfl
  · intro s hs
    have hb2 : NoBad (exec .inPlace w1 .openGlyphSet).font := hb1
    refine ⟨?_, faulty_noBad hb2 s⟩
    simp only [List.mem_append, List.mem_map, List.mem_cons, List.not_mem_nil, or_false] at hs
    rcases hs with (⟨g, _, rfl⟩ | ⟨g, _, rfl⟩) | rfl | rfl <;> simp

/-- where a content fault can hit an in-place save of a font in `Sync`: at a component or a glyph — then only early
steps ran before it — or at the layer info — then the listing was written -/
theorem safePrefix_of_fault {w : World} (k : Nat)
    (hf : faultAt .inPlace w (plan w.font .inPlace) = some k)
    (hl : ∀ g, Step.writeGlyph g ∈ (plan w.font .inPlace).take k → g ∈ (own w).listing) :
    SafePrefix (own w) ((plan w.font .inPlace).take k) := by
  have hsplit : plan w.font .inPlace =
      ((dirtyComps w.font).map Step.writeComp ++ (Step.openGlyphSet :: (dirtyKeys w.font).map Step.writeGlyph)) ++
      (w.font.scheduled.map Step.deleteGlyph ++ [Step.writeContents, Step.writeLayerInfo]) := by
    rw [plan_inPlace_split]; simp [glyphPhaseCore]
  generalize hE : (dirtyComps w.font).map Step.writeComp ++ (Step.openGlyphSet :: (dirtyKeys w.font).map Step.writeGlyph) = E at hsplit
  rw [hsplit] at hf hl ⊢
  rw [faultAt_append] at hf
  cases hfe : faultAt .inPlace w E with
  | some k' =>
    simp only [hfe, Option.some.injEq] at hf
    subst hf
    have hlt := faultAt_lt _ _ _ _ hfe
    rw [List.take_append_of_le_length (Nat.le_of_lt hlt)] at hl ⊢
    left
    intro s hs
    have hsE : s ∈ E := List.mem_of_mem_take hs
    rw [← hE] at hsE
    simp only [List.mem_append, List.mem_map, List.mem_cons] at hsE
    rcases hsE with ⟨i, _, rfl⟩ | rfl | ⟨g, _, rfl⟩
    · rfl
    · rfl
    · simpa [earlySafe] using hl g hs
  | none =>
    right
    simp only [hfe] at hf
    rw [faultAt_append, faultAt_none .inPlace (w.font.scheduled.map Step.deleteGlyph)] at hf
    · simp only [faultAt] at hf
      have hc : ∀ w', stepFails .inPlace w' .writeContents = false := fun _ => rfl
      simp only [hc, Bool.false_eq_true, if_false] at hf
      by_cases hli : stepFails .inPlace (exec .inPlace (runSteps .inPlace (runSteps .inPlace w E)
          (w.font.scheduled.map Step.deleteGlyph)) .writeContents) .writeLayerInfo = true
      · simp only [hli, if_true, Option.map_some, Option.some.injEq] at hf
        have hk : k = (E ++ w.font.scheduled.map Step.deleteGlyph ++ [Step.writeContents]).length := by
          simp at hf ⊢; omega
        have : E ++ (w.font.scheduled.map Step.deleteGlyph ++ [Step.writeContents, Step.writeLayerInfo]) =
            (E ++ w.font.scheduled.map Step.deleteGlyph ++ [Step.writeContents]) ++ [Step.writeLayerInfo] := by simp
        rw [this, hk, List.take_left']
        · simp
        · rfl
      · simp [hli] at hf
    · intro s hs
      obtain ⟨g, _, rfl⟩ := List.mem_map.mp hs
      exact ⟨by simp, rfl⟩

/-! ### the edits between two saves -/

theorem own_edit (w : World) (e : Edit) : own (edit w e) = own w := by
  cases e <;> rfl

theorem syncUF_setGlyph {u : Ufo} {f : Font} (h : SyncUF u f) (g b : Nat) (bg : List Nat) :
    SyncUF u { f with glyphs := (g, b) :: f.glyphs.filter (fun x => x.1 ≠ g), glyphDirty := g :: f.glyphDirty,
                      scheduled := f.scheduled.filter (· ≠ g), badGlyphs := bg, dirty := true } where
  compsLen := h.compsLen
  flagsLen := h.flagsLen
  comps := h.comps
  clean := by
    intro g' b' hm hd
    have hne : g' ≠ g := fun e => hd (by simp [e])
    rw [memGlyph_set f _ g b g' rfl, if_neg hne] at hm
    exact h.clean g' b' hm (fun hmem => hd (by simp [hmem]))
  listed := by
    intro g' hg'
    rw [memGlyph_set f _ g b g' rfl]
    by_cases hne : g' = g
    · simp [hne]
    · rw [if_neg hne]
      rcases h.listed g' hg' with a | a
      · exact Or.inl a
      · exact Or.inr (by simp [List.mem_filter, a, hne])
  sched := by
    intro g' hg'
    simp only [List.mem_filter, decide_eq_true_eq] at hg'
    rw [memGlyph_set f _ g b g' rfl, if_neg hg'.2]
    exact h.sched g' hg'.1
  files := h.files

theorem syncUF_delGlyph {u : Ufo} {f : Font} (h : SyncUF u f) (g : Nat) :
    SyncUF u { f with glyphs := f.glyphs.filter (fun x => x.1 ≠ g), glyphDirty := f.glyphDirty.filter (· ≠ g),
                      scheduled := if decide (g ∈ u.listing) then g :: f.scheduled else f.scheduled,
                      badGlyphs := f.badGlyphs.filter (· ≠ g), dirty := true } where
  compsLen := h.compsLen
  flagsLen := h.flagsLen
  comps := h.comps
  clean := by
    intro g' b' hm hd
    rw [memGlyph_del f _ g g' rfl] at hm
    by_cases hne : g' = g
    · simp [hne] at hm
    · rw [if_neg hne] at hm
      exact h.clean g' b' hm (fun hmem => hd (by simp [List.mem_filter, hmem, hne]))
  listed := by
    intro g' hg'
    rw [memGlyph_del f _ g g' rfl]
    by_cases hne : g' = g
    · subst hne; right; simp [hg']
    · rw [if_neg hne]
      rcases h.listed g' hg' with a | a
      · exact Or.inl a
      · right; by_cases hin : g ∈ u.listing <;> simp [hin, a]
  sched := by
    intro g' hg'
    rw [memGlyph_del f _ g g' rfl]
    by_cases hne : g' = g
    · simp [hne]
    · rw [if_neg hne]
      apply h.sched
      by_cases hin : g ∈ u.listing
      · simpa [hin, hne] using hg'
      · simpa [hin] using hg'
  files := h.files

theorem syncUF_setComp {u : Ufo} {f : Font} (h : SyncUF u f) (i v : Nat) (bc : List Nat) :
    SyncUF u { f with comps := setAt f.comps i v, compDirty := setAt f.compDirty i true,
                      badComps := bc, dirty := true } where
  compsLen := by simpa [length_setAt] using h.compsLen
  flagsLen := by simpa [length_setAt] using h.flagsLen
  comps := by
    intro j hj hd
    simp only [length_setAt] at hj
    by_cases hji : j = i
    · subst hji
      have : (setAt f.compDirty j true).getD j false = true :=
        getD_setAt_self _ _ _ _ (by rw [h.flagsLen]; exact hj)
      simp only at hd
      rw [this] at hd; cases hd
    · simp only [getD_setAt_ne _ _ _ _ _ hji] at hd ⊢
      exact h.comps j hj hd
  clean := h.clean
  listed := h.listed
  sched := h.sched
  files := h.files

/-- **every edit keeps the relation** -/
theorem sync_edit {w : World} (h : Sync w) (e : Edit) : Sync (edit w e) := by
  unfold Sync
  rw [own_edit]
  cases e with
  | setGlyph g b => exact syncUF_setGlyph h g b _
  | delGlyph g => exact syncUF_delGlyph h g
  | setComp i v => exact syncUF_setComp h i v _
  | setLayerInfo v => exact ⟨h.compsLen, h.flagsLen, h.comps, h.clean, h.listed, h.sched, h.files⟩
  | spoilGlyph g b => exact syncUF_setGlyph h g b _
  | spoilComp i v => exact syncUF_setComp h i v _
  | spoilLayerInfo v => exact ⟨h.compsLen, h.flagsLen, h.comps, h.clean, h.listed, h.sched, h.files⟩

theorem sync_edits (es : List Edit) : ∀ {w : World}, Sync w → Sync (edits w es) := by
  induction es with
  | nil => intro w h; exact h
  | cons e rest ih => intro w h; exact ih (sync_edit h e)

/-- every failed save of the history failed after a safe prefix (Lemma-side: `SafePrefix` lives here) -/
def Harmless : World → List Event → Prop
  | _, [] => True
  | w, .edit e :: r => Harmless (edit w e) r
  | w, .failedSave k :: r => SafePrefix (own w) ((plan w.font .inPlace).take k) ∧ Harmless (failAt .inPlace w k) r

theorem sync_events (evs : List Event) : ∀ {w : World}, Sync w → Harmless w evs → Sync (events w evs) := by
  induction evs with
  | nil => intro w h _; exact h
  | cons ev rest ih =>
    intro w h hh
    cases ev with
    | edit e => exact ih (sync_edit h e) hh
    | failedSave k => exact ih (sync_failAt h k hh.1) hh.2

/-! ### a failure before the deletions -/

/-- a step other than a deletion and the listing leaves the pending deletions recorded, the listing on disk as it was,
and removes no glif file -/
theorem keeps_exec (w : World) (s : Step) (hk : keepsFiles s = true) :
    (exec .inPlace w s).font.scheduled = w.font.scheduled ∧ (own (exec .inPlace w s)).listing = (own w).listing ∧
    (∀ g, (fileOf (own w) g).isSome = true → (fileOf (own (exec .inPlace w s)) g).isSome = true) := by
  cases s with
  | writeComp i =>
    refine ⟨by rw [(exec_writeComp_inPlace w i).1], by rw [own_writeComp], ?_⟩
    intro g hg; rw [own_writeComp]; exact hg
  | openGlyphSet => exact ⟨rfl, rfl, fun _ h => h⟩
  | writeGlyph g =>
    refine ⟨by rw [font_writeGlyph], by rw [own_writeGlyph], ?_⟩
    intro g' hg'
    rw [own_writeGlyph, fileOf_write]
    by_cases h : g' = g <;> simp [h, hg']
  | writeLayerInfo =>
    refine ⟨by rw [font_writeLayerInfo], by rw [own_writeLayerInfo], ?_⟩
    intro g hg; rw [own_writeLayerInfo]; exact hg
  | mkTemp => simp [keepsFiles] at hk
  | deleteGlyph g => simp [keepsFiles] at hk
  | writeContents => simp [keepsFiles] at hk
  | moveAside p => simp [keepsFiles] at hk
  | moveTemp p => simp [keepsFiles] at hk
  | dropAside => simp [keepsFiles] at hk

theorem keeps_run (l : List Step) : ∀ (w : World), (∀ s ∈ l, keepsFiles s = true) →
    (runSteps .inPlace w l).font.scheduled = w.font.scheduled ∧ (own (runSteps .inPlace w l)).listing = (own w).listing ∧
    (∀ g, (fileOf (own w) g).isSome = true → (fileOf (own (runSteps .inPlace w l)) g).isSome = true) := by
  induction l with
  | nil => intro w _; exact ⟨rfl, rfl, fun _ h => h⟩
  | cons s rest ih =>
    intro w h
    obtain ⟨a, b, c⟩ := keeps_exec w s (h s (by simp))
    obtain ⟨a', b', c'⟩ := ih (exec .inPlace w s) (fun s' hs' => h s' (by simp [hs']))
    rw [runSteps_cons]
    exact ⟨a'.trans a, b'.trans b, fun g hg => c' g (c g hg)⟩

/-! ### content faults never hit the final replace -/

theorem faultAt_over_lt (w : World) (p k : Nat) (pre : List Step)
    (hplan : plan w.font (.saveAsOver p) = pre ++ [.moveAside p, .moveTemp p, .dropAside])
    (hf : faultAt (.saveAsOver p) w (plan w.font (.saveAsOver p)) = some k) : k < pre.length := by
  rw [hplan, faultAt_append] at hf
  cases hfe : faultAt (.saveAsOver p) w pre with
  | some k' =>
    simp only [hfe, Option.some.injEq] at hf
    subst hf
    exact faultAt_lt _ _ _ _ hfe
  | none =>
    simp only [hfe] at hf
    rw [faultAt_none] at hf
    · simp at hf
    · intro s hs
      simp only [List.mem_cons, List.not_mem_nil, or_false] at hs
      rcases hs with rfl | rfl | rfl <;> exact ⟨by simp, rfl⟩

end SaveSteps
end DefconModel
