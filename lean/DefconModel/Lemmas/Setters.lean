/-
Helper lemmas for C08 (M-Setters): the interpreter over lists, the invariant "every delivered or queued
notification comes from a post statement" and the soundness of the two syntactic criteria of
`Spec/Setters.lean`.
-/
import DefconModel.Spec.Setters

namespace DefconModel
namespace Setters

/-! ### The interpreter over lists -/

theorem runAtoms_nil (env : Env) (st : St) : runAtoms env st [] = st := rfl

theorem runAtoms_cons (env : Env) (st : St) (a : Atom) (as : List Atom) :
    runAtoms env st (a :: as) = runAtoms env (stepA env st a) as := rfl

theorem runAtoms_append (env : Env) (st : St) (as bs : List Atom) :
    runAtoms env st (as ++ bs) = runAtoms env (runAtoms env st as) bs := by
  simp [runAtoms, List.foldl_append]

theorem run_A (env : Env) (st : St) (as : List Atom) : run env st (A as) = runAtoms env st as := by
  induction as generalizing st with
  | nil => rfl
  | cons a as ih =>
    simp only [A, List.map_cons, run, List.foldl_cons] at ih ⊢
    exact ih (stepStmt env st (.atom a))

theorem flatAtoms_eq {body : List Stmt} {as : List Atom} (h : flatAtoms body = some as) : body = A as := by
  induction body generalizing as with
  | nil => simp [flatAtoms] at h; subst h; rfl
  | cons s r ih =>
    cases s with
    | atom a =>
      simp only [flatAtoms, Option.map_eq_some_iff] at h
      obtain ⟨as', h', rfl⟩ := h
      rw [ih h']; rfl
    | forEach v l rev own b => simp [flatAtoms] at h

theorem stepA_halted (env : Env) (st : St) (a : Atom) (h : st.status ≠ .running) : stepA env st a = st := by
  simp [stepA, h]

theorem runAtoms_halted (env : Env) (st : St) (as : List Atom) (h : st.status ≠ .running) :
    runAtoms env st as = st := by
  induction as with
  | nil => rfl
  | cons a as ih => rw [runAtoms_cons, stepA_halted env st a h]; exact ih

/-! ### Every delivered / queued notification comes from a post statement -/

/-- all deliveries and all pending notifications satisfy `sp kind hasOld hasNew` -/
def AllP (sp : Kind → Bool → Bool → Bool) (st : St) : Prop :=
  (∀ ev ∈ st.evs, sp ev.kind ev.old.isSome ev.new.isSome = true) ∧
  (∀ n ∈ st.queue, sp n.kind n.old.isSome n.new.isSome = true)

theorem AllP_deliver {sp} {st : St} {n : Note} (h : AllP sp st) (hn : sp n.kind n.old.isSome n.new.isSome = true) :
    AllP sp (deliver st n) := by
  refine ⟨?_, h.2⟩
  intro ev hev
  simp only [deliver, List.mem_append, List.mem_singleton] at hev
  rcases hev with hev | rfl
  · exact h.1 ev hev
  · exact hn

theorem AllP_foldl_deliver {sp} (q : List Note) (st : St) (h : AllP sp st)
    (hq : ∀ n ∈ q, sp n.kind n.old.isSome n.new.isSome = true) (hst : ∀ n ∈ st.queue, n ∈ q ∨ True) :
    AllP sp (q.foldl deliver st) := by
  induction q generalizing st with
  | nil => exact h
  | cons n q ih =>
    simp only [List.foldl_cons]
    apply ih
    · exact AllP_deliver h (hq n (by simp))
    · intro m hm; exact hq m (by simp [hm])
    · intro m _; exact Or.inr trivial

theorem AllP_postNote {sp} {st : St} {n : Note} (h : AllP sp st) (hn : sp n.kind n.old.isSome n.new.isSome = true) :
    AllP sp (postNote st n) := by
  unfold postNote
  split
  · exact AllP_deliver h hn
  · split
    · exact h
    · refine ⟨h.1, ?_⟩
      intro m hm
      simp only [List.mem_append, List.mem_singleton] at hm
      rcases hm with hm | rfl
      · exact h.2 m hm
      · exact hn

theorem AllP_releaseSt {sp} {st : St} (h : AllP sp st) : AllP sp (releaseSt st) := by
  unfold releaseSt
  split
  · apply AllP_foldl_deliver
    · exact ⟨h.1, by simp⟩
    · exact h.2
    · intro n _; exact Or.inr trivial
  · exact h

theorem AllP_stepAtom {sp} (env : Env) (a : Atom) (st : St) (h : AllP sp st) (ha : a.allPosts sp = true) :
    AllP sp (stepAtom env st a) := by
  induction a generalizing st with
  | post name kind sj old new obs =>
    simp only [stepAtom]
    apply AllP_postNote h
    simpa [Atom.allPosts, Option.isSome_map] using ha
  | release => exact AllP_releaseSt h
  | «when» c a ih =>
    simp only [stepAtom]
    split
    · exact ih st h (by simpa [Atom.allPosts] using ha)
    · exact h
  | nested a ih => exact ih st h (by simpa [Atom.allPosts] using ha)
  | guard c => simp only [stepAtom]; split <;> exact h
  | reject c => simp only [stepAtom]; split <;> exact h
  | capture v e => exact h
  | set f e => exact h
  | setK e => exact h
  | setOrUnset f e => exact h
  | hold => exact h
  | dirty => exact h
  | touch => exact h

theorem AllP_stepA {sp} (env : Env) (a : Atom) (st : St) (h : AllP sp st) (ha : a.allPosts sp = true) :
    AllP sp (stepA env st a) := by
  unfold stepA
  split
  · exact AllP_stepAtom env a st h ha
  · exact h

theorem AllP_runAtoms {sp} (env : Env) (as : List Atom) (st : St) (h : AllP sp st)
    (ha : as.all (Atom.allPosts sp) = true) : AllP sp (runAtoms env st as) := by
  induction as generalizing st with
  | nil => exact h
  | cons a as ih =>
    simp only [List.all_cons, Bool.and_eq_true] at ha
    rw [runAtoms_cons]
    exact ih _ (AllP_stepA env a st h ha.1) ha.2

theorem AllP_setVar {sp} {st : St} (h : AllP sp st) (v : Nat) (x : Val) : AllP sp (setVar st v x) := h

theorem AllP_loop {sp} (env : Env) (v : Nat) (body : List Atom) (items : List Int) (st : St) (h : AllP sp st)
    (hs : body.all (Atom.allPosts sp) = true) :
    AllP sp (items.foldl (fun st x => runAtoms env (setVar st v (.int x)) body) st) := by
  induction items generalizing st with
  | nil => exact h
  | cons x xs ih =>
    simp only [List.foldl_cons]
    exact ih _ (AllP_runAtoms env body _ (AllP_setVar h v _) hs)

theorem AllP_stepStmt {sp} (env : Env) (s : Stmt) (st : St) (h : AllP sp st) (hs : s.allPosts sp = true) :
    AllP sp (stepStmt env st s) := by
  cases s with
  | atom a => exact AllP_stepA env a st h hs
  | forEach v l rev own body =>
    simp only [stepStmt]
    split
    · exact AllP_loop env v body _ st h hs
    · exact h

theorem AllP_run {sp} (env : Env) (prog : List Stmt) (st : St) (h : AllP sp st)
    (hp : prog.all (Stmt.allPosts sp) = true) : AllP sp (run env st prog) := by
  induction prog generalizing st with
  | nil => exact h
  | cons s r ih =>
    simp only [List.all_cons, Bool.and_eq_true] at hp
    simp only [run, List.foldl_cons]
    exact ih _ (AllP_stepStmt env s st h hp.1) hp.2

theorem AllP_init (sp) (σ : Store) : AllP sp (init σ) := ⟨by simp [init], by simp [init]⟩

/-- methods whose posts carry no old/new values tell no payload lie -/
theorem payloadTruth_of_noPayload (e : Entry) (h : e.body.all (Stmt.allPosts spNoPayload) = true) :
    PayloadTruth e := by
  intro env σ ev hev
  have := (AllP_run env e.body (init σ) (AllP_init _ σ) h).1 ev hev
  simp only [spNoPayload, Bool.and_eq_true, Bool.not_eq_true', Option.isSome_eq_false_iff,
    Option.isNone_iff_eq_none] at this
  constructor
  · intro o ho; rw [this.1] at ho; cases ho
  · intro _ n hn; rw [this.2] at hn; cases hn

/-- methods without will-posts deliver no will-notification -/
theorem willDid_of_noWill (e : Entry) (h : e.body.all (Stmt.allPosts spNoWill) = true) : WillDid e := by
  intro env σ pre ev post hevs hk
  have := (AllP_run env e.body (init σ) (AllP_init _ σ) h).1 ev (by
    unfold runOp at hevs; rw [hevs]; simp)
  simp [spNoWill, hk] at this

/-! ### Evaluation of closed and of stable expressions -/

theorem eval_closed (env : Env) (vars : List (Nat × Val)) (s : Store) (sj : Val) (e : Expr)
    (h : e.closed = true) : eval env vars s sj e = eval env [] s .none e := by
  induction e with
  | var n => simp [Expr.closed] at h
  | subj => simp [Expr.closed] at h
  | arg i => rfl
  | fld f => rfl
  | kfld => rfl
  | lit v => rfl
  | add a b iha ihb | sub a b iha ihb | eq a b iha ihb | and a b iha ihb | or a b iha ihb | cons a b iha ihb
  | remove a b iha ihb | mem a b iha ihb | sinsert a b iha ihb =>
    simp only [Expr.closed, Bool.and_eq_true] at h
    simp only [eval, iha h.1, ihb h.2]
  | not a ih | isNone a ih | nth a i ih | isEmpty a ih =>
    simp only [Expr.closed] at h
    simp only [eval, ih h]
  | ite c a b ihc iha ihb | insertAt c a b ihc iha ihb =>
    simp only [Expr.closed, Bool.and_eq_true] at h
    simp only [eval, ihc h.1.1, iha h.1.2, ihb h.2]

theorem eval_stable (env : Env) (vars : List (Nat × Val)) (s s' : Store) (sj sj' : Val) (e : Expr)
    (h : e.stable = true) : eval env vars s sj e = eval env vars s' sj' e := by
  cases e <;> simp [Expr.stable] at h <;> rfl

theorem getF_set (s : Store) (f g : String) (v : Val) :
    getF (AL.set s f v) g = if f = g then v else getF s g := by
  unfold getF
  rw [AL.get?_set]
  split <;> rfl

/-! ### Soundness of the payload analysis -/

/-- what the abstract state `a` claims about the concrete state `st` of a run started from store `σ` -/
structure Facts (env : Env) (σ : Store) (a : PA) (st : St) : Prop where
  pristine : a.pristine = true → st.store = σ
  olds : ∀ v e, (v, e) ∈ a.olds → e.closed = true ∧ (AL.get? st.vars v).getD .none = eval env [] σ .none e
  known : ∀ fk e, (fk, e) ∈ a.known →
    e.stable = true ∧ getF st.store (fk.name env) = eval env st.vars st.store .none e
  depth : st.depth = a.depth
  queue : st.queue = []

/-- every delivery so far is truthful -/
def Good (env : Env) (σ : Store) (st : St) : Prop := ∀ ev ∈ st.evs, ev.Truthful env σ

theorem facts_wrote {env : Env} {σ : Store} {a : PA} {st : St} (h : Facts env σ a st) (fk : FieldKey) (e : Expr) :
    Facts env σ (a.wrote fk e)
      { st with store := AL.set st.store (fk.name env) (eval env st.vars st.store .none e) } := by
  refine ⟨by simp [PA.wrote], h.olds, ?_, h.depth, h.queue⟩
  intro g e' hm
  simp only [PA.wrote, List.mem_append, List.mem_filter, decide_eq_true_eq] at hm
  rcases hm with hm | ⟨hm, hne, hk1, hk2⟩
  · split at hm
    · rename_i hst
      simp only [List.mem_singleton, Prod.mk.injEq] at hm
      obtain ⟨rfl, rfl⟩ := hm
      refine ⟨hst, ?_⟩
      rw [getF_set]; simp only [if_true]
      exact eval_stable env st.vars _ _ _ _ _ hst
    · simp at hm
  · obtain ⟨hst, hv⟩ := h.known g e' hm
    refine ⟨hst, ?_⟩
    have hname : fk.name env ≠ g.name env := by
      cases fk with
      | key => exact absurd rfl hk1
      | named f =>
        cases g with
        | key => exact absurd rfl hk2
        | named f' =>
          simp only [FieldKey.name]
          intro e; apply hne; rw [e]
    rw [getF_set, if_neg hname, hv]
    exact eval_stable env st.vars _ _ _ _ _ hst

theorem facts_meet_left {env : Env} {σ : Store} {a b m : PA} {st : St} (h : Facts env σ a st)
    (hm : PA.meet a b = some m) : Facts env σ m st := by
  unfold PA.meet at hm
  split at hm
  · injection hm with hm; subst hm
    refine ⟨?_, ?_, ?_, h.depth, h.queue⟩
    · intro hp; simp only [Bool.and_eq_true] at hp; exact h.pristine hp.1
    · intro v e hv; simp only [List.mem_filter] at hv; exact h.olds v e hv.1
    · intro fk e hv; simp only [List.mem_filter] at hv; exact h.known fk e hv.1
  · cases hm

theorem facts_meet_right {env : Env} {σ : Store} {a b m : PA} {st : St} (h : Facts env σ b st)
    (hm : PA.meet a b = some m) : Facts env σ m st := by
  unfold PA.meet at hm
  split at hm
  · rename_i hd
    injection hm with hm; subst hm
    refine ⟨?_, ?_, ?_, by rw [h.depth]; exact hd.symm, h.queue⟩
    · intro hp; simp only [Bool.and_eq_true] at hp; exact h.pristine hp.2
    · intro v e hv
      simp only [List.mem_filter, decide_eq_true_eq] at hv; exact h.olds v e hv.2
    · intro fk e hv
      simp only [List.mem_filter, decide_eq_true_eq] at hv; exact h.known fk e hv.2
  · cases hm

theorem truthful_of_justified {env : Env} {σ : Store} {a : PA} {st : St} (h : Facts env σ a st)
    (name : String) (k : Kind) (sj old new : Option Expr) (obs : Expr) (hc : obs.closed = true)
    (hj : payloadJustified a k old new obs = true) :
    Ev.Truthful env σ ⟨name, k, (sj.map (eval env st.vars st.store .none)).getD .none,
      old.map (eval env st.vars st.store .none), new.map (eval env st.vars st.store .none), obs, st.store⟩ := by
  simp only [payloadJustified, Bool.and_eq_true, Bool.or_eq_true] at hj
  obtain ⟨hold, hnew⟩ := hj
  constructor
  · intro o ho
    cases old with
    | none => simp at ho
    | some eo =>
      cases eo with
      | var v =>
        simp only [decide_eq_true_eq] at hold
        obtain ⟨_, hv⟩ := h.olds v obs hold
        simp only [Option.map_some, Option.some.injEq, eval] at ho
        subst ho
        simp only [Ev.before]
        rw [hv]
        exact (eval_closed env [] σ _ obs hc).symm
      | _ => simp at hold
  · intro hk n hn
    rcases hnew with hw | hnew
    · simp only [beq_iff_eq] at hw; exact absurd hw hk
    · cases new with
      | none => simp at hn
      | some en =>
        simp only [Option.map_some, Option.some.injEq] at hn
        subst hn
        simp only [Ev.now, Bool.or_eq_true, beq_iff_eq] at hnew ⊢
        rcases hnew with rfl | hkn
        · rw [eval_closed env st.vars st.store .none en hc]
          exact (eval_closed env [] st.store _ en hc).symm
        · cases obs with
          | fld f =>
            simp only [obsKey, decide_eq_true_eq] at hkn
            obtain ⟨_, hv⟩ := h.known _ _ hkn
            simp only [eval]; exact hv.symm
          | kfld =>
            simp only [obsKey, decide_eq_true_eq] at hkn
            obtain ⟨_, hv⟩ := h.known _ _ hkn
            simp only [eval]; exact hv.symm
          | _ => simp [obsKey] at hkn

theorem pa_stepAtom (env : Env) (σ : Store) (x : Atom) (a a' : PA) (st : St)
    (hf : Facts env σ a st) (hg : Good env σ st) (hp : paAtom a x = some a') :
    Good env σ (stepAtom env st x) ∧ Facts env σ a' (stepAtom env st x) := by
  induction x generalizing a a' st with
  | capture v e =>
    simp only [paAtom] at hp
    refine ⟨hg, ?_⟩
    have hforget : Facts env σ (a.forget v) (setVar st v (eval env st.vars st.store .none e)) := by
      refine ⟨hf.pristine, ?_, ?_, hf.depth, hf.queue⟩
      · intro w e' hw
        simp only [PA.forget, List.mem_filter, decide_eq_true_eq] at hw
        obtain ⟨hc, hv⟩ := hf.olds w e' hw.1
        refine ⟨hc, ?_⟩
        simp only [setVar]
        rw [AL.get?_set_ne _ _ _ _ (fun h => hw.2 h.symm)]
        exact hv
      · intro fk e' hw
        simp only [PA.forget, List.mem_filter, decide_eq_true_eq] at hw
        obtain ⟨hs, hv⟩ := hf.known fk e' hw.1
        refine ⟨hs, ?_⟩
        simp only [setVar]
        rw [hv]
        cases e' with
        | var w =>
          have : v ≠ w := fun h => hw.2 (by rw [h])
          simp only [eval, AL.get?_set_ne _ _ _ _ this]
        | arg i => rfl
        | lit x => rfl
        | _ => simp [Expr.stable] at hs
    split at hp
    · rename_i hc
      injection hp with hp; subst hp
      have hc : a.pristine = true ∧ e.closed = true := by simpa using hc
      refine ⟨hforget.pristine, ?_, hforget.known, hforget.depth, hforget.queue⟩
      intro w e' hw
      simp only [List.mem_cons, Prod.mk.injEq] at hw
      rcases hw with ⟨rfl, rfl⟩ | hw
      · refine ⟨hc.2, ?_⟩
        simp only [stepAtom, setVar, AL.get?_set_self, Option.getD_some]
        rw [eval_closed env st.vars st.store .none e' hc.2, hf.pristine hc.1]
      · exact hforget.olds w e' hw
    · injection hp with hp; subst hp; exact hforget
  | set f e =>
    simp only [paAtom] at hp; injection hp with hp; subst hp
    exact ⟨hg, facts_wrote hf (.named f) e⟩
  | setK e =>
    simp only [paAtom] at hp; injection hp with hp; subst hp
    exact ⟨hg, facts_wrote hf .key e⟩
  | setOrUnset f e =>
    simp only [paAtom] at hp; injection hp with hp; subst hp
    exact ⟨hg, facts_wrote hf (.named f) e⟩
  | post name k sj old new obs =>
    simp only [paAtom] at hp
    split at hp
    · rename_i hc
      injection hp with hp; subst hp
      simp only [Bool.and_eq_true, decide_eq_true_eq] at hc
      have hd : st.depth = 0 := by rw [hf.depth]; exact hc.1.1
      have hstep : stepAtom env st (.post name k sj old new obs) =
          deliver st ⟨name, k, (sj.map (eval env st.vars st.store .none)).getD .none,
            old.map (eval env st.vars st.store .none), new.map (eval env st.vars st.store .none), obs⟩ := by
        simp only [stepAtom, postNote, hd, if_true]
      rw [hstep]
      refine ⟨?_, ⟨hf.pristine, hf.olds, hf.known, hf.depth, hf.queue⟩⟩
      intro ev hev
      simp only [deliver, List.mem_append, List.mem_singleton] at hev
      rcases hev with hev | rfl
      · exact hg ev hev
      · exact truthful_of_justified hf name k sj old new obs hc.1.2 hc.2
    · cases hp
  | hold =>
    simp only [paAtom] at hp; injection hp with hp; subst hp
    exact ⟨hg, ⟨hf.pristine, hf.olds, hf.known, by simp [stepAtom, hf.depth], hf.queue⟩⟩
  | release =>
    simp only [paAtom] at hp
    split at hp
    · cases hp
    · rename_i hd
      injection hp with hp; subst hp
      have hq := hf.queue
      simp only [stepAtom, releaseSt]
      split
      · rename_i h1
        simp only [hq, List.foldl_nil]
        exact ⟨hg, ⟨hf.pristine, hf.olds, hf.known, by simp [← hf.depth, h1], rfl⟩⟩
      · exact ⟨hg, ⟨hf.pristine, hf.olds, hf.known, by simp [hf.depth], hq⟩⟩
  | dirty =>
    simp only [paAtom] at hp; injection hp with hp; subst hp
    exact ⟨hg, ⟨hf.pristine, hf.olds, hf.known, hf.depth, hf.queue⟩⟩
  | touch =>
    simp only [paAtom] at hp; injection hp with hp; subst hp
    exact ⟨hg, hf⟩
  | guard c =>
    simp only [paAtom] at hp; injection hp with hp; subst hp
    simp only [stepAtom]
    split
    · exact ⟨hg, hf⟩
    · exact ⟨hg, ⟨hf.pristine, hf.olds, hf.known, hf.depth, hf.queue⟩⟩
  | reject c =>
    simp only [paAtom] at hp; injection hp with hp; subst hp
    simp only [stepAtom]
    split
    · exact ⟨hg, ⟨hf.pristine, hf.olds, hf.known, hf.depth, hf.queue⟩⟩
    · exact ⟨hg, hf⟩
  | «when» c x ih =>
    simp only [paAtom, Option.bind_eq_some_iff] at hp
    obtain ⟨ax, hax, hm⟩ := hp
    simp only [stepAtom]
    split
    · obtain ⟨g', f'⟩ := ih a ax st hf hg hax
      exact ⟨g', facts_meet_right f' hm⟩
    · exact ⟨hg, facts_meet_left hf hm⟩
  | nested x ih =>
    simp only [paAtom] at hp
    exact ih a a' st hf hg hp

/-- the invariant of a whole loop-free run -/
theorem pa_runAtoms (env : Env) (σ : Store) (as : List Atom) (a a' : PA) (st : St)
    (hg : Good env σ st) (hf : st.status = .running → Facts env σ a st) (hp : paAtoms a as = some a') :
    Good env σ (runAtoms env st as) := by
  induction as generalizing a st with
  | nil => exact hg
  | cons x xs ih =>
    simp only [paAtoms, Option.bind_eq_some_iff] at hp
    obtain ⟨ax, hax, hrest⟩ := hp
    rw [runAtoms_cons]
    by_cases hr : st.status = .running
    · obtain ⟨g', f'⟩ := pa_stepAtom env σ x a ax st (hf hr) hg hax
      have : stepA env st x = stepAtom env st x := by simp [stepA, hr]
      rw [this]
      exact ih ax _ g' (fun _ => f') hrest
    · rw [stepA_halted env st x hr]
      exact ih ax st hg (fun h => absurd h hr) hrest

theorem facts_init (env : Env) (σ : Store) : Facts env σ {} (init σ) :=
  ⟨fun _ => rfl, by simp, by simp, rfl, rfl⟩

/-- soundness of the payload criterion -/
theorem payloadTruth_of_ok (e : Entry) (h : payloadOk e = true) : PayloadTruth e := by
  unfold payloadOk at h
  simp only [Bool.or_eq_true] at h
  rcases h with h | h
  · cases hfa : flatAtoms e.body with
    | none => simp [hfa] at h
    | some as =>
      simp only [hfa, Option.isSome_iff_exists] at h
      obtain ⟨a', ha'⟩ := h
      intro env σ ev hev
      unfold runOp at hev
      rw [flatAtoms_eq hfa, run_A] at hev
      exact pa_runAtoms env σ as {} a' (init σ) (by intro ev hev; simp [init] at hev)
        (fun _ => facts_init env σ) ha' ev hev
  · exact payloadTruth_of_noPayload e h

end Setters
end DefconModel
