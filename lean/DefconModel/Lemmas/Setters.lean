/-
Helper lemmas for C08 (M-Setters): the interpreter over lists, the invariant "every delivered or queued
notification comes from a post statement" and the soundness of the two syntactic criteria of
`Spec/Setters.lean`.
-/
import DefconModel.Spec.Setters

namespace DefconModel
namespace Setters

/-! ### The interpreter over lists -/

theorem runAtoms_nil (env : Env) (st : St) : runAtoms env st [] = st := rfl

theorem runAtoms_cons (env : Env) (st : St) (a : Atom) (as : List Atom) :
    runAtoms env st (a :: as) = runAtoms env (stepA env st a) as := rfl

theorem runAtoms_append (env : Env) (st : St) (as bs : List Atom) :
    runAtoms env st (as ++ bs) = runAtoms env (runAtoms env st as) bs := by
  simp [runAtoms, List.foldl_append]

theorem run_A (env : Env) (st : St) (as : List Atom) : run env st (A as) = runAtoms env st as := by
  induction as generalizing st with
  | nil => rfl
  | cons a as ih =>
    simp only [A, List.map_cons, run, List.foldl_cons] at ih ⊢
    exact ih (stepStmt env st (.atom a))

theorem flatAtoms_eq {body : List Stmt} {as : List Atom} (h : flatAtoms body = some as) : body = A as := by
  induction body generalizing as with
  | nil => simp [flatAtoms] at h; subst h; rfl
  | cons s r ih =>
    cases s with
    | atom a =>
      simp only [flatAtoms, Option.map_eq_some_iff] at h
      obtain ⟨as', h', rfl⟩ := h
      rw [ih h']; rfl
    | forEach v l rev own b => simp [flatAtoms] at h

theorem stepA_halted (env : Env) (st : St) (a : Atom) (h : st.status ≠ .running) : stepA env st a = st := by
  simp [stepA, h]

theorem runAtoms_halted (env : Env) (st : St) (as : List Atom) (h : st.status ≠ .running) :
    runAtoms env st as = st := by
  induction as with
  | nil => rfl
  | cons a as ih => rw [runAtoms_cons, stepA_halted env st a h]; exact ih

/-! ### Every delivered / queued notification comes from a post statement -/

/-- all deliveries and all pending notifications satisfy `sp kind hasOld hasNew` -/
def AllP (sp : Kind → Bool → Bool → Bool) (st : St) : Prop :=
  (∀ ev ∈ st.evs, sp ev.kind ev.old.isSome ev.new.isSome = true) ∧
  (∀ n ∈ st.queue, sp n.kind n.old.isSome n.new.isSome = true)

theorem AllP_deliver {sp} {st : St} {n : Note} (h : AllP sp st) (hn : sp n.kind n.old.isSome n.new.isSome = true) :
    AllP sp (deliver st n) := by
  refine ⟨?_, h.2⟩
  intro ev hev
  simp only [deliver, List.mem_append, List.mem_singleton] at hev
  rcases hev with hev | rfl
  · exact h.1 ev hev
  · exact hn

theorem AllP_foldl_deliver {sp} (q : List Note) (st : St) (h : AllP sp st)
    (hq : ∀ n ∈ q, sp n.kind n.old.isSome n.new.isSome = true) (hst : ∀ n ∈ st.queue, n ∈ q ∨ True) :
    AllP sp (q.foldl deliver st) := by
  induction q generalizing st with
  | nil => exact h
  | cons n q ih =>
    simp only [List.foldl_cons]
    apply ih
    · exact AllP_deliver h (hq n (by simp))
    · intro m hm; exact hq m (by simp [hm])
    · intro m _; exact Or.inr trivial

theorem AllP_postNote {sp} {st : St} {n : Note} (h : AllP sp st) (hn : sp n.kind n.old.isSome n.new.isSome = true) :
    AllP sp (postNote st n) := by
  unfold postNote
  split
  · exact AllP_deliver h hn
  · split
    · exact h
    · refine ⟨h.1, ?_⟩
      intro m hm
      simp only [List.mem_append, List.mem_singleton] at hm
      rcases hm with hm | rfl
      · exact h.2 m hm
      · exact hn

theorem AllP_releaseSt {sp} {st : St} (h : AllP sp st) : AllP sp (releaseSt st) := by
  unfold releaseSt
  split
  · apply AllP_foldl_deliver
    · exact ⟨h.1, by simp⟩
    · exact h.2
    · intro n _; exact Or.inr trivial
  · exact h

theorem AllP_stepAtom {sp} (env : Env) (a : Atom) (st : St) (h : AllP sp st) (ha : a.allPosts sp = true) :
    AllP sp (stepAtom env st a) := by
  induction a generalizing st with
  | post name kind sj old new obs =>
    simp only [stepAtom]
    apply AllP_postNote h
    simpa [Atom.allPosts, Option.isSome_map] using ha
  | release => exact AllP_releaseSt h
  | «when» c a ih =>
    simp only [stepAtom]
    split
    · exact ih st h (by simpa [Atom.allPosts] using ha)
    · exact h
  | nested a ih => exact ih st h (by simpa [Atom.allPosts] using ha)
  | guard c => simp only [stepAtom]; split <;> exact h
  | reject c => simp only [stepAtom]; split <;> exact h
  | capture v e => exact h
  | set f e => exact h
  | setK e => exact h
  | setOrUnset f e => exact h
  | hold => exact h
  | dirty => exact h
  | touch => exact h

theorem AllP_stepA {sp} (env : Env) (a : Atom) (st : St) (h : AllP sp st) (ha : a.allPosts sp = true) :
    AllP sp (stepA env st a) := by
  unfold stepA
  split
  · exact AllP_stepAtom env a st h ha
  · exact h

theorem AllP_runAtoms {sp} (env : Env) (as : List Atom) (st : St) (h : AllP sp st)
    (ha : as.all (Atom.allPosts sp) = true) : AllP sp (runAtoms env st as) := by
  induction as generalizing st with
  | nil => exact h
  | cons a as ih =>
    simp only [List.all_cons, Bool.and_eq_true] at ha
    rw [runAtoms_cons]
    exact ih _ (AllP_stepA env a st h ha.1) ha.2

theorem AllP_setVar {sp} {st : St} (h : AllP sp st) (v : Nat) (x : Val) : AllP sp (setVar st v x) := h

theorem AllP_loop {sp} (env : Env) (v : Nat) (body : List Atom) (items : List Int) (st : St) (h : AllP sp st)
    (hs : body.all (Atom.allPosts sp) = true) :
    AllP sp (items.foldl (fun st x => runAtoms env (setVar st v (.int x)) body) st) := by
  induction items generalizing st with
  | nil => exact h
  | cons x xs ih =>
    simp only [List.foldl_cons]
    exact ih _ (AllP_runAtoms env body _ (AllP_setVar h v _) hs)

theorem AllP_stepStmt {sp} (env : Env) (s : Stmt) (st : St) (h : AllP sp st) (hs : s.allPosts sp = true) :
    AllP sp (stepStmt env st s) := by
  cases s with
  | atom a => exact AllP_stepA env a st h hs
  | forEach v l rev own body =>
    simp only [stepStmt]
    split
    · exact AllP_loop env v body _ st h hs
    · exact h

theorem AllP_run {sp} (env : Env) (prog : List Stmt) (st : St) (h : AllP sp st)
    (hp : prog.all (Stmt.allPosts sp) = true) : AllP sp (run env st prog) := by
  induction prog generalizing st with
  | nil => exact h
  | cons s r ih =>
    simp only [List.all_cons, Bool.and_eq_true] at hp
    simp only [run, List.foldl_cons]
    exact ih _ (AllP_stepStmt env s st h hp.1) hp.2

theorem AllP_init (sp) (σ : Store) : AllP sp (init σ) := ⟨by simp [init], by simp [init]⟩

/-- methods whose posts carry no old/new values tell no payload lie -/
theorem payloadTruth_of_noPayload (e : Entry) (h : e.body.all (Stmt.allPosts spNoPayload) = true) :
    PayloadTruth e := by
  intro env σ ev hev
  have := (AllP_run env e.body (init σ) (AllP_init _ σ) h).1 ev hev
  simp only [spNoPayload, Bool.and_eq_true, Bool.not_eq_true', Option.isSome_eq_false_iff,
    Option.isNone_iff_eq_none] at this
  constructor
  · intro o ho; rw [this.1] at ho; cases ho
  · intro _ n hn; rw [this.2] at hn; cases hn

/-- methods without will-posts deliver no will-notification -/
theorem willDid_of_noWill (e : Entry) (h : e.body.all (Stmt.allPosts spNoWill) = true) : WillDid e := by
  intro env σ pre ev post hevs hk
  have := (AllP_run env e.body (init σ) (AllP_init _ σ) h).1 ev (by
    unfold runOp at hevs; rw [hevs]; simp)
  simp [spNoWill, hk] at this

/-! ### Evaluation of closed and of stable expressions -/

theorem eval_closed (env : Env) (vars : List (Nat × Val)) (s : Store) (sj : Val) (e : Expr)
    (h : e.closed = true) : eval env vars s sj e = eval env [] s .none e := by
  induction e with
  | var n => simp [Expr.closed] at h
  | subj => simp [Expr.closed] at h
  | arg i => rfl
  | fld f => rfl
  | kfld => rfl
  | lit v => rfl
  | add a b iha ihb | sub a b iha ihb | eq a b iha ihb | and a b iha ihb | or a b iha ihb | cons a b iha ihb
  | remove a b iha ihb | mem a b iha ihb | sinsert a b iha ihb =>
    simp only [Expr.closed, Bool.and_eq_true] at h
    simp only [eval, iha h.1, ihb h.2]
  | not a ih | isNone a ih | nth a i ih | isEmpty a ih =>
    simp only [Expr.closed] at h
    simp only [eval, ih h]
  | ite c a b ihc iha ihb | insertAt c a b ihc iha ihb =>
    simp only [Expr.closed, Bool.and_eq_true] at h
    simp only [eval, ihc h.1.1, iha h.1.2, ihb h.2]

theorem eval_stable (env : Env) (vars : List (Nat × Val)) (s s' : Store) (sj sj' : Val) (e : Expr)
    (h : e.stable = true) : eval env vars s sj e = eval env vars s' sj' e := by
  cases e <;> simp [Expr.stable] at h <;> rfl

theorem getF_set (s : Store) (f g : String) (v : Val) :
    getF (AL.set s f v) g = if f = g then v else getF s g := by
  unfold getF
  rw [AL.get?_set]
  split <;> rfl

/-! ### Soundness of the payload analysis -/

/-- what the abstract state `a` claims about the concrete state `st` of a run started from store `σ` -/
structure Facts (env : Env) (σ : Store) (a : PA) (st : St) : Prop where
  pristine : a.pristine = true → st.store = σ
  olds : ∀ v e, (v, e) ∈ a.olds → e.closed = true ∧ (AL.get? st.vars v).getD .none = eval env [] σ .none e
  known : ∀ fk e, (fk, e) ∈ a.known →
    e.stable = true ∧ getF st.store (fk.name env) = eval env st.vars st.store .none e
  depth : st.depth = a.depth
  queue : st.queue = []

/-- every delivery so far is truthful -/
def Good (env : Env) (σ : Store) (st : St) : Prop := ∀ ev ∈ st.evs, ev.Truthful env σ

theorem facts_wrote {env : Env} {σ : Store} {a : PA} {st : St} (h : Facts env σ a st) (fk : FieldKey) (e : Expr) :
    Facts env σ (a.wrote fk e)
      { st with store := AL.set st.store (fk.name env) (eval env st.vars st.store .none e) } := by
  refine ⟨by simp [PA.wrote], h.olds, ?_, h.depth, h.queue⟩
  intro g e' hm
  simp only [PA.wrote, List.mem_append, List.mem_filter, decide_eq_true_eq] at hm
  rcases hm with hm | ⟨hm, hne, hk1, hk2⟩
  · split at hm
    · rename_i hst
      simp only [List.mem_singleton, Prod.mk.injEq] at hm
      obtain ⟨rfl, rfl⟩ := hm
      refine ⟨hst, ?_⟩
      rw [getF_set]; simp only [if_true]
      exact eval_stable env st.vars _ _ _ _ _ hst
    · simp at hm
  · obtain ⟨hst, hv⟩ := h.known g e' hm
    refine ⟨hst, ?_⟩
    have hname : fk.name env ≠ g.name env := by
      cases fk with
      | key => exact absurd rfl hk1
      | named f =>
        cases g with
        | key => exact absurd rfl hk2
        | named f' =>
          simp only [FieldKey.name]
          intro e; apply hne; rw [e]
    rw [getF_set, if_neg hname, hv]
    exact eval_stable env st.vars _ _ _ _ _ hst

theorem facts_meet_left {env : Env} {σ : Store} {a b m : PA} {st : St} (h : Facts env σ a st)
    (hm : PA.meet a b = some m) : Facts env σ m st := by
  unfold PA.meet at hm
  split at hm
  · injection hm with hm; subst hm
    refine ⟨?_, ?_, ?_, h.depth, h.queue⟩
    · intro hp; simp only [Bool.and_eq_true] at hp; exact h.pristine hp.1
    · intro v e hv; simp only [List.mem_filter] at hv; exact h.olds v e hv.1
    · intro fk e hv; simp only [List.mem_filter] at hv; exact h.known fk e hv.1
  · cases hm

theorem facts_meet_right {env : Env} {σ : Store} {a b m : PA} {st : St} (h : Facts env σ b st)
    (hm : PA.meet a b = some m) : Facts env σ m st := by
  unfold PA.meet at hm
  split at hm
  · rename_i hd
    injection hm with hm; subst hm
    refine ⟨?_, ?_, ?_, by rw [h.depth]; exact hd.symm, h.queue⟩
    · intro hp; simp only [Bool.and_eq_true] at hp; exact h.pristine hp.2
    · intro v e hv
      simp only [List.mem_filter, decide_eq_true_eq] at hv; exact h.olds v e hv.2
    · intro fk e hv
      simp only [List.mem_filter, decide_eq_true_eq] at hv; exact h.known fk e hv.2
  · cases hm

theorem truthful_of_justified {env : Env} {σ : Store} {a : PA} {st : St} (h : Facts env σ a st)
    (name : String) (k : Kind) (sj old new : Option Expr) (obs : Expr) (hc : obs.closed = true)
    (hj : payloadJustified a k old new obs = true) :
    Ev.Truthful env σ ⟨name, k, (sj.map (eval env st.vars st.store .none)).getD .none,
      old.map (eval env st.vars st.store .none), new.map (eval env st.vars st.store .none), obs, st.store⟩ := by
  simp only [payloadJustified, Bool.and_eq_true, Bool.or_eq_true] at hj
  obtain ⟨hold, hnew⟩ := hj
  constructor
  · intro o ho
    cases old with
    | none => simp at ho
    | some eo =>
      cases eo with
      | var v =>
        simp only [decide_eq_true_eq] at hold
        obtain ⟨_, hv⟩ := h.olds v obs hold
        simp only [Option.map_some, Option.some.injEq, eval] at ho
        subst ho
        simp only [Ev.before]
        rw [hv]
        exact (eval_closed env [] σ _ obs hc).symm
      | _ => simp at hold
  · intro hk n hn
    rcases hnew with hw | hnew
    · simp only [beq_iff_eq] at hw; exact absurd hw hk
    · cases new with
      | none => simp at hn
      | some en =>
        simp only [Option.map_some, Option.some.injEq] at hn
        subst hn
        simp only [Ev.now, Bool.or_eq_true, beq_iff_eq] at hnew ⊢
        rcases hnew with rfl | hkn
        · rw [eval_closed env st.vars st.store .none en hc]
          exact (eval_closed env [] st.store _ en hc).symm
        · cases obs with
          | fld f =>
            simp only [obsKey, decide_eq_true_eq] at hkn
            obtain ⟨_, hv⟩ := h.known _ _ hkn
            simp only [eval]; exact hv.symm
          | kfld =>
            simp only [obsKey, decide_eq_true_eq] at hkn
            obtain ⟨_, hv⟩ := h.known _ _ hkn
            simp only [eval]; exact hv.symm
          | _ => simp [obsKey] at hkn

theorem pa_stepAtom (env : Env) (σ : Store) (x : Atom) (a a' : PA) (st : St)
    (hf : Facts env σ a st) (hg : Good env σ st) (hp : paAtom a x = some a') :
    Good env σ (stepAtom env st x) ∧ Facts env σ a' (stepAtom env st x) := by
  induction x generalizing a a' st with
  | capture v e =>
    simp only [paAtom] at hp
    refine ⟨hg, ?_⟩
    have hforget : Facts env σ (a.forget v) (setVar st v (eval env st.vars st.store .none e)) := by
      refine ⟨hf.pristine, ?_, ?_, hf.depth, hf.queue⟩
      · intro w e' hw
        simp only [PA.forget, List.mem_filter, decide_eq_true_eq] at hw
        obtain ⟨hc, hv⟩ := hf.olds w e' hw.1
        refine ⟨hc, ?_⟩
        simp only [setVar]
        rw [AL.get?_set_ne _ _ _ _ (fun h => hw.2 h.symm)]
        exact hv
      · intro fk e' hw
        simp only [PA.forget, List.mem_filter, decide_eq_true_eq] at hw
        obtain ⟨hs, hv⟩ := hf.known fk e' hw.1
        refine ⟨hs, ?_⟩
        simp only [setVar]
        rw [hv]
        cases e' with
        | var w =>
          have : v ≠ w := fun h => hw.2 (by rw [h])
          simp only [eval, AL.get?_set_ne _ _ _ _ this]
        | arg i => rfl
        | lit x => rfl
        | _ => simp [Expr.stable] at hs
    split at hp
    · rename_i hc
      injection hp with hp; subst hp
      have hc : a.pristine = true ∧ e.closed = true := by simpa using hc
      refine ⟨hforget.pristine, ?_, hforget.known, hforget.depth, hforget.queue⟩
      intro w e' hw
      simp only [List.mem_cons, Prod.mk.injEq] at hw
      rcases hw with ⟨rfl, rfl⟩ | hw
      · refine ⟨hc.2, ?_⟩
        simp only [stepAtom, setVar, AL.get?_set_self, Option.getD_some]
        rw [eval_closed env st.vars st.store .none e' hc.2, hf.pristine hc.1]
      · exact hforget.olds w e' hw
    · injection hp with hp; subst hp; exact hforget
  | set f e =>
    simp only [paAtom] at hp; injection hp with hp; subst hp
    exact ⟨hg, facts_wrote hf (.named f) e⟩
  | setK e =>
    simp only [paAtom] at hp; injection hp with hp; subst hp
    exact ⟨hg, facts_wrote hf .key e⟩
  | setOrUnset f e =>
    simp only [paAtom] at hp; injection hp with hp; subst hp
    exact ⟨hg, facts_wrote hf (.named f) e⟩
  | post name k sj old new obs =>
    simp only [paAtom] at hp
    split at hp
    · rename_i hc
      injection hp with hp; subst hp
      simp only [Bool.and_eq_true, decide_eq_true_eq] at hc
      have hd : st.depth = 0 := by rw [hf.depth]; exact hc.1.1
      have hstep : stepAtom env st (.post name k sj old new obs) =
          deliver st ⟨name, k, (sj.map (eval env st.vars st.store .none)).getD .none,
            old.map (eval env st.vars st.store .none), new.map (eval env st.vars st.store .none), obs⟩ := by
        simp only [stepAtom, postNote, hd, if_true]
      rw [hstep]
      refine ⟨?_, ⟨hf.pristine, hf.olds, hf.known, hf.depth, hf.queue⟩⟩
      intro ev hev
      simp only [deliver, List.mem_append, List.mem_singleton] at hev
      rcases hev with hev | rfl
      · exact hg ev hev
      · exact truthful_of_justified hf name k sj old new obs hc.1.2 hc.2
    · cases hp
  | hold =>
    simp only [paAtom] at hp; injection hp with hp; subst hp
    exact ⟨hg, ⟨hf.pristine, hf.olds, hf.known, by simp [stepAtom, hf.depth], hf.queue⟩⟩
  | release =>
    simp only [paAtom] at hp
    split at hp
    · cases hp
    · rename_i hd
      injection hp with hp; subst hp
      have hq := hf.queue
      simp only [stepAtom, releaseSt]
      split
      · rename_i h1
        simp only [hq, List.foldl_nil]
        exact ⟨hg, ⟨hf.pristine, hf.olds, hf.known, by simp [← hf.depth, h1], rfl⟩⟩
      · exact ⟨hg, ⟨hf.pristine, hf.olds, hf.known, by simp [hf.depth], hq⟩⟩
  | dirty =>
    simp only [paAtom] at hp; injection hp with hp; subst hp
    exact ⟨hg, ⟨hf.pristine, hf.olds, hf.known, hf.depth, hf.queue⟩⟩
  | touch =>
    simp only [paAtom] at hp; injection hp with hp; subst hp
    exact ⟨hg, hf⟩
  | guard c =>
    simp only [paAtom] at hp; injection hp with hp; subst hp
    simp only [stepAtom]
    split
    · exact ⟨hg, hf⟩
    · exact ⟨hg, ⟨hf.pristine, hf.olds, hf.known, hf.depth, hf.queue⟩⟩
  | reject c =>
    simp only [paAtom] at hp; injection hp with hp; subst hp
    simp only [stepAtom]
    split
    · exact ⟨hg, ⟨hf.pristine, hf.olds, hf.known, hf.depth, hf.queue⟩⟩
    · exact ⟨hg, hf⟩
  | «when» c x ih =>
    simp only [paAtom, Option.bind_eq_some_iff] at hp
    obtain ⟨ax, hax, hm⟩ := hp
    simp only [stepAtom]
    split
    · obtain ⟨g', f'⟩ := ih a ax st hf hg hax
      exact ⟨g', facts_meet_right f' hm⟩
    · exact ⟨hg, facts_meet_left hf hm⟩
  | nested x ih =>
    simp only [paAtom] at hp
    exact ih a a' st hf hg hp

/-- the invariant of a whole loop-free run -/
theorem pa_runAtoms (env : Env) (σ : Store) (as : List Atom) (a a' : PA) (st : St)
    (hg : Good env σ st) (hf : st.status = .running → Facts env σ a st) (hp : paAtoms a as = some a') :
    Good env σ (runAtoms env st as) := by
  induction as generalizing a st with
  | nil => exact hg
  | cons x xs ih =>
    simp only [paAtoms, Option.bind_eq_some_iff] at hp
    obtain ⟨ax, hax, hrest⟩ := hp
    rw [runAtoms_cons]
    by_cases hr : st.status = .running
    · obtain ⟨g', f'⟩ := pa_stepAtom env σ x a ax st (hf hr) hg hax
      have : stepA env st x = stepAtom env st x := by simp [stepA, hr]
      rw [this]
      exact ih ax _ g' (fun _ => f') hrest
    · rw [stepA_halted env st x hr]
      exact ih ax st hg (fun h => absurd h hr) hrest

theorem facts_init (env : Env) (σ : Store) : Facts env σ {} (init σ) :=
  ⟨fun _ => rfl, by simp, by simp, rfl, rfl⟩

/-- soundness of the payload criterion -/
theorem payloadTruth_of_ok (e : Entry) (h : payloadOk e = true) : PayloadTruth e := by
  unfold payloadOk at h
  simp only [Bool.or_eq_true] at h
  rcases h with h | h
  · cases hfa : flatAtoms e.body with
    | none => simp [hfa] at h
    | some as =>
      simp only [hfa, Option.isSome_iff_exists] at h
      obtain ⟨a', ha'⟩ := h
      intro env σ ev hev
      unfold runOp at hev
      rw [flatAtoms_eq hfa, run_A] at hev
      exact pa_runAtoms env σ as {} a' (init σ) (by intro ev hev; simp [init] at hev)
        (fun _ => facts_init env σ) ha' ev hev
  · exact payloadTruth_of_noPayload e h

/-! ### Soundness of the straight Will/Did shape -/

theorem pre_stepA (env : Env) (st : St) (x : Atom) (hx : x.preOk = true) :
    (stepA env st x).store = st.store ∧ (stepA env st x).evs = st.evs ∧
    (stepA env st x).depth = st.depth ∧ (stepA env st x).queue = st.queue := by
  unfold stepA
  split
  · cases x <;> simp [Atom.preOk] at hx
    · exact ⟨rfl, rfl, rfl, rfl⟩
    · simp only [stepAtom]; split <;> exact ⟨rfl, rfl, rfl, rfl⟩
    · simp only [stepAtom]; split <;> exact ⟨rfl, rfl, rfl, rfl⟩
  · exact ⟨rfl, rfl, rfl, rfl⟩

theorem pre_runAtoms (env : Env) (as : List Atom) (st : St) (h : ∀ x ∈ as, x.preOk = true) :
    (runAtoms env st as).store = st.store ∧ (runAtoms env st as).evs = st.evs ∧
    (runAtoms env st as).depth = st.depth ∧ (runAtoms env st as).queue = st.queue := by
  induction as generalizing st with
  | nil => exact ⟨rfl, rfl, rfl, rfl⟩
  | cons x xs ih =>
    rw [runAtoms_cons]
    obtain ⟨h1, h2, h3, h4⟩ := pre_stepA env st x (h x (by simp))
    obtain ⟨i1, i2, i3, i4⟩ := ih (stepA env st x) (fun y hy => h y (by simp [hy]))
    exact ⟨i1.trans h1, i2.trans h2, i3.trans h3, i4.trans h4⟩

/-- a state in which nothing is held: posts are delivered at once -/
def Quiet (st : St) : Prop := st.depth = 0 ∧ st.queue = []

/-- `st'` extends `st` by deliveries none of which is a will-notification -/
def Extends (st st' : St) : Prop := ∃ extra, st'.evs = st.evs ++ extra ∧ ∀ ev ∈ extra, ev.kind ≠ .will

theorem Extends.refl (st : St) : Extends st st := ⟨[], by simp, by simp⟩

theorem Extends.trans {a b c : St} (h1 : Extends a b) (h2 : Extends b c) : Extends a c := by
  obtain ⟨e1, h1, n1⟩ := h1
  obtain ⟨e2, h2, n2⟩ := h2
  refine ⟨e1 ++ e2, by rw [h2, h1, List.append_assoc], ?_⟩
  intro ev hev
  simp only [List.mem_append] at hev
  rcases hev with h | h
  · exact n1 ev h
  · exact n2 ev h

/-- the arguments in `refuted` are not truthy -/
def Refuted (env : Env) (refuted : List Nat) : Prop := ∀ i ∈ refuted, truthy (env.args.getD i .none) = false

theorem mid_stepAtom (env : Env) (refuted : List Nat) (hr : Refuted env refuted) (x : Atom) (st : St)
    (hx : x.midOk refuted = true) (hq : Quiet st) :
    (stepAtom env st x).status = st.status ∧ Quiet (stepAtom env st x) ∧ Extends st (stepAtom env st x) := by
  induction x generalizing st with
  | post name k sj old new obs =>
    have hk : k ≠ .will := by simpa [Atom.midOk] using hx
    simp only [stepAtom, postNote, hq.1, if_true]
    refine ⟨rfl, hq, ⟨[_], rfl, ?_⟩⟩
    intro ev hev
    simp only [List.mem_singleton] at hev
    subst hev; exact hk
  | «when» c x ih =>
    simp only [stepAtom]
    split
    · exact ih st (by simpa [Atom.midOk] using hx) hq
    · exact ⟨rfl, hq, Extends.refl st⟩
  | nested x ih => exact ih st (by simpa [Atom.midOk] using hx) hq
  | guard c => simp [Atom.midOk] at hx
  | reject c =>
    cases c with
    | arg i =>
      have hi : i ∈ refuted := by simpa [Atom.midOk] using hx
      have := hr i hi
      simp only [stepAtom, eval, this]
      exact ⟨rfl, hq, Extends.refl _⟩
    | _ => simp [Atom.midOk] at hx
  | hold => simp [Atom.midOk] at hx
  | release => simp [Atom.midOk] at hx
  | capture v e => exact ⟨rfl, hq, Extends.refl _⟩
  | set f e => exact ⟨rfl, hq, Extends.refl _⟩
  | setK e => exact ⟨rfl, hq, Extends.refl _⟩
  | setOrUnset f e => exact ⟨rfl, hq, Extends.refl _⟩
  | dirty => exact ⟨rfl, hq, Extends.refl _⟩
  | touch => exact ⟨rfl, hq, Extends.refl _⟩

/-- a method that is still running after a prefix has refuted every argument the prefix rejects on -/
theorem refuted_of_running (env : Env) (as : List Atom) (st : St) (hs : st.status = .running)
    (hrun : (runAtoms env st as).status = .running) : Refuted env (refutedArgs as) := by
  induction as generalizing st with
  | nil => intro i hi; simp [refutedArgs] at hi
  | cons x xs ih =>
    rw [runAtoms_cons] at hrun
    have hx : (stepA env st x).status = .running := by
      by_cases h : (stepA env st x).status = .running
      · exact h
      · rw [runAtoms_halted env _ xs h] at hrun; exact absurd hrun h
    have hrest := ih (stepA env st x) hx hrun
    intro i hi
    cases x with
    | reject c =>
      cases c with
      | arg j =>
        simp only [refutedArgs, List.mem_cons] at hi
        rcases hi with rfl | hi
        · have hev : eval env st.vars st.store .none (.arg i) = env.args.getD i .none := rfl
          by_cases ht : truthy (eval env st.vars st.store .none (.arg i)) = true
          · simp only [stepA, hs, if_true, stepAtom, ht] at hx
            cases hx
          · rw [hev] at ht; simpa using ht
        · exact hrest i hi
      | _ => exact hrest i (by simpa [refutedArgs] using hi)
    | _ => exact hrest i (by simpa [refutedArgs] using hi)

theorem mid_runAtoms (env : Env) (refuted : List Nat) (hr : Refuted env refuted) (as : List Atom) (st : St)
    (h : ∀ x ∈ as, x.midOk refuted = true) (hq : Quiet st) :
    (runAtoms env st as).status = st.status ∧ Quiet (runAtoms env st as) ∧ Extends st (runAtoms env st as) := by
  induction as generalizing st with
  | nil => exact ⟨rfl, hq, Extends.refl st⟩
  | cons x xs ih =>
    rw [runAtoms_cons]
    by_cases hrn : st.status = .running
    · have hs : stepA env st x = stepAtom env st x := by simp [stepA, hrn]
      rw [hs]
      obtain ⟨s1, q1, e1⟩ := mid_stepAtom env refuted hr x st (h x (by simp)) hq
      obtain ⟨s2, q2, e2⟩ := ih (stepAtom env st x) (fun y hy => h y (by simp [hy])) q1
      exact ⟨s2.trans s1, q2, e1.trans e2⟩
    · rw [stepA_halted env st x hrn, runAtoms_halted env st xs hrn]
      exact ⟨rfl, hq, Extends.refl st⟩

theorem suf_stepAtom (env : Env) (x : Atom) (st : St) (hx : x.sufOk = true) (hq : Quiet st) :
    (stepAtom env st x).store = st.store ∧ Quiet (stepAtom env st x) ∧ Extends st (stepAtom env st x) := by
  induction x generalizing st with
  | post name k sj old new obs =>
    have hk : k ≠ .will := by simpa [Atom.sufOk] using hx
    simp only [stepAtom, postNote, hq.1, if_true]
    refine ⟨rfl, hq, ⟨[_], rfl, ?_⟩⟩
    intro ev hev
    simp only [List.mem_singleton] at hev
    subst hev; exact hk
  | «when» c x ih =>
    simp only [stepAtom]
    split
    · exact ih st (by simpa [Atom.sufOk] using hx) hq
    · exact ⟨rfl, hq, Extends.refl st⟩
  | nested x ih => exact ih st (by simpa [Atom.sufOk] using hx) hq
  | guard c => simp only [stepAtom]; split <;> exact ⟨rfl, hq, Extends.refl _⟩
  | reject c => simp only [stepAtom]; split <;> exact ⟨rfl, hq, Extends.refl _⟩
  | hold => simp [Atom.sufOk] at hx
  | release => simp [Atom.sufOk] at hx
  | capture v e => exact ⟨rfl, hq, Extends.refl _⟩
  | set f e => simp [Atom.sufOk] at hx
  | setK e => simp [Atom.sufOk] at hx
  | setOrUnset f e => simp [Atom.sufOk] at hx
  | dirty => exact ⟨rfl, hq, Extends.refl _⟩
  | touch => exact ⟨rfl, hq, Extends.refl _⟩

theorem suf_runAtoms (env : Env) (as : List Atom) (st : St) (h : ∀ x ∈ as, x.sufOk = true) (hq : Quiet st) :
    (runAtoms env st as).store = st.store ∧ Quiet (runAtoms env st as) ∧ Extends st (runAtoms env st as) := by
  induction as generalizing st with
  | nil => exact ⟨rfl, hq, Extends.refl st⟩
  | cons x xs ih =>
    rw [runAtoms_cons]
    by_cases hr : st.status = .running
    · have hs : stepA env st x = stepAtom env st x := by simp [stepA, hr]
      rw [hs]
      obtain ⟨s1, q1, e1⟩ := suf_stepAtom env x st (h x (by simp)) hq
      obtain ⟨s2, q2, e2⟩ := ih (stepAtom env st x) (fun y hy => h y (by simp [hy])) q1
      exact ⟨s2.trans s1, q2, e1.trans e2⟩
    · rw [stepA_halted env st x hr, runAtoms_halted env st xs hr]
      exact ⟨rfl, hq, Extends.refl st⟩

/-- sentence 2 for one run -/
def WillDidRun (env : Env) (σ : Store) (r : St) : Prop :=
  ∀ pre ev post, r.evs = pre ++ ev :: post → ev.kind = .will →
    ev.now env = ev.before env σ ∧
    ∃ d ∈ post, d.kind = .did ∧ didOf ev.name = some d.name ∧ ev.getterIn env d.snap = ev.getterIn env r.store

/-- if the only will-notification of a list of deliveries is its head, a will found anywhere is that head -/
theorem will_is_head {w : Ev} {rest pre post : List Ev} {ev : Ev}
    (h : w :: rest = pre ++ ev :: post) (hk : ev.kind = .will) (hr : ∀ x ∈ rest, x.kind ≠ .will) :
    pre = [] ∧ ev = w ∧ post = rest := by
  cases pre with
  | nil =>
    simp only [List.nil_append, List.cons.injEq] at h
    exact ⟨rfl, h.1.symm, h.2.symm⟩
  | cons p ps =>
    simp only [List.cons_append, List.cons.injEq] at h
    have : ev ∈ rest := by rw [h.2]; simp
    exact absurd hk (hr ev this)

theorem willDidRun_of_straight (env : Env) (σ : Store) (as : List Atom) (h : straightWD as = true) :
    WillDidRun env σ (runAtoms env (init σ) as) := by
  unfold straightWD at h
  split at h
  · rename_i w sjW oW nW obsW rest hdrop
    split at h
    · rename_i d sjD oD nD obsD suf hdrop2
      simp only [Bool.and_eq_true, beq_iff_eq, List.all_eq_true] at h
      obtain ⟨⟨hmid, hsuf⟩, hpair⟩ := h
      have has : as = as.takeWhile Atom.preOk ++ (.post w .will sjW oW nW obsW ::
          (rest.takeWhile (fun a => !a.isDidPost) ++ (.post d .did sjD oD nD obsD :: suf))) := by
        rw [← hdrop2, List.takeWhile_append_dropWhile, ← hdrop, List.takeWhile_append_dropWhile]
      have hpre : ∀ x ∈ as.takeWhile Atom.preOk, x.preOk = true := by
        intro x hx
        exact List.all_eq_true.mp (@List.all_takeWhile _ Atom.preOk as) x hx
      clear hdrop hdrop2
      generalize as.takeWhile Atom.preOk = pre at has hpre hmid
      generalize rest.takeWhile (fun a => !a.isDidPost) = mid at has hmid
      subst has
      rw [runAtoms_append, runAtoms_cons, runAtoms_append, runAtoms_cons]
      obtain ⟨s1, e1, d1, q1⟩ := pre_runAtoms env pre (init σ) hpre
      have hrefuted : (runAtoms env (init σ) pre).status = .running → Refuted env (refutedArgs pre) :=
        refuted_of_running env pre (init σ) rfl
      generalize runAtoms env (init σ) pre = st1 at s1 e1 d1 q1 hrefuted
      have hq1 : Quiet st1 := ⟨d1, q1⟩
      by_cases hr : st1.status = .running
      · -- the will is delivered at once, in the store of before the operation
        have hW : stepA env st1 (.post w .will sjW oW nW obsW) =
            deliver st1 ⟨w, .will, (sjW.map (eval env st1.vars st1.store .none)).getD .none,
              oW.map (eval env st1.vars st1.store .none), nW.map (eval env st1.vars st1.store .none), obsW⟩ := by
          simp only [stepA, hr, if_true, stepAtom, postNote, hq1.1]
        rw [hW]
        generalize hnW : (⟨w, .will, (sjW.map (eval env st1.vars st1.store .none)).getD .none,
              oW.map (eval env st1.vars st1.store .none), nW.map (eval env st1.vars st1.store .none), obsW⟩ : Note)
            = noteW
        have hq2 : Quiet (deliver st1 noteW) := hq1
        obtain ⟨s3, q3, x3⟩ := mid_runAtoms env (refutedArgs pre) (hrefuted hr) mid (deliver st1 noteW) hmid hq2
        generalize runAtoms env (deliver st1 noteW) mid = st3 at s3 q3 x3
        have hr3 : st3.status = .running := by rw [s3]; exact hr
        have hD : stepA env st3 (.post d .did sjD oD nD obsD) =
            deliver st3 ⟨d, .did, (sjD.map (eval env st3.vars st3.store .none)).getD .none,
              oD.map (eval env st3.vars st3.store .none), nD.map (eval env st3.vars st3.store .none), obsD⟩ := by
          simp only [stepA, hr3, if_true, stepAtom, postNote, q3.1]
        rw [hD]
        generalize hnD : (⟨d, .did, (sjD.map (eval env st3.vars st3.store .none)).getD .none,
              oD.map (eval env st3.vars st3.store .none), nD.map (eval env st3.vars st3.store .none), obsD⟩ : Note)
            = noteD
        have hq4 : Quiet (deliver st3 noteD) := q3
        obtain ⟨s5, q5, x5⟩ := suf_runAtoms env suf (deliver st3 noteD) hsuf hq4
        generalize runAtoms env (deliver st3 noteD) suf = st5 at s5 q5 x5
        obtain ⟨ex1, hx1, n1⟩ := x3
        obtain ⟨ex2, hx2, n2⟩ := x5
        -- all deliveries of the run
        have hevs : st5.evs = ⟨noteW.name, noteW.kind, noteW.sj, noteW.old, noteW.new, noteW.obs, st1.store⟩ ::
            (ex1 ++ ⟨noteD.name, noteD.kind, noteD.sj, noteD.old, noteD.new, noteD.obs, st3.store⟩ :: ex2) := by
          rw [hx2]
          simp only [deliver, hx1, e1, init, List.nil_append, List.append_assoc, List.cons_append]
        intro pre' ev post' hsplit hk
        rw [hevs] at hsplit
        have hrest : ∀ x ∈ ex1 ++ (⟨noteD.name, noteD.kind, noteD.sj, noteD.old, noteD.new, noteD.obs, st3.store⟩ : Ev) :: ex2,
            x.kind ≠ .will := by
          intro x hx
          simp only [List.mem_append, List.mem_cons] at hx
          rcases hx with hx | rfl | hx
          · exact n1 x hx
          · rw [← hnD]; simp
          · exact n2 x hx
        obtain ⟨_, rfl, rfl⟩ := will_is_head hsplit hk hrest
        refine ⟨?_, ⟨noteD.name, noteD.kind, noteD.sj, noteD.old, noteD.new, noteD.obs, st3.store⟩, by simp, ?_, ?_, ?_⟩
        · simp only [Ev.now, Ev.before, s1, init]
        · rw [← hnD]
        · rw [← hnW, ← hnD]; exact hpair
        · simp only [Ev.getterIn, s5, deliver]
      · -- the method returned or raised before the will: nothing is delivered
        rw [stepA_halted env st1 _ hr, runAtoms_halted env st1 mid hr, stepA_halted env st1 _ hr,
          runAtoms_halted env st1 suf hr]
        intro pre' ev post' hsplit
        rw [e1] at hsplit
        simp [init] at hsplit
    · simp at h
  · simp at h

/-- soundness of the Will/Did criterion -/
theorem willDid_of_ok (e : Entry) (h : willDidOk e = true) : WillDid e := by
  unfold willDidOk at h
  simp only [Bool.or_eq_true] at h
  rcases h with h | h
  · exact willDid_of_noWill e h
  · cases hfa : flatAtoms e.body with
    | none => simp [hfa] at h
    | some as =>
      simp only [hfa] at h
      intro env σ
      have := willDidRun_of_straight env σ as h
      unfold runOp
      rw [flatAtoms_eq hfa, run_A]
      exact this

end Setters
end DefconModel
