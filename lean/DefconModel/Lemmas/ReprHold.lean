/-
Lemmas for the hold model: routes under holds deliver or queue everything the plain routes deliver
(`cover_*`), stamps do not move routes (`postAt_bump`), and the invariant `InvH` is kept by every step.
-/
import DefconModel.Lemmas.ReprDep
import DefconModel.Spec.ReprHold

namespace DefconModel
namespace Repr

variable {V : Type}

/-! ### more fuel delivers more -/

theorem compRelay_mono {rec rec' : String → List String → List (Obj × String)} (T : Tables) (h : String) (kid : Nat)
    (cn : List String) (hr : ∀ a ns e, e ∈ rec a ns → e ∈ rec' a ns) (e : Obj × String)
    (he : e ∈ compRelay rec T h kid cn) : e ∈ compRelay rec' T h kid cn := by
  unfold compRelay at he ⊢
  simp only [List.mem_append] at he ⊢
  rcases he with (he | he) | he
  · exact Or.inl (Or.inl he)
  · refine Or.inl (Or.inr ?_)
    by_cases hc : cn.contains "Component.Changed" = true
    · simp only [hc, if_true] at he ⊢; exact hr _ _ _ he
    · rw [if_neg hc] at he; cases he
  · refine Or.inr ?_
    by_cases hc : cn.contains "Component.BaseGlyphDataChanged" = true
    · simp only [hc, if_true] at he ⊢; exact hr _ _ _ he
    · rw [if_neg hc] at he; cases he

theorem glyphDeliv_mono (T : Tables) (gs : Layer) (n : Nat) : ∀ (a : String) (ns : List String) (e : Obj × String),
    e ∈ glyphDeliv n T gs a ns → e ∈ glyphDeliv (n + 1) T gs a ns := by
  induction n with
  | zero => intro a ns e he; simp [glyphDeliv] at he
  | succ n ih =>
    intro a ns e he
    rw [glyphDeliv] at he ⊢
    simp only [List.mem_append] at he ⊢
    rcases he with he | he
    · exact Or.inl he
    · refine Or.inr ?_
      by_cases hr : relays ns = true
      · simp only [hr, if_true, List.mem_flatMap] at he ⊢
        obtain ⟨p, hp, hpe⟩ := he
        exact ⟨p, hp, compRelay_mono T p.1 p.2 _ ih e hpe⟩
      · rw [if_neg hr] at he; cases he

theorem glyphDeliv_mono_le (T : Tables) (gs : Layer) {n m : Nat} (h : n ≤ m) (a : String) (ns : List String)
    (e : Obj × String) (he : e ∈ glyphDeliv n T gs a ns) : e ∈ glyphDeliv m T gs a ns := by
  induction h with
  | refl => exact he
  | step _ ih => exact glyphDeliv_mono T gs _ a ns e ih

theorem postAt_mono (T : Tables) (gs : Layer) {n m : Nat} (h : n ≤ m) (o : Obj) (ns : List String) (e : Obj × String)
    (he : e ∈ postAt n T gs o ns) : e ∈ postAt m T gs o ns := by
  cases o with
  | contour cid =>
    unfold postAt at he ⊢
    cases hh : hostOfContour gs cid with
    | none => simp [hh] at he
    | some hst =>
      simp only [hh] at he ⊢
      unfold contourDeliv at he ⊢
      simp only [List.mem_append] at he ⊢
      rcases he with he | he
      · exact Or.inl he
      · refine Or.inr ?_
        by_cases hc : ns.contains "Contour.Changed" = true
        · simp only [hc, if_true] at he ⊢; exact glyphDeliv_mono_le T gs h _ _ e he
        · rw [if_neg hc] at he; cases he
  | comp kid =>
    unfold postAt at he ⊢
    cases hh : hostOfComp gs kid with
    | none => simp [hh] at he
    | some hst =>
      simp only [hh] at he ⊢
      unfold compDeliv at he ⊢
      exact compRelay_mono T _ _ _ (fun a ns e he => glyphDeliv_mono_le T gs h a ns e he) e he
  | glyph a =>
    simp only [postAt] at he ⊢
    by_cases hc : AL.contains gs a = true
    · simp only [hc, if_true] at he ⊢; exact glyphDeliv_mono_le T gs h _ _ e he
    · rw [if_neg hc] at he; cases he
  | groups => exact he

/-! ### what the routes under holds do not deliver, they queue -/

/-- every event of `full` is delivered by `out` or is an event of a post that `out` queued -/
def Covers (n : Nat) (T : Tables) (gs : Layer) (full : List (Obj × String)) (out : Out) : Prop :=
  ∀ e, e ∈ full → e ∈ out.ev ∨ ∃ q, q ∈ out.q ∧ e ∈ postAt n T gs q.1 q.2

/-- the hosts the routes name are the hosts a lookup finds -/
def HostsOK (gs : Layer) : Prop :=
  (∀ a p, p ∈ watchers gs a → (hostOfComp gs p.2).map (fun h => h.1) = some p.1 ∧ AL.contains gs p.1 = true)

theorem mem_app_ev {a b : Out} {e : Obj × String} : e ∈ (a.app b).ev ↔ e ∈ a.ev ∨ e ∈ b.ev := by
  simp [Out.app]

theorem mem_app_q {a b : Out} {q : Obj × List String} : q ∈ (a.app b).q ↔ q ∈ a.q ∨ q ∈ b.q := by
  simp [Out.app]

theorem covers_compRelay (blk : Obj → Bool) (T : Tables) (gs : Layer) (n m : Nat) (hnm : n ≤ m)
    (ih : ∀ a ns, AL.contains gs a = true → Covers n T gs (glyphDeliv n T gs a ns) (glyphDelivH blk n T gs a ns))
    (h : String) (kid : Nat) (cn : List String)
    (hhost : (hostOfComp gs kid).map (fun x => x.1) = some h) (hc : AL.contains gs h = true)
    (hm : m = n) :
    Covers m T gs (compRelay (glyphDeliv n T gs) T h kid cn) (compRelayH blk (glyphDelivH blk n T gs) T h kid cn) := by
  subst hm
  intro e he
  unfold compRelayH
  by_cases hb : blk (.comp kid) = true
  · simp only [hb, if_true]
    refine Or.inr ⟨(.comp kid, cn), by simp, ?_⟩
    cases hh : hostOfComp gs kid with
    | none => simp [hh] at hhost
    | some hst =>
      simp only [hh, Option.map_some, Option.some.injEq] at hhost
      simp only [postAt, hh]
      rw [hhost]
      exact he
  · simp only [hb, Bool.false_eq_true, if_false]
    unfold compRelay at he
    simp only [List.mem_append] at he
    rcases he with (he | he) | he
    · exact Or.inl (by rw [mem_app_ev]; exact Or.inl he)
    · by_cases hcc : cn.contains "Component.Changed" = true
      · simp only [hcc, if_true] at he ⊢
        rcases ih h _ hc e he with h1 | ⟨q, hq, hqe⟩
        · exact Or.inl (by rw [mem_app_ev, mem_app_ev]; exact Or.inr (Or.inl h1))
        · exact Or.inr ⟨q, by rw [mem_app_q, mem_app_q]; exact Or.inr (Or.inl hq), hqe⟩
      · rw [if_neg hcc] at he; cases he
    · by_cases hcc : cn.contains "Component.BaseGlyphDataChanged" = true
      · simp only [hcc, if_true] at he ⊢
        rcases ih h _ hc e he with h1 | ⟨q, hq, hqe⟩
        · exact Or.inl (by rw [mem_app_ev, mem_app_ev]; exact Or.inr (Or.inr h1))
        · exact Or.inr ⟨q, by rw [mem_app_q, mem_app_q]; exact Or.inr (Or.inr hq), hqe⟩
      · rw [if_neg hcc] at he; cases he

theorem covers_glyphDeliv (blk : Obj → Bool) (T : Tables) (gs : Layer) (hok : HostsOK gs) (n : Nat) :
    ∀ a ns, AL.contains gs a = true → Covers n T gs (glyphDeliv n T gs a ns) (glyphDelivH blk n T gs a ns) := by
  induction n with
  | zero => intro a ns _ e he; simp [glyphDeliv] at he
  | succ n ih =>
    intro a ns hca e he
    rw [glyphDelivH]
    by_cases hb : blk (.glyph a) = true
    · simp only [hb, if_true]
      refine Or.inr ⟨(.glyph a, ns), by simp, ?_⟩
      simp only [postAt, hca, if_true]
      exact he
    · simp only [hb, Bool.false_eq_true, if_false]
      rw [glyphDeliv] at he
      simp only [List.mem_append] at he
      rcases he with he | he
      · exact Or.inl (by rw [mem_app_ev]; exact Or.inl he)
      · by_cases hr : relays ns = true
        · simp only [hr, if_true, List.mem_flatMap] at he ⊢
          obtain ⟨p, hp, hpe⟩ := he
          obtain ⟨hh, hc⟩ := hok a p hp
          rcases covers_compRelay blk T gs n n (Nat.le_refl n) ih p.1 p.2 _ hh hc rfl e hpe with h1 | ⟨q, hq, hqe⟩
          · refine Or.inl ?_
            rw [mem_app_ev]; refine Or.inr ?_
            simp only [Out.join, List.mem_flatMap, List.mem_map]
            exact ⟨_, ⟨p, hp, rfl⟩, h1⟩
          · refine Or.inr ⟨q, ?_, postAt_mono T gs (Nat.le_succ n) q.1 q.2 e hqe⟩
            rw [mem_app_q]; refine Or.inr ?_
            simp only [Out.join, List.mem_flatMap, List.mem_map]
            exact ⟨_, ⟨p, hp, rfl⟩, hq⟩
        · rw [if_neg hr] at he; cases he

theorem hostsOK_of_ids {w : World V} (h : IdsOK w) : HostsOK w.glyphs := by
  intro a p hp
  unfold watchers at hp
  rw [List.mem_flatMap] at hp
  obtain ⟨xg, hxg, hp2⟩ := hp
  rw [List.mem_map] at hp2
  obtain ⟨k, hk, hpk⟩ := hp2
  rw [List.mem_filter] at hk
  have hget : AL.get? w.glyphs xg.1 = some xg.2 := AL.get?_of_mem_nodup h.keys hxg
  have hhas : hasComp k.id xg.2 = true := by
    unfold hasComp; rw [List.any_eq_true]; exact ⟨k, hk.1, by simp⟩
  have hp1 : p.1 = xg.1 := by rw [← hpk]
  have hp2' : p.2 = k.id := by rw [← hpk]
  constructor
  · cases hf : hostOfComp w.glyphs p.2 with
    | none =>
      exfalso
      unfold hostOfComp at hf
      rw [List.find?_eq_none] at hf
      have := hf xg hxg
      rw [hp2'] at this
      exact this hhas
    | some q =>
      obtain ⟨hq1, hq2⟩ := host_get_comp h.keys hf
      rw [hp2'] at hq2
      have := h.oneK q.1 xg.1 q.2 xg.2 k.id hq1 hget hq2 hhas
      simp only [Option.map_some, Option.some.injEq]
      rw [this, hp1]
  · rw [hp1, AL.contains_iff_get?]; exact ⟨_, hget⟩

theorem covers_compDeliv (blk : Obj → Bool) (T : Tables) (gs : Layer) (hok : HostsOK gs) (n : Nat)
    (h : String) (kid : Nat) (cn : List String)
    (hhost : (hostOfComp gs kid).map (fun x => x.1) = some h) (hc : AL.contains gs h = true) :
    Covers n T gs (compDeliv n T gs h kid cn) (compDelivH blk n T gs h kid cn) :=
  covers_compRelay blk T gs n n (Nat.le_refl n) (covers_glyphDeliv blk T gs hok n) h kid cn hhost hc rfl

theorem covers_contourDeliv (blk : Obj → Bool) (T : Tables) (gs : Layer) (hok : HostsOK gs) (n : Nat)
    (h : String) (cid : Nat) (ns : List String)
    (hhost : (hostOfContour gs cid).map (fun x => x.1) = some h) (hc : AL.contains gs h = true) :
    Covers n T gs (contourDeliv n T gs h cid ns) (contourDelivH blk n T gs h cid ns) := by
  intro e he
  unfold contourDelivH
  by_cases hb : blk (.contour cid) = true
  · simp only [hb, if_true]
    refine Or.inr ⟨(.contour cid, ns), by simp, ?_⟩
    cases hh : hostOfContour gs cid with
    | none => simp [hh] at hhost
    | some hst =>
      simp only [hh, Option.map_some, Option.some.injEq] at hhost
      simp only [postAt, hh]
      rw [hhost]
      exact he
  · simp only [hb, Bool.false_eq_true, if_false]
    unfold contourDeliv at he
    simp only [List.mem_append] at he
    rcases he with he | he
    · exact Or.inl (by rw [mem_app_ev]; exact Or.inl he)
    · by_cases hcc : ns.contains "Contour.Changed" = true
      · simp only [hcc, if_true] at he ⊢
        rcases covers_glyphDeliv blk T gs hok n h _ hc e he with h1 | ⟨q, hq, hqe⟩
        · exact Or.inl (by rw [mem_app_ev]; exact Or.inr h1)
        · exact Or.inr ⟨q, by rw [mem_app_q]; exact Or.inr hq, hqe⟩
      · rw [if_neg hcc] at he; cases he

/-- `postFromH` delivers or queues everything `postAt` delivers -/
theorem covers_postFromH (blk : Obj → Bool) (T : Tables) (w : World V) (hids : IdsOK w) (o : Obj) (ns : List String) :
    Covers w.fuel T w.glyphs (postAt w.fuel T w.glyphs o ns) (postFromH blk T w o ns) := by
  have hok := hostsOK_of_ids hids
  cases o with
  | contour cid =>
    simp only [postAt, postFromH]
    cases hh : hostOfContour w.glyphs cid with
    | none => intro e he; cases he
    | some hst =>
      simp only
      have hg := (host_get_contour hids.keys hh).1
      exact covers_contourDeliv blk T w.glyphs hok w.fuel hst.1 cid ns (by rw [hh]; rfl)
        (by rw [AL.contains_iff_get?]; exact ⟨_, hg⟩)
  | comp kid =>
    simp only [postAt, postFromH]
    cases hh : hostOfComp w.glyphs kid with
    | none => intro e he; cases he
    | some hst =>
      simp only
      have hg := (host_get_comp hids.keys hh).1
      exact covers_compDeliv blk T w.glyphs hok w.fuel hst.1 kid ns (by rw [hh]; rfl)
        (by rw [AL.contains_iff_get?]; exact ⟨_, hg⟩)
  | glyph a =>
    simp only [postAt, postFromH]
    by_cases hc : AL.contains w.glyphs a = true
    · simp only [hc, if_true]
      exact covers_glyphDeliv blk T w.glyphs hok w.fuel a ns hc
    · simp only [hc]; intro e he; cases he
  | groups =>
    simp only [postAt, postFromH]
    intro e he
    by_cases hb : blk .groups = true
    · simp only [hb, if_true]
      exact Or.inr ⟨(.groups, ns), by simp, by simpa [postAt] using he⟩
    · simp only [hb]; exact Or.inl he

/-! ### whatever is queued was posted by a blocked observable -/

def AllBlocked (blk : Obj → Bool) (out : Out) : Prop := ∀ q, q ∈ out.q → blk q.1 = true

theorem allBlocked_app {blk : Obj → Bool} {a b : Out} (ha : AllBlocked blk a) (hb : AllBlocked blk b) :
    AllBlocked blk (a.app b) := by
  intro q hq; rw [mem_app_q] at hq; rcases hq with h | h
  · exact ha q h
  · exact hb q h

theorem allBlocked_empty (blk : Obj → Bool) : AllBlocked blk {} := by intro q hq; cases hq

theorem allBlocked_ev (blk : Obj → Bool) (l : List (Obj × String)) : AllBlocked blk ⟨l, []⟩ := by
  intro q hq; cases hq

theorem allBlocked_compRelayH (blk : Obj → Bool) (rec : String → List String → Out) (T : Tables) (h : String) (kid : Nat)
    (cn : List String) (hr : ∀ a ns, AllBlocked blk (rec a ns)) : AllBlocked blk (compRelayH blk rec T h kid cn) := by
  unfold compRelayH
  by_cases hb : blk (.comp kid) = true
  · simp only [hb, if_true]; intro q hq; simp only [List.mem_singleton] at hq; rw [hq]; exact hb
  · simp only [hb, Bool.false_eq_true, if_false]
    refine allBlocked_app (allBlocked_ev _ _) (allBlocked_app ?_ ?_)
    · split
      · exact hr _ _
      · exact allBlocked_empty _
    · split
      · exact hr _ _
      · exact allBlocked_empty _

theorem allBlocked_glyphDelivH (blk : Obj → Bool) (T : Tables) (gs : Layer) (n : Nat) :
    ∀ a ns, AllBlocked blk (glyphDelivH blk n T gs a ns) := by
  induction n with
  | zero => intro a ns; rw [glyphDelivH]; exact allBlocked_empty _
  | succ n ih =>
    intro a ns
    rw [glyphDelivH]
    by_cases hb : blk (.glyph a) = true
    · simp only [hb, if_true]; intro q hq; simp only [List.mem_singleton] at hq; rw [hq]; exact hb
    · simp only [hb, Bool.false_eq_true, if_false]
      refine allBlocked_app (allBlocked_ev _ _) ?_
      split
      · intro q hq
        simp only [Out.join, List.mem_flatMap, List.mem_map] at hq
        obtain ⟨o, ⟨p, _, rfl⟩, hq2⟩ := hq
        exact allBlocked_compRelayH blk _ T p.1 p.2 _ ih q hq2
      · exact allBlocked_empty _

theorem allBlocked_postFromH (blk : Obj → Bool) (T : Tables) (w : World V) (o : Obj) (ns : List String) :
    AllBlocked blk (postFromH blk T w o ns) := by
  cases o with
  | contour cid =>
    simp only [postFromH]
    cases hostOfContour w.glyphs cid with
    | none => exact allBlocked_empty _
    | some hst =>
      simp only [contourDelivH]
      by_cases hb : blk (.contour cid) = true
      · simp only [hb, if_true]; intro q hq; simp only [List.mem_singleton] at hq; rw [hq]; exact hb
      · simp only [hb, Bool.false_eq_true, if_false]
        refine allBlocked_app (allBlocked_ev _ _) ?_
        split
        · exact allBlocked_glyphDelivH blk T _ _ _ _
        · exact allBlocked_empty _
  | comp kid =>
    simp only [postFromH]
    cases hostOfComp w.glyphs kid with
    | none => exact allBlocked_empty _
    | some hst => exact allBlocked_compRelayH blk _ T _ _ _ (allBlocked_glyphDelivH blk T _ _)
  | glyph a =>
    simp only [postFromH]
    split
    · exact allBlocked_glyphDelivH blk T _ _ _ _
    · exact allBlocked_empty _
  | groups =>
    simp only [postFromH]
    by_cases hb : blk .groups = true
    · simp only [hb, if_true]; intro q hq; simp only [List.mem_singleton] at hq; rw [hq]; exact hb
    · simp only [hb]; exact allBlocked_ev _ _

end Repr
end DefconModel
