/-
Lemmas for the hold model: routes under holds deliver or queue everything the plain routes deliver
(`cover_*`), stamps do not move routes (`postAt_bump`), and the invariant `InvH` is kept by every step.
-/
import DefconModel.Lemmas.ReprDep
import DefconModel.Spec.ReprHold

namespace DefconModel
namespace Repr

variable {V : Type}

/-! ### more fuel delivers more -/

theorem compRelay_mono {rec rec' : String → List String → List (Obj × String)} (T : Tables) (h : String) (kid : Nat)
    (cn : List String) (hr : ∀ a ns e, e ∈ rec a ns → e ∈ rec' a ns) (e : Obj × String)
    (he : e ∈ compRelay rec T h kid cn) : e ∈ compRelay rec' T h kid cn := by
  unfold compRelay at he ⊢
  simp only [List.mem_append] at he ⊢
  rcases he with (he | he) | he
  · exact Or.inl (Or.inl he)
  · refine Or.inl (Or.inr ?_)
    by_cases hc : cn.contains "Component.Changed" = true
    · simp only [hc, if_true] at he ⊢; exact hr _ _ _ he
    · rw [if_neg hc] at he; cases he
  · refine Or.inr ?_
    by_cases hc : cn.contains "Component.BaseGlyphDataChanged" = true
    · simp only [hc, if_true] at he ⊢; exact hr _ _ _ he
    · rw [if_neg hc] at he; cases he

theorem glyphDeliv_mono (T : Tables) (gs : Layer) (n : Nat) : ∀ (a : String) (ns : List String) (e : Obj × String),
    e ∈ glyphDeliv n T gs a ns → e ∈ glyphDeliv (n + 1) T gs a ns := by
  induction n with
  | zero => intro a ns e he; simp [glyphDeliv] at he
  | succ n ih =>
    intro a ns e he
    rw [glyphDeliv] at he ⊢
    simp only [List.mem_append] at he ⊢
    rcases he with he | he
    · exact Or.inl he
    · refine Or.inr ?_
      by_cases hr : relays ns = true
      · simp only [hr, if_true, List.mem_flatMap] at he ⊢
        obtain ⟨p, hp, hpe⟩ := he
        exact ⟨p, hp, compRelay_mono T p.1 p.2 _ ih e hpe⟩
      · rw [if_neg hr] at he; cases he

theorem glyphDeliv_mono_le (T : Tables) (gs : Layer) {n m : Nat} (h : n ≤ m) (a : String) (ns : List String)
    (e : Obj × String) (he : e ∈ glyphDeliv n T gs a ns) : e ∈ glyphDeliv m T gs a ns := by
  induction h with
  | refl => exact he
  | step _ ih => exact glyphDeliv_mono T gs _ a ns e ih

theorem postAt_mono (T : Tables) (gs : Layer) {n m : Nat} (h : n ≤ m) (o : Obj) (ns : List String) (e : Obj × String)
    (he : e ∈ postAt n T gs o ns) : e ∈ postAt m T gs o ns := by
  cases o with
  | contour cid =>
    unfold postAt at he ⊢
    cases hh : hostOfContour gs cid with
    | none => simp [hh] at he
    | some hst =>
      simp only [hh] at he ⊢
      unfold contourDeliv at he ⊢
      simp only [List.mem_append] at he ⊢
      rcases he with he | he
      · exact Or.inl he
      · refine Or.inr ?_
        by_cases hc : ns.contains "Contour.Changed" = true
        · simp only [hc, if_true] at he ⊢; exact glyphDeliv_mono_le T gs h _ _ e he
        · rw [if_neg hc] at he; cases he
  | comp kid =>
    unfold postAt at he ⊢
    cases hh : hostOfComp gs kid with
    | none => simp [hh] at he
    | some hst =>
      simp only [hh] at he ⊢
      unfold compDeliv at he ⊢
      exact compRelay_mono T _ _ _ (fun a ns e he => glyphDeliv_mono_le T gs h a ns e he) e he
  | glyph a =>
    simp only [postAt] at he ⊢
    by_cases hc : AL.contains gs a = true
    · simp only [hc, if_true] at he ⊢; exact glyphDeliv_mono_le T gs h _ _ e he
    · rw [if_neg hc] at he; cases he
  | groups => exact he

/-! ### what the routes under holds do not deliver, they queue -/

/-- every event of `full` is delivered by `out` or is an event of a post that `out` queued -/
def Covers (n : Nat) (T : Tables) (gs : Layer) (full : List (Obj × String)) (out : Out) : Prop :=
  ∀ e, e ∈ full → e ∈ out.ev ∨ ∃ q, q ∈ out.q ∧ e ∈ postAt n T gs q.1 q.2

/-- the hosts the routes name are the hosts a lookup finds -/
def HostsOK (gs : Layer) : Prop :=
  (∀ a p, p ∈ watchers gs a → (hostOfComp gs p.2).map (fun h => h.1) = some p.1 ∧ AL.contains gs p.1 = true)

theorem mem_app_ev {a b : Out} {e : Obj × String} : e ∈ (a.app b).ev ↔ e ∈ a.ev ∨ e ∈ b.ev := by
  simp [Out.app]

theorem mem_app_q {a b : Out} {q : Obj × List String} : q ∈ (a.app b).q ↔ q ∈ a.q ∨ q ∈ b.q := by
  simp [Out.app]

theorem covers_compRelay (blk : Obj → Bool) (T : Tables) (gs : Layer) (n m : Nat) (hnm : n ≤ m)
    (ih : ∀ a ns, AL.contains gs a = true → Covers n T gs (glyphDeliv n T gs a ns) (glyphDelivH blk n T gs a ns))
    (h : String) (kid : Nat) (cn : List String)
    (hhost : (hostOfComp gs kid).map (fun x => x.1) = some h) (hc : AL.contains gs h = true)
    (hm : m = n) :
    Covers m T gs (compRelay (glyphDeliv n T gs) T h kid cn) (compRelayH blk (glyphDelivH blk n T gs) T h kid cn) := by
  subst hm
  intro e he
  unfold compRelayH
  by_cases hb : blk (.comp kid) = true
  · simp only [hb, if_true]
    refine Or.inr ⟨(.comp kid, cn), by simp, ?_⟩
    cases hh : hostOfComp gs kid with
    | none => simp [hh] at hhost
    | some hst =>
      simp only [hh, Option.map_some, Option.some.injEq] at hhost
      simp only [postAt, hh]
      rw [hhost]
      exact he
  · simp only [hb, Bool.false_eq_true, if_false]
    unfold compRelay at he
    simp only [List.mem_append] at he
    rcases he with (he | he) | he
    · exact Or.inl (by rw [mem_app_ev]; exact Or.inl he)
    · by_cases hcc : cn.contains "Component.Changed" = true
      · simp only [hcc, if_true] at he ⊢
        rcases ih h _ hc e he with h1 | ⟨q, hq, hqe⟩
        · exact Or.inl (by rw [mem_app_ev, mem_app_ev]; exact Or.inr (Or.inl h1))
        · exact Or.inr ⟨q, by rw [mem_app_q, mem_app_q]; exact Or.inr (Or.inl hq), hqe⟩
      · rw [if_neg hcc] at he; cases he
    · by_cases hcc : cn.contains "Component.BaseGlyphDataChanged" = true
      · simp only [hcc, if_true] at he ⊢
        rcases ih h _ hc e he with h1 | ⟨q, hq, hqe⟩
        · exact Or.inl (by rw [mem_app_ev, mem_app_ev]; exact Or.inr (Or.inr h1))
        · exact Or.inr ⟨q, by rw [mem_app_q, mem_app_q]; exact Or.inr (Or.inr hq), hqe⟩
      · rw [if_neg hcc] at he; cases he

theorem covers_glyphDeliv (blk : Obj → Bool) (T : Tables) (gs : Layer) (hok : HostsOK gs) (n : Nat) :
    ∀ a ns, AL.contains gs a = true → Covers n T gs (glyphDeliv n T gs a ns) (glyphDelivH blk n T gs a ns) := by
  induction n with
  | zero => intro a ns _ e he; simp [glyphDeliv] at he
  | succ n ih =>
    intro a ns hca e he
    rw [glyphDelivH]
    by_cases hb : blk (.glyph a) = true
    · simp only [hb, if_true]
      refine Or.inr ⟨(.glyph a, ns), by simp, ?_⟩
      simp only [postAt, hca, if_true]
      exact he
    · simp only [hb, Bool.false_eq_true, if_false]
      rw [glyphDeliv] at he
      simp only [List.mem_append] at he
      rcases he with he | he
      · exact Or.inl (by rw [mem_app_ev]; exact Or.inl he)
      · by_cases hr : relays ns = true
        · simp only [hr, if_true, List.mem_flatMap] at he ⊢
          obtain ⟨p, hp, hpe⟩ := he
          obtain ⟨hh, hc⟩ := hok a p hp
          rcases covers_compRelay blk T gs n n (Nat.le_refl n) ih p.1 p.2 _ hh hc rfl e hpe with h1 | ⟨q, hq, hqe⟩
          · refine Or.inl ?_
            rw [mem_app_ev]; refine Or.inr ?_
            simp only [Out.join, List.mem_flatMap, List.mem_map]
            exact ⟨_, ⟨p, hp, rfl⟩, h1⟩
          · refine Or.inr ⟨q, ?_, postAt_mono T gs (Nat.le_succ n) q.1 q.2 e hqe⟩
            rw [mem_app_q]; refine Or.inr ?_
            simp only [Out.join, List.mem_flatMap, List.mem_map]
            exact ⟨_, ⟨p, hp, rfl⟩, hq⟩
        · rw [if_neg hr] at he; cases he

theorem hostsOK_of_ids {w : World V} (h : IdsOK w) : HostsOK w.glyphs := by
  intro a p hp
  unfold watchers at hp
  rw [List.mem_flatMap] at hp
  obtain ⟨xg, hxg, hp2⟩ := hp
  rw [List.mem_map] at hp2
  obtain ⟨k, hk, hpk⟩ := hp2
  rw [List.mem_filter] at hk
  have hget : AL.get? w.glyphs xg.1 = some xg.2 := AL.get?_of_mem_nodup h.keys hxg
  have hhas : hasComp k.id xg.2 = true := by
    unfold hasComp; rw [List.any_eq_true]; exact ⟨k, hk.1, by simp⟩
  have hp1 : p.1 = xg.1 := by rw [← hpk]
  have hp2' : p.2 = k.id := by rw [← hpk]
  constructor
  · cases hf : hostOfComp w.glyphs p.2 with
    | none =>
      exfalso
      unfold hostOfComp at hf
      rw [List.find?_eq_none] at hf
      have := hf xg hxg
      rw [hp2'] at this
      exact this hhas
    | some q =>
      obtain ⟨hq1, hq2⟩ := host_get_comp h.keys hf
      rw [hp2'] at hq2
      have := h.oneK q.1 xg.1 q.2 xg.2 k.id hq1 hget hq2 hhas
      simp only [Option.map_some, Option.some.injEq]
      rw [this, hp1]
  · rw [hp1, AL.contains_iff_get?]; exact ⟨_, hget⟩

theorem covers_compDeliv (blk : Obj → Bool) (T : Tables) (gs : Layer) (hok : HostsOK gs) (n : Nat)
    (h : String) (kid : Nat) (cn : List String)
    (hhost : (hostOfComp gs kid).map (fun x => x.1) = some h) (hc : AL.contains gs h = true) :
    Covers n T gs (compDeliv n T gs h kid cn) (compDelivH blk n T gs h kid cn) :=
  covers_compRelay blk T gs n n (Nat.le_refl n) (covers_glyphDeliv blk T gs hok n) h kid cn hhost hc rfl

theorem covers_contourDeliv (blk : Obj → Bool) (T : Tables) (gs : Layer) (hok : HostsOK gs) (n : Nat)
    (h : String) (cid : Nat) (ns : List String)
    (hhost : (hostOfContour gs cid).map (fun x => x.1) = some h) (hc : AL.contains gs h = true) :
    Covers n T gs (contourDeliv n T gs h cid ns) (contourDelivH blk n T gs h cid ns) := by
  intro e he
  unfold contourDelivH
  by_cases hb : blk (.contour cid) = true
  · simp only [hb, if_true]
    refine Or.inr ⟨(.contour cid, ns), by simp, ?_⟩
    cases hh : hostOfContour gs cid with
    | none => simp [hh] at hhost
    | some hst =>
      simp only [hh, Option.map_some, Option.some.injEq] at hhost
      simp only [postAt, hh]
      rw [hhost]
      exact he
  · simp only [hb, Bool.false_eq_true, if_false]
    unfold contourDeliv at he
    simp only [List.mem_append] at he
    rcases he with he | he
    · exact Or.inl (by rw [mem_app_ev]; exact Or.inl he)
    · by_cases hcc : ns.contains "Contour.Changed" = true
      · simp only [hcc, if_true] at he ⊢
        rcases covers_glyphDeliv blk T gs hok n h _ hc e he with h1 | ⟨q, hq, hqe⟩
        · exact Or.inl (by rw [mem_app_ev]; exact Or.inr h1)
        · exact Or.inr ⟨q, by rw [mem_app_q]; exact Or.inr hq, hqe⟩
      · rw [if_neg hcc] at he; cases he

/-- `postFromH` delivers or queues everything `postAt` delivers -/
theorem covers_postFromH (blk : Obj → Bool) (T : Tables) (w : World V) (hids : IdsOK w) (o : Obj) (ns : List String) :
    Covers w.fuel T w.glyphs (postAt w.fuel T w.glyphs o ns) (postFromH blk T w o ns) := by
  have hok := hostsOK_of_ids hids
  cases o with
  | contour cid =>
    simp only [postAt, postFromH]
    cases hh : hostOfContour w.glyphs cid with
    | none => intro e he; cases he
    | some hst =>
      simp only
      have hg := (host_get_contour hids.keys hh).1
      exact covers_contourDeliv blk T w.glyphs hok w.fuel hst.1 cid ns (by rw [hh]; rfl)
        (by rw [AL.contains_iff_get?]; exact ⟨_, hg⟩)
  | comp kid =>
    simp only [postAt, postFromH]
    cases hh : hostOfComp w.glyphs kid with
    | none => intro e he; cases he
    | some hst =>
      simp only
      have hg := (host_get_comp hids.keys hh).1
      exact covers_compDeliv blk T w.glyphs hok w.fuel hst.1 kid ns (by rw [hh]; rfl)
        (by rw [AL.contains_iff_get?]; exact ⟨_, hg⟩)
  | glyph a =>
    simp only [postAt, postFromH]
    by_cases hc : AL.contains w.glyphs a = true
    · simp only [hc, if_true]
      exact covers_glyphDeliv blk T w.glyphs hok w.fuel a ns hc
    · simp only [hc]; intro e he; cases he
  | groups =>
    simp only [postAt, postFromH]
    intro e he
    by_cases hb : blk .groups = true
    · simp only [hb, if_true]
      exact Or.inr ⟨(.groups, ns), by simp, by simpa [postAt] using he⟩
    · simp only [hb]; exact Or.inl he

/-! ### whatever is queued was posted by a blocked observable -/

def AllBlocked (blk : Obj → Bool) (out : Out) : Prop := ∀ q, q ∈ out.q → blk q.1 = true

theorem allBlocked_app {blk : Obj → Bool} {a b : Out} (ha : AllBlocked blk a) (hb : AllBlocked blk b) :
    AllBlocked blk (a.app b) := by
  intro q hq; rw [mem_app_q] at hq; rcases hq with h | h
  · exact ha q h
  · exact hb q h

theorem allBlocked_empty (blk : Obj → Bool) : AllBlocked blk {} := by intro q hq; cases hq

theorem allBlocked_ev (blk : Obj → Bool) (l : List (Obj × String)) : AllBlocked blk ⟨l, []⟩ := by
  intro q hq; cases hq

theorem allBlocked_compRelayH (blk : Obj → Bool) (rec : String → List String → Out) (T : Tables) (h : String) (kid : Nat)
    (cn : List String) (hr : ∀ a ns, AllBlocked blk (rec a ns)) : AllBlocked blk (compRelayH blk rec T h kid cn) := by
  unfold compRelayH
  by_cases hb : blk (.comp kid) = true
  · simp only [hb, if_true]; intro q hq; simp only [List.mem_singleton] at hq; rw [hq]; exact hb
  · simp only [hb, Bool.false_eq_true, if_false]
    refine allBlocked_app (allBlocked_ev _ _) (allBlocked_app ?_ ?_)
    · split
      · exact hr _ _
      · exact allBlocked_empty _
    · split
      · exact hr _ _
      · exact allBlocked_empty _

theorem allBlocked_glyphDelivH (blk : Obj → Bool) (T : Tables) (gs : Layer) (n : Nat) :
    ∀ a ns, AllBlocked blk (glyphDelivH blk n T gs a ns) := by
  induction n with
  | zero => intro a ns; rw [glyphDelivH]; exact allBlocked_empty _
  | succ n ih =>
    intro a ns
    rw [glyphDelivH]
    by_cases hb : blk (.glyph a) = true
    · simp only [hb, if_true]; intro q hq; simp only [List.mem_singleton] at hq; rw [hq]; exact hb
    · simp only [hb, Bool.false_eq_true, if_false]
      refine allBlocked_app (allBlocked_ev _ _) ?_
      split
      · intro q hq
        simp only [Out.join, List.mem_flatMap, List.mem_map] at hq
        obtain ⟨o, ⟨p, _, rfl⟩, hq2⟩ := hq
        exact allBlocked_compRelayH blk _ T p.1 p.2 _ ih q hq2
      · exact allBlocked_empty _

theorem allBlocked_postFromH (blk : Obj → Bool) (T : Tables) (w : World V) (o : Obj) (ns : List String) :
    AllBlocked blk (postFromH blk T w o ns) := by
  cases o with
  | contour cid =>
    simp only [postFromH]
    cases hostOfContour w.glyphs cid with
    | none => exact allBlocked_empty _
    | some hst =>
      simp only [contourDelivH]
      by_cases hb : blk (.contour cid) = true
      · simp only [hb, if_true]; intro q hq; simp only [List.mem_singleton] at hq; rw [hq]; exact hb
      · simp only [hb, Bool.false_eq_true, if_false]
        refine allBlocked_app (allBlocked_ev _ _) ?_
        split
        · exact allBlocked_glyphDelivH blk T _ _ _ _
        · exact allBlocked_empty _
  | comp kid =>
    simp only [postFromH]
    cases hostOfComp w.glyphs kid with
    | none => exact allBlocked_empty _
    | some hst => exact allBlocked_compRelayH blk _ T _ _ _ (allBlocked_glyphDelivH blk T _ _)
  | glyph a =>
    simp only [postFromH]
    split
    · exact allBlocked_glyphDelivH blk T _ _ _ _
    · exact allBlocked_empty _
  | groups =>
    simp only [postFromH]
    by_cases hb : blk .groups = true
    · simp only [hb, if_true]; intro q hq; simp only [List.mem_singleton] at hq; rw [hq]; exact hb
    · simp only [hb]; exact allBlocked_ev _ _

/-! ### stamps do not move routes -/

theorem glyphDeliv_congr (T : Tables) (gs gs' : Layer) (hw : ∀ a, watchers gs' a = watchers gs a) (n : Nat) :
    ∀ a ns, glyphDeliv n T gs' a ns = glyphDeliv n T gs a ns := by
  induction n with
  | zero => intro a ns; rfl
  | succ n ih =>
    intro a ns
    have hf : glyphDeliv n T gs' = glyphDeliv n T gs := funext fun a => funext fun ns => ih a ns
    rw [glyphDeliv, glyphDeliv, hw a, hf]

/-- what the routes read of a component: id, base glyph, registration -/
def skel (k : CompS) : Nat × Option String × Watch := (k.id, k.base, k.watch)

def wOf (a name : String) (comps : List CompS) : List (String × Nat) :=
  (comps.filter (watchesBase a)).map fun k => (name, k.id)

theorem wOf_skel (a name : String) : ∀ (c c' : List CompS), c'.map skel = c.map skel → wOf a name c' = wOf a name c := by
  intro c
  induction c with
  | nil => intro c' h; cases c' with
    | nil => rfl
    | cons x r => simp at h
  | cons k r ih =>
    intro c' h
    cases c' with
    | nil => simp at h
    | cons k' r' =>
      simp only [List.map_cons, List.cons.injEq] at h
      obtain ⟨hk, hr⟩ := h
      have := ih r' hr
      unfold wOf at this ⊢
      unfold skel at hk
      simp only [Prod.mk.injEq] at hk
      obtain ⟨h1, h2, h3⟩ := hk
      have hwb : watchesBase a k' = watchesBase a k := by unfold watchesBase; rw [h2, h3]
      simp only [List.filter_cons, hwb]
      cases watchesBase a k with
      | true => simp only [if_true, List.map_cons, h1, this]
      | false => simpa using this

theorem watchers_eq (gs : Layer) (a : String) : watchers gs a = gs.flatMap fun p => wOf a p.1 p.2.comps := rfl

theorem watchers_set (gs : Layer) (h : String) (g g' : GlyphS) (hg : AL.get? gs h = some g)
    (hs : g'.comps.map skel = g.comps.map skel) (a : String) : watchers (AL.set gs h g') a = watchers gs a := by
  rw [watchers_eq, watchers_eq]
  induction gs with
  | nil => simp at hg
  | cons p r ih =>
    obtain ⟨k', v'⟩ := p
    by_cases h1 : k' = h
    · subst h1
      simp only [AL.get?_cons, if_true, Option.some.injEq] at hg
      subst hg
      simp only [AL.set, if_true, List.flatMap_cons]
      rw [wOf_skel a k' _ _ hs]
    · simp only [AL.get?_cons, h1, if_false] at hg
      simp only [AL.set, h1, if_false, List.flatMap_cons]
      rw [ih hg]

theorem hostName_set (gs : Layer) (h : String) (g g' : GlyphS) (pred : GlyphS → Bool)
    (hn : (AL.keys gs).Nodup) (hg : AL.get? gs h = some g) (hp : pred g' = pred g) :
    ((AL.set gs h g').find? (fun p => pred p.2)).map (fun p => p.1) = (gs.find? (fun p => pred p.2)).map (fun p => p.1) := by
  rw [find?_set_congr gs h g g' pred hn hg hp]
  cases gs.find? (fun p => pred p.2) with
  | none => rfl
  | some p =>
    simp only [Option.map_some]
    by_cases e : p.1 = h <;> simp [e]

/-- a glyph record replaced by one with the same children (ids, base names, registrations): the routes are the same -/
theorem postAt_set (n : Nat) (T : Tables) (gs : Layer) (h : String) (g g' : GlyphS)
    (hn : (AL.keys gs).Nodup) (hg : AL.get? gs h = some g)
    (hs : g'.comps.map skel = g.comps.map skel)
    (hc : ∀ cid, hasContour cid g' = hasContour cid g) (hk : ∀ kid, hasComp kid g' = hasComp kid g)
    (o : Obj) (ns : List String) : postAt n T (AL.set gs h g') o ns = postAt n T gs o ns := by
  have hgd := glyphDeliv_congr T gs (AL.set gs h g') (watchers_set gs h g g' hg hs)
  cases o with
  | contour cid =>
    simp only [postAt]
    have := hostName_set gs h g g' (hasContour cid) hn hg (hc cid)
    unfold hostOfContour
    cases h1 : (AL.set gs h g').find? (fun p => hasContour cid p.2) with
    | none =>
      cases h2 : gs.find? (fun p => hasContour cid p.2) with
      | none => rfl
      | some q => rw [h1, h2] at this; simp at this
    | some q1 =>
      cases h2 : gs.find? (fun p => hasContour cid p.2) with
      | none => rw [h1, h2] at this; simp at this
      | some q2 =>
        rw [h1, h2] at this
        simp only [Option.map_some, Option.some.injEq] at this
        simp only [contourDeliv, this, hgd]
  | comp kid =>
    simp only [postAt]
    have := hostName_set gs h g g' (hasComp kid) hn hg (hk kid)
    unfold hostOfComp
    cases h1 : (AL.set gs h g').find? (fun p => hasComp kid p.2) with
    | none =>
      cases h2 : gs.find? (fun p => hasComp kid p.2) with
      | none => rfl
      | some q => rw [h1, h2] at this; simp at this
    | some q1 =>
      cases h2 : gs.find? (fun p => hasComp kid p.2) with
      | none => rw [h1, h2] at this; simp at this
      | some q2 =>
        rw [h1, h2] at this
        simp only [Option.map_some, Option.some.injEq] at this
        have hf : glyphDeliv n T (AL.set gs h g') = glyphDeliv n T gs := funext fun a => funext fun ns => hgd n a ns
        simp only [compDeliv, this, hf]
  | glyph a =>
    simp only [postAt, AL.contains_set, hgd]
    by_cases e : h = a
    · subst e
      have : AL.contains gs h = true := by rw [AL.contains_iff_get?]; exact ⟨_, hg⟩
      simp [this]
    · simp [e]
  | groups => rfl

theorem bumpComp_skel (clock : Nat) (cell : CCell) (k : CompS) : skel (bumpComp clock cell k) = skel k := by
  cases cell <;> rfl

theorem postAt_bump (n : Nat) (T : Tables) (w : World V) (hn : (AL.keys w.glyphs).Nodup) (op : Op) (o : Obj)
    (ns : List String) : postAt n T (bumpOf w op).glyphs o ns = postAt n T w.glyphs o ns := by
  cases op with
  | cmut cid meth =>
    simp only [bumpOf]
    cases AL.get? contourMutators meth with
    | none => rfl
    | some cell =>
      cases hh : hostOfContour w.glyphs cid with
      | none =>
        simp only
        by_cases hl : w.looseC.any (fun c => c.id = cid) = true
        · simp only [hl, if_true]; rfl
        · simp only [hl]; rfl
      | some hst =>
        simp only
        obtain ⟨hg, _⟩ := host_get_contour hn hh
        show postAt n T (updGlyph w.glyphs hst.1 _) o ns = _
        rw [updGlyph_eq_set _ hg]
        exact postAt_set n T w.glyphs hst.1 hst.2 (mapContours cid (bumpContour w.clock cell) hst.2) hn hg rfl
          (fun c => hasContour_mapContours cid c _ (bumpContour_id w.clock cell) hst.2) (fun _ => rfl) o ns
  | kmut kid meth =>
    simp only [bumpOf]
    cases AL.get? compMutators meth with
    | none => rfl
    | some cell =>
      cases hh : hostOfComp w.glyphs kid with
      | none =>
        simp only
        by_cases hl : w.looseK.any (fun k => k.id = kid) = true
        · simp only [hl, if_true]; rfl
        · simp only [hl]; rfl
      | some hst =>
        simp only
        obtain ⟨hg, _⟩ := host_get_comp hn hh
        show postAt n T (updGlyph w.glyphs hst.1 _) o ns = _
        rw [updGlyph_eq_set _ hg]
        refine postAt_set n T w.glyphs hst.1 hst.2 (mapComps kid (bumpComp w.clock cell) hst.2) hn hg ?_ (fun _ => rfl)
          (fun k => hasComp_mapComps kid k _ (bumpComp_id w.clock cell) hst.2) o ns
        simp only [mapComps, List.map_map]
        apply List.map_congr_left
        intro k _
        simp only [Function.comp]
        by_cases e : k.id = kid
        · simp only [e, if_true]; exact bumpComp_skel _ _ _
        · simp only [e, if_false]
  | gmut g meth =>
    simp only [bumpOf]
    by_cases hm : glyphMutators.contains meth = true
    · by_cases hg : AL.contains w.glyphs g = true
      · simp only [hm, hg, Bool.not_true, Bool.false_eq_true, if_false]
        obtain ⟨r, hr⟩ := (AL.contains_iff_get? _ _).mp hg
        show postAt n T (updGlyph w.glyphs g _) o ns = _
        rw [updGlyph_eq_set _ hr]
        exact postAt_set n T w.glyphs g r { r with attr := w.clock } hn hr rfl (fun _ => rfl) (fun _ => rfl) o ns
      · simp only [hm, hg, Bool.not_true, Bool.not_false, Bool.false_eq_true, if_false, if_true]
    · simp only [hm, Bool.not_false, if_true]
  | gset meth =>
    simp only [bumpOf]
    by_cases hm : groupsMutators.contains meth = true
    · simp only [hm, Bool.not_true, Bool.false_eq_true, if_false]; rfl
    · simp only [hm, Bool.not_false, if_true]
  | _ => rfl

/-! ### an inner mutator under holds delivers or queues everything it delivers without holds -/

theorem covers_nil (n : Nat) (T : Tables) (gs : Layer) (out : Out) : Covers n T gs [] out := by
  intro e he; cases he

theorem bumpOf_fuel (w : World V) (op : Op) : (bumpOf w op).fuel = w.fuel := by
  cases op with
  | cmut cid meth =>
    simp only [bumpOf]
    cases AL.get? contourMutators meth with
    | none => rfl
    | some cell =>
      cases hostOfContour w.glyphs cid with
      | none =>
        simp only
        by_cases hl : w.looseC.any (fun c => c.id = cid) = true
        · simp only [hl, if_true]; rfl
        · simp only [hl]; rfl
      | some h => rfl
  | kmut kid meth =>
    simp only [bumpOf]
    cases AL.get? compMutators meth with
    | none => rfl
    | some cell =>
      cases hostOfComp w.glyphs kid with
      | none =>
        simp only
        by_cases hl : w.looseK.any (fun k => k.id = kid) = true
        · simp only [hl, if_true]; rfl
        · simp only [hl]; rfl
      | some h => rfl
  | gmut g meth =>
    simp only [bumpOf]
    by_cases hm : glyphMutators.contains meth = true
    · by_cases hg : AL.contains w.glyphs g = true
      · simp only [hm, hg, Bool.not_true, Bool.false_eq_true, if_false]; rfl
      · simp only [hm, hg, Bool.not_true, Bool.not_false, Bool.false_eq_true, if_false, if_true]
    · simp only [hm, Bool.not_false, if_true]
  | gset meth =>
    simp only [bumpOf]
    by_cases hm : groupsMutators.contains meth = true
    · simp only [hm, Bool.not_true, Bool.false_eq_true, if_false]; rfl
    · simp only [hm, Bool.not_false, if_true]
  | _ => rfl

theorem covers_evOfH (blk : Obj → Bool) (T : Tables) (w : World V) (op : Op) (hids : IdsOK w)
    (hids' : IdsOK (bumpOf w op)) :
    Covers w.fuel T (bumpOf w op).glyphs (evOf T w op) (evOfH blk T w op) := by
  have hok := hostsOK_of_ids hids'
  cases op with
  | cmut cid meth =>
    simp only [evOf, evOfH]
    cases hm : AL.get? contourMutators meth with
    | none => exact covers_nil _ _ _ _
    | some cell =>
      cases hh : hostOfContour w.glyphs cid with
      | none => exact covers_nil _ _ _ _
      | some hst =>
        simp only
        obtain ⟨hg, _⟩ := host_get_contour hids.keys hh
        have hgl : (bumpOf w (.cmut cid meth)).glyphs =
            AL.set w.glyphs hst.1 (mapContours cid (bumpContour w.clock cell) hst.2) := by
          simp only [bumpOf, hm, hh]
          show updGlyph w.glyphs hst.1 _ = _
          rw [updGlyph_eq_set _ hg]
        refine covers_contourDeliv blk T _ hok w.fuel hst.1 cid _ ?_ ?_
        · rw [hgl]
          have := hostName_set w.glyphs hst.1 hst.2 (mapContours cid (bumpContour w.clock cell) hst.2) (hasContour cid)
            hids.keys hg (hasContour_mapContours cid cid _ (bumpContour_id w.clock cell) hst.2)
          unfold hostOfContour
          rw [this]
          unfold hostOfContour at hh
          rw [hh]; rfl
        · rw [hgl, AL.contains_set]; simp
  | kmut kid meth =>
    simp only [evOf, evOfH]
    cases hm : AL.get? compMutators meth with
    | none => exact covers_nil _ _ _ _
    | some cell =>
      cases hh : hostOfComp w.glyphs kid with
      | none => exact covers_nil _ _ _ _
      | some hst =>
        simp only
        obtain ⟨hg, _⟩ := host_get_comp hids.keys hh
        have hgl : (bumpOf w (.kmut kid meth)).glyphs =
            AL.set w.glyphs hst.1 (mapComps kid (bumpComp w.clock cell) hst.2) := by
          simp only [bumpOf, hm, hh]
          show updGlyph w.glyphs hst.1 _ = _
          rw [updGlyph_eq_set _ hg]
        refine covers_compDeliv blk T _ hok w.fuel hst.1 kid _ ?_ ?_
        · rw [hgl]
          have := hostName_set w.glyphs hst.1 hst.2 (mapComps kid (bumpComp w.clock cell) hst.2) (hasComp kid)
            hids.keys hg (hasComp_mapComps kid kid _ (bumpComp_id w.clock cell) hst.2)
          unfold hostOfComp
          rw [this]
          unfold hostOfComp at hh
          rw [hh]; rfl
        · rw [hgl, AL.contains_set]; simp
  | gmut g meth =>
    simp only [evOf, evOfH]
    by_cases hm : glyphMutators.contains meth = true
    · by_cases hg : AL.contains w.glyphs g = true
      · simp only [hm, hg, Bool.not_true, Bool.false_eq_true, if_false]
        refine covers_glyphDeliv blk T _ hok w.fuel g _ ?_
        obtain ⟨r, hr⟩ := (AL.contains_iff_get? _ _).mp hg
        have hgl : (bumpOf w (.gmut g meth)).glyphs = AL.set w.glyphs g { r with attr := w.clock } := by
          simp only [bumpOf, hm, hg, Bool.not_true, Bool.false_eq_true, if_false]
          show updGlyph w.glyphs g _ = _
          rw [updGlyph_eq_set _ hr]
        rw [hgl, AL.contains_set]; simp
      · simp only [hm, hg, Bool.not_true, Bool.not_false, Bool.false_eq_true, if_false, if_true]
        exact covers_nil _ _ _ _
    · simp only [hm, Bool.not_false, if_true]
      exact covers_nil _ _ _ _
  | gset meth =>
    simp only [evOf, evOfH]
    by_cases hm : groupsMutators.contains meth = true
    · simp only [hm, Bool.not_true, Bool.false_eq_true, if_false]
      have := covers_postFromH blk T w hids .groups (T.postsOf "Groups" meth)
      have hgl : (bumpOf w (.gset meth)).glyphs = w.glyphs := by
        simp only [bumpOf, hm, Bool.not_true, Bool.false_eq_true, if_false]; rfl
      rw [hgl]
      exact this
    · simp only [hm, Bool.not_false, if_true]
      exact covers_nil _ _ _ _
  | touch o meth =>
    simp only [evOf, evOfH]
    have := covers_postFromH blk T w hids o (T.postsOf o.cls meth)
    have e : postAt w.fuel T w.glyphs o (T.postsOf o.cls meth) = postFrom T w o (T.postsOf o.cls meth) := by
      cases o <;> rfl
    rw [e] at this
    exact this
  | _ => exact covers_nil _ _ _ _

/-! ### stamps do not move objects -/

theorem attached_set_gen (w w1 : World V) (h : String) (g g' : GlyphS) (hn : (AL.keys w.glyphs).Nodup)
    (hg : AL.get? w.glyphs h = some g) (hgs : w1.glyphs = AL.set w.glyphs h g')
    (hc : ∀ cid, hasContour cid g' = hasContour cid g) (hk : ∀ kid, hasComp kid g' = hasComp kid g) (o : Obj) :
    attached w1 o = attached w o := by
  cases o with
  | contour cid => exact attached_contour_set w w1 h g g' hn hg hgs cid (hc cid)
  | comp kid => exact attached_comp_set w w1 h g g' hn hg hgs kid (hk kid)
  | glyph x => exact attached_glyph_set w w1 h g g' hg hgs x
  | groups => rfl

theorem attached_bump (w : World V) (hn : (AL.keys w.glyphs).Nodup) (op : Op) (o : Obj) :
    attached (bumpOf w op) o = attached w o := by
  cases op with
  | cmut cid meth =>
    cases hm : AL.get? contourMutators meth with
    | none => simp only [bumpOf, hm]
    | some cell =>
      cases hh : hostOfContour w.glyphs cid with
      | none =>
        simp only [bumpOf, hm, hh]
        by_cases hl : w.looseC.any (fun c => c.id = cid) = true
        · simp only [hl, if_true]; cases o <;> rfl
        · simp only [hl]; rfl
      | some hst =>
        obtain ⟨hg, _⟩ := host_get_contour hn hh
        refine attached_set_gen w _ hst.1 hst.2 (mapContours cid (bumpContour w.clock cell) hst.2) hn hg ?_
          (fun c => hasContour_mapContours cid c _ (bumpContour_id w.clock cell) hst.2) (fun _ => rfl) o
        simp only [bumpOf, hm, hh]
        show updGlyph w.glyphs hst.1 _ = _
        rw [updGlyph_eq_set _ hg]
  | kmut kid meth =>
    cases hm : AL.get? compMutators meth with
    | none => simp only [bumpOf, hm]
    | some cell =>
      cases hh : hostOfComp w.glyphs kid with
      | none =>
        simp only [bumpOf, hm, hh]
        by_cases hl : w.looseK.any (fun k => k.id = kid) = true
        · simp only [hl, if_true]; cases o <;> rfl
        · simp only [hl]; rfl
      | some hst =>
        obtain ⟨hg, _⟩ := host_get_comp hn hh
        refine attached_set_gen w _ hst.1 hst.2 (mapComps kid (bumpComp w.clock cell) hst.2) hn hg ?_
          (fun _ => rfl) (fun k => hasComp_mapComps kid k _ (bumpComp_id w.clock cell) hst.2) o
        simp only [bumpOf, hm, hh]
        show updGlyph w.glyphs hst.1 _ = _
        rw [updGlyph_eq_set _ hg]
  | gmut g meth =>
    by_cases hm : glyphMutators.contains meth = true
    · by_cases hg : AL.contains w.glyphs g = true
      · obtain ⟨r, hr⟩ := (AL.contains_iff_get? _ _).mp hg
        refine attached_set_gen w _ g r { r with attr := w.clock } hn hr ?_ (fun _ => rfl) (fun _ => rfl) o
        simp only [bumpOf, hm, hg, Bool.not_true, Bool.false_eq_true, if_false]
        show updGlyph w.glyphs g _ = _
        rw [updGlyph_eq_set _ hr]
      · simp only [bumpOf, hm, hg, Bool.not_true, Bool.not_false, Bool.false_eq_true, if_false, if_true]
    · simp only [bumpOf, hm, Bool.not_false, if_true]
  | gset meth =>
    simp only [bumpOf]
    by_cases hm : groupsMutators.contains meth = true
    · simp only [hm, Bool.not_true, Bool.false_eq_true, if_false]; cases o <;> rfl
    · simp only [hm, Bool.not_false, if_true]
  | _ => rfl

/-! ### the invariant under holds -/

theorem owedBy_mono {T : Tables} {w : World V} {Q Q' : List (Obj × List String)} {o : Obj} {nm : String}
    (h : ∀ q, q ∈ Q → q ∈ Q') (ho : OwedBy T w Q o nm) : OwedBy T w Q' o nm := by
  obtain ⟨q, hq, hh⟩ := ho
  exact ⟨q, h q hq, hh⟩

theorem enqueue_nodis (hw : HWorld V) (hnd : hw.disabled = []) (q : List (Obj × List String)) :
    hw.enqueue q = hw.queue ++ q := by
  unfold HWorld.enqueue HWorld.dis
  rw [hnd]
  simp [AL.contains]

/-- the evictions and the queue of one inner mutator under holds keep `InvH` (before its direct cache calls) -/
theorem invH_inner (P : Params V) (T : Tables) (hcov : Coverage T = true) (hw : HWorld V) (op : Op)
    (hin : op.isInner = true) (hinv : InvH P T hw) (hd : Dom hw.w) (hd' : Dom (bumpOf hw.w op)) :
    InvH P T { hw with w := applyDeliv T (bumpOf hw.w op) (evOfH hw.blk T hw.w op).ev,
                       queue := hw.enqueue (evOfH hw.blk T hw.w op).q } := by
  generalize hout : evOfH hw.blk T hw.w op = out
  have hss := sameStruct_applyDeliv T (bumpOf hw.w op) out.ev
  have hcov' := covers_evOfH hw.blk T hw.w op hd.ids hd'.ids
  rw [hout] at hcov'
  have henq := enqueue_nodis hw hinv.nodis out.q
  have hcache : ∀ o, cacheOf (bumpOf hw.w op) o = cacheOf hw.w o := by
    intro o; unfold cacheOf; rw [bumpOf_caches]
  refine ⟨?_, ?_, ?_, ?_, ?_, hinv.nodis⟩
  · intro o nm sk v hv
    simp only at hv ⊢
    rw [get?_applyDeliv_eq, bumpOf_regs] at hv
    by_cases hany : out.ev.any (fun e => hitB T hw.w.regs e o nm) = true
    · simp [hany] at hv
    · simp only [hany, Bool.false_eq_true, if_false] at hv
      rw [hcache] at hv
      have hatt : attached hw.w o = true := by
        cases ha : attached hw.w o with
        | true => rfl
        | false => rw [hinv.loose o ha nm sk] at hv; cases hv
      rcases hinv.coh o nm sk v hv with hf | ⟨q, hq, hqh⟩
      · by_cases hview : viewOf T (bumpOf hw.w op) o nm = viewOf T hw.w o nm
        · left
          rw [hf]; unfold fresh
          rw [viewOf_congr T hss, hview]
        · right
          have hreg := (hinv.creg o nm sk v hv).1
          have hev := dep_event T hcov hw.w op hin hd hd' hinv.rdef o nm hatt hreg hview
          rw [List.any_eq_true] at hev
          obtain ⟨e, he, hhit⟩ := hev
          rcases hcov' e he with h1 | ⟨q, hq, hqe⟩
          · exfalso
            apply hany
            rw [List.any_eq_true]; exact ⟨e, h1, hhit⟩
          · refine ⟨q, by rw [henq]; exact List.mem_append_right _ hq, ?_⟩
            rw [hss.fuel, hss.glyphs, hss.regs, bumpOf_fuel, bumpOf_regs]
            rw [List.any_eq_true]; exact ⟨e, hqe, hhit⟩
      · right
        refine ⟨q, by rw [henq]; exact List.mem_append_left _ hq, ?_⟩
        rw [hss.fuel, hss.glyphs, hss.regs, bumpOf_fuel, bumpOf_regs, postAt_bump _ T hw.w hd.ids.keys]
        exact hqh
  · intro o ha nm sk
    simp only at ha ⊢
    rw [attached_congr hss, attached_bump hw.w hd.ids.keys] at ha
    rw [get?_applyDeliv_eq, hcache, hinv.loose o ha nm sk]
    simp
  · intro o nm sk v hv
    simp only at hv ⊢
    rw [get?_applyDeliv_eq, bumpOf_regs] at hv
    by_cases hany : out.ev.any (fun e => hitB T hw.w.regs e o nm) = true
    · simp [hany] at hv
    · simp only [hany, Bool.false_eq_true, if_false] at hv
      rw [hcache] at hv
      rw [hss.regs, bumpOf_regs]
      exact hinv.creg o nm sk v hv
  · intro r hr
    simp only at hr
    rw [hss.regs, bumpOf_regs] at hr
    exact hinv.rdef r hr
  · intro q hq
    simp only at hq
    rw [henq, List.mem_append] at hq
    rcases hq with hq | hq
    · exact hinv.qheld q hq
    · have hb : AllBlocked hw.blk out := by
        rw [← hout]
        cases op with
        | cmut cid meth =>
          simp only [evOfH]
          cases AL.get? contourMutators meth with
          | none => exact allBlocked_empty _
          | some cell =>
            cases hh : hostOfContour hw.w.glyphs cid with
            | none => exact allBlocked_empty _
            | some hst =>
              simp only [contourDelivH]
              by_cases hb : hw.blk (.contour cid) = true
              · simp only [hb, if_true]; intro q hq; simp only [List.mem_singleton] at hq; rw [hq]; exact hb
              · simp only [hb, Bool.false_eq_true, if_false]
                refine allBlocked_app (allBlocked_ev _ _) ?_
                split
                · exact allBlocked_glyphDelivH _ T _ _ _ _
                · exact allBlocked_empty _
        | kmut kid meth =>
          simp only [evOfH]
          cases AL.get? compMutators meth with
          | none => exact allBlocked_empty _
          | some cell =>
            cases hh : hostOfComp hw.w.glyphs kid with
            | none => exact allBlocked_empty _
            | some hst => exact allBlocked_compRelayH _ _ T _ _ _ (allBlocked_glyphDelivH _ T _ _)
        | gmut g meth =>
          simp only [evOfH]
          split
          · exact allBlocked_empty _
          · split
            · exact allBlocked_empty _
            · exact allBlocked_glyphDelivH _ T _ _ _ _
        | gset meth =>
          simp only [evOfH]
          split
          · exact allBlocked_empty _
          · exact allBlocked_postFromH _ T _ _ _
        | touch o meth => exact allBlocked_postFromH _ T _ _ _
        | _ => cases hin
      have := hb q hq
      unfold HWorld.blk at this
      unfold HWorld.dis at this
      rw [hinv.nodis] at this
      have h2 : hw.held q.1 = true := by simpa [AL.contains] using this
      exact h2

/-! ### cache-only changes -/

theorem owedBy_congr {T : Tables} {w w' : World V} (h : SameStruct w w') {Q : List (Obj × List String)} {o : Obj}
    {nm : String} (ho : OwedBy T w Q o nm) : OwedBy T w' Q o nm := by
  obtain ⟨q, hq, hh⟩ := ho
  refine ⟨q, hq, ?_⟩
  rw [h.fuel, h.glyphs, h.regs]; exact hh

/-- the structure stays, every cached entry was there before or is the fresh value of a registered name on an
attached object: `InvH` stays -/
theorem invH_caches (P : Params V) (T : Tables) (hw : HWorld V) (w' : World V) (hss : SameStruct hw.w w')
    (hinv : InvH P T hw)
    (hent : ∀ o nm sk v, (cacheOf w' o).get? nm sk = some v → (cacheOf hw.w o).get? nm sk = some v ∨
      (v = fresh P T hw.w o nm sk ∧ attached hw.w o = true ∧
        (facsOf T hw.w.regs o.cls).any (fun p => p.1 = nm) = true ∧ (acceptsKw nm = false → sk = none))) :
    InvH P T { hw with w := w' } := by
  refine ⟨?_, ?_, ?_, ?_, hinv.qheld, hinv.nodis⟩
  · intro o nm sk v hv
    simp only at hv ⊢
    rcases hent o nm sk v hv with h | ⟨h, _⟩
    · rcases hinv.coh o nm sk v h with hf | ho
      · left; rw [hf]; unfold fresh; rw [viewOf_congr T hss]
      · right; exact owedBy_congr hss ho
    · left; rw [h]; unfold fresh; rw [viewOf_congr T hss]
  · intro o ha nm sk
    simp only at ha ⊢
    rw [attached_congr hss] at ha
    cases hc : (cacheOf w' o).get? nm sk with
    | none => rfl
    | some v =>
      rcases hent o nm sk v hc with h | ⟨_, h, _⟩
      · rw [hinv.loose o ha nm sk] at h; cases h
      · rw [ha] at h; cases h
  · intro o nm sk v hv
    simp only at hv ⊢
    rw [hss.regs]
    rcases hent o nm sk v hv with h | ⟨_, _, h1, h2⟩
    · exact hinv.creg o nm sk v h
    · exact ⟨h1, h2⟩
  · intro r hr
    simp only at hr
    rw [hss.regs] at hr
    exact hinv.rdef r hr

theorem invH_getOne (P : Params V) (T : Tables) (hw : HWorld V) (o : Obj) (name : String) (sk : SubKey)
    (hinv : InvH P T hw) (hatt : attached hw.w o = true)
    (hreg : (facsOf T hw.w.regs o.cls).any (fun p => p.1 = name) = true) (hkw : acceptsKw name = false → sk = none) :
    InvH P T { hw with w := (getOne P T hw.w o name sk).1 } := by
  refine invH_caches P T hw _ (getOne_struct P T hw.w o name sk) hinv ?_
  intro o' nm sk' v hv
  unfold getOne Cache.lookupOrStore at hv
  cases hc : (cacheOf hw.w o).get? name sk with
  | some v0 =>
    simp only [hc] at hv
    rw [cacheOf_setCache] at hv
    by_cases e : o = o'
    · subst e; simp only [if_true] at hv; exact Or.inl hv
    · simp only [e, if_false] at hv; exact Or.inl hv
  | none =>
    simp only [hc] at hv
    rw [cacheOf_setCache] at hv
    by_cases e : o = o'
    · subst e
      simp only [if_true] at hv
      rw [Cache.get?_store] at hv
      by_cases e2 : name = nm ∧ sk = sk'
      · obtain ⟨e3, e4⟩ := e2; subst e3; subst e4
        simp only [and_self, if_true, Option.some.injEq] at hv
        exact Or.inr ⟨hv.symm, hatt, hreg, hkw⟩
      · rw [if_neg e2] at hv; exact Or.inl hv
    · simp only [e, if_false] at hv; exact Or.inl hv

theorem invH_shrink (P : Params V) (T : Tables) (hw : HWorld V) (o : Obj) (c' : Cache V) (hinv : InvH P T hw)
    (hsub : ∀ nm sk v, c'.get? nm sk = some v → (cacheOf hw.w o).get? nm sk = some v) :
    InvH P T { hw with w := setCache hw.w o c' } := by
  refine invH_caches P T hw _ (sameStruct_setCache _ _ _) hinv ?_
  intro o' nm sk v hv
  rw [cacheOf_setCache] at hv
  by_cases e : o = o'
  · subst e; simp only [if_true] at hv; exact Or.inl (hsub _ _ _ hv)
  · simp only [e, if_false] at hv; exact Or.inl hv

theorem invH_get (P : Params V) (T : Tables) (hw : HWorld V) (o : Obj) (name : String) (kw : KwArgs)
    (hinv : InvH P T hw) : InvH P T { hw with w := (doGet P T hw.w o name kw).1 } := by
  have hself : InvH P T { hw with w := hw.w } := hinv
  unfold doGet
  by_cases h1 : exists? hw.w o = true
  · by_cases h2 : (facsOf T hw.w.regs o.cls).any (fun p => p.1 = name) = true
    · by_cases h3 : (!kw.isEmpty && !acceptsKw name) = true
      · simpa [h1, h2, h3] using hself
      · by_cases h4 : attached hw.w o = true
        · have hkw : acceptsKw name = false → makeSubKey kw = none := by
            intro ha
            apply makeSubKey_none_of_nil
            cases hk : kw.isEmpty with
            | true => rfl
            | false => exact absurd (by simp [hk, ha]) h3
          simp only [h1, h2, h3, h4, Bool.not_true, Bool.false_eq_true, if_false]
          cases hn : (if o = Obj.groups then nestedName name else none) with
          | none =>
            simp only
            exact invH_getOne P T hw o name _ hinv h4 h2 hkw
          | some inner =>
            simp only
            by_cases h5 : (facsOf T hw.w.regs o.cls).any (fun p => p.1 = inner) = true
            · simp only [h5, Bool.not_true, Bool.false_eq_true, if_false]
              cases hc : (cacheOf hw.w o).get? name (makeSubKey kw) with
              | some _ => simpa using hself
              | none =>
                simp only
                have i1 := invH_getOne P T hw o inner none hinv h4 h5 (fun _ => rfl)
                have s1 := getOne_struct P T hw.w o inner none
                exact invH_getOne P T { hw with w := (getOne P T hw.w o inner none).1 } o name _ i1
                  (by show attached (getOne P T hw.w o inner none).1 o = true; rw [attached_congr s1]; exact h4)
                  (by show (facsOf T (getOne P T hw.w o inner none).1.regs o.cls).any _ = true; rw [s1.regs]; exact h2) hkw
            · simpa [h5] using hself
        · simpa [h1, h2, h3, h4] using hself
    · simpa [h1, h2] using hself
  · simpa [h1] using hself

/-- one direct `destroyRepresentation(nm)` followed by the read that caches it again -/
def directOne (P : Params V) (T : Tables) (cid : Nat) (w : World V) (nm : String) : World V :=
  if (facsOf T w.regs "Contour").any (fun p => p.1 = nm) && !acceptsKw nm then
    (getOne P T (setCache w (.contour cid) ((cacheOf w (.contour cid)).destroyName nm)) (.contour cid) nm none).1
  else w

theorem invH_directFold (P : Params V) (T : Tables) (cid : Nat) (names : List String) :
    ∀ (hx : HWorld V), InvH P T hx → attached hx.w (.contour cid) = true →
      InvH P T { hx with w := names.foldl (directOne P T cid) hx.w } := by
  induction names with
  | nil => intro hx hi _; exact hi
  | cons nm r ih =>
    intro hx hi ha
    simp only [List.foldl_cons]
    unfold directOne
    by_cases hr : ((facsOf T hx.w.regs "Contour").any (fun p => p.1 = nm) && !acceptsKw nm) = true
    · simp only [hr, if_true]
      simp only [Bool.and_eq_true, Bool.not_eq_true'] at hr
      have i1 := invH_shrink P T hx (.contour cid) ((cacheOf hx.w (.contour cid)).destroyName nm) hi (by
        intro n sk v hv
        rw [Cache.get?_destroyName] at hv
        by_cases e : nm = n
        · simp [e] at hv
        · simpa [e] using hv)
      have i2 := invH_getOne P T { hx with w := setCache hx.w (.contour cid) ((cacheOf hx.w (.contour cid)).destroyName nm) }
        (.contour cid) nm none i1 ha hr.1 (fun _ => rfl)
      exact ih _ i2 (by
        show attached (getOne P T _ (.contour cid) nm none).1 (.contour cid) = true
        rw [attached_congr (getOne_struct P T _ _ _ _)]; exact ha)
    · simp only [hr]
      exact ih hx hi ha

theorem directH_eq (P : Params V) (T : Tables) (hw0 : HWorld V) (w : World V) (cid : Nat) (meth : String) :
    directH P T hw0 w (.cmut cid meth) =
      if hw0.blk (.contour cid) && attached w (.contour cid) && (AL.get? contourMutators meth).isSome then
        (directNames "Contour" meth).foldl (directOne P T cid) w
      else w := rfl

/-- the direct cache calls of a held contour's mutator keep `InvH` -/
theorem invH_direct (P : Params V) (T : Tables) (hw0 hw : HWorld V) (op : Op) (hinv : InvH P T hw) :
    InvH P T { hw with w := directH P T hw0 hw.w op } := by
  have hself : InvH P T { hw with w := hw.w } := hinv
  by_cases hop : ∃ cid meth, op = .cmut cid meth
  · obtain ⟨cid, meth, rfl⟩ := hop
    rw [directH_eq]
    by_cases hc : (hw0.blk (.contour cid) && attached hw.w (.contour cid) && (AL.get? contourMutators meth).isSome) = true
    · simp only [hc, if_true]
      have hatt : attached hw.w (.contour cid) = true := by
        simp only [Bool.and_eq_true] at hc; exact hc.1.2
      exact invH_directFold P T cid _ hw hinv hatt
    · simp only [hc]; exact hself
  · have : directH P T hw0 hw.w op = hw.w := by
      cases op <;> first | rfl | exact absurd ⟨_, _, rfl⟩ hop
    rw [this]; exact hself

/-! ### release -/

/-- the invariant in the middle of a release: the posts `rest` of the released observable are still to go out -/
structure InvF (P : Params V) (T : Tables) (hw : HWorld V) (rest : List (Obj × List String)) : Prop where
  coh : CoherentUpTo P T hw.w (rest ++ hw.queue)
  loose : LooseEmpty hw.w
  creg : CachedRegistered T hw.w
  rdef : RegsDefault T hw.w
  qheld : ∀ q, q ∈ hw.queue → hw.held q.1 = true
  nodis : hw.disabled = []

theorem invF_nil {P : Params V} {T : Tables} {hw : HWorld V} (h : InvF P T hw []) : InvH P T hw :=
  ⟨by simpa using h.coh, h.loose, h.creg, h.rdef, h.qheld, h.nodis⟩

theorem invF_repost (P : Params V) (T : Tables) (hw : HWorld V) (q0 : Obj × List String) (rest : List (Obj × List String))
    (h : InvF P T hw (q0 :: rest)) (hd : Dom hw.w) : InvF P T (repost T hw q0) rest := by
  unfold repost
  generalize hout : postFromH hw.blk T hw.w q0.1 q0.2 = out
  have hss := sameStruct_applyDeliv T hw.w out.ev
  have hcov := covers_postFromH hw.blk T hw.w hd.ids q0.1 q0.2
  rw [hout] at hcov
  have henq := enqueue_nodis hw h.nodis out.q
  refine ⟨?_, ?_, ?_, ?_, ?_, h.nodis⟩
  · intro o nm sk v hv
    simp only at hv ⊢
    rw [get?_applyDeliv_eq] at hv
    by_cases hany : out.ev.any (fun e => hitB T hw.w.regs e o nm) = true
    · simp [hany] at hv
    · simp only [hany, Bool.false_eq_true, if_false] at hv
      rcases h.coh o nm sk v hv with hf | ⟨q, hq, hqh⟩
      · left; rw [hf]; unfold fresh; rw [viewOf_congr T hss]
      · right
        simp only [List.cons_append, List.mem_cons] at hq
        rcases hq with hq | hq
        · subst hq
          rw [List.any_eq_true] at hqh
          obtain ⟨e, he, hhit⟩ := hqh
          rcases hcov e he with h1 | ⟨q', hq', hqe⟩
          · exfalso; apply hany; rw [List.any_eq_true]; exact ⟨e, h1, hhit⟩
          · refine ⟨q', ?_, ?_⟩
            · rw [henq]; simp only [List.mem_append]; exact Or.inr (Or.inr hq')
            · rw [hss.fuel, hss.glyphs, hss.regs, List.any_eq_true]; exact ⟨e, hqe, hhit⟩
        · refine ⟨q, ?_, ?_⟩
          · rw [henq]
            simp only [List.mem_append] at hq ⊢
            rcases hq with hq | hq
            · exact Or.inl hq
            · exact Or.inr (Or.inl hq)
          · rw [hss.fuel, hss.glyphs, hss.regs]; exact hqh
  · intro o ha nm sk
    simp only at ha ⊢
    rw [attached_congr hss] at ha
    rw [get?_applyDeliv_eq, h.loose o ha nm sk]; simp
  · intro o nm sk v hv
    simp only at hv ⊢
    rw [get?_applyDeliv_eq] at hv
    by_cases hany : out.ev.any (fun e => hitB T hw.w.regs e o nm) = true
    · simp [hany] at hv
    · simp only [hany, Bool.false_eq_true, if_false] at hv
      rw [hss.regs]; exact h.creg o nm sk v hv
  · intro r hr
    simp only at hr
    rw [hss.regs] at hr; exact h.rdef r hr
  · intro q hq
    simp only at hq
    rw [henq, List.mem_append] at hq
    rcases hq with hq | hq
    · exact h.qheld q hq
    · have hb : AllBlocked hw.blk out := by rw [← hout]; exact allBlocked_postFromH _ T _ _ _
      have := hb q hq
      unfold HWorld.blk HWorld.dis at this
      rw [h.nodis] at this
      have h2 : hw.held q.1 = true := by simpa [AL.contains] using this
      exact h2

theorem repost_struct (T : Tables) (hw : HWorld V) (q0 : Obj × List String) : SameStruct hw.w (repost T hw q0).w :=
  sameStruct_applyDeliv T _ _

theorem invF_fold (P : Params V) (T : Tables) (rest : List (Obj × List String)) :
    ∀ (hw : HWorld V), InvF P T hw rest → Dom hw.w → InvH P T (rest.foldl (repost T) hw) := by
  induction rest with
  | nil => intro hw h _; exact invF_nil h
  | cons q0 r ih =>
    intro hw h hd
    simp only [List.foldl_cons]
    exact ih _ (invF_repost P T hw q0 r h hd) (Dom.congr (repost_struct T hw q0) hd)

theorem invH_flush (P : Params V) (T : Tables) (hw : HWorld V) (o : Obj) (hinv : InvH P T hw) (hd : Dom hw.w) :
    InvH P T (flush T hw o) := by
  unfold flush
  refine invF_fold P T _ _ ?_ hd
  refine ⟨?_, hinv.loose, hinv.creg, hinv.rdef, ?_, hinv.nodis⟩
  · intro o' nm sk v hv
    rcases hinv.coh o' nm sk v hv with hf | ⟨q, hq, hqh⟩
    · exact Or.inl hf
    · right
      refine ⟨q, ?_, hqh⟩
      simp only [List.mem_append, List.mem_filter]
      by_cases e : q.1 = o
      · exact Or.inl ⟨hq, by simp [e]⟩
      · exact Or.inr ⟨hq, by simp [e]⟩
  · intro q hq
    simp only [List.mem_filter] at hq
    have h1 := hinv.qheld q hq.1
    have hne : q.1 ≠ o := by simpa using hq.2
    unfold HWorld.held AL.contains at h1 ⊢
    simp only
    rw [get?_eraseAll]
    have : ¬ o = q.1 := fun e => hne e.symm
    simp only [this, if_false]
    exact h1

theorem flush_struct (T : Tables) (hw : HWorld V) (o : Obj) : SameStruct hw.w (flush T hw o).w := by
  unfold flush
  generalize hw.queue.filter (fun p => p.1 = o) = mine
  generalize hhw1 : ({ hw with holds := eraseAll hw.holds o, queue := hw.queue.filter fun p => p.1 ≠ o } : HWorld V) = hw1
  have h0 : SameStruct hw.w hw1.w := by rw [← hhw1]; exact SameStruct.refl _
  clear hhw1
  induction mine generalizing hw1 with
  | nil => exact h0
  | cons q r ih =>
    simp only [List.foldl_cons]
    exact ih _ (h0.trans (repost_struct T hw1 q))

end Repr
end DefconModel
