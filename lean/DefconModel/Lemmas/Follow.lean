/-
Lemmas about M-Follow: the invariant "every component observes the object filed under its base name" is
preserved by every operation, and under it every change of a component's base-glyph data is posted.
-/
import DefconModel.Spec.Follow

namespace DefconModel
namespace Follow

theorem get?_unfile_self (f : Filed) (n : String) : AL.get? (unfile f n) n = none := by
  induction f with
  | nil => rfl
  | cons p r ih =>
    obtain ⟨k, v⟩ := p
    by_cases h : k = n
    · simp [unfile, h] at ih ⊢; exact ih
    · simp [unfile, h] at ih ⊢; exact ih

theorem get?_unfile_ne (f : Filed) (n m : String) (h : n ≠ m) : AL.get? (unfile f n) m = AL.get? f m := by
  induction f with
  | nil => rfl
  | cons p r ih =>
    obtain ⟨k, v⟩ := p
    by_cases h1 : k = n
    · have h2 : k ≠ m := fun e => h (h1 ▸ e)
      simp [unfile, h1] at ih ⊢
      simp [h1 ▸ h2, ih]
    · simp [unfile, h1] at ih ⊢
      by_cases h2 : k = m
      · simp [h2]
      · simp [h2, ih]

theorem isFiled_of_get? {f : Filed} {n : String} {o : Nat} (h : AL.get? f n = some o) : isFiled f o = true := by
  induction f with
  | nil => simp at h
  | cons p r ih =>
    obtain ⟨k, v⟩ := p
    by_cases h1 : k = n
    · simp [h1] at h; simp [isFiled, h]
    · simp [h1] at h
      have := ih h
      simp [isFiled] at this ⊢
      exact Or.inr this

theorem bound_iff (f : Filed) (c : Comp) :
    Bound f c ↔ c.watch = (match AL.get? f c.base with | some o => Watch.glyph o | none => Watch.layer) := Iff.rfl

theorem bound_observe (f : Filed) (c : Comp) : Bound f (observe f c) := by
  simp [Bound, observe]

/-- a component with base name `b` and watch `wt` is bound when `wt` is what the layer files under `b` -/
theorem bound_intro {f : Filed} {c' : Comp} (b : String) (wt : Watch) (hb : c'.base = b) (hw : c'.watch = wt)
    (h : wt = (match AL.get? f b with | some o => Watch.glyph o | none => Watch.layer)) : Bound f c' := by
  rw [bound_iff, hb, hw]; exact h

/-- the same lookup for the base name, the same watch: still bound -/
theorem bound_congr {f f' : Filed} {c : Comp} (hg : AL.get? f' c.base = AL.get? f c.base) (h : Bound f c) :
    Bound f' c := by
  rw [bound_iff] at h ⊢
  rw [hg]; exact h

/-! ### the reactions -/

theorem onAdded_hit {f : Filed} {n : String} {c : Comp} {o : Nat} (hn : n = c.base) (hf : AL.get? f c.base = some o) :
    onAdded f n c = ({ c with watch := .glyph o }, true) := by
  simp [onAdded, hn, rebind, hf]

theorem onAdded_posts {f : Filed} {n : String} {c : Comp} (hn : n = c.base) : (onAdded f n c).2 = true := by
  simp [onAdded, hn]

theorem onAdded_miss {f : Filed} {n : String} {c : Comp} (hn : n ≠ c.base) : onAdded f n c = (c, false) := by
  simp [onAdded, hn]

theorem onDelete_hit {n : String} {c : Comp} {o : Nat} (hn : n = c.base) (hw : c.watch = .glyph o) :
    onDelete n c = ({ c with watch := .layer }, true) := by
  simp [onDelete, onDeleted, onWillDelete, hw, hn]

theorem onDelete_miss {n : String} {c : Comp} (hn : n ≠ c.base) : onDelete n c = (c, false) := by
  cases hcw : c.watch <;> simp [onDelete, onDeleted, onWillDelete, hcw, hn]

theorem onRename_new {f : Filed} {g : Nat} {new : String} {c : Comp} (hn : new = c.base)
    (hf : AL.get? f c.base = some g) (hw : c.watch ≠ .glyph g) :
    onRename f g new c = ({ c with watch := .glyph g }, true) := by
  simp [onRename, onLayerRenamed, onGlyphRenamed, rebind, hn, hf, hw]

theorem onRename_new_posts {f : Filed} {g : Nat} {new : String} {c : Comp} (hn : new = c.base) :
    (onRename f g new c).2 = true := by
  simp [onRename, onLayerRenamed, hn]

theorem onRename_old {f : Filed} {g : Nat} {new : String} {c : Comp} (hn : new ≠ c.base) (hw : c.watch = .glyph g) :
    onRename f g new c = ({ c with watch := .layer }, true) := by
  simp [onRename, onLayerRenamed, onGlyphRenamed, hn, hw]

theorem onRename_other {f : Filed} {g : Nat} {new : String} {c : Comp} (hn : new ≠ c.base) (hw : c.watch ≠ .glyph g) :
    onRename f g new c = (c, false) := by
  simp [onRename, onLayerRenamed, onGlyphRenamed, hn, hw]

/-- under the invariant only the components that refer to a glyph's name watch that glyph -/
theorem base_of_watch {w : World} (hI : Inv w) {c : Comp} (hc : c ∈ w.comps) {n : String} {g : Nat}
    (hg : AL.get? w.filed n = some g) (hw : c.watch = .glyph g) : n = c.base := by
  have hb := hI.bound c hc
  rw [bound_iff, hw] at hb
  cases hcb : AL.get? w.filed c.base with
  | none => rw [hcb] at hb; simp at hb
  | some o' =>
    rw [hcb] at hb
    injection hb with hb; subst hb
    exact hI.inj n c.base g hg hcb

theorem watch_of_base {w : World} (hI : Inv w) {c : Comp} (hc : c ∈ w.comps) {g : Nat}
    (hg : AL.get? w.filed c.base = some g) : c.watch = .glyph g := by
  have hb := hI.bound c hc
  rw [bound_iff, hg] at hb; exact hb

/-! ### the operations one by one -/

/-- what `step` does, spelled out for an applicable operation -/
theorem step_of_react {w : World} {op : Op} {f : Filed} {d : List (Nat × Nat)} {r : Comp → Comp × Bool}
    (h : react w op = some (f, d, r)) :
    (step w op).1.filed = f ∧ (step w op).1.data = d ∧
    (step w op).2 = (w.comps.filter (fun c => (r c).2)).map Comp.id := by
  simp [step, h]

theorem step_of_none {w : World} {op : Op} (h : react w op = none) : step w op = (w, []) := by
  simp [step, h]

/-- the components after an operation that neither adds nor removes one -/
theorem comps_of_react {w : World} {op : Op} {f : Filed} {d : List (Nat × Nat)} {r : Comp → Comp × Bool}
    (h : react w op = some (f, d, r)) (ha : ∀ i b, op ≠ .addComp i b) (hr : ∀ i, op ≠ .removeComp i) :
    (step w op).1.comps = w.comps.map (fun c => (r c).1) := by
  cases op <;> simp [step, h] at ha hr ⊢

/-- invariant preservation from a per-component argument -/
theorem inv_of_map {w : World} {op : Op} {f : Filed} {d : List (Nat × Nat)} {r : Comp → Comp × Bool}
    (h : react w op = some (f, d, r)) (ha : ∀ i b, op ≠ .addComp i b) (hr : ∀ i, op ≠ .removeComp i)
    (hb : ∀ c ∈ w.comps, Bound f (r c).1)
    (hi : ∀ n m o, AL.get? f n = some o → AL.get? f m = some o → n = m)
    (hk : ∀ n o, AL.get? f n = some o → (AL.get? d o).isSome) : Inv (step w op).1 := by
  obtain ⟨hf, hd, -⟩ := step_of_react h
  refine ⟨?_, ?_, ?_⟩
  · rw [comps_of_react h ha hr, hf]
    intro c hc
    simp only [List.mem_map] at hc
    obtain ⟨c0, hc0, rfl⟩ := hc
    exact hb c0 hc0
  · rw [hf]; exact hi
  · rw [hf, hd]; exact hk

theorem inv_edit {w : World} (hI : Inv w) (o d : Nat) : Inv (step w (.edit o d)).1 := by
  refine inv_of_map (op := .edit o d) rfl (by simp) (by simp) (fun c hc => hI.bound c hc) hI.inj ?_
  intro n o' h
  have := hI.known n o' h
  rw [AL.get?_set]
  split <;> simp [this]

theorem react_newGlyph {w : World} {n : String} {o d : Nat} (hfresh : ¬ (AL.get? w.data o).isSome) :
    react w (.newGlyph n o d) = some (AL.set w.filed n o, AL.set w.data o d, onAdded (AL.set w.filed n o) n) := by
  simp [react, hfresh]

theorem inv_newGlyph {w : World} (hI : Inv w) (n : String) (o d : Nat) : Inv (step w (.newGlyph n o d)).1 := by
  by_cases hfresh : (AL.get? w.data o).isSome
  · rw [step_of_none (by simp [react, hfresh])]; exact hI
  · have hnot : ∀ m, AL.get? w.filed m ≠ some o := fun m hm => hfresh (hI.known m o hm)
    refine inv_of_map (react_newGlyph hfresh) (by simp) (by simp) ?_ ?_ ?_
    · intro c hc
      by_cases hn : n = c.base
      · rw [onAdded_hit hn (o := o) (by rw [← hn]; simp)]
        exact bound_intro c.base (.glyph o) rfl rfl (by rw [← hn]; simp)
      · rw [onAdded_miss hn]
        exact bound_congr (AL.get?_set_ne _ _ _ _ hn) (hI.bound c hc)
    · intro a b o' ha hb
      by_cases h1 : n = a
      · by_cases h2 : n = b
        · exact h1.symm.trans h2
        · rw [AL.get?_set_ne _ _ _ _ h2] at hb
          rw [← h1, AL.get?_set_self] at ha
          injection ha with ha; subst ha
          exact absurd hb (hnot b)
      · rw [AL.get?_set_ne _ _ _ _ h1] at ha
        by_cases h2 : n = b
        · rw [← h2, AL.get?_set_self] at hb
          injection hb with hb; subst hb
          exact absurd ha (hnot a)
        · rw [AL.get?_set_ne _ _ _ _ h2] at hb
          exact hI.inj a b o' ha hb
    · intro a o' ha
      by_cases h1 : n = a
      · rw [← h1, AL.get?_set_self] at ha
        injection ha with ha; subst ha
        simp
      · rw [AL.get?_set_ne _ _ _ _ h1] at ha
        have := hI.known a o' ha
        rw [AL.get?_set]
        split <;> simp [this]

theorem react_delGlyph {w : World} {n : String} {g : Nat} (hg : AL.get? w.filed n = some g) :
    react w (.delGlyph n) = some (unfile w.filed n, w.data, onDelete n) := by
  simp [react, hg]

theorem inv_delGlyph {w : World} (hI : Inv w) (n : String) : Inv (step w (.delGlyph n)).1 := by
  cases hg : AL.get? w.filed n with
  | none => rw [step_of_none (by simp [react, hg])]; exact hI
  | some g =>
    refine inv_of_map (react_delGlyph hg) (by simp) (by simp) ?_ ?_ ?_
    · intro c hc
      by_cases hn : n = c.base
      · rw [onDelete_hit hn (watch_of_base hI hc (hn ▸ hg))]
        exact bound_intro c.base .layer rfl rfl (by rw [← hn, get?_unfile_self])
      · rw [onDelete_miss hn]
        exact bound_congr (get?_unfile_ne _ _ _ hn) (hI.bound c hc)
    · intro a b o' ha hb
      by_cases h1 : n = a
      · rw [← h1, get?_unfile_self] at ha; simp at ha
      · by_cases h2 : n = b
        · rw [← h2, get?_unfile_self] at hb; simp at hb
        · rw [get?_unfile_ne _ _ _ h1] at ha; rw [get?_unfile_ne _ _ _ h2] at hb
          exact hI.inj a b o' ha hb
    · intro a o' ha
      by_cases h1 : n = a
      · rw [← h1, get?_unfile_self] at ha; simp at ha
      · rw [get?_unfile_ne _ _ _ h1] at ha; exact hI.known a o' ha

/-- the layer after `old → new` -/
theorem get?_refile (f : Filed) (old new : String) (g : Nat) (m : String) :
    AL.get? (AL.set (unfile f old) new g) m =
      if new = m then some g else if old = m then none else AL.get? f m := by
  rw [AL.get?_set]
  by_cases h1 : new = m
  · simp [h1]
  · simp only [h1, if_false]
    by_cases h2 : old = m
    · rw [← h2]; simp [get?_unfile_self]
    · simp [h2, get?_unfile_ne _ _ _ h2]

theorem react_rename {w : World} {old new : String} {g : Nat} (hg : AL.get? w.filed old = some g) (hne : old ≠ new) :
    react w (.rename old new) =
      some (AL.set (unfile w.filed old) new g, w.data, onRename (AL.set (unfile w.filed old) new g) g new) := by
  simp [react, hg, hne]

theorem react_rename_same (w : World) (n : String) : react w (.rename n n) = none := by
  simp only [react]
  split <;> simp

theorem inv_rename {w : World} (hI : Inv w) (old new : String) : Inv (step w (.rename old new)).1 := by
  cases hg : AL.get? w.filed old with
  | none => rw [step_of_none (by simp [react, hg])]; exact hI
  | some g =>
    by_cases hne : old = new
    · subst hne; rw [step_of_none (react_rename_same w old)]; exact hI
    · refine inv_of_map (react_rename hg hne) (by simp) (by simp) ?_ ?_ ?_
      · intro c hc
        by_cases h1 : new = c.base
        · -- the component refers to the new name: it re-binds to the renamed glyph
          have hwas : c.watch ≠ .glyph g := fun hw => hne ((base_of_watch hI hc hg hw).trans h1.symm)
          have hget : AL.get? (AL.set (unfile w.filed old) new g) c.base = some g := by
            rw [get?_refile]; simp [h1]
          rw [onRename_new h1 hget hwas]
          exact bound_intro c.base (.glyph g) rfl rfl (by rw [hget])
        · by_cases h2 : old = c.base
          · -- the component refers to the old name: its glyph walked away
            have hw : c.watch = .glyph g := watch_of_base hI hc (h2 ▸ hg)
            have hget : AL.get? (AL.set (unfile w.filed old) new g) c.base = none := by
              rw [get?_refile]; simp [h1, h2]
            rw [onRename_old h1 hw]
            exact bound_intro c.base .layer rfl rfl (by rw [hget])
          · have hwas : c.watch ≠ .glyph g := fun hw => h2 (base_of_watch hI hc hg hw)
            have hget : AL.get? (AL.set (unfile w.filed old) new g) c.base = AL.get? w.filed c.base := by
              rw [get?_refile]; simp [h1, h2]
            rw [onRename_other h1 hwas]
            exact bound_congr hget (hI.bound c hc)
      · intro a b o' ha hb
        rw [get?_refile] at ha hb
        by_cases a1 : new = a
        · by_cases b1 : new = b
          · exact a1.symm.trans b1
          · rw [if_pos a1] at ha; rw [if_neg b1] at hb
            injection ha with ha; subst ha
            by_cases b2 : old = b
            · rw [if_pos b2] at hb; simp at hb
            · rw [if_neg b2] at hb; exact absurd (hI.inj old b _ hg hb) b2
        · rw [if_neg a1] at ha
          by_cases b1 : new = b
          · rw [if_pos b1] at hb
            injection hb with hb; subst hb
            by_cases a2 : old = a
            · rw [if_pos a2] at ha; simp at ha
            · rw [if_neg a2] at ha; exact absurd (hI.inj old a _ hg ha) a2
          · rw [if_neg b1] at hb
            by_cases a2 : old = a
            · rw [if_pos a2] at ha; simp at ha
            · by_cases b2 : old = b
              · rw [if_pos b2] at hb; simp at hb
              · rw [if_neg a2] at ha; rw [if_neg b2] at hb
                exact hI.inj a b o' ha hb
      · intro a o' ha
        rw [get?_refile] at ha
        by_cases a1 : new = a
        · simp only [a1, if_true] at ha
          injection ha with ha; subst ha
          exact hI.known old _ hg
        · by_cases a2 : old = a
          · simp [a1, a2] at ha
          · simp only [a1, a2, if_false] at ha
            exact hI.known a o' ha

theorem inv_setBase {w : World} (hI : Inv w) (i : Nat) (b : String) : Inv (step w (.setBase i b)).1 := by
  refine inv_of_map (op := .setBase i b) rfl (by simp) (by simp) ?_ hI.inj hI.known
  intro c hc
  simp only [onSetBase]
  split
  · exact bound_observe _ _
  · exact hI.bound c hc

theorem inv_addComp {w : World} (hI : Inv w) (i : Nat) (b : String) : Inv (step w (.addComp i b)).1 := by
  refine ⟨?_, hI.inj, hI.known⟩
  intro c hc
  simp only [step, react, List.map_id'] at hc ⊢
  split at hc
  · exact hI.bound c hc
  · simp only [List.mem_append, List.mem_singleton] at hc
    rcases hc with hc | rfl
    · exact hI.bound c hc
    · exact bound_observe _ _

theorem inv_removeComp {w : World} (hI : Inv w) (i : Nat) : Inv (step w (.removeComp i)).1 := by
  refine ⟨?_, hI.inj, hI.known⟩
  intro c hc
  simp only [step, react, List.map_id'] at hc ⊢
  exact hI.bound c (List.mem_filter.mp hc).1

theorem inv_step {w : World} (hI : Inv w) (op : Op) : Inv (step w op).1 := by
  cases op with
  | edit o d => exact inv_edit hI o d
  | newGlyph n o d => exact inv_newGlyph hI n o d
  | delGlyph n => exact inv_delGlyph hI n
  | rename old new => exact inv_rename hI old new
  | addComp i b => exact inv_addComp hI i b
  | removeComp i => exact inv_removeComp hI i
  | setBase i b => exact inv_setBase hI i b

theorem inv_empty : Inv {} := ⟨by simp, by simp, by simp⟩

theorem inv_run {w : World} (hI : Inv w) (ops : List Op) : Inv (run w ops) := by
  induction ops generalizing w with
  | nil => exact hI
  | cons op r ih => exact ih (inv_step hI op)

/-! ### a change of the base glyph's data is posted -/

theorem mem_posts {w : World} {op : Op} {f : Filed} {d : List (Nat × Nat)} {r : Comp → Comp × Bool}
    (h : react w op = some (f, d, r)) {c : Comp} (hc : c ∈ w.comps) (hp : (r c).2 = true) :
    c.id ∈ (step w op).2 := by
  rw [(step_of_react h).2.2]
  exact List.mem_map.mpr ⟨c, List.mem_filter.mpr ⟨hc, hp⟩, rfl⟩

theorem posted_of_changed {w : World} (hI : Inv w) (op : Op) (c : Comp) (hc : c ∈ w.comps)
    (hch : baseData (step w op).1 c ≠ baseData w c) : c.id ∈ (step w op).2 := by
  cases op with
  | edit o d =>
    have hr : react w (.edit o d) = some (w.filed, AL.set w.data o d, onEdit w.filed o) := rfl
    obtain ⟨hf, hd, -⟩ := step_of_react hr
    refine mem_posts hr hc ?_
    simp only [baseData, hf, hd] at hch
    cases hcb : AL.get? w.filed c.base with
    | none => simp [hcb] at hch
    | some o' =>
      simp only [hcb, Option.bind_some] at hch
      have ho : o = o' := by
        by_cases ho : o = o'
        · exact ho
        · exact absurd (AL.get?_set_ne _ _ _ _ ho) hch
      subst ho
      simp [onEdit, isFiled_of_get? hcb, watch_of_base hI hc hcb]
  | newGlyph n o d =>
    by_cases hfresh : (AL.get? w.data o).isSome
    · rw [step_of_none (by simp [react, hfresh])] at hch; exact absurd rfl hch
    · obtain ⟨hf, hd, -⟩ := step_of_react (react_newGlyph (n := n) (d := d) hfresh)
      refine mem_posts (react_newGlyph hfresh) hc ?_
      by_cases hn : n = c.base
      · exact onAdded_posts hn
      · exfalso; apply hch
        simp only [baseData, hf, hd, AL.get?_set_ne _ _ _ _ hn]
        cases hcb : AL.get? w.filed c.base with
        | none => rfl
        | some o' =>
          have hne : o ≠ o' := fun e => hfresh (e ▸ hI.known _ _ hcb)
          simp [AL.get?_set_ne _ _ _ _ hne]
  | delGlyph n =>
    cases hg : AL.get? w.filed n with
    | none => rw [step_of_none (by simp [react, hg])] at hch; exact absurd rfl hch
    | some g =>
      obtain ⟨hf, hd, -⟩ := step_of_react (react_delGlyph hg)
      refine mem_posts (react_delGlyph hg) hc ?_
      by_cases hn : n = c.base
      · rw [onDelete_hit hn (watch_of_base hI hc (hn ▸ hg))]
      · exfalso; apply hch
        simp only [baseData, hf, hd, get?_unfile_ne _ _ _ hn]
  | rename old new =>
    cases hg : AL.get? w.filed old with
    | none => rw [step_of_none (by simp [react, hg])] at hch; exact absurd rfl hch
    | some g =>
      by_cases hne : old = new
      · subst hne; rw [step_of_none (react_rename_same w old)] at hch; exact absurd rfl hch
      · obtain ⟨hf, hd, -⟩ := step_of_react (react_rename hg hne)
        refine mem_posts (react_rename hg hne) hc ?_
        by_cases h1 : new = c.base
        · exact onRename_new_posts h1
        · by_cases h2 : old = c.base
          · rw [onRename_old h1 (watch_of_base hI hc (h2 ▸ hg))]
          · exfalso; apply hch
            simp only [baseData, hf, hd]
            rw [get?_refile]; simp [h1, h2]
  | addComp i b =>
    exfalso; apply hch
    simp [baseData, step, react]
  | removeComp i =>
    exfalso; apply hch
    simp [baseData, step, react]
  | setBase i b =>
    exfalso; apply hch
    simp [baseData, step, react]

end Follow
end DefconModel
