/-
Helper lemmas about a save that fails at the final replace (`saveFailsAtReplace` in M-Conv): the font has
read everything a save-as reads and is still bound to the UFO it was bound to.
-/
import DefconModel.Lemmas.ConvSave

namespace DefconModel
namespace Conv

/-- on a save-as no layer stays lazily loaded, whatever the target format -/
theorem keepLazy_saveAs (m : Mem) (t : Fmt) (l : MLayer) : keepLazy m t true l = false := by
  unfold keepLazy
  cases t.below3 <;> simp

theorem saveFailsAtReplace_some (find : Finder) (m m' : Mem) (t : Fmt) (c : Full) (hc : observe m = some c)
    (h : saveFailsAtReplace find m t = some m') : m' = preload m c t true := by
  unfold saveFailsAtReplace at h
  rw [hc] at h
  simp only at h
  cases hw : write find t m.maps c with
  | none => rw [hw] at h; simp at h
  | some d => rw [hw] at h; simp only [Option.some.injEq] at h; exact h.symm

/-- reading what a save-as reads changes nothing the getters return, the font being bound to the same UFO -/
theorem observe_preload_saveAs (m : Mem) (c : Full) (t : Fmt) (wf : MemWF m) (hc : observe m = some c) :
    observe (preload m c t true) = some c := by
  obtain ⟨hl, him, hda, hdn, hpa⟩ := observe_some m c hc
  have hnames : c.layers.map (fun l => l.name) = m.layers.map (fun l => l.name) :=
    allSome_map_names (observeLayer m) (fun l => l.name) (fun l => l.name) m.layers c.layers hl
      (fun a b hab => (observeLayer_some m a b hab).1)
  have hcn : (c.layers.map (fun l => l.name)).Nodup := by rw [hnames]; exact wf.layerNames
  have hlay : allSome ((m.layers.map (preloadLayer m c t true)).map (observeLayer (preload m c t true))) = some c.layers := by
    apply allSome_map_transfer (observeLayer m) _ _ m.layers c.layers hl
    intro a _ b hb' hab
    obtain ⟨h1, h2, _⟩ := observeLayer_some m a b hab
    have hfind : c.layers.find? (fun l => l.name = a.name) = some b := by
      have := find?_name_of_mem c.layers b hcn hb'
      rwa [h1] at this
    have hpl : preloadLayer m c t true a = { a with src := a.src, glyphs := loaded b.glyphs } := by
      unfold preloadLayer
      simp [keepLazy_saveAs, hfind]
    rw [hpl]
    exact observeLayer_loaded _ a b a.src h1 h2
  have hb : (preload m c t true).bound = m.bound := rfl
  unfold observe
  have hL : (preload m c t true).layers = m.layers.map (preloadLayer m c t true) := rfl
  rw [hL, hlay, hb]
  have hi : fill (diskImage? m.bound) (preload m c t true).images = some c.images := by
    simp only [preload]
    split
    · exact fill_loaded _ _
    · exact him
  have hd : fill (diskData? m.bound) (preload m c t true).data = some c.data := by
    simp only [preload]
    split
    · exact fill_loaded _ _
    · exact hda
  rw [hi, hd]
  cases c
  simp at hdn hpa ⊢
  exact ⟨hdn.symm, hpa.symm⟩

/-- the well-formedness of the font is kept -/
theorem preload_wf (m : Mem) (c : Full) (t : Fmt) (sa : Bool) (wf : MemWF m) (hc : observe m = some c) :
    MemWF (preload m c t sa) := by
  have wfc := observe_wf m c wf hc
  refine ⟨?_, ?_, ?_, ?_, ?_⟩
  · simp only [preload, List.map_map, Function.comp_def, preloadLayer_name]
    exact wf.layerNames
  · intro l hl
    simp only [preload, List.mem_map] at hl
    obtain ⟨a, ha, rfl⟩ := hl
    rcases preloadLayer_cases m c t sa a with h1 | ⟨x, hx, _, h1⟩
    · rw [h1]; exact wf.glyphNames a ha
    · rw [h1]
      simp only [keys_loaded]
      exact wfc.glyphNames x (List.mem_of_find?_eq_some hx)
  · simp only [preload]
    split
    · rw [keys_loaded]; exact wfc.imageNames
    · exact wf.imageNames
  · simp only [preload]
    split
    · rw [keys_loaded]; exact wfc.dataNames
    · exact wf.dataNames
  · intro d hd
    exact wf.boundFmt d hd

end Conv
end DefconModel
