/-
Helper lemmas for C12, second part: held notifications — what the delivery of a queue does to the
order when every callback sees the same layers (B), what a block of glyph operations on a held layer
leaves in the queue (C), and what a release does (A).
-/
import DefconModel.Lemmas.GlyphOrder

namespace DefconModel
namespace GlyphOrder

/-! ## One delivery, with a fixed answer `ex` to "does any layer still have the name" -/

theorem mem_specUpdate_keep {o : List Name} {a r : Option Name} {g : Name} (hg : g ∈ o)
    (hr : r ≠ some g) : g ∈ specUpdate o a r := by
  cases a with
  | none =>
    cases r with
    | none => exact hg
    | some r =>
      have : g ≠ r := fun e => hr (by rw [e])
      simp only [specUpdate]
      exact (mem_eraseFirst_of_ne this).mpr hg
  | some a =>
    cases r with
    | none => simp only [specUpdate]; exact mem_appendIfAbsent.mpr (Or.inl hg)
    | some r =>
      have hne : g ≠ r := fun e => hr (by rw [e])
      simp only [specUpdate]
      split
      · split
        · exact hg
        · split
          · exact (mem_eraseFirst_of_ne hne).mpr hg
          · by_cases e : g = a
            · subst e; exact mem_replaceFirst_new (by assumption)
            · exact (mem_replaceFirst_of_ne hne e).mpr hg
      · exact mem_appendIfAbsent.mpr (Or.inl hg)

theorem mem_specUpdate_added (o : List Name) (a : Name) (r : Option Name) (hr : r ≠ some a) :
    a ∈ specUpdate o (some a) r := by
  cases r with
  | none => simp only [specUpdate]; exact mem_appendIfAbsent.mpr (Or.inr rfl)
  | some r =>
    have hne : a ≠ r := fun e => hr (by rw [e])
    simp only [specUpdate]
    split
    · split
      · rename_i h1 h2; exact absurd h2.symm hne
      · split
        · rename_i h3; exact (mem_eraseFirst_of_ne hne).mpr h3
        · rename_i h1 _ _; exact mem_replaceFirst_new h1
    · exact mem_appendIfAbsent.mpr (Or.inr rfl)

/-- the removed-glyph argument of a delivery is a name no layer has -/
theorem deliverArgs_removed (ex : Name → Bool) (note : Note) (x : Name)
    (h : (deliverArgs ex note).2 = some x) : ex x = false := by
  cases note with
  | added n => simp [deliverArgs] at h
  | deleted n =>
    simp only [deliverArgs] at h
    split at h
    · simp at h
    · simp at h; subst h; simpa using ‹¬ ex n = true›
  | renamed o n =>
    simp only [deliverArgs] at h
    split at h
    · simp at h
    · simp at h; subst h; simpa using ‹¬ ex o = true›

/-- S1: a listed name that some layer has stays listed -/
theorem mem_specDeliver_keep {ex : Name → Bool} {o : List Name} {g : Name} (note : Note)
    (hex : ex g = true) (hg : g ∈ o) : g ∈ specDeliver ex o note := by
  unfold specDeliver
  refine mem_specUpdate_keep hg ?_
  intro h
  have := deliverArgs_removed ex note g h
  rw [hex] at this; cases this

/-- S2: a name the notification announces, and that some layer has, is listed afterwards -/
theorem mem_specDeliver_intro {ex : Name → Bool} (o : List Name) {g : Name} {note : Note}
    (hex : ex g = true) (hi : note.introduces g = true) : g ∈ specDeliver ex o note := by
  have hr : (deliverArgs ex note).2 ≠ some g := by
    intro h
    have := deliverArgs_removed ex note g h
    rw [hex] at this; cases this
  cases note with
  | added n =>
    simp only [Note.introduces, decide_eq_true_eq] at hi
    subst hi
    exact mem_specUpdate_added o n _ hr
  | deleted n => simp [Note.introduces] at hi
  | renamed old n =>
    simp only [Note.introduces, decide_eq_true_eq] at hi
    subst hi
    exact mem_specUpdate_added o n _ hr

/-- S4: a name the notification does not speak about is listed afterwards iff it was before -/
theorem mem_specDeliver_other {ex : Name → Bool} (o : List Name) {n : Name} {note : Note}
    (h : n ∉ note.names) : n ∈ specDeliver ex o note ↔ n ∈ o := by
  have u := Upd.one (T := fun x => x ∈ note.names) o (deliverArgs ex note).1 (deliverArgs ex note).2
    (deliverArgs_names ex note).1 (deliverArgs_names ex note).2
  have hf := u.filter (fun x => decide (x = n)) (by
    intro x hx
    simp only [decide_eq_false_iff_not]
    intro e; subst e; exact h hx)
  unfold specDeliver
  constructor
  · intro hm
    have : n ∈ (specUpdate o (deliverArgs ex note).1 (deliverArgs ex note).2).filter (fun x => decide (x = n)) := by
      simp [List.mem_filter, hm]
    rw [hf] at this
    exact (List.mem_filter.mp this).1
  · intro hm
    have : n ∈ o.filter (fun x => decide (x = n)) := by simp [List.mem_filter, hm]
    rw [← hf] at this
    exact (List.mem_filter.mp this).1

theorem count_specDeliver_le (ex : Name → Bool) (o : List Name) (note : Note) (n : Name) :
    (specDeliver ex o note).count n ≤ max 1 (o.count n) :=
  count_specUpdate_le o _ _ n

/-- S3: a name no layer has, listed at most once, that the notification says is gone, is not listed
afterwards -/
theorem not_mem_specDeliver_removed {ex : Name → Bool} {o : List Name} {n : Name} {note : Note}
    (hex : ex n = false) (hc : o.count n ≤ 1) (hr : note.removes n = true)
    (hi : note.introduces n = false) : n ∉ specDeliver ex o note := by
  cases note with
  | added x => simp [Note.removes] at hr
  | deleted x =>
    simp only [Note.removes, decide_eq_true_eq] at hr
    subst hr
    simp only [specDeliver, deliverArgs, hex, Bool.false_eq_true, if_false, specUpdate]
    exact not_mem_eraseFirst_self hc
  | renamed old new =>
    simp only [Note.removes, decide_eq_true_eq] at hr
    subst hr
    simp only [Note.introduces, decide_eq_false_iff_not] at hi
    have hne : old ≠ new := fun e => hi e.symm
    simp only [specDeliver, deliverArgs, hex, Bool.false_eq_true, if_false]
    have := not_mem_specRename_old hne hc
    rw [specRename_eq_specUpdate _ hne] at this
    simpa using this

/-! ## A whole queue -/

theorem specDeliverAll_cons (ex : Name → Bool) (o : List Name) (nt : Note) (q : List Note) :
    specDeliverAll ex o (nt :: q) = specDeliverAll ex (specDeliver ex o nt) q := rfl

theorem specDeliverAll_append (ex : Name → Bool) (o : List Name) (q1 q2 : List Note) :
    specDeliverAll ex o (q1 ++ q2) = specDeliverAll ex (specDeliverAll ex o q1) q2 := by
  unfold specDeliverAll; rw [List.foldl_append]

/-- B1: listed names that some layer has stay listed through the whole delivery -/
theorem mem_deliverAll_keep {ex : Name → Bool} {g : Name} (hex : ex g = true) (q : List Note)
    {o : List Name} (hg : g ∈ o) : g ∈ specDeliverAll ex o q := by
  induction q generalizing o with
  | nil => exact hg
  | cons nt q ih => rw [specDeliverAll_cons]; exact ih (mem_specDeliver_keep nt hex hg)

/-- B2: a name some layer has and some queued notification announces is listed after the delivery -/
theorem mem_deliverAll_intro {ex : Name → Bool} {g : Name} (hex : ex g = true) {q : List Note}
    (o : List Name) (h : ∃ nt ∈ q, nt.introduces g = true) : g ∈ specDeliverAll ex o q := by
  induction q generalizing o with
  | nil => obtain ⟨nt, hm, _⟩ := h; simp at hm
  | cons nt q ih =>
    rw [specDeliverAll_cons]
    obtain ⟨n2, hm, hi⟩ := h
    simp only [List.mem_cons] at hm
    rcases hm with e | hm
    · subst e; exact mem_deliverAll_keep hex q (mem_specDeliver_intro o hex hi)
    · exact ih _ ⟨n2, hm, hi⟩

/-- B6: names no queued notification speaks about are listed after the delivery iff they were before -/
theorem mem_deliverAll_other {ex : Name → Bool} {n : Name} {q : List Note}
    (h : ∀ nt ∈ q, n ∉ nt.names) (o : List Name) : n ∈ specDeliverAll ex o q ↔ n ∈ o := by
  induction q generalizing o with
  | nil => rfl
  | cons nt q ih =>
    rw [specDeliverAll_cons, ih (fun n2 h2 => h n2 (List.mem_cons_of_mem _ h2)),
      mem_specDeliver_other o (h nt (by simp))]

theorem count_deliverAll_le (ex : Name → Bool) (q : List Note) (o : List Name) (n : Name) :
    (specDeliverAll ex o q).count n ≤ max 1 (o.count n) := by
  induction q generalizing o with
  | nil => simp only [specDeliverAll, List.foldl_nil]; omega
  | cons nt q ih =>
    rw [specDeliverAll_cons]
    have h1 := ih (specDeliver ex o nt)
    have h2 := count_specDeliver_le ex o nt n
    omega

theorem upd_deliverAll (ex : Name → Bool) (q : List Note) (o : List Name) :
    Upd (fun x => ∃ nt ∈ q, x ∈ nt.names) o (specDeliverAll ex o q) := by
  induction q generalizing o with
  | nil => exact .refl _
  | cons nt q ih =>
    rw [specDeliverAll_cons]
    refine Upd.trans ((Upd.one (T := fun x => x ∈ nt.names) o _ _ (deliverArgs_names ex nt).1
      (deliverArgs_names ex nt).2).mono ?_) ((ih _).mono ?_)
    · intro x hx; exact ⟨nt, by simp, hx⟩
    · rintro x ⟨n2, h2, hx⟩; exact ⟨n2, List.mem_cons_of_mem _ h2, hx⟩

/-- B4: the names that were listed and that some layer has stand, after the delivery, exactly as
they stood: none is dropped, duplicated or moved with respect to the others -/
theorem filter_deliverAll_kept (ex : Name → Bool) (q : List Note) (o : List Name) (p : Name → Bool)
    (hp : ∀ x, p x = true → ex x = true ∧ x ∈ o) :
    (specDeliverAll ex o q).filter p = o.filter p := by
  -- strengthen: for every o' that contains the names of `p`
  suffices h : ∀ o' : List Name, (∀ x, p x = true → x ∈ o') →
      (∀ x, p x = true → x ∈ specDeliverAll ex o' q) ∧
      (specDeliverAll ex o' q).filter p = o'.filter p from (h o (fun x hx => (hp x hx).2)).2
  induction q with
  | nil => intro o' h; exact ⟨h, rfl⟩
  | cons nt q ih =>
    intro o' ho'
    rw [specDeliverAll_cons]
    have hstep : (specDeliver ex o' nt).filter p = o'.filter p := by
      unfold specDeliver
      -- the added name is either listed already or not one of `p`; the removed name is not one of `p`
      have hrem : ∀ x, (deliverArgs ex nt).2 = some x → p x = false := by
        intro x hx
        have := deliverArgs_removed ex nt x hx
        cases hpx : p x with
        | false => rfl
        | true => rw [(hp x hpx).1] at this; cases this
      cases ha : (deliverArgs ex nt).1 with
      | none => exact filter_specUpdate p o' none _ (by simp) hrem
      | some a =>
        cases hpa : p a with
        | false =>
          exact filter_specUpdate p o' (some a) _ (by intro x hx; cases hx; exact hpa) hrem
        | true =>
          have hao : a ∈ o' := ho' a hpa
          cases hr : (deliverArgs ex nt).2 with
          | none => simp [specUpdate, appendIfAbsent, hao]
          | some r =>
            have hpr : p r = false := hrem r hr
            have hne : r ≠ a := by intro e; subst e; rw [hpa] at hpr; cases hpr
            by_cases hro : r ∈ o'
            · have : specUpdate o' (some a) (some r) = eraseFirst o' r := by
                simp [specUpdate, hao, hro, hne]
              rw [this]
              exact filter_eraseFirst p o' hpr
            · have : specUpdate o' (some a) (some r) = o' := by
                simp [specUpdate, hao, hro, appendIfAbsent]
              rw [this]
    have hmem : ∀ x, p x = true → x ∈ specDeliver ex o' nt :=
      fun x hx => mem_specDeliver_keep nt (hp x hx).1 (ho' x hx)
    obtain ⟨h1, h2⟩ := ih (specDeliver ex o' nt) hmem
    exact ⟨h1, by rw [h2, hstep]⟩

theorem lastSays_none_iff {q : List Note} {n : Name} :
    lastSays q n = none ↔ ∀ nt ∈ q, nt.introduces n = false ∧ nt.removes n = false := by
  induction q with
  | nil => simp [lastSays]
  | cons nt q ih =>
    simp only [lastSays, List.mem_cons, forall_eq_or_imp]
    cases h : lastSays q n with
    | some b =>
      simp only [reduceCtorEq, false_iff, not_and]
      intro _ hall
      have := ih.mpr hall
      rw [h] at this; cases this
    | none =>
      simp only
      rw [h] at ih
      have hall := ih.mp rfl
      cases hi : nt.introduces n <;> cases hr : nt.removes n <;> simp
      all_goals exact hall

theorem names_of_introduces {nt : Note} {n : Name} (h : nt.introduces n = true) : n ∈ nt.names := by
  cases nt <;> simp_all [Note.introduces, Note.names]

theorem names_of_removes {nt : Note} {n : Name} (h : nt.removes n = true) : n ∈ nt.names := by
  cases nt <;> simp_all [Note.removes, Note.names]

theorem silent_of_not_names {nt : Note} {n : Name} (h : n ∉ nt.names) :
    nt.introduces n = false ∧ nt.removes n = false := by
  cases nt <;> simp_all [Note.introduces, Note.removes, Note.names] <;> (try constructor) <;>
    (intro e; simp_all)

/-- B5: a name no layer has, listed at most once, about which the LAST queued notification that
speaks of it says "gone", is not listed after the delivery -/
theorem not_mem_deliverAll_gone {ex : Name → Bool} {n : Name} (hex : ex n = false) {q : List Note}
    {o : List Name} (hc : o.count n ≤ 1) (hl : lastSays q n = some false) :
    n ∉ specDeliverAll ex o q := by
  induction q generalizing o with
  | nil => simp [lastSays] at hl
  | cons nt q ih =>
    rw [specDeliverAll_cons]
    have hc1 : (specDeliver ex o nt).count n ≤ 1 := by
      have := count_specDeliver_le ex o nt n; omega
    simp only [lastSays] at hl
    cases hq : lastSays q n with
    | some b =>
      rw [hq] at hl
      simp only [Option.some.injEq] at hl
      subst hl
      exact ih hc1 hq
    | none =>
      rw [hq] at hl
      simp only at hl
      have hsil := lastSays_none_iff.mp hq
      have hi : nt.introduces n = false := by
        cases h : nt.introduces n with
        | false => rfl
        | true => simp [h] at hl
      have hr : nt.removes n = true := by
        cases h : nt.removes n with
        | true => rfl
        | false => simp [hi, h] at hl
      have h0 : n ∉ specDeliver ex o nt := not_mem_specDeliver_removed hex hc hr hi
      -- the rest of the queue does not bring it back
      have hrest : ∀ (q' : List Note) (o' : List Name),
          (∀ nt ∈ q', nt.introduces n = false ∧ nt.removes n = false) → n ∉ o' →
          n ∉ specDeliverAll ex o' q' := by
        intro q'
        induction q' with
        | nil => intro o' _ h; exact h
        | cons n2 q' ih2 =>
          intro o' hs hno
          rw [specDeliverAll_cons]
          refine ih2 _ (fun x hx => hs x (List.mem_cons_of_mem _ hx)) ?_
          obtain ⟨hi2, hr2⟩ := hs n2 (by simp)
          -- n2 neither introduces nor removes n
          intro hm
          cases n2 with
          | added x =>
            simp only [Note.introduces, decide_eq_false_iff_not] at hi2
            simp only [specDeliver, deliverArgs, specUpdate, mem_appendIfAbsent] at hm
            rcases hm with h | h
            · exact hno h
            · exact hi2 h.symm
          | deleted x =>
            simp only [specDeliver, deliverArgs] at hm
            split at hm
            · exact hno hm
            · simp only [specUpdate] at hm
              exact hno (mem_of_mem_eraseFirst hm)
          | renamed old new =>
            simp only [Note.introduces, decide_eq_false_iff_not] at hi2
            simp only [Note.removes, decide_eq_false_iff_not] at hr2
            have h1 : n ≠ old := fun e => hr2 e.symm
            have h2 : n ≠ new := fun e => hi2 e.symm
            have := (mem_specDeliver_other (ex := ex) o' (n := n) (note := .renamed old new)
              (by simp [Note.names, h1, h2])).mp hm
            exact hno this
      exact hrest q _ hsil h0

/-! ## A: releasing a hold -/

theorem anyLayerHas_setLayer_same {f : Font} (hw : WF f) {L : String} {l l' : Layer}
    (hget : AL.get? f.layers L = some l) (hg : l'.glyphs = l.glyphs) (ho : l'.observed = l.observed) :
    anyLayerHas (setLayer f L l') = anyLayerHas f := by
  funext n
  have ho' : l'.observed = true := by rw [ho]; exact observed_of_get? hw hget
  have hw' := wf_setLayer hw L l' ho'
  rw [Bool.eq_iff_iff, anyLayerHas_iff hw'.names, anyLayerHas_iff hw.names]
  exact exists_setLayer_same hget hg n

/-- the last release of a layer that is not disabled: the hold key goes away and the queue is
delivered in order; every callback evaluates "does any layer still have the name" on the layers as
they are NOW (they do not change during the delivery) -/
theorem releaseLayer_last {f : Font} (hw : WF f) {L : String} {l : Layer}
    (hget : AL.get? f.layers L = some l) (hh : l.held = 1) (hd : l.disabled = 0) :
    (releaseLayer f L).2 = .ok ∧
    (releaseLayer f L).1.layers = (setLayer f L { l with held := 0, queue := [] }).layers ∧
    glyphOrder (releaseLayer f L).1 = specDeliverAll (anyLayerHas f) (glyphOrder f) l.queue := by
  have ho := observed_of_get? hw hget
  have hget0 : AL.get? (setLayer f L { l with held := 0, queue := [] }).layers L =
      some { l with held := 0, queue := [] } := by rw [get?_setLayer, if_pos rfl]
  obtain ⟨h1, h2⟩ := flush_calm hget0 rfl hd ho l.queue
  unfold releaseLayer
  rw [hget]
  simp only [hh, Nat.one_ne_zero, if_false, if_true]
  refine ⟨trivial, h1, ?_⟩
  rw [h2, anyLayerHas_setLayer_same (l' := { l with held := 0, queue := [] }) hw hget rfl rfl]
  rfl

/-- … of a layer that is disabled at that moment: the queue is dropped -/
theorem releaseLayer_last_disabled {f : Font} {L : String} {l : Layer}
    (hget : AL.get? f.layers L = some l) (hh : l.held = 1) (hd : l.disabled ≠ 0) :
    (releaseLayer f L).1 = setLayer f L { l with held := 0, queue := [] } := by
  have hget0 : AL.get? (setLayer f L { l with held := 0, queue := [] }).layers L =
      some { l with held := 0, queue := [] } := by rw [get?_setLayer, if_pos rfl]
  unfold releaseLayer
  rw [hget]
  simp only [hh, Nat.one_ne_zero, if_false, if_true]
  exact flush_disabled hget0 hd l.queue

/-! ## C: glyph operations on a layer whose notifications are held -/

theorem set_get_self {ls : List (String × Layer)} {k : String} {v : Layer} (h : AL.get? ls k = some v) :
    AL.set ls k v = ls := by
  induction ls with
  | nil => simp at h
  | cons p r ih =>
    obtain ⟨k', v'⟩ := p
    by_cases e : k' = k
    · simp only [AL.get?_cons, e, if_true, Option.some.injEq] at h
      subst h; simp [AL.set, e]
    · simp only [AL.get?_cons, e, if_false] at h
      simp [AL.set, e, ih h]

theorem setLayer_get_self {f : Font} {L : String} {l : Layer} (h : AL.get? f.layers L = some l) :
    setLayer f L l = f := by
  unfold setLayer; rw [set_get_self h]

theorem newGlyph_held {f : Font} {L : String} {l : Layer} (hget : AL.get? f.layers L = some l)
    (hh : l.held ≠ 0) (hd : l.disabled = 0) (g : Name) :
    newGlyph f L g =
      (setLayer f L { l with glyphs := addName l.glyphs g, queue := enqueue l.queue (.added g) }, .ok) := by
  unfold newGlyph
  rw [hget]
  simp only
  rw [post_held (l := { l with glyphs := addName l.glyphs g }) (by rw [get?_setLayer, if_pos rfl]) hh hd,
    setLayer_setLayer]

theorem delGlyph_held {f : Font} {L : String} {l : Layer} (hget : AL.get? f.layers L = some l)
    (hh : l.held ≠ 0) (hd : l.disabled = 0) {g : Name} (hm : g ∈ l.glyphs) :
    delGlyph f L g =
      (setLayer f L { l with glyphs := removeName l.glyphs g, queue := enqueue l.queue (.deleted g) }, .ok) := by
  unfold delGlyph
  rw [hget]
  simp only [hm, if_true]
  rw [post_held (l := { l with glyphs := removeName l.glyphs g }) (by rw [get?_setLayer, if_pos rfl]) hh hd,
    setLayer_setLayer]

theorem rename_held {f : Font} {L : String} {l : Layer} (hget : AL.get? f.layers L = some l)
    (hh : l.held ≠ 0) (hd : l.disabled = 0) {old new : Name} (hm : old ∈ l.glyphs) (hne : old ≠ new) :
    rename f L old new =
      (setLayer f L
        { l with glyphs := addName (removeName l.glyphs old) new, queue := enqueue l.queue (.renamed old new) },
       .ok) := by
  unfold rename
  rw [hget]
  simp only [hm, hne, if_true, if_false]
  rw [post_held (l := { l with glyphs := addName (removeName l.glyphs old) new })
    (by rw [get?_setLayer, if_pos rfl]) hh hd, setLayer_setLayer]

/-- inside a user-level hold `Layer.insertGlyph`'s own bracket only raises and lowers the count: its
`Layer.GlyphAdded` stays queued with the rest, exactly as `newGlyph`'s -/
theorem insertGlyph_held {f : Font} {L : String} {l : Layer} (hget : AL.get? f.layers L = some l)
    (hh : l.held ≠ 0) (hd : l.disabled = 0) (g : Name) : insertGlyph f L g = newGlyph f L g := by
  have e1 : (holdLayer f L).1 = setLayer f L { l with held := l.held + 1 } := by
    unfold holdLayer; rw [hget]
  have e2 : (newGlyph (setLayer f L { l with held := l.held + 1 }) L g).1 =
      setLayer f L { l with glyphs := addName l.glyphs g, held := l.held + 1, queue := enqueue l.queue (.added g) } := by
    rw [newGlyph_held (l := { l with held := l.held + 1 }) (by rw [get?_setLayer, if_pos rfl])
      (by simp) hd, setLayer_setLayer]
  have e3 : (releaseLayer (setLayer f L
        { l with glyphs := addName l.glyphs g, held := l.held + 1, queue := enqueue l.queue (.added g) }) L).1 =
      setLayer f L { l with glyphs := addName l.glyphs g, queue := enqueue l.queue (.added g) } := by
    unfold releaseLayer
    rw [get?_setLayer, if_pos rfl]
    have h1 : ¬ (l.held + 1 = 0) := by omega
    have h2 : ¬ (l.held + 1 = 1) := by omega
    simp only [h1, h2, if_false]
    rw [setLayer_setLayer]
    simp
  unfold insertGlyph
  rw [hget]
  simp only
  rw [e1, e2, e3, newGlyph_held hget hh hd]

/-! ### coalescing -/

theorem coalesce_append_single (q p : List Note) (n : Note) :
    coalesce q (p ++ [n]) = enqueue (coalesce q p) n := by
  induction p generalizing q with
  | nil => rfl
  | cons x p ih => simp only [List.cons_append, coalesce]; exact ih _

theorem mem_coalesce {q p : List Note} {x : Note} : x ∈ coalesce q p ↔ x ∈ q ∨ x ∈ p := by
  induction p generalizing q with
  | nil => simp [coalesce]
  | cons y p ih =>
    simp only [coalesce, ih, mem_enqueue, List.mem_cons]
    constructor
    · rintro ((h | h) | h)
      · exact Or.inl h
      · exact Or.inr (Or.inl h)
      · exact Or.inr (Or.inr h)
    · rintro (h | h | h)
      · exact Or.inl (Or.inl h)
      · exact Or.inl (Or.inr h)
      · exact Or.inr h

/-- notifications that are pairwise different (and none of them queued already) are all queued, in
the order in which they were posted -/
theorem coalesce_of_nodup {q p : List Note} (h : (q ++ p).Nodup) : coalesce q p = q ++ p := by
  induction p generalizing q with
  | nil => simp [coalesce]
  | cons y p ih =>
    have hy : y ∉ q := by
      intro hm
      rw [List.nodup_append] at h
      exact h.2.2 y hm y (by simp) rfl
    simp only [coalesce, enqueue, hy, if_false]
    rw [ih (by simpa [List.append_assoc] using h)]
    simp

/-! ### a whole block -/

theorem blockRun_cons (s : List Name × List Note) (op : Op) (ops : List Op) :
    blockRun s (op :: ops) = blockRun (blockStep s op) ops := rfl

/-- a block of glyph operations on a layer whose notifications are held (and not disabled): the
lib, the other layers, the hold and disable counts are untouched; the layer's names follow the
operations; its queue is what the operations posted, coalesced -/
theorem run_heldBlock {f : Font} {L : String} {l : Layer} (hget : AL.get? f.layers L = some l)
    (hh : l.held ≠ 0) (hd : l.disabled = 0) (block : List Op) (hb : ∀ op ∈ block, op.onLayer L = true)
    (s0 : List Name × List Note) :
    run (setLayer f L { l with glyphs := s0.1, queue := coalesce l.queue s0.2 }) block =
      setLayer f L { l with glyphs := (blockRun s0 block).1, queue := coalesce l.queue (blockRun s0 block).2 } := by
  induction block generalizing s0 with
  | nil => rfl
  | cons op ops ih =>
    have hop := hb op (List.mem_cons_self ..)
    have hrest := fun o ho => hb o (List.mem_cons_of_mem _ ho)
    have hget' : AL.get? (setLayer f L { l with glyphs := s0.1, queue := coalesce l.queue s0.2 }).layers L =
        some { l with glyphs := s0.1, queue := coalesce l.queue s0.2 } := by rw [get?_setLayer, if_pos rfl]
    simp only [run]
    rw [blockRun_cons]
    suffices hstep : (step (setLayer f L { l with glyphs := s0.1, queue := coalesce l.queue s0.2 }) op).1 =
        setLayer f L { l with glyphs := (blockStep s0 op).1, queue := coalesce l.queue (blockStep s0 op).2 } by
      rw [hstep]; exact ih hrest _
    cases op with
    | newGlyph L' g =>
      simp only [Op.onLayer, decide_eq_true_eq] at hop; subst hop
      simp only [step, blockStep]
      rw [newGlyph_held hget' hh hd, setLayer_setLayer, coalesce_append_single]
    | insertGlyph L' g =>
      simp only [Op.onLayer, decide_eq_true_eq] at hop; subst hop
      simp only [step, blockStep]
      rw [insertGlyph_held hget' hh hd, newGlyph_held hget' hh hd, setLayer_setLayer, coalesce_append_single]
    | delGlyph L' g =>
      simp only [Op.onLayer, decide_eq_true_eq] at hop; subst hop
      simp only [step, blockStep]
      by_cases hm : g ∈ s0.1
      · rw [delGlyph_held hget' hh hd (by exact hm), setLayer_setLayer]
        simp only [hm, if_true, coalesce_append_single]
      · simp only [hm, if_false]
        unfold delGlyph
        rw [hget']
        simp only [hm, if_false]
    | rename L' o n =>
      simp only [Op.onLayer, decide_eq_true_eq] at hop; subst hop
      simp only [step, blockStep]
      by_cases hm : o ∈ s0.1
      · by_cases hne : o = n
        · subst hne
          simp only [hm, if_true]
          unfold rename
          rw [hget']
          simp only [hm, if_true]
        · rw [rename_held hget' hh hd (by exact hm) hne, setLayer_setLayer]
          simp only [hm, hne, if_true, if_false, coalesce_append_single]
      · simp only [hm, if_false]
        unfold rename
        rw [hget']
        simp only [hm, if_false]
    | _ => simp [Op.onLayer] at hop

theorem posted_mono (s : List Name × List Note) (ops : List Op) {nt : Note} (h : nt ∈ s.2) :
    nt ∈ (blockRun s ops).2 := by
  induction ops generalizing s with
  | nil => exact h
  | cons op ops ih =>
    rw [blockRun_cons]
    apply ih
    cases op <;> simp only [blockStep] <;> (try split) <;> (try split) <;> simp [h]

/-- I1: every name the layer has after the block was there before, or was announced by a notification
posted in the block -/
theorem blockRun_names (s : List Name × List Note) (ops : List Op) {g : Name}
    (h : g ∈ (blockRun s ops).1) : g ∈ s.1 ∨ ∃ nt ∈ (blockRun s ops).2, nt.introduces g = true := by
  induction ops generalizing s with
  | nil => exact Or.inl h
  | cons op ops ih =>
    rw [blockRun_cons] at h ⊢
    rcases ih (blockStep s op) h with h1 | h1
    · -- g is in the layer after `op`
      have key : g ∈ s.1 ∨ ∃ nt ∈ (blockStep s op).2, nt.introduces g = true := by
        cases op with
        | newGlyph _ x =>
          simp only [blockStep, mem_addName] at h1 ⊢
          rcases h1 with h1 | h1
          · exact Or.inl h1
          · exact Or.inr ⟨.added x, by simp, by simp [Note.introduces, h1]⟩
        | insertGlyph _ x =>
          simp only [blockStep, mem_addName] at h1 ⊢
          rcases h1 with h1 | h1
          · exact Or.inl h1
          · exact Or.inr ⟨.added x, by simp, by simp [Note.introduces, h1]⟩
        | delGlyph _ x =>
          simp only [blockStep] at h1 ⊢
          split at h1
          · simp only [mem_removeName] at h1; exact Or.inl h1.1
          · exact Or.inl h1
        | rename _ o n =>
          simp only [blockStep] at h1 ⊢
          split at h1
          · split at h1
            · exact Or.inl h1
            · simp only [mem_addName, mem_removeName] at h1
              rcases h1 with h1 | h1
              · exact Or.inl h1.1
              · rename_i h2 h3
                refine Or.inr ⟨.renamed o n, ?_, by simp [Note.introduces, h1]⟩
                simp [h2, h3]
          · exact Or.inl h1
        | _ => exact Or.inl h1
      rcases key with k | ⟨nt, hm, hi⟩
      · exact Or.inl k
      · exact Or.inr ⟨nt, posted_mono _ ops hm, hi⟩
    · exact Or.inr h1

theorem lastSays_append_single (q : List Note) (note : Note) (n : Name) :
    lastSays (q ++ [note]) n =
      if note.introduces n then some true else if note.removes n then some false else lastSays q n := by
  induction q with
  | nil => simp [lastSays]
  | cons x q ih =>
    simp only [List.cons_append, lastSays, ih]
    cases hi : note.introduces n
    · cases hr : note.removes n
      · simp
      · simp
    · simp

/-- what the posted notifications say last about a name agrees with the layer's names -/
def SaysRight (s : List Name × List Note) : Prop :=
  ∀ n b, lastSays s.2 n = some b → (n ∈ s.1 ↔ b = true)

theorem saysRight_step {s : List Name × List Note} (h : SaysRight s) (op : Op) :
    SaysRight (blockStep s op) := by
  have created : ∀ g, SaysRight (addName s.1 g, s.2 ++ [.added g]) := by
    intro g n b hb
    simp only at hb ⊢
    rw [lastSays_append_single] at hb
    simp only [Note.introduces, Note.removes, decide_eq_true_eq] at hb
    by_cases e : g = n
    · subst e; simp at hb; subst hb; simp [mem_addName]
    · have e' : ¬ n = g := fun x => e x.symm
      simp only [e, if_false, Bool.false_eq_true] at hb
      simp only [mem_addName, e', or_false]
      exact h n b hb
  cases op with
  | newGlyph _ g => exact created g
  | insertGlyph _ g => exact created g
  | delGlyph _ g =>
    simp only [blockStep]
    split
    · intro n b hb
      simp only at hb ⊢
      rw [lastSays_append_single] at hb
      simp only [Note.introduces, Note.removes, decide_eq_true_eq, Bool.false_eq_true, if_false] at hb
      by_cases e : g = n
      · subst e; simp at hb; subst hb; simp [mem_removeName]
      · have e' : n ≠ g := fun x => e x.symm
        simp only [e, if_false] at hb
        simp only [mem_removeName, e', ne_eq, not_false_eq_true, and_true]
        exact h n b hb
    · exact h
  | rename _ o nw =>
    simp only [blockStep]
    split
    · split
      · exact h
      · rename_i hm hne
        intro n b hb
        simp only at hb ⊢
        rw [lastSays_append_single] at hb
        simp only [Note.introduces, Note.removes, decide_eq_true_eq] at hb
        by_cases e1 : nw = n
        · subst e1; simp at hb; subst hb; simp [mem_addName]
        · have e1' : ¬ n = nw := fun x => e1 x.symm
          simp only [e1, if_false] at hb
          by_cases e2 : o = n
          · subst e2; simp at hb; subst hb; simp [mem_addName, mem_removeName, e1']
          · have e2' : n ≠ o := fun x => e2 x.symm
            simp only [e2, if_false] at hb
            simp only [mem_addName, mem_removeName, e1', or_false, e2', ne_eq, not_false_eq_true, and_true]
            exact h n b hb
    · exact h
  | _ => exact h

theorem saysRight_run {s : List Name × List Note} (h : SaysRight s) (ops : List Op) :
    SaysRight (blockRun s ops) := by
  induction ops generalizing s with
  | nil => exact h
  | cons op ops ih => rw [blockRun_cons]; exact ih (saysRight_step h op)

theorem saysRight_start (gl : List Name) : SaysRight (gl, []) := by
  intro n b hb; simp [lastSays] at hb

/-- the notifications a block posts speak only about names its operations speak about -/
theorem posted_names (s : List Name × List Note) (ops : List Op) {nt : Note}
    (h : nt ∈ (blockRun s ops).2) : nt ∈ s.2 ∨ ∀ x ∈ nt.names, ∃ op ∈ ops, x ∈ op.touched := by
  induction ops generalizing s with
  | nil => exact Or.inl h
  | cons op ops ih =>
    rw [blockRun_cons] at h
    rcases ih _ h with h1 | h1
    · have : nt ∈ s.2 ∨ ∀ x ∈ nt.names, x ∈ op.touched := by
        cases op with
        | newGlyph _ g =>
          simp only [blockStep, List.mem_append, List.mem_singleton] at h1
          rcases h1 with h1 | h1
          · exact Or.inl h1
          · subst h1; exact Or.inr (by simp [Note.names, Op.touched])
        | insertGlyph _ g =>
          simp only [blockStep, List.mem_append, List.mem_singleton] at h1
          rcases h1 with h1 | h1
          · exact Or.inl h1
          · subst h1; exact Or.inr (by simp [Note.names, Op.touched])
        | delGlyph _ g =>
          simp only [blockStep] at h1
          split at h1
          · simp only [List.mem_append, List.mem_singleton] at h1
            rcases h1 with h1 | h1
            · exact Or.inl h1
            · subst h1; exact Or.inr (by simp [Note.names, Op.touched])
          · exact Or.inl h1
        | rename _ o n =>
          simp only [blockStep] at h1
          split at h1
          · split at h1
            · exact Or.inl h1
            · simp only [List.mem_append, List.mem_singleton] at h1
              rcases h1 with h1 | h1
              · exact Or.inl h1
              · subst h1; exact Or.inr (by simp [Note.names, Op.touched])
          · exact Or.inl h1
        | _ => exact Or.inl h1
      rcases this with k | k
      · exact Or.inl k
      · exact Or.inr (fun x hx => ⟨op, by simp, k x hx⟩)
    · exact Or.inr (fun x hx => by
        obtain ⟨o2, ho2, hx2⟩ := h1 x hx
        exact ⟨o2, List.mem_cons_of_mem _ ho2, hx2⟩)

/-! ## Operations on a disabled layer -/

theorem newGlyph_disabled {f : Font} {L : String} {l : Layer} (hget : AL.get? f.layers L = some l)
    (hd : l.disabled ≠ 0) (g : Name) :
    newGlyph f L g = (setLayer f L { l with glyphs := addName l.glyphs g }, .ok) := by
  unfold newGlyph
  rw [hget]
  simp only
  rw [post_disabled (l := { l with glyphs := addName l.glyphs g }) (by rw [get?_setLayer, if_pos rfl]) hd]

theorem delGlyph_disabled {f : Font} {L : String} {l : Layer} (hget : AL.get? f.layers L = some l)
    (hd : l.disabled ≠ 0) {g : Name} (hm : g ∈ l.glyphs) :
    delGlyph f L g = (setLayer f L { l with glyphs := removeName l.glyphs g }, .ok) := by
  unfold delGlyph
  rw [hget]
  simp only [hm, if_true]
  rw [post_disabled (l := { l with glyphs := removeName l.glyphs g }) (by rw [get?_setLayer, if_pos rfl]) hd]

theorem rename_disabled {f : Font} {L : String} {l : Layer} (hget : AL.get? f.layers L = some l)
    (hd : l.disabled ≠ 0) {old new : Name} (hm : old ∈ l.glyphs) (hne : old ≠ new) :
    rename f L old new = (setLayer f L { l with glyphs := addName (removeName l.glyphs old) new }, .ok) := by
  unfold rename
  rw [hget]
  simp only [hm, hne, if_true, if_false]
  rw [post_disabled (l := { l with glyphs := addName (removeName l.glyphs old) new })
    (by rw [get?_setLayer, if_pos rfl]) hd]

/-- on a disabled layer on which nothing is held or queued, `insertGlyph`'s bracket opens and closes
around a dropped notification -/
theorem insertGlyph_disabled {f : Font} {L : String} {l : Layer} (hget : AL.get? f.layers L = some l)
    (hd : l.disabled ≠ 0) (hh : l.held = 0) (hq : l.queue = []) (g : Name) :
    insertGlyph f L g = (setLayer f L { l with glyphs := addName l.glyphs g }, .ok) := by
  obtain ⟨gl, ob, he, qu, di⟩ := l
  simp only at hd hh hq
  subst hh; subst hq
  have e1 : (holdLayer f L).1 =
      setLayer f L { glyphs := gl, observed := ob, held := 1, queue := [], disabled := di } := by
    unfold holdLayer; rw [hget]
  have e2 : (newGlyph (setLayer f L { glyphs := gl, observed := ob, held := 1, queue := [], disabled := di }) L g).1 =
      setLayer f L { glyphs := addName gl g, observed := ob, held := 1, queue := [], disabled := di } := by
    rw [newGlyph_disabled (l := { glyphs := gl, observed := ob, held := 1, queue := [], disabled := di })
      (by rw [get?_setLayer, if_pos rfl]) hd, setLayer_setLayer]
  have e3 : (releaseLayer (setLayer f L
      { glyphs := addName gl g, observed := ob, held := 1, queue := [], disabled := di }) L).1 =
      setLayer f L { glyphs := addName gl g, observed := ob, held := 0, queue := [], disabled := di } := by
    unfold releaseLayer
    rw [get?_setLayer, if_pos rfl]
    simp only [Nat.one_ne_zero, if_false, if_true, flush]
    rw [setLayer_setLayer]
  unfold insertGlyph
  rw [hget]
  simp only
  rw [e1, e2, e3]

/-- a block of glyph operations on a disabled layer (nothing held): the names follow the operations,
nothing else changes — the font is told nothing -/
theorem run_disabledBlock {f : Font} {L : String} {l : Layer} (hget : AL.get? f.layers L = some l)
    (hd : l.disabled ≠ 0) (hh : l.held = 0) (hq : l.queue = []) (block : List Op)
    (hb : ∀ op ∈ block, op.onLayer L = true) (gl0 : List Name) :
    run (setLayer f L { l with glyphs := gl0 }) block =
      setLayer f L { l with glyphs := (blockRun (gl0, []) block).1 } := by
  suffices h : ∀ (s0 : List Name × List Note),
      run (setLayer f L { l with glyphs := s0.1 }) block =
        setLayer f L { l with glyphs := (blockRun s0 block).1 } from h (gl0, [])
  induction block with
  | nil => intro s0; rfl
  | cons op ops ih =>
    intro s0
    have hop := hb op (List.mem_cons_self ..)
    have hrest := fun o ho => hb o (List.mem_cons_of_mem _ ho)
    have hget' : AL.get? (setLayer f L { l with glyphs := s0.1 }).layers L = some { l with glyphs := s0.1 } := by
      rw [get?_setLayer, if_pos rfl]
    simp only [run]
    rw [blockRun_cons]
    suffices hstep : (step (setLayer f L { l with glyphs := s0.1 }) op).1 =
        setLayer f L { l with glyphs := (blockStep s0 op).1 } by
      rw [hstep]; exact ih hrest _
    cases op with
    | newGlyph L' g =>
      simp only [Op.onLayer, decide_eq_true_eq] at hop; subst hop
      simp only [step, blockStep]
      rw [newGlyph_disabled hget' hd, setLayer_setLayer]
    | insertGlyph L' g =>
      simp only [Op.onLayer, decide_eq_true_eq] at hop; subst hop
      simp only [step, blockStep]
      rw [insertGlyph_disabled hget' hd hh hq, setLayer_setLayer]
    | delGlyph L' g =>
      simp only [Op.onLayer, decide_eq_true_eq] at hop; subst hop
      simp only [step, blockStep]
      by_cases hm : g ∈ s0.1
      · rw [delGlyph_disabled hget' hd (by exact hm), setLayer_setLayer]
        simp only [hm, if_true]
      · simp only [hm, if_false]
        unfold delGlyph
        rw [hget']
        simp only [hm, if_false]
    | rename L' o n =>
      simp only [Op.onLayer, decide_eq_true_eq] at hop; subst hop
      simp only [step, blockStep]
      by_cases hm : o ∈ s0.1
      · by_cases hne : o = n
        · subst hne
          simp only [hm, if_true]
          unfold rename
          rw [hget']
          simp only [hm, if_true]
        · rw [rename_disabled hget' hd (by exact hm) hne, setLayer_setLayer]
          simp only [hm, hne, if_true, if_false]
      · simp only [hm, if_false]
        unfold rename
        rw [hget']
        simp only [hm, if_false]
    | _ => simp [Op.onLayer] at hop

/-! ## Two renamings in a row -/

theorem replaceFirst_replaceFirst {o : List Name} {a b c : Name} (hb : b ∉ o) :
    replaceFirst (replaceFirst o a b) b c = replaceFirst o a c := by
  induction o with
  | nil => rfl
  | cons x r ih =>
    simp only [List.mem_cons, not_or] at hb
    by_cases hx : x = a
    · simp [replaceFirst, hx]
    · have hxb : ¬ x = b := fun e => hb.1 e.symm
      simp [replaceFirst, hx, hxb, ih hb.2]

theorem mem_replaceFirst {o : List Name} {a b x : Name} (h : x ∈ replaceFirst o a b) : x ∈ o ∨ x = b := by
  induction o with
  | nil => simp [replaceFirst] at h
  | cons y r ih =>
    by_cases hy : y = a
    · simp only [replaceFirst, hy, if_true, List.mem_cons] at h
      rcases h with h | h
      · exact Or.inr h
      · exact Or.inl (List.mem_cons_of_mem _ h)
    · simp only [replaceFirst, hy, if_false, List.mem_cons] at h
      rcases h with h | h
      · exact Or.inl (by simp [h])
      · rcases ih h with h | h
        · exact Or.inl (List.mem_cons_of_mem _ h)
        · exact Or.inr h

/-! ## D: hold, block, release -/

theorem coalesce_nil_right (q : List Note) : coalesce q [] = q := rfl

/-- The state just before the release, the layers after it, and the order after it: the queue the
block left (what it posted, coalesced) is delivered against the layers as they are at the release. -/
theorem heldRun_spec {f : Font} (hw : WF f) {L : String} {l : Layer}
    (hget : AL.get? f.layers L = some l) (hc : l.calm) (block : List Op)
    (hb : ∀ op ∈ block, op.onLayer L = true) :
    run f (.holdLayer L :: block) =
      setLayer f L { l with glyphs := (blockRun (l.glyphs, []) block).1, held := 1,
                            queue := coalesce [] (blockRun (l.glyphs, []) block).2 } ∧
    (heldRun f L block).layers =
      (setLayer f L { l with glyphs := (blockRun (l.glyphs, []) block).1 }).layers ∧
    glyphOrder (heldRun f L block) =
      specDeliverAll (anyLayerHas (heldRun f L block)) (glyphOrder f)
        (coalesce [] (blockRun (l.glyphs, []) block).2) := by
  obtain ⟨hh, hd, hq⟩ := hc
  obtain ⟨gl, ob, he, qu, di⟩ := l
  simp only at hh hd hq
  subst hh; subst hd; subst hq
  have ho : ob = true := observed_of_get? hw hget
  -- the hold
  have e1 : (step f (.holdLayer L)).1 =
      setLayer f L { glyphs := gl, observed := ob, held := 1, queue := [], disabled := 0 } := by
    simp only [step, holdLayer, hget]
  have hget1 : AL.get? (setLayer f L { glyphs := gl, observed := ob, held := 1, queue := [], disabled := 0 }).layers L =
      some { glyphs := gl, observed := ob, held := 1, queue := [], disabled := 0 } := by
    rw [get?_setLayer, if_pos rfl]
  -- the block
  have hrun := run_heldBlock hget1 (by simp) rfl block hb (gl, [])
  simp only [coalesce_nil_right, setLayer_setLayer] at hrun
  have eB : run f (.holdLayer L :: block) =
      setLayer f L { glyphs := (blockRun (gl, []) block).1, observed := ob, held := 1,
                     queue := coalesce [] (blockRun (gl, []) block).2, disabled := 0 } := by
    simp only [run]; rw [e1]; exact hrun
  refine ⟨eB, ?_⟩
  -- the release
  have hwB : WF (run f (.holdLayer L :: block)) := wf_run hw _
  have hgetB : AL.get? (run f (.holdLayer L :: block)).layers L =
      some { glyphs := (blockRun (gl, []) block).1, observed := ob, held := 1,
             queue := coalesce [] (blockRun (gl, []) block).2, disabled := 0 } := by
    rw [eB, get?_setLayer, if_pos rfl]
  obtain ⟨_, r2, r3⟩ := releaseLayer_last hwB hgetB rfl rfl
  have eH : heldRun f L block = (releaseLayer (run f (.holdLayer L :: block)) L).1 := by
    unfold heldRun
    rw [show [Op.holdLayer L] ++ block ++ [Op.releaseLayer L] = (Op.holdLayer L :: block) ++ [Op.releaseLayer L] by simp,
      run_append]
    rfl
  have hlay : (heldRun f L block).layers =
      (setLayer f L { glyphs := (blockRun (gl, []) block).1, observed := ob, held := 0, queue := [],
                      disabled := 0 }).layers := by
    rw [eH, r2, eB, setLayer_setLayer]
  refine ⟨hlay, ?_⟩
  rw [eH, r3]
  have hany : anyLayerHas (releaseLayer (run f (.holdLayer L :: block)) L).1 =
      anyLayerHas (run f (.holdLayer L :: block)) := by
    rw [anyLayerHas_congr r2]
    exact anyLayerHas_setLayer_same hwB hgetB rfl rfl
  rw [hany]
  have : glyphOrder (run f (.holdLayer L :: block)) = glyphOrder f := by rw [eB]; rfl
  rw [this]

/-! ## E: the same block without a hold -/

theorem blockStep_eq (s : List Name × List Note) (op : Op) :
    (blockStep s op).2 = s.2 ++ (noteOf s.1 op).toList := by
  cases op <;> simp only [blockStep, noteOf] <;> (try split) <;> (try split) <;> simp

theorem blockStep_names_indep (gl : List Name) (p1 p2 : List Note) (op : Op) :
    (blockStep (gl, p1) op).1 = (blockStep (gl, p2) op).1 := by
  cases op <;> simp only [blockStep] <;> (try split) <;> (try split) <;> rfl

theorem blockRun_prefix (gl : List Name) (p : List Note) (ops : List Op) :
    (blockRun (gl, p) ops).1 = (blockRun (gl, []) ops).1 ∧
    (blockRun (gl, p) ops).2 = p ++ (blockRun (gl, []) ops).2 := by
  induction ops generalizing gl p with
  | nil => simp [blockRun]
  | cons op ops ih =>
    rw [blockRun_cons, blockRun_cons]
    have e1 : blockStep (gl, p) op = ((blockStep (gl, []) op).1, p ++ (noteOf gl op).toList) := by
      apply Prod.ext
      · exact blockStep_names_indep gl p [] op
      · exact blockStep_eq (gl, p) op
    have e2 : blockStep (gl, []) op = ((blockStep (gl, []) op).1, (noteOf gl op).toList) := by
      apply Prod.ext
      · rfl
      · simpa using blockStep_eq (gl, []) op
    rw [e1, e2]
    obtain ⟨a1, a2⟩ := ih (blockStep (gl, []) op).1 (p ++ (noteOf gl op).toList)
    obtain ⟨b1, b2⟩ := ih (blockStep (gl, []) op).1 (noteOf gl op).toList
    exact ⟨by rw [a1, b1], by rw [a2, b2, List.append_assoc]⟩

/-- one glyph operation on a calm layer: the names follow `blockStep`; if the layer posts a
notification the font's callback runs at once, on the layers as they are right after the operation -/
theorem calm_step_spec {f : Font} (hw : WF f) {L : String} {l : Layer}
    (hget : AL.get? f.layers L = some l) (hc : l.calm) (op : Op) (hop : op.onLayer L = true) :
    (step f op).1.layers = (setLayer f L { l with glyphs := (blockStep (l.glyphs, []) op).1 }).layers ∧
    glyphOrder (step f op).1 =
      (match noteOf l.glyphs op with
       | some nt => specDeliver (anyLayerHas (step f op).1) (glyphOrder f) nt
       | none => glyphOrder f) := by
  obtain ⟨hh, hd, hq⟩ := hc
  have ho := observed_of_get? hw hget
  have same : (setLayer f L l).layers = f.layers := by rw [setLayer_get_self hget]
  have key : ∀ (gl' : List Name) (nt : Note),
      (deliver (setLayer f L { l with glyphs := gl' }) nt).layers = (setLayer f L { l with glyphs := gl' }).layers ∧
      glyphOrder (deliver (setLayer f L { l with glyphs := gl' }) nt) =
        specDeliver (anyLayerHas (deliver (setLayer f L { l with glyphs := gl' }) nt)) (glyphOrder f) nt := by
    intro gl' nt
    refine ⟨layers_deliver _ _, ?_⟩
    rw [glyphOrder_deliver, anyLayerHas_congr (layers_deliver _ nt)]
    rfl
  have pc : ∀ (gl' : List Name) (nt : Note),
      post (setLayer f L { l with glyphs := gl' }) L nt = deliver (setLayer f L { l with glyphs := gl' }) nt :=
    fun gl' nt => post_calm (l := { l with glyphs := gl' }) (by rw [get?_setLayer, if_pos rfl]) hh hd ho nt
  cases op with
  | newGlyph L' g =>
    simp only [Op.onLayer, decide_eq_true_eq] at hop; subst hop
    simp only [step, newGlyph, hget, blockStep, noteOf, pc]
    exact key _ _
  | insertGlyph L' g =>
    simp only [Op.onLayer, decide_eq_true_eq] at hop; subst hop
    simp only [step]
    rw [insertGlyph_calm hget ⟨hh, hd, hq⟩]
    simp only [newGlyph, hget, blockStep, noteOf, pc]
    exact key _ _
  | delGlyph L' g =>
    simp only [Op.onLayer, decide_eq_true_eq] at hop; subst hop
    by_cases hm : g ∈ l.glyphs
    · simp only [step, delGlyph, hget, hm, if_true, blockStep, noteOf, pc]
      exact key _ _
    · simp only [step, delGlyph, hget, hm, if_false, blockStep, noteOf]
      exact ⟨same.symm, trivial⟩
  | rename L' o n =>
    simp only [Op.onLayer, decide_eq_true_eq] at hop; subst hop
    by_cases hm : o ∈ l.glyphs
    · by_cases hne : o = n
      · subst hne
        simp only [step, rename, hget, hm, if_true, blockStep, noteOf]
        exact ⟨same.symm, trivial⟩
      · simp only [step, rename, hget, hm, hne, if_true, if_false, blockStep, noteOf, pc]
        exact key _ _
    · simp only [step, rename, hget, hm, if_false, blockStep, noteOf]
      exact ⟨same.symm, trivial⟩
  | _ => simp [Op.onLayer] at hop

theorem specDeliver_congr {ex ex' : Name → Bool} {nt : Note} (h : deliverArgs ex nt = deliverArgs ex' nt)
    (o : List Name) : specDeliver ex o nt = specDeliver ex' o nt := by
  unfold specDeliver; rw [h]

/-- The block without a hold, on a calm layer of a well-formed font: if every callback got the
answers `ex` gives, the order at the end is the start order after the delivery, with `ex`, of
everything the block posted (nothing coalesced: each notification was delivered when posted). -/
theorem immediate_as_deliverAll {ex : Name → Bool} {L : String} (block : List Op)
    (hb : ∀ op ∈ block, op.onLayer L = true) {f : Font} (hw : WF f) {l : Layer}
    (hget : AL.get? f.layers L = some l) (hc : l.calm) (ha : AnswersAs ex L f block) :
    (run f block).layers = (setLayer f L { l with glyphs := (blockRun (l.glyphs, []) block).1 }).layers ∧
    glyphOrder (run f block) = specDeliverAll ex (glyphOrder f) (blockRun (l.glyphs, []) block).2 := by
  induction block generalizing f l with
  | nil =>
    simp only [run, blockRun, List.foldl_nil, specDeliverAll]
    exact ⟨by rw [setLayer_get_self hget], trivial⟩
  | cons op ops ih =>
    have hop := hb op (List.mem_cons_self ..)
    obtain ⟨s1, s2⟩ := calm_step_spec hw hget hc op hop
    have hlg : layerGlyphs f L = l.glyphs := by simp [layerGlyphs, hget]
    simp only [AnswersAs, answersAs, Bool.and_eq_true, hlg] at ha
    obtain ⟨a1, a2⟩ := ha
    have hw1 : WF (step f op).1 := wf_step hw op
    have hget1 : AL.get? (step f op).1.layers L = some { l with glyphs := (blockStep (l.glyphs, []) op).1 } := by
      rw [s1, get?_setLayer, if_pos rfl]
    have hc1 : ({ l with glyphs := (blockStep (l.glyphs, []) op).1 } : Layer).calm := hc
    obtain ⟨i1, i2⟩ := ih (fun o ho => hb o (List.mem_cons_of_mem _ ho)) hw1 hget1 hc1 a2
    simp only [run]
    rw [blockRun_cons]
    have e2 : blockStep (l.glyphs, []) op = ((blockStep (l.glyphs, []) op).1, (noteOf l.glyphs op).toList) := by
      apply Prod.ext
      · rfl
      · simpa using blockStep_eq (l.glyphs, []) op
    obtain ⟨p1, p2⟩ := blockRun_prefix (blockStep (l.glyphs, []) op).1 (noteOf l.glyphs op).toList ops
    rw [e2, p1, p2]
    refine ⟨?_, ?_⟩
    · rw [i1]
      unfold setLayer
      simp only
      rw [s1]
      unfold setLayer
      simp only [set_set]
    · rw [i2, specDeliverAll_append]
      congr 1
      cases hn : noteOf l.glyphs op with
      | none => rw [hn] at s2; simpa [specDeliverAll] using s2
      | some nt =>
        rw [hn] at s2 a1
        simp only [decide_eq_true_eq] at a1
        simp only [Option.toList, specDeliverAll, List.foldl_cons, List.foldl_nil]
        rw [s2]
        exact specDeliver_congr a1 _

end GlyphOrder
end DefconModel
