/-
The three operations that change which glyph a name denotes: `newGlyph`, `delGlyph`, `rename`.
-/
import DefconModel.Lemmas.ReprSwitch

namespace DefconModel
namespace Repr

variable {V : Type}

/-- skeleton: the caches of `w2` come from `w` under the same keys, everything delivered is `ds`,
and whatever survives sees the same view as before -/
theorem inv_skeleton (P : Params V) (T : Tables) (w w2 : World V) (ds : List (Obj × String)) (hinv : Inv P T w)
    (hrg : w2.regs = w.regs)
    (hent : ∀ o nm sk v, (cacheOf w2 o).get? nm sk = some v → (cacheOf w o).get? nm sk = some v)
    (hloose : LooseEmpty w2)
    (hview : ∀ o nm sk v, (cacheOf (applyDeliv T w2 ds) o).get? nm sk = some v →
      viewOf T w2 o nm = viewOf T w o nm) : Inv P T (applyDeliv T w2 ds) := by
  have hss := sameStruct_applyDeliv T w2 ds
  refine ⟨?_, ?_, ?_, ?_⟩
  · intro o nm sk v hs
    have h1 := (get?_applyDeliv T w2 ds o nm sk v hs).1
    unfold fresh
    rw [viewOf_congr T hss, hview o nm sk v hs]
    exact hinv.coh _ _ _ _ (hent _ _ _ _ h1)
  · intro o ha nm sk
    rw [attached_congr hss] at ha
    cases hc : (cacheOf (applyDeliv T w2 ds) o).get? nm sk with
    | none => rfl
    | some v =>
      have := (get?_applyDeliv T w2 ds o nm sk v hc).1
      rw [hloose o ha nm sk] at this; cases this
  · intro o nm sk v hs
    have h1 := (get?_applyDeliv T w2 ds o nm sk v hs).1
    rw [hss.regs, hrg]
    exact hinv.creg _ _ _ _ (hent _ _ _ _ h1)
  · intro r hr'
    rw [hss.regs, hrg] at hr'
    exact hinv.rdef r hr'

theorem set_absent {α : Type} (gs : List (String × α)) (k : String) (v : α) (h : AL.get? gs k = none) :
    AL.set gs k v = gs ++ [(k, v)] := by
  induction gs with
  | nil => rfl
  | cons p r ih =>
    obtain ⟨k', v'⟩ := p
    simp only [AL.get?_cons] at h
    by_cases e : k' = k
    · simp [e] at h
    · simp only [e, if_false] at h
      simp only [AL.set, e, if_false, List.cons_append, ih h]

def emptyGlyph (attr : Nat) : GlyphS := { attr := attr, contours := [], comps := [] }

theorem find?_add_empty (gs : Layer) (name : String) (attr : Nat) (pred : GlyphS → Bool)
    (h : AL.get? gs name = none) (hp : pred (emptyGlyph attr) = false) :
    (AL.set gs name (emptyGlyph attr)).find? (fun p => pred p.2) = gs.find? (fun p => pred p.2) := by
  rw [set_absent gs name _ h, List.find?_append]
  cases gs.find? (fun p => pred p.2) with
  | some p => rfl
  | none => simp [hp]

/-- a glyph that nobody could see appears under `name`: the views that do not read `name` are the same -/
theorem outline_add (n : Nat) (gs : Layer) (name : String) (g0 : GlyphS) (c : String)
    (hno : ∀ m, ¬ ReadsN (AL.set gs name g0) m c name) :
    outline n (AL.set gs name g0) c = outline n gs c := by
  symm
  apply outline_agree
  intro m b hr
  by_cases e : name = b
  · subst e; exact absurd hr (hno m)
  · rw [AL.get?_set_ne _ _ _ _ e]

theorem get?_none_of_not_contains {α : Type} {gs : List (String × α)} {k : String} (h : AL.contains gs k = false) :
    AL.get? gs k = none := (AL.contains_false_iff gs k).mp h

/-- `newGlyph` on an absent name, stated on explicit intermediate worlds -/
theorem inv_newGlyph_core (P : Params V) (T : Tables) (hcov : Coverage T = true) (w w1 w2 : World V) (name : String)
    (attr : Nat) (hinv : Inv P T w) (hdom : Dom w) (habs : AL.get? w.glyphs name = none)
    (hgs1 : w1.glyphs = AL.set w.glyphs name (emptyGlyph attr)) (hlc1 : w1.looseC = w.looseC)
    (hlk1 : w1.looseK = w.looseK) (hf1 : w1.fuel = w.fuel) (hgv1 : w1.groupsVer = w.groupsVer)
    (hgs2 : w2.glyphs = mapAllComps w1.glyphs (setWatch (waitsFor name) Watch.base)) (hlc2 : w2.looseC = w1.looseC)
    (hlk2 : w2.looseK = w1.looseK) (hf2 : w2.fuel = w1.fuel) (hgv2 : w2.groupsVer = w1.groupsVer)
    (hrg : w2.regs = w.regs) (hca : w2.caches = w.caches)
    (hdom2 : Dom w2) :
    Inv P T (applyDeliv T w2 (switchDs T w1 (waitsFor name) Watch.base "layerGlyphAddedNotificationCallback")) := by
  have hkd := keepsData_setWatch (waitsFor name) Watch.base
  have hvm := fun o nm => view_mapAll hkd T w1 w2 hgs2 hlc2 hlk2 hf2 hgv2 o nm
  -- attachment in w1 versus w
  have hatt1 : ∀ o, attached w1 o = false → attached w o = false := by
    intro o ha
    cases o with
    | groups => exact ha
    | contour cid =>
      simp only [attached, hostOfContour, hgs1] at ha ⊢
      rw [find?_add_empty w.glyphs name attr (hasContour cid) habs rfl] at ha; exact ha
    | comp kid =>
      simp only [attached, hostOfComp, hgs1] at ha ⊢
      rw [find?_add_empty w.glyphs name attr (hasComp kid) habs rfl] at ha; exact ha
    | glyph x =>
      simp only [attached, hgs1, AL.contains_set, Bool.or_eq_false_iff] at ha ⊢
      exact ha.2
  have hent : ∀ o nm sk v, (cacheOf w2 o).get? nm sk = some v → (cacheOf w o).get? nm sk = some v := by
    intro o nm sk v hv; rw [cacheOf_eq_of_caches hca] at hv; exact hv
  -- every component whose base is `name` was waiting on the layer and has run the callback
  have hsel : ∀ z gz kz, AL.get? w2.glyphs z = some gz → kz ∈ gz.comps → kz.base = some name →
      ∀ y, y ∈ compDeliv w2.fuel T w2.glyphs z kz.id (T.postsOf "Component" "layerGlyphAddedNotificationCallback") →
        y ∈ switchDs T w1 (waitsFor name) Watch.base "layerGlyphAddedNotificationCallback" := by
    intro z gz kz hgz hkz hbz y hy
    rw [hgs2, get?_mapAllComps] at hgz
    cases hg1 : AL.get? w1.glyphs z with
    | none => rw [hg1] at hgz; cases hgz
    | some g1 =>
      rw [hg1] at hgz
      simp only [Option.map_some, Option.some.injEq] at hgz
      subst hgz
      simp only [List.mem_map] at hkz
      obtain ⟨k1, hk1, e⟩ := hkz
      subst e
      rw [hkd.base] at hbz
      rw [hkd.id] at hy
      have hzne : name ≠ z := by
        intro e; subst e
        rw [hgs1, AL.get?_set_self] at hg1
        cases hg1; cases hk1
      have hg0 : AL.get? w.glyphs z = some g1 := by
        rw [hgs1, AL.get?_set_ne _ _ _ _ hzne] at hg1; exact hg1
      have hwait := hdom.wait z g1 k1 name hg0 hk1 hbz ((AL.contains_false_iff _ _).mpr habs)
      refine mem_switchDs hg1 hk1 (by simp [waitsFor, hwait, hbz]) ?_
      rw [hf2, hgs2] at hy; exact hy
  have hhits := fun {x' gx k c m} => switch_hits T hcov w2.glyphs w2.fuel name "layerGlyphAddedNotificationCallback" _
    (by simp [compCallbacks]) hdom2.bounded
    (fun x' g k x a1 a2 a3 _ a5 => hdom2.watch x' g k x a1 a2 a3 a5) hsel (x' := x') (gx := gx) (k := k) (c := c) (m := m)
  refine inv_skeleton P T w w2 _ hinv hrg hent ?_ ?_
  · intro o ha nm sk
    rw [(hvm o nm).2] at ha
    rw [cacheOf_eq_of_caches hca]
    exact hinv.loose o (hatt1 o ha) nm sk
  · intro o nm sk v hs
    have h1 := hent _ _ _ _ (get?_applyDeliv T w2 _ o nm sk v hs).1
    rw [(hvm o nm).1]
    -- attached in w, else nothing is cached
    have hatt : attached w o = true := by
      cases ha : attached w o with
      | true => rfl
      | false => rw [hinv.loose o ha nm sk] at h1; cases h1
    cases o with
    | groups => simp [viewOf, hgv1]
    | contour cid =>
      apply viewOf_contour_of_find
      unfold findContour hostOfContour
      rw [hgs1, find?_add_empty w.glyphs name attr (hasContour cid) habs rfl, hlc1]
    | glyph x =>
      have hxne : name ≠ x := by
        intro e; subst e
        simp only [attached] at hatt
        rw [(AL.contains_false_iff _ _).mpr habs] at hatt; cases hatt
      simp only [viewOf, hgs1, hf1, AL.get?_set_ne _ _ _ _ hxne]
      cases hgx : AL.get? w.glyphs x with
      | none => rfl
      | some gx =>
        simp only [Option.map_some, Option.getD_some]
        by_cases hex : ∃ k c m, k ∈ gx.comps ∧ k.base = some c ∧ ReadsN w1.glyphs m c name
        · exfalso
          obtain ⟨k, c, m, hk, hb, hrd⟩ := hex
          have hg2 : AL.get? w2.glyphs x = some { gx with comps := gx.comps.map (setWatch (waitsFor name) Watch.base) } := by
            rw [hgs2, get?_mapAllComps, hgs1, AL.get?_set_ne _ _ _ _ hxne, hgx]; rfl
          obtain ⟨d, y, hd, hy, hhit⟩ := (hhits hg2 (List.mem_map_of_mem hk) (by rw [hkd.base]; exact hb)
            (by rw [hgs2]; exact (readsN_mapAllComps hkd _).mpr hrd)).2 w.regs nm hinv.rdef (hinv.creg _ _ _ _ h1).1
          exact not_survivor hs (by rw [hrg]; exact hd) hy hhit
        · have key : glyphOutline w.fuel (AL.set w.glyphs name (emptyGlyph attr)) gx = glyphOutline w.fuel w.glyphs gx := by
            unfold glyphOutline bodyWith
            congr 3
            apply flatMap_congr'
            intro k hk
            unfold compHead
            cases hb : k.base with
            | none => rfl
            | some c =>
              simp only
              rw [outline_add]
              intro m hrd
              exact hex ⟨k, c, m, hk, hb, by rw [hgs1]; exact hrd⟩
          unfold glyphView
          rw [key]
    | comp kid =>
      obtain ⟨k0, hk0⟩ : ∃ k0, findComp w kid = some k0 := by
        simp only [attached] at hatt
        unfold findComp
        cases hh : hostOfComp w.glyphs kid with
        | none => rw [hh] at hatt; cases hatt
        | some p =>
          simp only
          have := List.find?_some hh
          exact compIn_of_has (by simpa [hostOfComp] using this)
      have hfind : findComp w1 kid = findComp w kid := by
        unfold findComp hostOfComp
        rw [hgs1, find?_add_empty w.glyphs name attr (hasComp kid) habs rfl, hlk1]
      simp only [viewOf, hfind, hk0, Option.map_some, Option.getD_some, hf1]
      unfold compView
      by_cases hbi : isBuiltin T "Component" nm = true
      · simp only [hbi, if_true]
        unfold compToks compHead
        cases hb : k0.base with
        | none => rfl
        | some c =>
          simp only
          by_cases hex : ∃ m, ReadsN w1.glyphs m c name
          · exfalso
            obtain ⟨m, hrd⟩ := hex
            obtain ⟨x', gx', hgx', hkm⟩ := findComp_attached w hdom.ids.keys kid k0 hatt hk0
            have hxne : name ≠ x' := by intro e; subst e; rw [habs] at hgx'; cases hgx'
            have hg2 : AL.get? w2.glyphs x' = some { gx' with comps := gx'.comps.map (setWatch (waitsFor name) Watch.base) } := by
              rw [hgs2, get?_mapAllComps, hgs1, AL.get?_set_ne _ _ _ _ hxne, hgx']; rfl
            obtain ⟨d, y, hd, hy, hhit⟩ := (hhits hg2 (List.mem_map_of_mem hkm) (by rw [hkd.base]; exact hb)
              (by rw [hgs2]; exact (readsN_mapAllComps hkd _).mpr hrd)).1 nm hbi
            rw [hkd.id, findComp_id hk0] at hy
            exact not_survivor hs (mem_facsOf_builtin hd) hy hhit
          · rw [hgs1, outline_add]
            intro m hrd
            exact hex ⟨m, by rw [hgs1]; exact hrd⟩
      · simp [hbi]

/-! ### deletion -/

theorem evictObj_with_glyphs (T : Tables) (w : World V) (G : Layer) (o : Obj) (n : String) :
    ({ evictObj T w o n with glyphs := G } : World V) = evictObj T { w with glyphs := G } o n := rfl

theorem applyDeliv_with_glyphs (T : Tables) (w : World V) (G : Layer) (ds : List (Obj × String)) :
    ({ applyDeliv T w ds with glyphs := G } : World V) = applyDeliv T { w with glyphs := G } ds := by
  unfold applyDeliv
  induction ds generalizing w with
  | nil => rfl
  | cons d r ih =>
    simp only [List.foldl_cons]
    rw [ih]; rfl

theorem sameStruct_dropMany (w : World V) (gone : List Obj) : SameStruct w (gone.foldl dropCache w) := by
  induction gone generalizing w with
  | nil => exact SameStruct.refl w
  | cons o r ih => exact (sameStruct_dropCache w o).trans (ih _)

theorem cacheOf_dropMany (w : World V) (gone : List Obj) (o : Obj) :
    cacheOf (gone.foldl dropCache w) o = if o ∈ gone then [] else cacheOf w o := by
  induction gone generalizing w with
  | nil => simp
  | cons a r ih =>
    simp only [List.foldl_cons]
    rw [ih, cacheOf_dropCache]
    by_cases h1 : o ∈ r
    · simp [h1]
    · by_cases h2 : a = o
      · subst h2; simp [h1]
      · have : ¬ o = a := fun e => h2 e.symm
        simp [h1, h2, this]

theorem eraseAll_mapAllComps (gs : Layer) (f : CompS → CompS) (name : String) :
    eraseAll (mapAllComps gs f) name = mapAllComps (eraseAll gs name) f := by
  unfold eraseAll mapAllComps
  rw [List.filter_map]
  rfl

theorem find?_filter_pos {α : Type} (l : List α) (q pf : α → Bool) (p : α) (h : l.find? q = some p) (hp : pf p = true) :
    (l.filter pf).find? q = some p := by
  induction l with
  | nil => cases h
  | cons a r ih =>
    simp only [List.find?_cons] at h
    cases hq : q a with
    | true =>
      rw [hq] at h
      simp only [Option.some.injEq] at h
      subst h
      simp [List.filter_cons, hp, List.find?_cons, hq]
    | false =>
      rw [hq] at h
      by_cases hpa : pf a = true
      · simp only [List.filter_cons, hpa, if_true, List.find?_cons, hq]
        exact ih h
      · simp only [List.filter_cons, hpa]
        exact ih h

theorem find?_filter_none {α : Type} (l : List α) (q pf : α → Bool) (h : l.find? q = none) :
    (l.filter pf).find? q = none := by
  rw [List.find?_eq_none] at h ⊢
  intro x hx
  exact h x (List.mem_filter.mp hx).1

/-- the outline of everything that does not read `name` survives the deletion of `name` -/
theorem outline_erase (n : Nat) (gs : Layer) (name : String) (c : String)
    (hno : ∀ m, ¬ ReadsN gs m c name) : outline n (eraseAll gs name) c = outline n gs c := by
  apply outline_agree
  intro m b hr
  by_cases e : name = b
  · subst e; exact absurd hr (hno m)
  · rw [get?_eraseAll]; simp [e]

theorem inv_skeleton_drop (P : Params V) (T : Tables) (w w3 : World V) (ds : List (Obj × String)) (gone : List Obj)
    (hinv : Inv P T w) (hrg : w3.regs = w.regs)
    (hent : ∀ o nm sk v, (cacheOf w3 o).get? nm sk = some v → (cacheOf w o).get? nm sk = some v)
    (hloose : ∀ o, attached w3 o = false → o ∈ gone ∨ ∀ nm sk, (cacheOf w3 o).get? nm sk = none)
    (hview : ∀ o nm sk v, o ∉ gone → (cacheOf (applyDeliv T w3 ds) o).get? nm sk = some v →
      viewOf T w3 o nm = viewOf T w o nm) : Inv P T (gone.foldl dropCache (applyDeliv T w3 ds)) := by
  have hss := (sameStruct_applyDeliv T w3 ds).trans (sameStruct_dropMany (applyDeliv T w3 ds) gone)
  have hsurv : ∀ o nm sk v, (cacheOf (gone.foldl dropCache (applyDeliv T w3 ds)) o).get? nm sk = some v →
      o ∉ gone ∧ (cacheOf (applyDeliv T w3 ds) o).get? nm sk = some v := by
    intro o nm sk v hv
    rw [cacheOf_dropMany] at hv
    by_cases e : o ∈ gone
    · simp [e, Cache.get?] at hv
    · simp only [e, if_false] at hv; exact ⟨e, hv⟩
  refine ⟨?_, ?_, ?_, ?_⟩
  · intro o nm sk v hv
    obtain ⟨hng, hs⟩ := hsurv _ _ _ _ hv
    have h1 := (get?_applyDeliv T w3 ds o nm sk v hs).1
    unfold fresh
    rw [viewOf_congr T hss, hview o nm sk v hng hs]
    exact hinv.coh _ _ _ _ (hent _ _ _ _ h1)
  · intro o ha nm sk
    rw [attached_congr hss] at ha
    cases hc : (cacheOf (gone.foldl dropCache (applyDeliv T w3 ds)) o).get? nm sk with
    | none => rfl
    | some v =>
      obtain ⟨hng, hs⟩ := hsurv _ _ _ _ hc
      have h1 := (get?_applyDeliv T w3 ds o nm sk v hs).1
      rcases hloose o ha with hg | hn
      · exact absurd hg hng
      · rw [hn nm sk] at h1; cases h1
  · intro o nm sk v hv
    obtain ⟨_, hs⟩ := hsurv _ _ _ _ hv
    have h1 := (get?_applyDeliv T w3 ds o nm sk v hs).1
    rw [hss.regs, hrg]
    exact hinv.creg _ _ _ _ (hent _ _ _ _ h1)
  · intro r hr'
    rw [hss.regs, hrg] at hr'
    exact hinv.rdef r hr'

theorem mem_goneObjs_contour {name : String} {g : GlyphS} {cid : Nat} (h : hasContour cid g = true) :
    Obj.contour cid ∈ goneObjs name g := by
  unfold hasContour at h
  rw [List.any_eq_true] at h
  obtain ⟨c, hc, hid⟩ := h
  simp only [decide_eq_true_eq] at hid
  unfold goneObjs
  simp only [List.mem_cons, List.mem_append, List.mem_map]
  exact Or.inr (Or.inl ⟨c, hc, by rw [hid]⟩)

theorem mem_goneObjs_comp {name : String} {g : GlyphS} {kid : Nat} (h : hasComp kid g = true) :
    Obj.comp kid ∈ goneObjs name g := by
  unfold hasComp at h
  rw [List.any_eq_true] at h
  obtain ⟨c, hc, hid⟩ := h
  simp only [decide_eq_true_eq] at hid
  unfold goneObjs
  simp only [List.mem_cons, List.mem_append, List.mem_map]
  exact Or.inr (Or.inr ⟨c, hc, by rw [hid]⟩)

/-- a host other than `name` is still the host after `name` was deleted; a host `name` means the
object is among those dropped with the glyph -/
theorem host_after_erase (gs : Layer) (hn : (AL.keys gs).Nodup) (name : String) (g : GlyphS)
    (hg : AL.get? gs name = some g) (pred : GlyphS → Bool) :
    ((gs.find? fun p => pred p.2) = none ∧ ((eraseAll gs name).find? fun p => pred p.2) = none) ∨
    (∃ p, (gs.find? fun p => pred p.2) = some p ∧ p.1 ≠ name ∧ ((eraseAll gs name).find? fun p => pred p.2) = some p) ∨
    pred g = true := by
  cases hf : gs.find? (fun p => pred p.2) with
  | none => exact Or.inl ⟨rfl, find?_filter_none _ _ _ hf⟩
  | some p =>
    by_cases e : p.1 = name
    · refine Or.inr (Or.inr ?_)
      have hm := List.mem_of_find?_eq_some hf
      have := AL.get?_of_mem_nodup hn hm
      rw [e, hg] at this
      have hp := List.find?_some hf
      rw [← Option.some.inj this] at hp
      exact hp
    · refine Or.inr (Or.inl ⟨p, rfl, e, ?_⟩)
      unfold eraseAll
      exact find?_filter_pos _ _ _ p hf (by simpa using e)

/-- `del layer[name]`, stated on explicit intermediate worlds -/
theorem inv_delGlyph_core (P : Params V) (T : Tables) (hcov : Coverage T = true) (w w2 w3 : World V) (name : String)
    (g : GlyphS) (hinv : Inv P T w) (hdom : Dom w) (hg : AL.get? w.glyphs name = some g)
    (hgs2 : w2.glyphs = mapAllComps w.glyphs (setWatch (watchesBase name) Watch.layer))
    (hgs3 : w3.glyphs = eraseAll w2.glyphs name) (hlc : w3.looseC = w.looseC) (hlk : w3.looseK = w.looseK)
    (hf : w3.fuel = w.fuel) (hgv : w3.groupsVer = w.groupsVer) (hrg : w3.regs = w.regs) (hca : w3.caches = w.caches) :
    Inv P T ((goneObjs name g).foldl dropCache
      (applyDeliv T w3 (switchDs T w (watchesBase name) Watch.layer "layerGlyphDeletedNotificationCallback"))) := by
  have hkd := keepsData_setWatch (watchesBase name) Watch.layer
  -- the erased layer, before switching
  have hgs3' : w3.glyphs = mapAllComps ({ w with glyphs := eraseAll w.glyphs name } : World V).glyphs
      (setWatch (watchesBase name) Watch.layer) := by
    rw [hgs3, hgs2, eraseAll_mapAllComps]
  have hvm := fun o nm => view_mapAll hkd T ({ w with glyphs := eraseAll w.glyphs name } : World V) w3 hgs3' hlc hlk hf hgv o nm
  have hent : ∀ o nm sk v, (cacheOf w3 o).get? nm sk = some v → (cacheOf w o).get? nm sk = some v := by
    intro o nm sk v hv; rw [cacheOf_eq_of_caches hca] at hv; exact hv
  have hb2 : Bounded w2.glyphs w.fuel := by rw [hgs2]; exact (bounded_mapAllComps hkd _ _).mpr hdom.bounded
  have hWx : ∀ x' g' k x, AL.get? w2.glyphs x' = some g' → k ∈ g'.comps → k.base = some x → x ≠ name →
      AL.contains w2.glyphs x = true → k.watch = Watch.base := by
    intro x' g' k x hg' hk hbx hne hcx
    rw [hgs2, get?_mapAllComps] at hg'
    rw [hgs2, contains_mapAllComps] at hcx
    cases hg0 : AL.get? w.glyphs x' with
    | none => rw [hg0] at hg'; cases hg'
    | some g0 =>
      rw [hg0] at hg'
      simp only [Option.map_some, Option.some.injEq] at hg'
      subst hg'
      simp only [List.mem_map] at hk
      obtain ⟨k0, hk0, e⟩ := hk
      subst e
      rw [hkd.base] at hbx
      have hns : watchesBase name k0 = false := by
        unfold watchesBase
        have : ¬ k0.base = some name := by rw [hbx]; intro e; exact hne (Option.some.inj e)
        simp [this]
      simp only [setWatch, hns, Bool.false_eq_true, if_false]
      exact hdom.watch x' g0 k0 x hg0 hk0 hbx hcx
  have hsel : ∀ z gz kz, AL.get? w2.glyphs z = some gz → kz ∈ gz.comps → kz.base = some name →
      ∀ y, y ∈ compDeliv w.fuel T w2.glyphs z kz.id (T.postsOf "Component" "layerGlyphDeletedNotificationCallback") →
        y ∈ switchDs T w (watchesBase name) Watch.layer "layerGlyphDeletedNotificationCallback" := by
    intro z gz kz hgz hkz hbz y hy
    rw [hgs2, get?_mapAllComps] at hgz
    cases hg0 : AL.get? w.glyphs z with
    | none => rw [hg0] at hgz; cases hgz
    | some g0 =>
      rw [hg0] at hgz
      simp only [Option.map_some, Option.some.injEq] at hgz
      subst hgz
      simp only [List.mem_map] at hkz
      obtain ⟨k0, hk0, e⟩ := hkz
      subst e
      rw [hkd.base] at hbz
      rw [hkd.id] at hy
      have hwat := hdom.watch z g0 k0 name hg0 hk0 hbz (by simp [AL.contains, hg])
      refine mem_switchDs hg0 hk0 (by simp [watchesBase, hwat, hbz]) ?_
      rw [hgs2] at hy; exact hy
  have hhits := fun {x' gx k c m} => switch_hits T hcov w2.glyphs w.fuel name "layerGlyphDeletedNotificationCallback" _
    (by simp [compCallbacks]) hb2 hWx hsel (x' := x') (gx := gx) (k := k) (c := c) (m := m)
  have hmapped : ∀ x' gx', AL.get? w.glyphs x' = some gx' →
      AL.get? w2.glyphs x' = some { gx' with comps := gx'.comps.map (setWatch (watchesBase name) Watch.layer) } := by
    intro x' gx' h; rw [hgs2, get?_mapAllComps, h]; rfl
  refine inv_skeleton_drop P T w w3 _ _ hinv hrg hent ?_ ?_
  · -- what is no longer attached was not attached, or went with the glyph
    intro o ha
    rw [(hvm o "").2] at ha
    cases hao : attached w o with
    | false => exact Or.inr (fun nm sk => by rw [cacheOf_eq_of_caches hca]; exact hinv.loose o hao nm sk)
    | true =>
      refine Or.inl ?_
      cases o with
      | groups => simp [attached] at ha
      | glyph x =>
        simp only [attached] at ha hao
        have : x = name := by
          cases hcx : AL.get? (eraseAll w.glyphs name) x with
          | some _ => simp [AL.contains, hcx] at ha
          | none =>
            rw [get?_eraseAll] at hcx
            by_cases e : name = x
            · exact e.symm
            · simp only [e, if_false] at hcx
              simp [AL.contains, hcx] at hao
        subst this
        simp [goneObjs]
      | contour cid =>
        simp only [attached, hostOfContour] at ha hao
        rcases host_after_erase w.glyphs hdom.ids.keys name g hg (hasContour cid) with ⟨h1, _⟩ | ⟨p, _, _, h3⟩ | h4
        · rw [h1] at hao; cases hao
        · rw [h3] at ha; cases ha
        · exact mem_goneObjs_contour h4
      | comp kid =>
        simp only [attached, hostOfComp] at ha hao
        rcases host_after_erase w.glyphs hdom.ids.keys name g hg (hasComp kid) with ⟨h1, _⟩ | ⟨p, _, _, h3⟩ | h4
        · rw [h1] at hao; cases hao
        · rw [h3] at ha; cases ha
        · exact mem_goneObjs_comp h4
  · intro o nm sk v hng hs
    have h1 := hent _ _ _ _ (get?_applyDeliv T w3 _ o nm sk v hs).1
    rw [(hvm o nm).1]
    have hatt : attached w o = true := by
      cases ha : attached w o with
      | true => rfl
      | false => rw [hinv.loose o ha nm sk] at h1; cases h1
    cases o with
    | groups => simp [viewOf]
    | contour cid =>
      apply viewOf_contour_of_find
      simp only [attached, hostOfContour] at hatt
      unfold findContour hostOfContour
      simp only
      rcases host_after_erase w.glyphs hdom.ids.keys name g hg (hasContour cid) with ⟨h1', _⟩ | ⟨p, h2, _, h3⟩ | h4
      · rw [h1'] at hatt; cases hatt
      · rw [h2, h3]
      · exact absurd (mem_goneObjs_contour h4) hng
    | glyph x =>
      have hxne : name ≠ x := by intro e; subst e; exact hng (by simp [goneObjs])
      simp only [viewOf]
      rw [get?_eraseAll]
      simp only [hxne, if_false]
      cases hgx : AL.get? w.glyphs x with
      | none => rfl
      | some gx =>
        simp only [Option.map_some, Option.getD_some]
        by_cases hex : ∃ k c m, k ∈ gx.comps ∧ k.base = some c ∧ ReadsN w.glyphs m c name
        · exfalso
          obtain ⟨k, c, m, hk, hb, hrd⟩ := hex
          obtain ⟨d, y, hd, hy, hhit⟩ := (hhits (hmapped x gx hgx) (List.mem_map_of_mem hk) (by rw [hkd.base]; exact hb)
            (by rw [hgs2]; exact (readsN_mapAllComps hkd _).mpr hrd)).2 w.regs nm hinv.rdef (hinv.creg _ _ _ _ h1).1
          exact not_survivor hs (by rw [hrg]; exact hd) hy hhit
        · have key : glyphOutline w.fuel (eraseAll w.glyphs name) gx = glyphOutline w.fuel w.glyphs gx := by
            unfold glyphOutline bodyWith
            congr 3
            apply flatMap_congr'
            intro k hk
            unfold compHead
            cases hb : k.base with
            | none => rfl
            | some c =>
              simp only
              rw [outline_erase]
              intro m hrd
              exact hex ⟨k, c, m, hk, hb, hrd⟩
          unfold glyphView
          rw [key]
    | comp kid =>
      simp only [attached, hostOfComp] at hatt
      have hfind : findComp ({ w with glyphs := eraseAll w.glyphs name } : World V) kid = findComp w kid := by
        unfold findComp hostOfComp
        simp only
        rcases host_after_erase w.glyphs hdom.ids.keys name g hg (hasComp kid) with ⟨h1', _⟩ | ⟨p, h2, _, h3⟩ | h4
        · rw [h1'] at hatt; cases hatt
        · rw [h2, h3]
        · exact absurd (mem_goneObjs_comp h4) hng
      obtain ⟨k0, hk0⟩ : ∃ k0, findComp w kid = some k0 := by
        unfold findComp
        cases hh : hostOfComp w.glyphs kid with
        | none => simp only [hostOfComp] at hh; rw [hh] at hatt; cases hatt
        | some p =>
          simp only
          have := List.find?_some hh
          exact compIn_of_has (by simpa [hostOfComp] using this)
      simp only [viewOf, hfind, hk0, Option.map_some, Option.getD_some]
      unfold compView
      by_cases hbi : isBuiltin T "Component" nm = true
      · simp only [hbi, if_true]
        unfold compToks compHead
        cases hb : k0.base with
        | none => rfl
        | some c =>
          simp only
          by_cases hex : ∃ m, ReadsN w.glyphs m c name
          · exfalso
            obtain ⟨m, hrd⟩ := hex
            obtain ⟨x', gx', hgx', hkm⟩ := findComp_attached w hdom.ids.keys kid k0
              (by simp only [attached, hostOfComp]; exact hatt) hk0
            obtain ⟨d, y, hd, hy, hhit⟩ := (hhits (hmapped x' gx' hgx') (List.mem_map_of_mem hkm) (by rw [hkd.base]; exact hb)
              (by rw [hgs2]; exact (readsN_mapAllComps hkd _).mpr hrd)).1 nm hbi
            rw [hkd.id, findComp_id hk0] at hy
            exact not_survivor hs (mem_facsOf_builtin hd) hy hhit
          · rw [outline_erase]
            intro m hrd
            exact hex ⟨m, hrd⟩
      · simp [hbi]

/-- `del layer[name]` -/
theorem inv_delGlyph (P : Params V) (T : Tables) (hcov : Coverage T = true) (w : World V) (name : String)
    (hinv : Inv P T w) (hdom : Dom w) : Inv P T (doDelGlyph T w name).1 := by
  unfold doDelGlyph
  cases hg : AL.get? w.glyphs name with
  | none => simpa [hg] using hinv
  | some g =>
    simp only
    rw [switchAndPost_eq]
    have e1 : (applyDeliv T ({ w with glyphs := mapAllComps w.glyphs (setWatch (watchesBase name) Watch.layer) } : World V)
        (switchDs T w (watchesBase name) Watch.layer "layerGlyphDeletedNotificationCallback")).glyphs =
        mapAllComps w.glyphs (setWatch (watchesBase name) Watch.layer) := (sameStruct_applyDeliv T _ _).glyphs
    rw [e1, applyDeliv_with_glyphs]
    exact inv_delGlyph_core P T hcov w
      ({ w with glyphs := mapAllComps w.glyphs (setWatch (watchesBase name) Watch.layer) } : World V) _ name g
      hinv hdom hg rfl rfl rfl rfl rfl rfl rfl rfl

/-! ### rename -/

theorem applyDeliv_append (T : Tables) (w : World V) (a b : List (Obj × String)) :
    applyDeliv T (applyDeliv T w a) b = applyDeliv T w (a ++ b) := by
  unfold applyDeliv; rw [List.foldl_append]

theorem switchDs_congr (T : Tables) {w w' : World V} (hg : w'.glyphs = w.glyphs) (hf : w'.fuel = w.fuel)
    (sel : CompS → Bool) (nw : Watch) (cb : String) : switchDs T w' sel nw cb = switchDs T w sel nw cb := by
  unfold switchDs; rw [hg, hf]

/-- where the host of an object is after `old` was re-keyed to `new` (its record keeps `pred`) -/
theorem host_after_rename (gs : Layer) (hn : (AL.keys gs).Nodup) (old new : String) (g g1 : GlyphS)
    (hg : AL.get? gs old = some g) (habs : AL.get? gs new = none) (pred : GlyphS → Bool) (hp : pred g1 = pred g)
    (huniq : ∀ q, q ∈ gs → pred q.2 = true → pred g = true → q.1 = old) :
    ((AL.set (eraseAll gs old) new g1).find? fun p => pred p.2) =
      (gs.find? fun p => pred p.2).map fun p => if p.1 = old then (new, g1) else p := by
  have habs' : AL.get? (eraseAll gs old) new = none := by
    rw [get?_eraseAll]
    by_cases e : old = new
    · simp [e]
    · simp [e, habs]
  rw [set_absent _ _ _ habs', List.find?_append]
  rcases host_after_erase gs hn old g hg pred with ⟨h1, h2⟩ | ⟨p, h1, h2, h3⟩ | h4
  · rw [h1, h2]
    have : pred g = false := by
      cases hpg : pred g with
      | false => rfl
      | true =>
        have := List.find?_eq_none.mp h1 (old, g) (AL.mem_of_get? hg)
        simp [hpg] at this
    simp [hp, this]
  · rw [h1, h3]; simp [h2]
  · -- the record of `old` satisfies pred: nothing else does
    have hnone : (eraseAll gs old).find? (fun p => pred p.2) = none := by
      rw [List.find?_eq_none]
      intro q hq hpq
      unfold eraseAll at hq
      have hq' := List.mem_filter.mp hq
      have := huniq q hq'.1 hpq h4
      simp [this] at hq'
    have hfound : ∃ p, gs.find? (fun p => pred p.2) = some p ∧ p.1 = old := by
      cases hf : gs.find? (fun p => pred p.2) with
      | none =>
        have := List.find?_eq_none.mp hf (old, g) (AL.mem_of_get? hg)
        simp [h4] at this
      | some p =>
        have hpp : pred p.2 = true := by simpa using List.find?_some hf
        exact ⟨p, rfl, huniq p (List.mem_of_find?_eq_some hf) hpp h4⟩
    obtain ⟨p, hf, hpo⟩ := hfound
    rw [hnone, hf]
    simp [hp, h4, hpo]

theorem get?_renamed (gs : Layer) (old new : String) (g1 : GlyphS) (x : String) (h1 : old ≠ x) (h2 : new ≠ x) :
    AL.get? (AL.set (eraseAll gs old) new g1) x = AL.get? gs x := by
  rw [AL.get?_set_ne _ _ _ _ h2, get?_eraseAll]; simp [h1]

/-- `glyph.name = new`, stated on explicit intermediate worlds -/
theorem inv_rename_core (P : Params V) (T : Tables) (hcov : Coverage T = true) (w wA wB wS : World V)
    (old new : String) (g : GlyphS) (attr : Nat) (hinv : Inv P T w) (hdom : Dom w)
    (hg : AL.get? w.glyphs old = some g) (habs : AL.get? w.glyphs new = none) (hne : old ≠ new)
    (hgA : wA.glyphs = AL.set (eraseAll w.glyphs old) new { g with attr := attr }) (hfA : wA.fuel = w.fuel)
    (hgB : wB.glyphs = mapAllComps wA.glyphs (setWatch (waitsFor new) Watch.base)) (hfB : wB.fuel = w.fuel)
    (hgS : wS.glyphs = mapAllComps wB.glyphs (setWatch (watchesBase old) Watch.layer))
    (hlc : wS.looseC = w.looseC) (hlk : wS.looseK = w.looseK) (hfS : wS.fuel = w.fuel)
    (hgv : wS.groupsVer = w.groupsVer) (hrg : wS.regs = w.regs)
    (hca : wS.caches = AL.set (eraseAll w.caches (.glyph old)) (.glyph new) (cacheOf w (.glyph old)))
    (hdomS : Dom wS) :
    Inv P T (applyDeliv T wS
      (switchDs T wA (waitsFor new) Watch.base "layerGlyphNameChangedNotificationCallback" ++
       switchDs T wB (watchesBase old) Watch.layer "baseGlyphNameChangedNotificationCallback" ++
       glyphDeliv wS.fuel T wS.glyphs new (T.postsOf "Glyph" "_set_name"))) := by
  have hk1 := keepsData_setWatch (waitsFor new) Watch.base
  have hk2 := keepsData_setWatch (watchesBase old) Watch.layer
  -- worlds with the fields of `w` and the intermediate layers, for the view transfer
  have hv2 := fun o nm => view_mapAll hk2 T ({ w with glyphs := wB.glyphs } : World V) wS hgS hlc hlk hfS hgv o nm
  have hv1 := fun o nm => view_mapAll hk1 T ({ w with glyphs := wA.glyphs } : World V)
    ({ w with glyphs := wB.glyphs } : World V) hgB rfl rfl rfl rfl o nm
  have hview0 : ∀ o nm, viewOf T wS o nm = viewOf T ({ w with glyphs := wA.glyphs } : World V) o nm ∧
      attached wS o = attached ({ w with glyphs := wA.glyphs } : World V) o :=
    fun o nm => ⟨(hv2 o nm).1.trans (hv1 o nm).1, (hv2 o nm).2.trans (hv1 o nm).2⟩
  -- caches
  have hcS : ∀ o, cacheOf wS o = if Obj.glyph new = o then cacheOf w (.glyph old)
      else if Obj.glyph old = o then [] else cacheOf w o := by
    intro o
    unfold cacheOf
    rw [hca, AL.get?_set]
    by_cases e1 : Obj.glyph new = o
    · simp [e1, cacheOf]
    · simp only [e1, if_false]
      rw [get?_eraseAll]
      by_cases e2 : Obj.glyph old = o
      · simp [e2]
      · simp [e2]
  have hglyphNew : attached w (.glyph new) = false := by
    simp only [attached]; exact (AL.contains_false_iff _ _).mpr habs
  -- ReadsN transfers between the three layers
  have hrB : ∀ {m x a}, ReadsN wB.glyphs m x a ↔ ReadsN wA.glyphs m x a := by
    intro m x a; rw [hgB]; exact readsN_mapAllComps hk1 _
  have hrS : ∀ {m x a}, ReadsN wS.glyphs m x a ↔ ReadsN wB.glyphs m x a := by
    intro m x a; rw [hgS]; exact readsN_mapAllComps hk2 _
  have hbB : Bounded wB.glyphs w.fuel := by
    have := hdomS.bounded; rw [hgS, hfS] at this; exact (bounded_mapAllComps hk2 _ _).mp this
  -- records of the intermediate layers
  have hmapB : ∀ x gx, AL.get? wA.glyphs x = some gx →
      AL.get? wB.glyphs x = some { gx with comps := gx.comps.map (setWatch (waitsFor new) Watch.base) } := by
    intro x gx h; rw [hgB, get?_mapAllComps, h]; rfl
  have hmapS : ∀ x gx, AL.get? wB.glyphs x = some gx →
      AL.get? wS.glyphs x = some { gx with comps := gx.comps.map (setWatch (watchesBase old) Watch.layer) } := by
    intro x gx h; rw [hgS, get?_mapAllComps, h]; rfl
  -- a component record of layer A comes from the original layer
  have horig : ∀ z gz kz, AL.get? wA.glyphs z = some gz → kz ∈ gz.comps →
      ∃ z0 g0, AL.get? w.glyphs z0 = some g0 ∧ kz ∈ g0.comps := by
    intro z gz kz hgz hkz
    rw [hgA] at hgz
    by_cases e : new = z
    · subst e
      rw [AL.get?_set_self] at hgz
      cases hgz
      exact ⟨old, g, hg, hkz⟩
    · rw [AL.get?_set_ne _ _ _ _ e, get?_eraseAll] at hgz
      by_cases e2 : old = z
      · simp [e2] at hgz
      · simp only [e2, if_false] at hgz
        exact ⟨z, gz, hgz, hkz⟩
  -- S1: components whose base is `new` were waiting on the layer; their callback runs on layer B
  have hsel1 : ∀ z gz kz, AL.get? wB.glyphs z = some gz → kz ∈ gz.comps → kz.base = some new →
      ∀ y, y ∈ compDeliv w.fuel T wB.glyphs z kz.id (T.postsOf "Component" "layerGlyphNameChangedNotificationCallback") →
        y ∈ switchDs T wA (waitsFor new) Watch.base "layerGlyphNameChangedNotificationCallback" := by
    intro z gz kz hgz hkz hbz y hy
    rw [hgB, get?_mapAllComps] at hgz
    cases hg0 : AL.get? wA.glyphs z with
    | none => rw [hg0] at hgz; cases hgz
    | some g0 =>
      rw [hg0] at hgz
      simp only [Option.map_some, Option.some.injEq] at hgz
      subst hgz
      simp only [List.mem_map] at hkz
      obtain ⟨k0, hk0, e⟩ := hkz
      subst e
      rw [hk1.base] at hbz
      rw [hk1.id] at hy
      obtain ⟨z0, gz0, hgz0, hkz0⟩ := horig z g0 k0 hg0 hk0
      have hwait := hdom.wait z0 gz0 k0 new hgz0 hkz0 hbz ((AL.contains_false_iff _ _).mpr habs)
      refine mem_switchDs hg0 hk0 (by simp [waitsFor, hwait, hbz]) ?_
      rw [hfA, ← hgB]; exact hy
  have hWx1 : ∀ x' g' k x, AL.get? wB.glyphs x' = some g' → k ∈ g'.comps → k.base = some x → x ≠ new →
      AL.contains wB.glyphs x = true → k.watch = Watch.base := by
    intro x' g' k x hg' hk hbx _ hcx
    have h3 := hdomS.watch x' _ (setWatch (watchesBase old) Watch.layer k) x (hmapS x' g' hg')
      (List.mem_map_of_mem hk) (by rw [hk2.base]; exact hbx) (by rw [hgS, contains_mapAllComps]; exact hcx)
    unfold setWatch at h3
    by_cases hs : watchesBase old k = true
    · simp [hs] at h3
    · simpa [hs] using h3
  have hS1 := fun {x' gx k c m} => switch_hits T hcov wB.glyphs w.fuel new "layerGlyphNameChangedNotificationCallback" _
    (by simp [compCallbacks]) hbB hWx1 hsel1 (x' := x') (gx := gx) (k := k) (c := c) (m := m)
  -- S2: components whose base is `old` were registered on the glyph; their callback runs on layer S
  have hsel2 : ∀ z gz kz, AL.get? wS.glyphs z = some gz → kz ∈ gz.comps → kz.base = some old →
      ∀ y, y ∈ compDeliv wS.fuel T wS.glyphs z kz.id (T.postsOf "Component" "baseGlyphNameChangedNotificationCallback") →
        y ∈ switchDs T wB (watchesBase old) Watch.layer "baseGlyphNameChangedNotificationCallback" := by
    intro z gz kz hgz hkz hbz y hy
    rw [hgS, get?_mapAllComps] at hgz
    cases hgb : AL.get? wB.glyphs z with
    | none => rw [hgb] at hgz; cases hgz
    | some gb =>
      rw [hgb] at hgz
      simp only [Option.map_some, Option.some.injEq] at hgz
      subst hgz
      simp only [List.mem_map] at hkz
      obtain ⟨kb, hkb, e⟩ := hkz
      subst e
      rw [hk2.base] at hbz
      rw [hk2.id] at hy
      -- kb comes from layer A through f1, which leaves it alone (its base is not `new`)
      have hgb' := hgb
      rw [hgB, get?_mapAllComps] at hgb'
      cases hga : AL.get? wA.glyphs z with
      | none => rw [hga] at hgb'; cases hgb'
      | some ga =>
        rw [hga] at hgb'
        simp only [Option.map_some, Option.some.injEq] at hgb'
        subst hgb'
        simp only [List.mem_map] at hkb
        obtain ⟨ka, hka, e⟩ := hkb
        subst e
        rw [hk1.base] at hbz
        obtain ⟨z0, gz0, hgz0, hkz0⟩ := horig z ga ka hga hka
        have hwat := hdom.watch z0 gz0 ka old hgz0 hkz0 hbz (by simp [AL.contains, hg])
        have hns : waitsFor new ka = false := by
          unfold waitsFor
          have : ¬ ka.base = some new := by rw [hbz]; intro e; exact hne (Option.some.inj e)
          simp [this]
        have hka' : setWatch (waitsFor new) Watch.base ka = ka := by simp [setWatch, hns]
        rw [hka'] at hy
        refine mem_switchDs hgb (by
            have := List.mem_map_of_mem (f := setWatch (waitsFor new) Watch.base) hka
            rw [hka'] at this; exact this)
          (by simp [watchesBase, hwat, hbz]) ?_
        rw [hfB, ← hfS, ← hgS]; exact hy
  have hS2 := fun {x' gx k c m} => switch_hits T hcov wS.glyphs wS.fuel old "baseGlyphNameChangedNotificationCallback" _
    (by simp [compCallbacks]) hdomS.bounded
    (fun x' g k x a1 a2 a3 _ a5 => hdomS.watch x' g k x a1 a2 a3 a5) hsel2 (x' := x') (gx := gx) (k := k) (c := c) (m := m)
  -- all deliveries
  have hin1 : ∀ y, y ∈ switchDs T wA (waitsFor new) Watch.base "layerGlyphNameChangedNotificationCallback" →
      y ∈ switchDs T wA (waitsFor new) Watch.base "layerGlyphNameChangedNotificationCallback" ++
       switchDs T wB (watchesBase old) Watch.layer "baseGlyphNameChangedNotificationCallback" ++
       glyphDeliv wS.fuel T wS.glyphs new (T.postsOf "Glyph" "_set_name") := by
    intro y hy; simp [hy]
  have hin2 : ∀ y, y ∈ switchDs T wB (watchesBase old) Watch.layer "baseGlyphNameChangedNotificationCallback" →
      y ∈ switchDs T wA (waitsFor new) Watch.base "layerGlyphNameChangedNotificationCallback" ++
       switchDs T wB (watchesBase old) Watch.layer "baseGlyphNameChangedNotificationCallback" ++
       glyphDeliv wS.fuel T wS.glyphs new (T.postsOf "Glyph" "_set_name") := by
    intro y hy; simp [hy]
  have hin3 : ∀ y, y ∈ glyphDeliv wS.fuel T wS.glyphs new (T.postsOf "Glyph" "_set_name") →
      y ∈ switchDs T wA (waitsFor new) Watch.base "layerGlyphNameChangedNotificationCallback" ++
       switchDs T wB (watchesBase old) Watch.layer "baseGlyphNameChangedNotificationCallback" ++
       glyphDeliv wS.fuel T wS.glyphs new (T.postsOf "Glyph" "_set_name") := by
    intro y hy; simp [hy]
  -- a component of layer A whose base reads `new` or `old` is destroyed, and so is its glyph
  have hdead : ∀ x1 gx1 k c, AL.get? wA.glyphs x1 = some gx1 → k ∈ gx1.comps → k.base = some c →
      ((∃ m, ReadsN wA.glyphs m c new) ∨ (∃ m, ReadsN wA.glyphs m c old)) →
      (∀ nm, isBuiltin T "Component" nm = true → ∃ d y, (nm, d) ∈ T.factoriesOf "Component" ∧
        (Obj.comp k.id, y) ∈ switchDs T wA (waitsFor new) Watch.base "layerGlyphNameChangedNotificationCallback" ++
          switchDs T wB (watchesBase old) Watch.layer "baseGlyphNameChangedNotificationCallback" ++
          glyphDeliv wS.fuel T wS.glyphs new (T.postsOf "Glyph" "_set_name") ∧ d.hit y = true) ∧
      (∀ nm, (facsOf T w.regs "Glyph").any (fun p => p.1 = nm) = true → ∃ d y, (nm, d) ∈ facsOf T w.regs "Glyph" ∧
        (Obj.glyph x1, y) ∈ switchDs T wA (waitsFor new) Watch.base "layerGlyphNameChangedNotificationCallback" ++
          switchDs T wB (watchesBase old) Watch.layer "baseGlyphNameChangedNotificationCallback" ++
          glyphDeliv wS.fuel T wS.glyphs new (T.postsOf "Glyph" "_set_name") ∧ d.hit y = true) := by
    intro x1 gx1 k c hgx1 hk hb hr
    have hgB1 := hmapB x1 gx1 hgx1
    have hkB : setWatch (waitsFor new) Watch.base k ∈
        (gx1.comps.map (setWatch (waitsFor new) Watch.base)) := List.mem_map_of_mem hk
    rcases hr with ⟨m, hrd⟩ | ⟨m, hrd⟩
    · obtain ⟨hA, hG⟩ := hS1 hgB1 hkB (by rw [hk1.base]; exact hb) (hrB.mpr hrd)
      constructor
      · intro nm hbi
        obtain ⟨d, y, hd, hy, hh⟩ := hA nm hbi
        rw [hk1.id] at hy
        exact ⟨d, y, hd, hin1 _ hy, hh⟩
      · intro nm hnm
        obtain ⟨d, y, hd, hy, hh⟩ := hG w.regs nm hinv.rdef hnm
        exact ⟨d, y, hd, hin1 _ hy, hh⟩
    · have hgS1 := hmapS x1 _ hgB1
      obtain ⟨hA, hG⟩ := hS2 hgS1 (List.mem_map_of_mem hkB) (by rw [hk2.base, hk1.base]; exact hb)
        (hrS.mpr (hrB.mpr hrd))
      constructor
      · intro nm hbi
        obtain ⟨d, y, hd, hy, hh⟩ := hA nm hbi
        rw [hk2.id, hk1.id] at hy
        exact ⟨d, y, hd, hin2 _ hy, hh⟩
      · intro nm hnm
        obtain ⟨d, y, hd, hy, hh⟩ := hG w.regs nm hinv.rdef hnm
        exact ⟨d, y, hd, hin2 _ hy, hh⟩
  -- outlines that read neither name are unchanged
  have houtl : ∀ c, (¬ ∃ m, ReadsN wA.glyphs m c new) → (¬ ∃ m, ReadsN wA.glyphs m c old) →
      outline w.fuel wA.glyphs c = outline w.fuel w.glyphs c := by
    intro c h1 h2
    symm
    apply outline_agree
    intro m b hr
    have e1 : old ≠ b := by intro e; subst e; exact h2 ⟨m, hr⟩
    have e2 : new ≠ b := by intro e; subst e; exact h1 ⟨m, hr⟩
    rw [hgA, get?_renamed _ _ _ _ _ e1 e2]
  have hbody : ∀ gx1 gx : GlyphS, gx1.contours = gx.contours → gx1.comps = gx.comps →
      (∀ k c, k ∈ gx.comps → k.base = some c → (¬ ∃ m, ReadsN wA.glyphs m c new) ∧ (¬ ∃ m, ReadsN wA.glyphs m c old)) →
      glyphOutline w.fuel wA.glyphs gx1 = glyphOutline w.fuel w.glyphs gx := by
    intro gx1 gx hc hk hno
    unfold glyphOutline bodyWith
    rw [hc, hk]
    congr 3
    apply flatMap_congr'
    intro k hkm
    unfold compHead
    cases hb : k.base with
    | none => rfl
    | some c => simp only; rw [houtl c (hno k c hkm hb).1 (hno k c hkm hb).2]
  -- contour and component records are found where they were
  have hfindC : ∀ cid, findContour ({ w with glyphs := wA.glyphs } : World V) cid = findContour w cid := by
    intro cid
    unfold findContour hostOfContour
    simp only
    rw [hgA, host_after_rename w.glyphs hdom.ids.keys old new g { g with attr := attr } hg habs (hasContour cid) rfl
      (fun q hq h1 h2 => hdom.ids.oneC q.1 old q.2 g cid (AL.get?_of_mem_nodup hdom.ids.keys hq) hg h1 h2)]
    cases hf : w.glyphs.find? (fun p => hasContour cid p.2) with
    | none => rfl
    | some p =>
      simp only [Option.map_some]
      by_cases e : p.1 = old
      · have := AL.get?_of_mem_nodup hdom.ids.keys (List.mem_of_find?_eq_some hf)
        rw [e, hg] at this
        simp only [e, if_true]
        rw [← Option.some.inj this]; rfl
      · simp [e]
  have hfindK : ∀ kid, findComp ({ w with glyphs := wA.glyphs } : World V) kid = findComp w kid := by
    intro kid
    unfold findComp hostOfComp
    simp only
    rw [hgA, host_after_rename w.glyphs hdom.ids.keys old new g { g with attr := attr } hg habs (hasComp kid) rfl
      (fun q hq h1 h2 => hdom.ids.oneK q.1 old q.2 g kid (AL.get?_of_mem_nodup hdom.ids.keys hq) hg h1 h2)]
    cases hf : w.glyphs.find? (fun p => hasComp kid p.2) with
    | none => rfl
    | some p =>
      simp only [Option.map_some]
      by_cases e : p.1 = old
      · have := AL.get?_of_mem_nodup hdom.ids.keys (List.mem_of_find?_eq_some hf)
        rw [e, hg] at this
        simp only [e, if_true]
        rw [← Option.some.inj this]; rfl
      · simp [e]
  have hss := sameStruct_applyDeliv T wS
      (switchDs T wA (waitsFor new) Watch.base "layerGlyphNameChangedNotificationCallback" ++
       switchDs T wB (watchesBase old) Watch.layer "baseGlyphNameChangedNotificationCallback" ++
       glyphDeliv wS.fuel T wS.glyphs new (T.postsOf "Glyph" "_set_name"))
  -- where an entry of the new world comes from
  have hsrc : ∀ o nm sk v, (cacheOf wS o).get? nm sk = some v →
      (o = Obj.glyph new ∧ (cacheOf w (.glyph old)).get? nm sk = some v) ∨
      (o ≠ Obj.glyph new ∧ o ≠ Obj.glyph old ∧ (cacheOf w o).get? nm sk = some v) := by
    intro o nm sk v hv
    rw [hcS] at hv
    by_cases e1 : Obj.glyph new = o
    · simp only [e1, if_true] at hv; exact Or.inl ⟨e1.symm, hv⟩
    · simp only [e1, if_false] at hv
      by_cases e2 : Obj.glyph old = o
      · simp [e2, Cache.get?] at hv
      · simp only [e2, if_false] at hv
        exact Or.inr ⟨fun e => e1 e.symm, fun e => e2 e.symm, hv⟩
  -- a component of the original layer sits in layer A under the (possibly new) name of its glyph
  have hinA : ∀ x gx, AL.get? w.glyphs x = some gx → ∃ x1 gx1, AL.get? wA.glyphs x1 = some gx1 ∧
      gx1.comps = gx.comps ∧ gx1.contours = gx.contours ∧ (x = old → x1 = new) ∧ (x ≠ old → x1 = x) := by
    intro x gx hgx
    by_cases e : x = old
    · subst e
      rw [hg] at hgx; cases hgx
      exact ⟨new, { g with attr := attr }, by rw [hgA, AL.get?_set_self], rfl, rfl, fun _ => rfl, fun h => absurd rfl h⟩
    · have e2 : new ≠ x := by intro e2; subst e2; rw [habs] at hgx; cases hgx
      exact ⟨x, gx, by rw [hgA, get?_renamed _ _ _ _ _ (fun h => e h.symm) e2]; exact hgx, rfl, rfl,
        fun h => absurd h e, fun _ => rfl⟩
  refine ⟨?_, ?_, ?_, ?_⟩
  · -- coherence
    intro o nm sk v hs
    have h1 := (get?_applyDeliv T wS _ o nm sk v hs).1
    unfold fresh
    rw [viewOf_congr T hss, (hview0 o nm).1]
    rcases hsrc o nm sk v h1 with ⟨eo, h0⟩ | ⟨en, eo, h0⟩
    · -- the renamed glyph: its entries come from `.glyph old`
      subst eo
      have hv0 := hinv.coh _ _ _ _ h0
      simp only [fresh, viewOf, hg, Option.map_some, Option.getD_some, Obj.cls] at hv0
      simp only [viewOf, hgA, AL.get?_set_self, Option.map_some, Option.getD_some, Obj.cls]
      rw [hv0]
      by_cases hbi : isBuiltin T "Glyph" nm = true
      · by_cases hex : ∃ k c, k ∈ g.comps ∧ k.base = some c ∧
            ((∃ m, ReadsN wA.glyphs m c new) ∨ (∃ m, ReadsN wA.glyphs m c old))
        · exfalso
          obtain ⟨k, c, hk, hb, hr⟩ := hex
          obtain ⟨d, y, hd, hy, hh⟩ := (hdead new { g with attr := attr } k c (by rw [hgA, AL.get?_set_self]) hk hb hr).2 nm
            (hinv.creg _ _ _ _ h0).1
          exact not_survivor hs (by rw [hrg]; exact hd) hy hh
        · unfold glyphView
          simp only [hbi, if_true]
          have hb' := hbody { g with attr := attr } g rfl rfl (fun k c hk hb =>
            ⟨fun h => hex ⟨k, c, hk, hb, Or.inl h⟩, fun h => hex ⟨k, c, hk, hb, Or.inr h⟩⟩)
          rw [← hgA, hb']
      · exfalso
        have hposts : hitsReg T "Glyph" (T.postsOf "Glyph" "_set_name") = true := cov_mem hcov (by simp [covList])
        obtain ⟨d, y, hd, hy, hh⟩ := hits_of_hitsReg hinv.rdef hposts (hinv.creg _ _ _ _ h0).1 (by simpa using hbi)
        exact not_survivor hs (by rw [hrg]; exact hd) (hin3 _ (glyphDeliv_self' hdomS.bounded hy)) hh
    · rw [hinv.coh _ _ _ _ h0]
      unfold fresh
      congr 1
      symm
      have hatt : attached w o = true := by
        cases ha : attached w o with
        | true => rfl
        | false => rw [hinv.loose o ha nm sk] at h0; cases h0
      cases o with
      | groups => simp [viewOf]
      | contour cid => exact viewOf_contour_of_find T (hfindC cid) nm
      | glyph x =>
        have e1 : old ≠ x := fun e => eo (by rw [e])
        have e2 : new ≠ x := fun e => en (by rw [e])
        simp only [viewOf, hgA, get?_renamed _ _ _ _ _ e1 e2]
        cases hgx : AL.get? w.glyphs x with
        | none => rfl
        | some gx =>
          simp only [Option.map_some, Option.getD_some]
          have hgxA : AL.get? wA.glyphs x = some gx := by rw [hgA, get?_renamed _ _ _ _ _ e1 e2]; exact hgx
          by_cases hex : ∃ k c, k ∈ gx.comps ∧ k.base = some c ∧
              ((∃ m, ReadsN wA.glyphs m c new) ∨ (∃ m, ReadsN wA.glyphs m c old))
          · exfalso
            obtain ⟨k, c, hk, hb, hr⟩ := hex
            obtain ⟨d, y, hd, hy, hh⟩ := (hdead x gx k c hgxA hk hb hr).2 nm (hinv.creg _ _ _ _ h0).1
            exact not_survivor hs (by rw [hrg]; exact hd) hy hh
          · unfold glyphView
            have hb' := hbody gx gx rfl rfl (fun k c hk hb =>
              ⟨fun h => hex ⟨k, c, hk, hb, Or.inl h⟩, fun h => hex ⟨k, c, hk, hb, Or.inr h⟩⟩)
            rw [← hgA, hb']
      | comp kid =>
        obtain ⟨k0, hk0⟩ : ∃ k0, findComp w kid = some k0 := by
          simp only [attached] at hatt
          unfold findComp
          cases hh : hostOfComp w.glyphs kid with
          | none => rw [hh] at hatt; cases hatt
          | some p =>
            simp only
            have := List.find?_some hh
            exact compIn_of_has (by simpa [hostOfComp] using this)
        simp only [viewOf, hfindK kid, hk0, Option.map_some, Option.getD_some]
        unfold compView
        by_cases hbi : isBuiltin T "Component" nm = true
        · simp only [hbi, if_true]
          unfold compToks compHead
          cases hb : k0.base with
          | none => rfl
          | some c =>
            simp only
            by_cases hex : (∃ m, ReadsN wA.glyphs m c new) ∨ (∃ m, ReadsN wA.glyphs m c old)
            · exfalso
              obtain ⟨x', gx', hgx', hkm⟩ := findComp_attached w hdom.ids.keys kid k0 hatt hk0
              obtain ⟨x1, gx1, hgx1, hc1, _, _, _⟩ := hinA x' gx' hgx'
              obtain ⟨d, y, hd, hy, hh⟩ := (hdead x1 gx1 k0 c hgx1 (by rw [hc1]; exact hkm) hb hex).1 nm hbi
              rw [findComp_id hk0] at hy
              exact not_survivor hs (mem_facsOf_builtin hd) hy hh
            · rw [houtl c (fun h => hex (Or.inl h)) (fun h => hex (Or.inr h))]
        · simp [hbi]
  · -- loose objects
    intro o ha nm sk
    rw [attached_congr hss, (hview0 o nm).2] at ha
    cases hc : (cacheOf (applyDeliv T wS _) o).get? nm sk with
    | none => rfl
    | some v =>
      exfalso
      have h1 := (get?_applyDeliv T wS _ o nm sk v hc).1
      rcases hsrc o nm sk v h1 with ⟨eo, _⟩ | ⟨en, eo, h0⟩
      · subst eo
        simp only [attached] at ha
        rw [hgA] at ha
        simp [AL.contains] at ha
      · have hatt : attached w o = true := by
          cases ha' : attached w o with
          | true => rfl
          | false => rw [hinv.loose o ha' nm sk] at h0; cases h0
        cases o with
        | groups => simp [attached] at ha
        | contour cid =>
          simp only [attached, hostOfContour] at ha hatt
          rw [hgA, host_after_rename w.glyphs hdom.ids.keys old new g { g with attr := attr } hg habs (hasContour cid) rfl
            (fun q hq h1 h2 => hdom.ids.oneC q.1 old q.2 g cid (AL.get?_of_mem_nodup hdom.ids.keys hq) hg h1 h2)] at ha
          cases hf : w.glyphs.find? (fun p => hasContour cid p.2) with
          | none => rw [hf] at hatt; cases hatt
          | some p => rw [hf] at ha; cases ha
        | comp kid =>
          simp only [attached, hostOfComp] at ha hatt
          rw [hgA, host_after_rename w.glyphs hdom.ids.keys old new g { g with attr := attr } hg habs (hasComp kid) rfl
            (fun q hq h1 h2 => hdom.ids.oneK q.1 old q.2 g kid (AL.get?_of_mem_nodup hdom.ids.keys hq) hg h1 h2)] at ha
          cases hf : w.glyphs.find? (fun p => hasComp kid p.2) with
          | none => rw [hf] at hatt; cases hatt
          | some p => rw [hf] at ha; cases ha
        | glyph x =>
          have e1 : old ≠ x := fun e => eo (by rw [e])
          have e2 : new ≠ x := fun e => en (by rw [e])
          simp only [attached, AL.contains] at ha hatt
          rw [hgA, get?_renamed _ _ _ _ _ e1 e2] at ha
          rw [ha] at hatt; cases hatt
  · -- only registered names
    intro o nm sk v hs
    have h1 := (get?_applyDeliv T wS _ o nm sk v hs).1
    rw [hss.regs, hrg]
    rcases hsrc o nm sk v h1 with ⟨eo, h0⟩ | ⟨_, _, h0⟩
    · subst eo; exact hinv.creg (.glyph old) _ _ _ h0
    · exact hinv.creg _ _ _ _ h0
  · intro r hr'
    rw [hss.regs, hrg] at hr'
    exact hinv.rdef r hr'

/-- two switching rounds and a final post, as one delivery list over the final structure -/
theorem two_switches_eq (T : Tables) (w1 : World V) (sel1 sel2 : CompS → Bool) (nw1 nw2 : Watch) (cb1 cb2 : String)
    (name : String) (ns : List String) :
    let wB : World V := { w1 with glyphs := mapAllComps w1.glyphs (setWatch sel1 nw1) }
    let wS : World V := { wB with glyphs := mapAllComps wB.glyphs (setWatch sel2 nw2) }
    let w3 := switchAndPost T (switchAndPost T w1 sel1 nw1 cb1) sel2 nw2 cb2
    applyDeliv T w3 (glyphDeliv w3.fuel T w3.glyphs name ns) =
      applyDeliv T wS (switchDs T w1 sel1 nw1 cb1 ++ switchDs T wB sel2 nw2 cb2 ++ glyphDeliv wS.fuel T wS.glyphs name ns) := by
  intro wB wS w3
  have e2 : switchAndPost T w1 sel1 nw1 cb1 = applyDeliv T wB (switchDs T w1 sel1 nw1 cb1) := rfl
  have s2 := sameStruct_applyDeliv T wB (switchDs T w1 sel1 nw1 cb1)
  have e3 : w3 = applyDeliv T wS (switchDs T w1 sel1 nw1 cb1 ++ switchDs T wB sel2 nw2 cb2) := by
    show switchAndPost T (switchAndPost T w1 sel1 nw1 cb1) sel2 nw2 cb2 = _
    rw [e2, switchAndPost_eq, switchDs_congr T s2.glyphs s2.fuel, s2.glyphs, applyDeliv_with_glyphs, applyDeliv_append]
  have s3 := sameStruct_applyDeliv T wS (switchDs T w1 sel1 nw1 cb1 ++ switchDs T wB sel2 nw2 cb2)
  rw [e3, s3.fuel, s3.glyphs, applyDeliv_append]

/-- `glyph.name = new` -/
theorem inv_rename (P : Params V) (T : Tables) (hcov : Coverage T = true) (w : World V) (old new : String)
    (hinv : Inv P T w) (hdom : Dom w) (hdom' : Dom (doRename T w old new).1) : Inv P T (doRename T w old new).1 := by
  unfold doRename at hdom' ⊢
  cases hg : AL.get? w.glyphs old with
  | none => simpa [hg] using hinv
  | some g =>
    by_cases hc : (AL.contains w.glyphs new || decide (old = new)) = true
    · simpa [hg, hc] using hinv
    · have hc' : (AL.contains w.glyphs new || decide (old = new)) = false := by simpa using hc
      rw [Bool.or_eq_false_iff] at hc'
      simp only [hg, hc, if_false] at hdom' ⊢
      rw [two_switches_eq] at hdom' ⊢
      have hdS := Dom.congr (sameStruct_applyDeliv T _ _).symm hdom'
      exact inv_rename_core P T hcov w _ _ _ old new g w.clock hinv hdom hg
        (get?_none_of_not_contains hc'.1) (by simpa using hc'.2)
        rfl rfl rfl rfl rfl rfl rfl rfl rfl rfl rfl hdS

/-- `Layer.newGlyph` on an absent name -/
theorem inv_newGlyph (P : Params V) (T : Tables) (hcov : Coverage T = true) (w : World V) (name : String)
    (hinv : Inv P T w) (hdom : Dom w) (hdom' : Dom (doNewGlyph T w name).1) : Inv P T (doNewGlyph T w name).1 := by
  unfold doNewGlyph at hdom' ⊢
  by_cases hc : AL.contains w.glyphs name = true
  · simpa [hc] using hinv
  · have hc' : AL.contains w.glyphs name = false := by simpa using hc
    simp only [hc', Bool.false_eq_true, if_false] at hdom' ⊢
    rw [switchAndPost_eq] at hdom' ⊢
    have hd2 := Dom.congr (sameStruct_applyDeliv T _ _).symm hdom'
    exact inv_newGlyph_core P T hcov w _ _ name w.clock hinv hdom (get?_none_of_not_contains hc')
      rfl rfl rfl rfl rfl rfl rfl rfl rfl rfl rfl rfl hd2

/-- every operation preserves the cache invariant -/
theorem step_inv (P : Params V) (T : Tables) (hcov : Coverage T = true) (hpatch : PatchOK P) (w : World V)
    (op : Op) (hinv : Inv P T w) (hdom : Dom w) (hdom' : Dom (step P T w op).1) : Inv P T (step P T w op).1 := by
  cases hn : op.isNameOp with
  | false => exact step_inv_local P T hcov hpatch w op hn hinv hdom hdom'
  | true =>
    cases op with
    | newGlyph name => exact inv_newGlyph P T hcov w name hinv hdom hdom'
    | delGlyph name => exact inv_delGlyph P T hcov w name hinv hdom
    | rename old new => exact inv_rename P T hcov w old new hinv hdom hdom'
    | _ => cases hn

end Repr
end DefconModel
